"""Parser for Rust `{:?}` output (derived Debug) into Python structures, used by replays to inspect real ASTs.
Name { a: v, .. } -> {'_': 'Name', 'a': v};  Name(v, w) -> {'_': 'Name', '0': v, '1': w};  [..] -> list;  "s" -> str;  123 -> int"""
import re

class P:
    def __init__(self, s): self.s = s; self.i = 0
    def ws(self):
        while self.i < len(self.s) and self.s[self.i] in ' \n\t': self.i += 1
    def peek(self): self.ws(); return self.s[self.i] if self.i < len(self.s) else ''
    def value(self):
        c = self.peek()
        if c == '"': return self.string()
        if c == "'":
            j = self.i + 1
            if self.s[j] == '\\': j += 1
            j = self.s.index("'", j + 1); v = self.s[self.i + 1:j]; self.i = j + 1; return v
        if c == '[':
            self.i += 1; out = []
            while self.peek() != ']':
                out.append(self.value())
                if self.peek() == ',': self.i += 1
            self.i += 1; return out
        if c == '(':
            self.i += 1; out = []
            while self.peek() != ')':
                out.append(self.value())
                if self.peek() == ',': self.i += 1
            self.i += 1; return tuple(out)
        if c == '{':      # map / set debug
            self.i += 1; out = []
            while self.peek() != '}':
                k = self.value()
                if self.peek() == ':': self.i += 1; out.append((k, self.value()))
                else: out.append(k)
                if self.peek() == ',': self.i += 1
            self.i += 1; return out
        m = re.compile(r'-?\d+(\.\d+)?([eE][-+]?\d+)?').match(self.s, self.i)
        if m and (c.isdigit() or c == '-'):
            self.i = m.end(); t = m.group(0)
            # ranges like 0..5
            if self.s.startswith('..', self.i):
                self.i += 2; m2 = re.compile(r'-?\d+').match(self.s, self.i); self.i = m2.end(); return (int(t), int(m2.group(0)))
            return float(t) if ('.' in t or 'e' in t or 'E' in t) else int(t)
        m = re.compile(r'[A-Za-z_][A-Za-z_0-9:]*').match(self.s, self.i)
        if not m: raise ValueError('debug parse error at %d: %r' % (self.i, self.s[self.i:self.i + 40]))
        name = m.group(0); self.i = m.end()
        c = self.peek()
        if c == '{':
            self.i += 1; d = {'_': name}
            while self.peek() != '}':
                fm = re.compile(r'[A-Za-z_][A-Za-z_0-9]*').match(self.s, self.i); key = fm.group(0); self.i = fm.end()
                self.ws(); assert self.s[self.i] == ':', self.s[self.i:self.i + 20]; self.i += 1
                d[key] = self.value()
                if self.peek() == ',': self.i += 1
            self.i += 1; return d
        if c == '(':
            self.i += 1; d = {'_': name}; k = 0
            while self.peek() != ')':
                d[str(k)] = self.value(); k += 1
                if self.peek() == ',': self.i += 1
            self.i += 1; return d
        if name == 'true': return True
        if name == 'false': return False
        return {'_': name}
    def string(self):
        j = self.i + 1; out = []
        while self.s[j] != '"':
            if self.s[j] == '\\':
                n = self.s[j + 1]
                if n == 'n': out.append('\n'); j += 2
                elif n == 't': out.append('\t'); j += 2
                elif n == 'r': out.append('\r'); j += 2
                elif n == 'u':
                    k = self.s.index('}', j); out.append(chr(int(self.s[j + 3:k], 16))); j = k + 1
                else: out.append(n); j += 2
            else: out.append(self.s[j]); j += 1
        self.i = j + 1; return ''.join(out)

def parse(s):
    p = P(s); return p.value()

def find_all(v, name, out=None):
    """all nodes with constructor `name`"""
    if out is None: out = []
    if isinstance(v, dict):
        if v.get('_') == name: out.append(v)
        for k, x in v.items():
            if k != '_': find_all(x, name, out)
    elif isinstance(v, (list, tuple)):
        for x in v: find_all(x, name, out)
    return out
