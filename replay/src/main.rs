// Replay driver: runs one JSON command (file given as argv[1]) against the real ironplc crates built
// from /repo's current working tree, through their public API, and prints a JSON result.
use std::panic;

use ironplc_dsl::common::*;
use ironplc_dsl::core::FileId;
use ironplc_dsl::diagnostic::Diagnostic;
use ironplc_parser::options::ParseOptions;
use ironplcc::project::{FileBackedProject, Project};
use serde_json::{json, Value};

fn diag(d: &Diagnostic) -> Value {
    json!({"code": d.code, "file": d.primary.file_id.to_string(), "start": d.primary.location.start, "end": d.primary.location.end,
           "secondary": d.secondary.iter().map(|l| json!({"file": l.file_id.to_string(), "start": l.location.start, "end": l.location.end})).collect::<Vec<_>>()})
}

fn run(cmd: &Value) -> Value {
    let name = cmd["cmd"].as_str().unwrap_or("");
    match name {
        "tokenize" => {
            let src = cmd["source"].as_str().unwrap();
            let (tokens, diags) = ironplc_parser::tokenize_program(src, &FileId::from_string("f.st"), &ParseOptions::default());
            json!({"tokens": tokens.iter().map(|t| json!({"type": format!("{:?}", t.token_type), "start": t.span.start, "end": t.span.end,
                        "line": t.line, "col": t.col, "text": t.text})).collect::<Vec<_>>(),
                   "diagnostics": diags.iter().map(diag).collect::<Vec<_>>()})
        }
        "parse" => {
            let src = cmd["source"].as_str().unwrap();
            match ironplc_parser::parse_program(src, &FileId::from_string("f.st"), &ParseOptions::default()) {
                Ok(lib) => json!({"ok": true, "debug": format!("{:?}", lib)}),
                Err(d) => json!({"ok": false, "diag": diag(&d)}),
            }
        }
        "parse_eq" => {
            // are the libraries parsed from two texts equal (derived PartialEq: spans compare equal)?
            let a = ironplc_parser::parse_program(cmd["a"].as_str().unwrap(), &FileId::from_string("f.st"), &ParseOptions::default());
            let b = ironplc_parser::parse_program(cmd["b"].as_str().unwrap(), &FileId::from_string("f.st"), &ParseOptions::default());
            match (a, b) {
                (Ok(x), Ok(y)) => json!({"a_ok": true, "b_ok": true, "equal": x == y}),
                (x, y) => json!({"a_ok": x.is_ok(), "b_ok": y.is_ok(), "equal": false,
                                 "a_diag": x.err().map(|d| diag(&d)), "b_diag": y.err().map(|d| diag(&d))}),
            }
        }
        "check" => {
            // in-memory multi-file project, as `ironplcc check f1 f2 ..` builds it
            let mut project = FileBackedProject::new();
            for (i, s) in cmd["sources"].as_array().unwrap().iter().enumerate() {
                let fid = FileId::from_string(&format!("f{}.st", i));
                project.change_text_document(&fid, s.as_str().unwrap().to_string());
            }
            match project.semantic() {
                Ok(_) => json!({"ok": true, "diagnostics": []}),
                Err(ds) => json!({"ok": false, "diagnostics": ds.iter().map(diag).collect::<Vec<_>>()}),
            }
        }
        "analyze" => {
            let mut libs = vec![];
            for (i, s) in cmd["sources"].as_array().unwrap().iter().enumerate() {
                match ironplc_parser::parse_program(s.as_str().unwrap(), &FileId::from_string(&format!("f{}.st", i)), &ParseOptions::default()) {
                    Ok(l) => libs.push(l),
                    Err(d) => return json!({"parse_error": diag(&d), "index": i}),
                }
            }
            let refs: Vec<&Library> = libs.iter().collect();
            match ironplc_analyzer::stages::analyze(&refs) {
                Ok(_) => json!({"ok": true, "diagnostics": []}),
                Err(ds) => json!({"ok": false, "diagnostics": ds.iter().map(diag).collect::<Vec<_>>()}),
            }
        }
        "visit_ids" => {
            // the identifiers a plain Visitor reaches when it walks the parsed library with the trait's default methods
            use ironplc_dsl::core::Id;
            use ironplc_dsl::visitor::Visitor;
            struct Collector(Vec<String>);
            impl Visitor<()> for Collector {
                type Value = ();
                fn visit_id(&mut self, node: &Id) -> Result<(), ()> {
                    self.0.push(node.original().to_string());
                    Ok(())
                }
            }
            let src = cmd["source"].as_str().unwrap();
            match ironplc_parser::parse_program(src, &FileId::from_string("f.st"), &ParseOptions::default()) {
                Ok(lib) => {
                    let mut c = Collector(vec![]);
                    let r = c.walk(&lib);
                    json!({"ok": true, "walk_ok": r.is_ok(), "ids": c.0})
                }
                Err(d) => json!({"ok": false, "diag": diag(&d)}),
            }
        }
        "render" => {
            let src = cmd["source"].as_str().unwrap();
            match ironplc_parser::parse_program(src, &FileId::from_string("f.st"), &ParseOptions::default()) {
                Ok(lib) => match ironplc_plc2plc::write_to_string(&lib) {
                    Ok(text) => {
                        let again = ironplc_parser::parse_program(&text, &FileId::from_string("f.st"), &ParseOptions::default());
                        match again {
                            Ok(lib2) => json!({"ok": true, "text": text, "reparse_ok": true, "equal": lib == lib2,
                                               "debug1": format!("{:?}", lib), "debug2": format!("{:?}", lib2)}),
                            Err(d) => json!({"ok": true, "text": text, "reparse_ok": false, "diag": diag(&d)}),
                        }
                    }
                    Err(ds) => json!({"ok": false, "stage": "render", "diagnostics": ds.iter().map(diag).collect::<Vec<_>>()}),
                },
                Err(d) => json!({"ok": false, "stage": "parse", "diag": diag(&d)}),
            }
        }
        "duration" => {
            use ironplc_dsl::time::DurationLiteral;
            let fp = FixedPoint { span: Default::default(), whole: cmd["whole"].as_str().unwrap().parse::<u64>().unwrap(),
                                  femptos: cmd["femptos"].as_str().unwrap().parse::<u64>().unwrap() };
            let d = match cmd["unit"].as_str().unwrap() {
                "days" => DurationLiteral::days(fp), "hours" => DurationLiteral::hours(fp), "minutes" => DurationLiteral::minutes(fp),
                "seconds" => DurationLiteral::seconds(fp), "milliseconds" => DurationLiteral::milliseconds(fp), _ => panic!("unit"),
            };
            json!({"nanos": d.interval.whole_nanoseconds().to_string()})
        }
        _ => json!({"error": format!("unknown cmd {}", name)}),
    }
}

fn main() {
    let path = std::env::args().nth(1).expect("usage: vreplay <cmd.json>");
    let text = std::fs::read_to_string(&path).expect("read");
    let v: Value = serde_json::from_str(&text).expect("json");
    let cmds: Vec<Value> = if v.is_array() { v.as_array().unwrap().clone() } else { vec![v] };
    let mut out = vec![];
    panic::set_hook(Box::new(|_| {}));
    for c in cmds {
        let c2 = c.clone();
        let r = panic::catch_unwind(move || run(&c2));
        match r {
            Ok(v) => out.push(v),
            Err(e) => {
                let msg = if let Some(s) = e.downcast_ref::<&str>() { s.to_string() } else if let Some(s) = e.downcast_ref::<String>() { s.clone() } else { "panic".to_string() };
                out.push(json!({"panic": msg}));
            }
        }
    }
    println!("{}", serde_json::to_string(&Value::Array(out)).unwrap());
}
