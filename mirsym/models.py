"""Contract models for code that is not ironplc's (core/alloc/std containers and iterators, petgraph,
time, ...).  Each model states documented behaviour; every model a kernel actually used is listed in
that kernel's evidence (trusted base).  Models are plain Python functions: they may call back into
interpreted MIR closures through M.call_closure and fork through M.choose / M.branch.
"""
import re, copy
import z3
from .mirread import Unsupported, lastseg, strip_generics, INT_W
from .machine import (Cell, Ref, Agg, EnumV, VecV, Str, SymStr, IterV, Opaque, FnItem, UNIT, some, none, ok, err, Panic,
                      is_sym, simp, tobv, tobool, b_and, b_or, b_not, v_eq, ite, norm, deep_clone, copy_val)


class Intrinsics:
    def __init__(self): self.table = []; self.cache = {}
    def reg(self, pat):
        def deco(fn): self.table.append((re.compile(pat), fn)); return fn
        return deco
    def dispatch(self, M, fr, callee, n, args):
        fn = self.cache.get(n, 0)
        if fn == 0:
            fn = None
            for pat, f in self.table:
                if pat.search(n): fn = f; break
            self.cache[n] = fn
        if fn is None: return NotImplemented
        M.models_used.add(fn.__name__.lstrip('_') + ':' + re.sub(r'<.*', '', n)[:60])
        M.cur_callee = callee
        return fn(M, fr, n, args)

INTRINSICS = Intrinsics()
reg = INTRINSICS.reg

def D(M, r): return M.deref(r)

def seq(M, v):
    v = M.deref(v)
    if isinstance(v, VecV): return v.items
    if isinstance(v, Agg) and v.name == 'slice':
        base, lo, hi = v.f; return seq(M, base)[lo:hi]
    if isinstance(v, Agg): return v.f
    if isinstance(v, Str): return v.b
    raise Unsupported('sequence of %r' % (v,))

def elem_refs(M, r):
    """references to the elements of the sequence r points to"""
    if isinstance(r, Agg) and r.name == 'slice':
        base, lo, hi = r.f
        return elem_refs(M, base)[lo:hi]
    v = r
    # walk to the innermost Ref pointing at the container
    while isinstance(v, Ref):
        inner = M.get(v.cell, v.path)
        if isinstance(inner, Ref) or (isinstance(inner, Agg) and inner.name == 'slice'): v = inner; continue
        break
    if isinstance(v, Agg) and v.name == 'slice': return elem_refs(M, v)
    if not isinstance(v, Ref): raise Unsupported('elements of non-reference %r' % (v,))
    n = len(seq(M, v))
    return [Ref(v.cell, v.path + (('i', i),)) for i in range(n)]

# ------------------------------------------------------------------ value equality (used by maps, contains, ==)
def str_term(M, s):
    """a z3 BV32 identity for a string value (concrete strings are interned)"""
    s = M.deref(s)
    if isinstance(s, SymStr): return s.t
    if isinstance(s, Str):
        c = s.conc()
        if c is None: raise Unsupported('identity of byte-symbolic string')
        ids = M.__dict__.setdefault('_strids', {})
        return z3.BitVecVal(ids.setdefault(c, 100000 + len(ids)), 32)
    raise Unsupported('string identity of %r' % (s,))

def str_eq(M, x, y):
    x = M.deref(x); y = M.deref(y)
    if isinstance(x, Str) and isinstance(y, Str):
        if len(x.b) != len(y.b): return False
        return b_and(*[v_eq(a, b) for a, b in zip(x.b, y.b)])
    if isinstance(x, (Str, SymStr)) and isinstance(y, (Str, SymStr)):
        return simp(str_term(M, x) == str_term(M, y))
    raise Unsupported('str eq %r %r' % (x, y))

def val_eq(M, fr, a, b):
    """structural / PartialEq equality of two values as a bool term"""
    a = M.deref(a); b = M.deref(b)
    if isinstance(a, (Str, SymStr)): return str_eq(M, a, b)
    if isinstance(a, (Agg, EnumV)) and isinstance(b, (Agg, EnumV)):
        k = M.prog.impl.get((lastseg(a.name), 'PartialEq', 'eq'))
        if k is not None and M.prog.items[k].blocks:
            return M.call_fn(k, [Ref(Cell(a)), Ref(Cell(b))])
        if isinstance(a, EnumV):
            if not is_sym(a.disc) and not is_sym(b.disc):
                if a.disc != b.disc: return False
                return b_and(*[val_eq(M, fr, x, y) for x, y in zip(a.f, b.f)])
            if not a.f and not b.f: return v_eq(a.disc, b.disc)
            raise Unsupported('equality on symbolic-variant enums with payload')
        if len(a.f) != len(b.f): return False
        return b_and(*[val_eq(M, fr, x, y) for x, y in zip(a.f, b.f)])
    if isinstance(a, VecV) and isinstance(b, VecV):
        if len(a.items) != len(b.items): return False
        return b_and(*[val_eq(M, fr, x, y) for x, y in zip(a.items, b.items)])
    if isinstance(a, (bool, int)) or is_sym(a): return v_eq(a, b)
    raise Unsupported('equality of %r and %r' % (a, b))

# ------------------------------------------------------------------ Vec / slice
@reg(r'^std::vec::Vec::new$|^std::vec::Vec::with_capacity$|^<std::vec::Vec<.*> as std::default::Default>::default$|^std::collections::VecDeque::new$')
def _vec_new(M, fr, n, a): return VecV()
@reg(r'^std::vec::Vec::push$|^std::collections::VecDeque::push_back$')
def _vec_push(M, fr, n, a): D(M, a[0]).items.append(a[1]); return UNIT
@reg(r'^std::vec::Vec::pop$|^std::collections::VecDeque::pop_back$')
def _vec_pop(M, fr, n, a):
    v = D(M, a[0]); return some(v.items.pop()) if v.items else none()
@reg(r'^std::collections::VecDeque::pop_front$')
def _vec_pop_front(M, fr, n, a):
    v = D(M, a[0]); return some(v.items.pop(0)) if v.items else none()
@reg(r'^std::vec::Vec::insert$')
def _vec_insert(M, fr, n, a):
    v = D(M, a[0]); i = simp(a[1])
    if is_sym(i): raise Unsupported('symbolic insert index')
    if i > len(v.items): raise Panic('insertion index out of bounds')
    v.items.insert(i, a[2]); return UNIT
@reg(r'^std::vec::Vec::remove$')
def _vec_remove(M, fr, n, a):
    v = D(M, a[0]); i = simp(a[1])
    if is_sym(i): raise Unsupported('symbolic remove index')
    if i >= len(v.items): raise Panic('removal index out of bounds')
    return v.items.pop(i)
@reg(r'^std::vec::Vec::clear$|^std::collections::(HashMap|HashSet|BTreeMap|BTreeSet|VecDeque|LinkedList)::(<.*>::)?clear$')
def _vec_clear(M, fr, n, a): D(M, a[0]).items.clear(); return UNIT
@reg(r'^std::vec::Vec::len$|^core::slice::<impl \[.*\]>::len$|^std::collections::VecDeque::len$|^std::collections::Hash(Map|Set)::len$')
def _vec_len(M, fr, n, a): return len(seq(M, a[0]))
@reg(r'^std::vec::Vec::is_empty$|^core::slice::<impl \[.*\]>::is_empty$|^std::collections::Hash(Map|Set)::is_empty$')
def _vec_empty(M, fr, n, a): return len(seq(M, a[0])) == 0
@reg(r'^std::vec::Vec::append$')
def _vec_append(M, fr, n, a):
    d = D(M, a[0]); s = D(M, a[1]); d.items.extend(s.items); s.items = []; return UNIT
@reg(r'^<std::vec::Vec<.*> as std::ops::Deref>::deref$|^<std::vec::Vec<.*> as std::ops::DerefMut>::deref_mut$|^std::vec::Vec::as_slice$|^std::vec::Vec::as_mut_slice$|^<std::vec::Vec<.*> as std::convert::AsRef<.*>>::as_ref$|^<std::vec::Vec<.*> as std::borrow::Borrow<.*>>::borrow$')
def _vec_deref(M, fr, n, a): return a[0]
@reg(r'^<std::vec::Vec<.*> as std::iter::IntoIterator>::into_iter$|^<std::collections::VecDeque<.*> as std::iter::IntoIterator>::into_iter$')
def _vec_into_iter(M, fr, n, a): return IterV(a[0].items)
@reg(r'^core::slice::<impl \[.*\]>::iter(_mut)?$|^<&(mut )?std::vec::Vec<.*> as std::iter::IntoIterator>::into_iter$|^<&(mut )?\[.*\] as std::iter::IntoIterator>::into_iter$|^std::collections::VecDeque::iter$')
def _slice_iter(M, fr, n, a):
    return IterV(elem_refs(M, a[0]), 'ref')
@reg(r'^<std::collections::(HashSet|HashMap)<.*> as std::iter::IntoIterator>::into_iter$')
def _hash_into_iter(M, fr, n, a):
    # consuming iteration of a hash container: its elements in a nondeterministic order (hash_order is defined further down)
    return IterV(hash_order(M, list(a[0].items), 'into_iter'))
@reg(r'^<std::slice::Iter(Mut)?<.*> as std::iter::IntoIterator>::into_iter$|^<std::vec::IntoIter<.*> as std::iter::IntoIterator>::into_iter$|^<.* as std::iter::IntoIterator>::into_iter$')
def _iter_ident(M, fr, n, a):
    if isinstance(a[0], Agg) and a[0].name == '[]': return IterV(list(a[0].f))
    if isinstance(a[0], (IterV, Agg)): return a[0]
    raise Unsupported('into_iter of %r' % (a[0],))
@reg(r'^core::slice::<impl \[.*\]>::(first|first_mut)$')
def _first(M, fr, n, a):
    rs = elem_refs(M, a[0]); return some(rs[0]) if rs else none()
@reg(r'^core::slice::<impl \[.*\]>::(last|last_mut)$')
def _last(M, fr, n, a):
    rs = elem_refs(M, a[0]); return some(rs[-1]) if rs else none()
@reg(r'^core::slice::<impl \[.*\]>::get$|^std::collections::VecDeque::get$')
def _slice_get(M, fr, n, a):
    rs = elem_refs(M, a[0]); i = simp(a[1])
    if isinstance(i, Agg): raise Unsupported('range get')
    if is_sym(i):
        k = M.choose([i == j for j in range(len(rs))] + [z3.UGE(i, len(rs))])
        return some(rs[k]) if k < len(rs) else none()
    return some(rs[i]) if 0 <= i < len(rs) else none()
@reg(r'^<std::vec::Vec<.*> as std::ops::Index<usize>>::index$|^<\[.*\] as std::ops::Index<usize>>::index$|^<std::vec::Vec<.*> as std::ops::IndexMut<usize>>::index_mut$')
def _vec_index(M, fr, n, a):
    rs = elem_refs(M, a[0]); i = simp(a[1])
    if is_sym(i):
        k = M.choose([i == j for j in range(len(rs))] + [z3.UGE(i, len(rs))])
        if k == len(rs): raise Panic('index out of bounds')
        return rs[k]
    if not (0 <= i < len(rs)): raise Panic('index out of bounds')
    return rs[i]
@reg(r'^<\[.*\] as std::ops::Index<std::ops::RangeFrom<usize>>>::index$|^<std::vec::Vec<.*> as std::ops::Index<std::ops::RangeFrom<usize>>>::index$|^core::slice::index::<impl std::ops::Index<.*RangeFrom<usize>> for \[.*\]>::index$')
def _index_from(M, fr, n, a):
    lo = simp(a[1].f[0]); base = a[0]
    if is_sym(lo): raise Unsupported('symbolic range')
    off = 0; hi = None
    if isinstance(base, Agg) and base.name == 'slice': base, off, hi = base.f
    L = len(seq(M, base)) if hi is None else hi
    if off + lo > L: raise Panic('range start index out of range for slice')
    return Agg('slice', [base, off + lo, L])
@reg(r'^core::slice::<impl \[.*\]>::contains$|^std::vec::Vec::contains$')
def _contains(M, fr, n, a):
    res = False
    for x in seq(M, a[0]): res = b_or(res, val_eq(M, fr, x, a[1]))
    return res
@reg(r'^core::slice::<impl \[.*\]>::to_vec$|^<\[.*\] as std::borrow::ToOwned>::to_owned$')
def _to_vec(M, fr, n, a): return VecV([deep_clone(x) for x in seq(M, a[0])])
@reg(r'^std::vec::from_elem$')
def _from_elem(M, fr, n, a):
    k = simp(a[1])
    if is_sym(k): raise Unsupported('symbolic vec length')
    return VecV([deep_clone(a[0]) for _ in range(k)])
@reg(r'^std::slice::<impl \[.*\]>::into_vec$|^std::boxed::box_new_uninit|^alloc::alloc::exchange_malloc$')
def _into_vec(M, fr, n, a):
    v = D(M, a[0])
    if isinstance(v, Agg): return VecV(v.f)
    return v
@reg(r'^std::vec::Vec::drain$')
def _drain(M, fr, n, a):
    v = D(M, a[0]); items = v.items; v.items = []; return IterV(items)
@reg(r'^std::vec::Vec::retain$')
def _retain(M, fr, n, a):
    v = D(M, a[0]); keep = []
    for x in v.items:
        if M.branch(M.call_closure(fr, a[1], [Ref(Cell(x))])): keep.append(x)
    v.items = keep; return UNIT
@reg(r'^std::vec::Vec::extend_from_slice$')
def _extend_from_slice(M, fr, n, a):
    D(M, a[0]).items.extend(deep_clone(x) for x in seq(M, a[1])); return UNIT

# ------------------------------------------------------------------ iterators (lazy adaptors pulled by consumers)
def it_next(M, fr, it):
    """pull one element: returns (True, value) or (False, None)"""
    if isinstance(it, Ref): it = M.deref(it)
    if isinstance(it, IterV):
        if it.pos < len(it.items):
            v = it.items[it.pos]; it.pos += 1; return True, v
        return False, None
    if isinstance(it, Agg):
        k = it.name
        if k == 'it:map':
            okk, x = it_next(M, fr, it.f[0])
            if not okk: return False, None
            return True, M.call_closure(fr, it.f[1], [x])
        if k == 'it:filter':
            while True:
                okk, x = it_next(M, fr, it.f[0])
                if not okk: return False, None
                if M.branch(M.call_closure(fr, it.f[1], [Ref(Cell(x))])): return True, x
        if k == 'it:filter_map':
            while True:
                okk, x = it_next(M, fr, it.f[0])
                if not okk: return False, None
                r = M.call_closure(fr, it.f[1], [x])
                if opt_is_some(M, r): return True, r.f[0]
        if k == 'it:enumerate':
            okk, x = it_next(M, fr, it.f[0])
            if not okk: return False, None
            i = it.f[1]; it.f[1] = i + 1
            return True, Agg('()', [i, x])
        if k == 'it:cloned':
            okk, x = it_next(M, fr, it.f[0])
            if not okk: return False, None
            return True, deep_clone(M.deref(x))
        if k == 'it:rev':
            inner = it.f[0]
            if isinstance(inner, IterV):
                if inner.pos < len(inner.items): return True, inner.items.pop()
                return False, None
            # any other double-ended source (chars, a mapped slice, ..): drain it once, then hand its elements out backwards
            xs = drain_all(M, fr, inner); it.f[0] = IterV(xs)
            return it_next(M, fr, it)
        if k == 'it:chain':
            okk, x = it_next(M, fr, it.f[0])
            if okk: return True, x
            return it_next(M, fr, it.f[1])
        if k == 'it:zip':
            o1, x = it_next(M, fr, it.f[0])
            if not o1: return False, None
            o2, y = it_next(M, fr, it.f[1])
            if not o2: return False, None
            return True, Agg('()', [x, y])
        if k == 'it:skip':
            while it.f[1] > 0:
                it.f[1] -= 1
                okk, _ = it_next(M, fr, it.f[0])
                if not okk: return False, None
            return it_next(M, fr, it.f[0])
        if k == 'it:take':
            if it.f[1] <= 0: return False, None
            it.f[1] -= 1
            return it_next(M, fr, it.f[0])
        if k == 'it:peekable':
            if it.f[1] is not None:
                p = it.f[1]; it.f[1] = None
                return (True, p[2].v if len(p) > 2 else p[1]) if p[0] else (False, None)
            return it_next(M, fr, it.f[0])
        if k == 'it:flat_map':
            while True:
                if it.f[2] is not None:
                    okk, x = it_next(M, fr, it.f[2])
                    if okk: return True, x
                    it.f[2] = None
                okk, x = it_next(M, fr, it.f[0])
                if not okk: return False, None
                r = M.call_closure(fr, it.f[1], [x]) if it.f[1] is not None else x
                it.f[2] = to_iter(M, fr, r)
        if k == 'Chars': return chars_next(M, fr, it)
        if k.endswith('ops::Range') or k == 'Range':
            lo, hi = simp(it.f[0]), simp(it.f[1])
            if is_sym(lo) or is_sym(hi): raise Unsupported('symbolic range iteration')
            if lo < hi: it.f[0] = lo + 1; return True, lo
            return False, None
        if k == 'it:range':
            lo, hi = it.f
            if is_sym(lo) or is_sym(hi): raise Unsupported('symbolic range iteration')
            if lo < hi: it.f[0] = lo + 1; return True, lo
            return False, None
    raise Unsupported('next on %r' % (it,))

def to_iter(M, fr, v):
    if isinstance(v, (IterV,)): return v
    if isinstance(v, Agg) and (v.name.startswith('it:') or v.name == 'Chars' or v.name.endswith('ops::Range')): return v
    if isinstance(v, VecV): return IterV(v.items)
    if isinstance(v, Agg) and v.name == '[]': return IterV(list(v.f))
    if isinstance(v, EnumV) and v.name == 'Option': return IterV([v.f[0]] if v.disc == 1 else [])
    if isinstance(v, Ref):
        d = M.deref(v)
        if isinstance(d, IterV) or (isinstance(d, Agg) and (d.name.startswith('it:') or d.name == 'Chars' or d.name.endswith('ops::Range'))): return d      # &mut iterator
        return IterV(elem_refs(M, v), 'ref')
    raise Unsupported('into_iter of %r' % (v,))

def opt_is_some(M, o):
    d = simp(o.disc)
    if is_sym(d): return M.branch(d == 1)
    return d == 1

def drain_all(M, fr, it):
    out = []
    while True:
        okk, x = it_next(M, fr, it)
        if not okk: return out
        out.append(x)

@reg(r'^<.* as std::iter::Iterator>::next$')
def _iter_next(M, fr, n, a):
    okk, v = it_next(M, fr, a[0]); return some(v) if okk else none()
@reg(r'^<.* as std::iter::Iterator>::(map|filter|filter_map)$')
def _iter_adapt(M, fr, n, a): return Agg('it:' + n.rsplit('::', 1)[1], [to_iter(M, fr, a[0]), a[1]])
@reg(r'^<.* as std::iter::Iterator>::flat_map$')
def _iter_flat_map(M, fr, n, a): return Agg('it:flat_map', [to_iter(M, fr, a[0]), a[1], None])
@reg(r'^<.* as std::iter::Iterator>::flatten$')
def _iter_flatten(M, fr, n, a): return Agg('it:flat_map', [to_iter(M, fr, a[0]), None, None])
@reg(r'^<.* as std::iter::Iterator>::enumerate$')
def _iter_enumerate(M, fr, n, a): return Agg('it:enumerate', [to_iter(M, fr, a[0]), 0])
@reg(r'^<.* as std::iter::Iterator>::(cloned|copied)$')
def _iter_cloned(M, fr, n, a): return Agg('it:cloned', [to_iter(M, fr, a[0])])
@reg(r'^<.* as std::iter::Iterator>::rev$')
def _iter_rev(M, fr, n, a): return Agg('it:rev', [to_iter(M, fr, a[0])])
@reg(r'^<.* as std::iter::Iterator>::chain$')
def _iter_chain(M, fr, n, a): return Agg('it:chain', [to_iter(M, fr, a[0]), to_iter(M, fr, a[1])])
@reg(r'^<.* as std::iter::Iterator>::zip$')
def _iter_zip(M, fr, n, a): return Agg('it:zip', [to_iter(M, fr, a[0]), to_iter(M, fr, a[1])])
@reg(r'^<.* as std::iter::Iterator>::skip$')
def _iter_skip(M, fr, n, a): return Agg('it:skip', [to_iter(M, fr, a[0]), simp(a[1])])
@reg(r'^<.* as std::iter::Iterator>::take$')
def _iter_take(M, fr, n, a): return Agg('it:take', [to_iter(M, fr, a[0]), simp(a[1])])
@reg(r'^<.* as std::iter::Iterator>::peekable$')
def _iter_peekable(M, fr, n, a): return Agg('it:peekable', [to_iter(M, fr, a[0]), None])
@reg(r'^std::iter::Peekable::peek$')
def _peek(M, fr, n, a):
    it = D(M, a[0])
    if it.f[1] is None:
        okk, x = it_next(M, fr, it.f[0]); it.f[1] = [okk, x, Cell(x)]
    return some(Ref(it.f[1][2])) if it.f[1][0] else none()
@reg(r'^<.* as std::iter::Iterator>::collect$|^<.* as std::iter::FromIterator<.*>>::from_iter$')
def _collect(M, fr, n, a):
    callee = M.cur_callee
    m = re.search(r'::collect::<(.*)>$', callee)
    tgt = m.group(1) if m else None
    if tgt is None:
        m = re.match(r'^<(.*) as std::iter::FromIterator<.*>>::from_iter', callee)
        tgt = m.group(1) if m else 'std::vec::Vec<_>'
    it = to_iter(M, fr, a[0])
    return collect_into(M, fr, tgt, it)
def collect_into(M, fr, tgt, it):
    tgt = tgt.strip()
    if tgt.startswith('std::result::Result<'):
        from .mirread import split_top
        inner = split_top(tgt[len('std::result::Result<'):-1])[0]
        oks = []
        while True:
            okk, x = it_next(M, fr, it)
            if not okk: break
            if disc_of(M, x) == 1: return err(x.f[0])
            oks.append(x.f[0])
        return ok(collect_into(M, fr, inner, IterV(oks)))
    if tgt.startswith('std::option::Option<'):
        inner = tgt[len('std::option::Option<'):-1]
        oks = []
        while True:
            okk, x = it_next(M, fr, it)
            if not okk: break
            if disc_of(M, x) == 0: return none()
            oks.append(x.f[0])
        return some(collect_into(M, fr, inner, IterV(oks)))
    items = drain_all(M, fr, it)
    if tgt.startswith('std::string::String'):
        out = []
        for x in items:
            x = M.deref(x) if isinstance(x, Ref) else x
            if isinstance(x, Str): out.extend(x.b)
            else: out.extend(encode_char(M, x))
        return Str(out)
    if tgt.startswith(('std::collections::HashMap', 'std::collections::BTreeMap')):
        hm = VecV()
        for kv in items:
            i = hm_lookup(M, fr, hm, kv.f[0])
            if i < 0: hm.items.append(Agg('()', [kv.f[0], kv.f[1]]))
            else: hm.items[i].f[1] = kv.f[1]
        return hm
    if tgt.startswith(('std::collections::HashSet', 'std::collections::BTreeSet')):
        hs = VecV()
        for x in items:
            dup = False
            for e in hs.items:
                if M.branch(val_eq(M, fr, e, x)): dup = True; break
            if not dup: hs.items.append(x)
        return hs
    return VecV(items)
@reg(r'^<std::vec::Vec<.*> as std::iter::Extend<.*>>::extend$')
def _extend(M, fr, n, a):
    D(M, a[0]).items.extend(drain_all(M, fr, to_iter(M, fr, a[1]))); return UNIT
@reg(r'^<.* as std::iter::Iterator>::find$')
def _iter_find(M, fr, n, a):
    it = a[0]
    while True:
        okk, x = it_next(M, fr, it)
        if not okk: return none()
        if M.branch(M.call_closure(fr, a[1], [Ref(Cell(x))])): return some(x)
@reg(r'^<.* as std::iter::Iterator>::find_map$')
def _iter_find_map(M, fr, n, a):
    while True:
        okk, x = it_next(M, fr, a[0])
        if not okk: return none()
        r = M.call_closure(fr, a[1], [x])
        if opt_is_some(M, r): return r
@reg(r'^<.* as std::iter::Iterator>::position$')
def _iter_position(M, fr, n, a):
    i = 0
    while True:
        okk, x = it_next(M, fr, a[0])
        if not okk: return none()
        if M.branch(M.call_closure(fr, a[1], [x])): return some(i)
        i += 1
@reg(r'^<.* as std::iter::Iterator>::any$')
def _iter_any(M, fr, n, a):
    while True:
        okk, x = it_next(M, fr, a[0])
        if not okk: return False
        if M.branch(M.call_closure(fr, a[1], [x])): return True
@reg(r'^<.* as std::iter::Iterator>::all$')
def _iter_all(M, fr, n, a):
    while True:
        okk, x = it_next(M, fr, a[0])
        if not okk: return True
        if not M.branch(M.call_closure(fr, a[1], [x])): return False
@reg(r'^<.* as std::iter::Iterator>::partition$')
def _iter_partition(M, fr, n, a):
    yes, no = [], []
    for x in drain_all(M, fr, to_iter(M, fr, a[0])):
        (yes if M.branch(M.call_closure(fr, a[1], [Ref(Cell(x))])) else no).append(x)
    return Agg('()', [VecV(yes), VecV(no)])
@reg(r'^<.* as std::iter::Iterator>::for_each$')
def _iter_for_each(M, fr, n, a):
    for x in drain_all(M, fr, to_iter(M, fr, a[0])): M.call_closure(fr, a[1], [x])
    return UNIT
@reg(r'^<.* as std::iter::Iterator>::fold$')
def _iter_fold(M, fr, n, a):
    acc = a[1]
    while True:
        okk, x = it_next(M, fr, a[0])
        if not okk: return acc
        acc = M.call_closure(fr, a[2], [acc, x])
@reg(r'^<.* as std::iter::Iterator>::try_fold$')
def _iter_try_fold(M, fr, n, a):
    """try_fold over Result / Option accumulators: stop at the first Err / None"""
    it = to_iter(M, fr, D(M, a[0]) if isinstance(a[0], Ref) else a[0]); acc = a[1]; kind = None
    while True:
        okk, x = it_next(M, fr, it)
        if not okk: break
        r = M.call_closure(fr, a[2], [acc, x])
        if not isinstance(r, EnumV) or r.name not in ('Result', 'Option'): raise Unsupported('try_fold over %r' % (r,))
        kind = r.name; d = disc_of(M, r)
        if (kind == 'Result' and d == 1) or (kind == 'Option' and d == 0): return r
        acc = r.f[0]
    if kind is None:
        m = re.search(r'try_fold::<[^,]*, .*, (std::result::Result|std::option::Option)<', M.cur_callee)
        kind = 'Option' if m and m.group(1).endswith('Option') else 'Result'
    return ok(acc) if kind == 'Result' else some(acc)
@reg(r'^(?:core|std)::char::methods::<impl char>::to_digit$')
def _char_to_digit(M, fr, n, a):
    c = simp(a[0]); radix = simp(a[1])
    if is_sym(radix): raise Unsupported('symbolic radix')
    if not is_sym(c):
        ch = chr(c)
        if ch.isascii() and ch.isalnum() and int(ch, 36) < radix: return some(int(ch, 36))
        return none()
    isd = z3.And(z3.UGE(c, 48), z3.ULE(c, min(57, 48 + radix - 1)))
    up = z3.And(z3.UGE(c, 65), z3.ULE(c, 65 + radix - 11)) if radix > 10 else z3.BoolVal(False)
    lo = z3.And(z3.UGE(c, 97), z3.ULE(c, 97 + radix - 11)) if radix > 10 else z3.BoolVal(False)
    if not M.branch(z3.Or(isd, up, lo)): return none()
    return some(z3.If(isd, c - 48, z3.If(up, c - 55, c - 87)))
@reg(r'^core::num::<impl (\w+)>::(trailing_zeros|leading_zeros|count_ones)$')
def _bit_counts(M, fr, n, a):
    m = re.match(r'^core::num::<impl (\w+)>::(\w+)$', n); ty, op = m.group(1), m.group(2); w = INT_W[ty]
    x = simp(a[0])
    if is_sym(x): raise Unsupported(op + ' of a symbolic value')
    x &= (1 << w) - 1
    if op == 'count_ones': return bin(x).count('1')
    if x == 0: return w
    if op == 'trailing_zeros': return (x & -x).bit_length() - 1
    return w - x.bit_length()
@reg(r'^std::option::Option::is_some_and$|^std::option::Option::is_none_or$|^std::result::Result::is_ok_and$')
def _is_some_and(M, fr, n, a):
    o = a[0]; d = disc_of(M, o)
    if n.endswith('is_some_and'): return M.call_closure(fr, a[1], [o.f[0]]) if d == 1 else False
    if n.endswith('is_none_or'): return M.call_closure(fr, a[1], [o.f[0]]) if d == 1 else True
    return M.call_closure(fr, a[1], [o.f[0]]) if d == 0 else False
@reg(r'^phf::Set::(<.*>::)?contains(::<.*>)?$|^phf::Map::(<.*>::)?contains_key(::<.*>)?$')
def _phf_contains(M, fr, n, a):
    """phf perfect-hash set by contract: `contains(k)` iff k equals one of the keys the static was built from (read from the static's initialiser in the MIR)"""
    st = D(M, a[0])
    if isinstance(st, Agg) and st.name.startswith('static:'): st = M.eval_const_item(fr, st.name[len('static:'):])
    m = st.f[0] if (isinstance(st, Agg) and 'Set' in st.name) else st
    if not (isinstance(m, Agg) and len(m.f) == 3): raise Unsupported('phf layout %r' % (st,))
    key = as_str(M, a[1]); hit = False
    for er in elem_refs(M, m.f[2]):
        k = M.get(er.cell, er.path).f[0]
        hit = b_or(hit, str_eq(M, D(M, k) if isinstance(k, Ref) else k, key))
    return hit
@reg(r"^<std::str::Chars<'_> as std::iter::DoubleEndedIterator>::next_back$|^<std::str::Chars as std::iter::DoubleEndedIterator>::next_back$")
def _chars_next_back(M, fr, n, a):
    it = D(M, a[0])
    if not (isinstance(it, Agg) and it.name == 'Chars'): raise Unsupported('next_back on %r' % (it,))
    if len(it.f) > 2: raise Unsupported('next_back on CharIndices')
    s_, pos = it.f[0], it.f[1]
    end = len(s_.b)
    if end <= pos: return none()
    k = end - 1
    while k > pos and not is_sym(s_.b[k]) and (s_.b[k] & 0xC0) == 0x80: k -= 1
    bs = s_.b[k:end]
    if any(is_sym(x) for x in bs): raise Unsupported('next_back over symbolic bytes')
    ch = ord(bytes(bs).decode('utf-8'))
    it.f[0] = Str(list(s_.b[:k]))          # the iterator's own view shrinks from the back
    return some(ch)
@reg(r'^<std::boxed::Box<.*> as std::ops::Drop>::drop$|^std::mem::drop$|^core::mem::drop$')
def _box_drop(M, fr, n, a): return UNIT
def _float_display(x):
    """Rust `{}` of an f64: shortest digits that round-trip, never an exponent"""
    import math
    from decimal import Decimal
    if x != x: return 'NaN'
    if math.isinf(x): return 'inf' if x > 0 else '-inf'
    r = format(Decimal(repr(x)), 'f')
    if '.' in r: r = r.rstrip('0').rstrip('.')
    if r in ('-0', ''): r = '-0' if str(x)[0] == '-' else '0'
    return r
@reg(r'^<f64 as std::str::FromStr>::from_str$|^core::num::dec2flt::<impl std::str::FromStr for f64>::from_str$')
def _f64_from_str(M, fr, n, a):
    s_ = as_str(M, a[0]); t = s_.conc()
    if t is None: raise Unsupported('f64::from_str of symbolic text (floating point is not encoded)')
    if not re.fullmatch(r'[+-]?(\d+\.?\d*([eE][+-]?\d+)?|\.\d+([eE][+-]?\d+)?|inf|infinity|nan)', t, flags=re.I): return err(Agg('ParseFloatError', []))
    return ok(Opaque(('float', float(t))))
@reg(r'^<f64 as std::string::ToString>::to_string$|^<f64 as std::string::SpecToString>::spec_to_string$|^<f64 as std::fmt::Display>::fmt$')
def _f64_to_string(M, fr, n, a):
    v = D(M, a[0])
    if not (isinstance(v, Opaque) and v.tag[0] == 'float' and isinstance(v.tag[1], (int, float))): raise Unsupported('formatting a non-concrete float')
    text = _float_display(float(v.tag[1]))
    if n.endswith('::fmt'):
        D(M, a[1]).f[0].b.extend(text.encode()); return ok(UNIT)
    return Str(text)
@reg(r'^<f64 as std::ops::Neg>::neg$')
def _f64_neg(M, fr, n, a): return Opaque(('float', -float(a[0].tag[1])))
# ------------------------------------------------------------------ lazy_static + regex by contract (pattern read from the MIR)
_LAZY = {}
@reg(r'^lazy_static::lazy::Lazy::<.*>::get::<.*>$|^lazy_static::lazy::Lazy::get$')
def _lazy_get(M, fr, n, a):
    """Lazy::get(&self, f): f() evaluated once; a reference to the value afterwards (initialisation order is not observable here)"""
    f = a[1]
    v = M.call_closure(fr, f, [])
    return Ref(Cell(v))
@reg(r'^regex::Regex::new$|^regex::regex::string::Regex::new$')
def _regex_new(M, fr, n, a):
    p = as_str(M, a[0]).conc()
    if p is None: raise Unsupported('symbolic regex pattern')
    from . import regexmodel
    regexmodel.parse(p)                      # an unsupported pattern is reported where it is built
    return ok(Agg('regex::Regex', [Str(p)]))
@reg(r'^regex::Regex::(captures|is_match|find)$|^regex::regex::string::Regex::(captures|is_match|find)$')
def _regex_captures(M, fr, n, a):
    from . import regexmodel
    re_ = D(M, a[0]); text = as_str(M, a[1])
    if isinstance(text, SymStr): raise Unsupported('regex over an opaque string')
    g = regexmodel.search(M, re_.f[0].conc(), list(text.b))
    if n.endswith('is_match'): return g is not None
    if g is None: return none()
    if n.endswith('find'): return some(Agg('regex::Match', [Str(list(text.b[g[0][0]:g[0][1]])), g[0][0], g[0][1]]))
    return some(Agg('regex::Captures', [Str(list(text.b)), Opaque(tuple(g))]))
@reg(r"^<regex::Captures<'_> as std::ops::Index<usize>>::index$|^<regex::regex::string::Captures<'_> as std::ops::Index<usize>>::index$")
def _regex_cap_index(M, fr, n, a):
    cap = D(M, a[0]); i = simp(a[1])
    if is_sym(i): raise Unsupported('symbolic capture index')
    g = cap.f[1].tag
    if i >= len(g) or g[i] is None: raise Panic('no group at index %d' % i)       # documented: indexing a group that did not participate panics
    return Ref(Cell(Str(list(cap.f[0].b[g[i][0]:g[i][1]]))))
@reg(r"^regex::Captures::<'_>::get$|^regex::Captures::get$")
def _regex_cap_get(M, fr, n, a):
    cap = D(M, a[0]); i = simp(a[1]); g = cap.f[1].tag
    if i >= len(g) or g[i] is None: return none()
    return some(Agg('regex::Match', [Str(list(cap.f[0].b[g[i][0]:g[i][1]])), g[i][0], g[i][1]]))
@reg(r"^regex::Match::<'_>::as_str$|^regex::Match::as_str$")
def _regex_match_str(M, fr, n, a): return Ref(Cell(D(M, a[0]).f[0]))
@reg(r'^<.* as std::iter::Iterator>::count$')
def _iter_count(M, fr, n, a):
    v = a[0]
    while isinstance(v, Ref): v = M.deref(v)
    if isinstance(v, Agg) and v.name == 'EncodeUtf16': return utf16_len(v.f[0].b)
    return len(drain_all(M, fr, to_iter(M, fr, a[0])))
@reg(r'^<.* as std::iter::Iterator>::last$')
def _iter_last(M, fr, n, a):
    xs = drain_all(M, fr, to_iter(M, fr, a[0])); return some(xs[-1]) if xs else none()
@reg(r'^<.* as std::iter::Iterator>::nth$')
def _iter_nth(M, fr, n, a):
    k = simp(a[1])
    for _ in range(k):
        okk, _x = it_next(M, fr, a[0])
        if not okk: return none()
    okk, x = it_next(M, fr, a[0]); return some(x) if okk else none()
@reg(r'^<std::ops::Range<.*> as std::iter::IntoIterator>::into_iter$')
def _range_iter(M, fr, n, a): return Agg('it:range', [simp(a[0].f[0]), simp(a[0].f[1])])
@reg(r'^<std::ops::Range<.*> as std::iter::Iterator>::next$|^std::iter::range::<impl std::iter::Iterator for std::ops::Range<.*>>::next$')
def _range_next(M, fr, n, a):
    r = D(M, a[0]); lo, hi = simp(r.f[0]), simp(r.f[1])
    if is_sym(lo) or is_sym(hi):
        if M.branch(z3.ULT(tobv(lo, 64), tobv(hi, 64))):
            r.f[0] = simp(tobv(lo, 64) + 1); return some(lo)
        return none()
    if lo < hi: r.f[0] = lo + 1; return some(lo)
    return none()

# ------------------------------------------------------------------ Option / Result
@reg(r'^<.* as std::ops::Try>::branch$')
def _try_branch(M, fr, n, a):
    v = a[0]
    d = simp(v.disc)
    if is_sym(d): d = 0 if M.branch(d == 0) else 1
    if v.name == 'Result':
        return EnumV('ControlFlow', 0, [v.f[0]]) if d == 0 else EnumV('ControlFlow', 1, [EnumV('Result', 1, [v.f[0]])])
    if v.name == 'Option':
        return EnumV('ControlFlow', 0, [v.f[0]]) if d == 1 else EnumV('ControlFlow', 1, [EnumV('Option', 0, [])])
    raise Unsupported('Try::branch on ' + v.name)
@reg(r'^<.* as std::ops::FromResidual<.*>>::from_residual$')
def _from_residual(M, fr, n, a):
    v = a[0]
    if isinstance(v, EnumV) and v.name == 'Result' and v.disc == 1 and ' as std::ops::FromResidual<std::result::Result<std::convert::Infallible, ' in n:
        m = re.match(r'^<std::result::Result<(.*)> as std::ops::FromResidual<std::result::Result<std::convert::Infallible, (.*)>>>::from_residual$', n)
        if m:
            from .mirread import split_top
            tgt = split_top(m.group(1))[-1]; src = m.group(2)
            if tgt != src:
                return err(M.invoke(fr, '<%s as std::convert::From<%s>>::from' % (tgt, src), [v.f[0]]))
    return v
def disc_of(M, o):
    if not isinstance(o, EnumV): raise Unsupported('discriminant of %r' % (o,))
    d = simp(o.disc)
    if is_sym(d):
        nv = len(M.prog.enums.get(o.name, [0, 1]))
        d = M.choose([d == i for i in range(nv)])
    return d
@reg(r'^std::option::Option::(is_some|is_none)$|^std::result::Result::(is_ok|is_err)$')
def _is_variant(M, fr, n, a):
    o = D(M, a[0]); d = simp(o.disc); want = 1 if n.endswith(('is_some', 'is_err')) else 0
    return v_eq(d, want) if is_sym(d) else d == want
@reg(r'^std::option::Option::unwrap$|^std::option::Option::expect$')
def _opt_unwrap(M, fr, n, a):
    if disc_of(M, a[0]) == 0: raise Panic('called `Option::unwrap()` on a `None` value' if n.endswith('unwrap') else 'Option::expect failed')
    return a[0].f[0]
@reg(r'^std::result::Result::unwrap$|^std::result::Result::expect$')
def _res_unwrap(M, fr, n, a):
    if disc_of(M, a[0]) == 1: raise Panic('called `Result::unwrap()` on an `Err` value' if n.endswith('unwrap') else 'Result::expect failed')
    return a[0].f[0]
@reg(r'^std::result::Result::unwrap_err$|^std::result::Result::expect_err$')
def _res_unwrap_err(M, fr, n, a):
    if disc_of(M, a[0]) == 0: raise Panic('called `Result::unwrap_err()` on an `Ok` value')
    return a[0].f[0]
@reg(r'^std::option::Option::unwrap_or$|^std::result::Result::unwrap_or$')
def _unwrap_or(M, fr, n, a):
    good = 1 if 'Option' in n else 0
    return a[0].f[0] if disc_of(M, a[0]) == good else a[1]
@reg(r'^std::option::Option::unwrap_or_default$')
def _unwrap_or_default(M, fr, n, a):
    if disc_of(M, a[0]) == 1: return a[0].f[0]
    m = re.match(r'^std::option::Option::<(.*)>::unwrap_or_default$', M.cur_callee)
    if not m: raise Unsupported('unwrap_or_default on None')
    return M.invoke(fr, '<%s as std::default::Default>::default' % m.group(1), [])
@reg(r'^std::option::Option::unwrap_or_else$')
def _opt_unwrap_or_else(M, fr, n, a):
    return a[0].f[0] if disc_of(M, a[0]) == 1 else M.call_closure(fr, a[1], [])
@reg(r'^std::result::Result::unwrap_or_else$')
def _res_unwrap_or_else(M, fr, n, a):
    return a[0].f[0] if disc_of(M, a[0]) == 0 else M.call_closure(fr, a[1], [a[0].f[0]])
@reg(r'^std::option::Option::map$')
def _opt_map(M, fr, n, a):
    if disc_of(M, a[0]) == 0: return none()
    return some(M.call_closure(fr, a[1], [a[0].f[0]]))
@reg(r'^std::option::Option::and_then$')
def _opt_and_then(M, fr, n, a):
    if disc_of(M, a[0]) == 0: return none()
    return M.call_closure(fr, a[1], [a[0].f[0]])
@reg(r'^std::option::Option::or_else$')
def _opt_or_else(M, fr, n, a):
    if disc_of(M, a[0]) == 1: return a[0]
    return M.call_closure(fr, a[1], [])
@reg(r'^std::option::Option::or$')
def _opt_or(M, fr, n, a): return a[0] if disc_of(M, a[0]) == 1 else a[1]
@reg(r'^std::option::Option::filter$')
def _opt_filter(M, fr, n, a):
    if disc_of(M, a[0]) == 0: return none()
    return a[0] if M.branch(M.call_closure(fr, a[1], [Ref(Cell(a[0].f[0]))])) else none()
@reg(r'^std::option::Option::map_or$')
def _opt_map_or(M, fr, n, a):
    if disc_of(M, a[0]) == 0: return a[1]
    return M.call_closure(fr, a[2], [a[0].f[0]])
@reg(r'^std::option::Option::map_or_else$')
def _opt_map_or_else(M, fr, n, a):
    if disc_of(M, a[0]) == 0: return M.call_closure(fr, a[1], [])
    return M.call_closure(fr, a[2], [a[0].f[0]])
@reg(r'^std::option::Option::ok_or$')
def _opt_ok_or(M, fr, n, a): return ok(a[0].f[0]) if disc_of(M, a[0]) == 1 else err(a[1])
@reg(r'^std::option::Option::ok_or_else$')
def _opt_ok_or_else(M, fr, n, a): return ok(a[0].f[0]) if disc_of(M, a[0]) == 1 else err(M.call_closure(fr, a[1], []))
@reg(r'^std::option::Option::as_ref$|^std::option::Option::as_mut$|^std::option::Option::as_deref$')
def _opt_as_ref(M, fr, n, a):
    r = a[0]; o = D(M, r)
    if disc_of(M, o) == 0: return none()
    inner = Ref(r.cell, r.path + (('f', 0),)) if isinstance(r, Ref) else Ref(Cell(o), (('f', 0),))
    return some(inner)
@reg(r'^std::option::Option::take$')
def _opt_take(M, fr, n, a):
    r = a[0]; o = D(M, r); M.put(r.cell, r.path, none()); return o
@reg(r'^std::option::Option::cloned$|^std::option::Option::copied$')
def _opt_cloned(M, fr, n, a):
    if disc_of(M, a[0]) == 0: return none()
    return some(deep_clone(D(M, a[0].f[0])))
@reg(r'^std::option::Option::get_or_insert_with$')
def _opt_goiw(M, fr, n, a):
    r = a[0]; o = D(M, r)
    if disc_of(M, o) == 0:
        M.put(r.cell, r.path, some(M.call_closure(fr, a[1], [])))
    return Ref(r.cell, r.path + (('f', 0),))
@reg(r'^std::option::Option::insert$')
def _opt_insert(M, fr, n, a):
    r = a[0]; M.put(r.cell, r.path, some(a[1])); return Ref(r.cell, r.path + (('f', 0),))
@reg(r'^std::result::Result::map$')
def _res_map(M, fr, n, a):
    if disc_of(M, a[0]) == 1: return a[0]
    return ok(M.call_closure(fr, a[1], [a[0].f[0]]))
@reg(r'^std::result::Result::map_err$')
def _res_map_err(M, fr, n, a):
    if disc_of(M, a[0]) == 0: return a[0]
    return err(M.call_closure(fr, a[1], [a[0].f[0]]))
@reg(r'^std::result::Result::and_then$')
def _res_and_then(M, fr, n, a):
    if disc_of(M, a[0]) == 1: return a[0]
    return M.call_closure(fr, a[1], [a[0].f[0]])
@reg(r'^std::result::Result::or_else$')
def _res_or_else(M, fr, n, a):
    if disc_of(M, a[0]) == 0: return a[0]
    return M.call_closure(fr, a[1], [a[0].f[0]])
@reg(r'^std::result::Result::ok$')
def _res_ok(M, fr, n, a): return some(a[0].f[0]) if disc_of(M, a[0]) == 0 else none()
@reg(r'^std::result::Result::err$')
def _res_err(M, fr, n, a): return some(a[0].f[0]) if disc_of(M, a[0]) == 1 else none()
@reg(r'^std::result::Result::as_ref$')
def _res_as_ref(M, fr, n, a):
    r = a[0]; o = D(M, r); d = disc_of(M, o)
    return EnumV('Result', d, [Ref(r.cell, r.path + (('f', 0),))])

# ------------------------------------------------------------------ Box, clone, conversions, misc
@reg(r'^std::boxed::Box::new$|^std::rc::Rc::new$|^std::sync::Arc::new$')
def _box_new(M, fr, n, a): return Ref(Cell(a[0]))
@reg(r'^<std::boxed::Box<.*> as std::ops::Deref(Mut)?>::deref(_mut)?$|^<std::boxed::Box<.*> as std::convert::AsRef<.*>>::as_ref$|^<std::rc::Rc<.*> as std::ops::Deref>::deref$|^<std::boxed::Box<.*> as std::borrow::Borrow(Mut)?<.*>>::borrow(_mut)?$')
def _box_deref(M, fr, n, a):
    r = a[0]; v = M.get(r.cell, r.path)
    return v if isinstance(v, Ref) else r
@reg(r'^<.* as std::clone::Clone>::clone$')
def _clone(M, fr, n, a):
    v = D(M, a[0]) if not n.startswith('<&') else a[0]
    return deep_clone(v)
@reg(r'^<.* as std::borrow::ToOwned>::to_owned$')
def _to_owned(M, fr, n, a): return deep_clone(D(M, a[0]))
@reg(r'^std::mem::(replace)$')
def _mem_replace(M, fr, n, a):
    r = a[0]; old = M.get(r.cell, r.path); M.put(r.cell, r.path, a[1]); return old
@reg(r'^std::mem::take$')
def _mem_take(M, fr, n, a):
    r = a[0]; old = M.get(r.cell, r.path)
    if isinstance(old, VecV): new = VecV()
    elif isinstance(old, Str): new = Str('')
    elif isinstance(old, EnumV) and old.name == 'Option': new = none()
    else: raise Unsupported('mem::take of %r' % (old,))
    M.put(r.cell, r.path, new); return old
@reg(r'^std::mem::swap$')
def _mem_swap(M, fr, n, a):
    x = M.get(a[0].cell, a[0].path); y = M.get(a[1].cell, a[1].path)
    M.put(a[0].cell, a[0].path, y); M.put(a[1].cell, a[1].path, x); return UNIT
@reg(r'^std::mem::drop$|^std::mem::forget$|^std::hint::black_box$')
def _mem_drop(M, fr, n, a): return UNIT
@reg(r'^std::hint::must_use$|^<.* as std::convert::Into<.*>>::into$|^<(\w+) as std::convert::From<\1>>::from$|^<.* as std::convert::AsRef<.*>>::as_ref$|^<&.* as std::ops::Deref>::deref$|^<.* as std::borrow::Borrow<.*>>::borrow$')
def _ident(M, fr, n, a):
    m = re.match(r'^<(.*) as std::convert::Into<(.*)>>::into$', n)
    if m and m.group(1) != m.group(2):
        src, dst = m.group(1), m.group(2)
        if dst == 'std::string::String' and src in ('&str', 'std::string::String'): return deep_clone(D(M, a[0]))
        if lastseg(src) in INT_W and lastseg(dst) in INT_W: return M.cast(fr, a[0], lastseg(dst), 'IntToInt', lastseg(src))
        return M.invoke(fr, '<%s as std::convert::From<%s>>::from' % (dst, src), a)
    return a[0]
@reg(r'^<(u8|u16|u32|u64|usize|u128|i8|i16|i32|i64|i128|isize) as std::convert::From<(u8|u16|u32|u64|usize|i8|i16|i32|i64|bool|char)>>::from$')
def _int_from(M, fr, n, a):
    m = re.match(r'^<(\w+) as std::convert::From<(\w+)>>::from$', n)
    return M.cast(fr, a[0], m.group(1), 'IntToInt', m.group(2))
@reg(r'^<(u8|u16|u32|u64|usize|u128|i8|i16|i32|i64|i128|isize) as std::convert::TryFrom<(u8|u16|u32|u64|usize|u128|i8|i16|i32|i64|i128|isize)>>::try_from$|^core::convert::num::<impl std::convert::TryFrom<(\w+)> for (\w+)>::try_from$')
def _int_try_from(M, fr, n, a):
    m = re.match(r'^<(\w+) as std::convert::TryFrom<(\w+)>>::try_from$', n)
    if m: dst, src = m.group(1), m.group(2)
    else:
        m = re.match(r'^core::convert::num::<impl std::convert::TryFrom<(\w+)> for (\w+)>::try_from$', n); src, dst = m.group(1), m.group(2)
    v = simp(a[0]); wd = INT_W[dst]; sd = dst[0] == 'i'; ss = src[0] == 'i'
    lo = -(1 << (wd - 1)) if sd else 0; hi = (1 << (wd - 1)) - 1 if sd else (1 << wd) - 1
    if not is_sym(v): return ok(v) if lo <= v <= hi else err(Agg('TryFromIntError', []))
    ws = v.size()
    slo = -(1 << (ws - 1)) if ss else 0; shi = (1 << (ws - 1)) - 1 if ss else (1 << ws) - 1
    conds = []
    if lo > slo: conds.append((v >= z3.BitVecVal(lo, ws)) if ss else z3.UGE(v, z3.BitVecVal(max(lo, 0), ws)))
    if hi < shi: conds.append((v <= z3.BitVecVal(hi, ws)) if ss else z3.ULE(v, z3.BitVecVal(hi, ws)))
    fits = b_and(*conds) if conds else True
    if M.branch(fits): return ok(M.cast(fr, v, dst, 'IntToInt', src))
    return err(Agg('TryFromIntError', []))
@reg(r'^core::num::<impl (\w+)>::(wrapping_add|wrapping_sub|wrapping_mul|checked_add|checked_sub|checked_mul|saturating_sub|saturating_add|pow|checked_shl|abs|unsigned_abs|is_negative|min|max|overflowing_add|overflowing_mul|checked_pow|checked_neg|wrapping_neg|checked_div)$|^std::cmp::(min|max)$|^<(\w+) as std::cmp::Ord>::(min|max)$')
def _int_ops(M, fr, n, a):
    m = re.match(r'^core::num::<impl (\w+)>::(\w+)$', n)
    if m: ty, op = m.group(1), m.group(2)
    else:
        m = re.match(r'^<(\w+) as std::cmp::Ord>::(min|max)$', n)
        if m: ty, op = m.group(1), m.group(2)
        else:
            op = n.rsplit('::', 1)[1]; ty = None
            x = a[0]; ty = 'u64' if not is_sym(x) else {8: 'u8', 16: 'u16', 32: 'u32', 64: 'u64', 128: 'u128'}[x.size()]
            if not is_sym(a[0]) and not is_sym(a[1]): return (min if op == 'min' else max)(a[0], a[1])
    if ty not in INT_W: raise Unsupported('int op on ' + ty)
    w = INT_W[ty]; sg = ty[0] == 'i'
    x = simp(a[0]); y = simp(a[1]) if len(a) > 1 else None
    if op.startswith('wrapping_') and op != 'wrapping_neg':
        return M.binop({'wrapping_add': 'Add', 'wrapping_sub': 'Sub', 'wrapping_mul': 'Mul'}[op], x, y, ty)
    if op in ('checked_add', 'checked_sub', 'checked_mul', 'overflowing_add', 'overflowing_mul'):
        r = M.binop({'add': 'AddWithOverflow', 'sub': 'SubWithOverflow', 'mul': 'MulWithOverflow'}[op.split('_')[1]], x, y, ty)
        if op.startswith('overflowing'): return r
        return none() if M.branch(r.f[1]) else some(r.f[0])
    if op in ('min', 'max'):
        lt = M.binop('Lt', x, y, ty)
        if isinstance(lt, bool): return (x if lt else y) if op == 'min' else (y if lt else x)
        return ite(lt, x, y, w) if op == 'min' else ite(lt, y, x, w)
    if op == 'saturating_sub':
        r = M.binop('SubWithOverflow', x, y, ty)
        if M.branch(r.f[1]): return 0 if not sg else Unsupported
        return r.f[0]
    if op == 'checked_shl':
        if is_sym(y): raise Unsupported('symbolic checked_shl')
        return some(M.binop('Shl', x, y, ty)) if y < w else none()
    if op == 'checked_pow' or op == 'pow':
        if is_sym(y): raise Unsupported('symbolic exponent')
        acc = 1
        for _ in range(y):
            r = M.binop('MulWithOverflow', acc, x, ty)
            if M.branch(r.f[1]):
                if op == 'pow':
                    if M.release: acc = r.f[0]; continue
                    raise Panic('attempt to multiply with overflow')
                return none()
            acc = r.f[0]
        return some(acc) if op == 'checked_pow' else acc
    if op == 'is_negative':
        return (x < 0) if not is_sym(x) else (x < 0)
    if op in ('abs', 'unsigned_abs'):
        if not is_sym(x): return abs(x)
        return z3.If(x < 0, -x, x)
    if op in ('checked_neg',):
        if not is_sym(x): return some(-x) if norm(-x, ty) == -x else none()
    raise Unsupported('int op ' + op)
@reg(r'^<.* as std::default::Default>::default$')
def _default(M, fr, n, a):
    m = re.match(r'^<(.*) as std::default::Default>::default$', n); t = m.group(1)
    if t in INT_W: return 0 if t != 'bool' else False
    if t.startswith('std::option::Option'): return none()
    if t.startswith(('std::vec::Vec', 'std::collections::Hash', 'std::collections::BTree', 'std::collections::VecDeque')): return VecV()
    if t == 'std::string::String': return Str('')
    if t == '()': return UNIT
    if re.search(r' as (dsl::)?visitor::Visitor<.*>>::Value$', t): return UNIT      # every Visitor impl in the workspace declares `type Value = ()`
    raise Unsupported('Default for ' + t)
@reg(r'^core::intrinsics::discriminant_value$|^std::intrinsics::discriminant_value$|^std::mem::discriminant$')
def _discr(M, fr, n, a):
    v = D(M, a[0])
    if isinstance(v, EnumV): return v.disc if n.endswith('discriminant_value') else Agg('Discriminant', [v.disc])
    raise Unsupported('discriminant_value of %r' % (v,))
@reg(r'^<std::mem::Discriminant<.*> as std::cmp::PartialEq>::eq$')
def _discr_eq(M, fr, n, a): return v_eq(D(M, a[0]).f[0], D(M, a[1]).f[0])
@reg(r'^core::panicking::|^std::rt::begin_panic|^core::option::expect_failed|^core::result::unwrap_failed|^core::option::unwrap_failed|^std::rt::panic_fmt|^core::panicking::panic_fmt|^core::slice::index::slice_|^core::str::slice_error_fail|^std::process::abort|^core::panicking::unreachable_display|^core::panicking::assert_failed')
def _panic(M, fr, n, a):
    msg = n
    for x in a:
        v = D(M, x) if isinstance(x, Ref) else x
        if isinstance(v, Str) and v.conc(): msg += ': ' + v.conc()
    raise Panic(msg)
@reg(r'^<(bool|char|u8|u16|u32|u64|usize|u128|i8|i16|i32|i64|i128|isize) as std::cmp::PartialEq>::eq$')
def _prim_eq(M, fr, n, a): return v_eq(D(M, a[0]), D(M, a[1]))
@reg(r'^<(u8|u16|u32|u64|usize|u128|i8|i16|i32|i64|i128|isize|char) as std::cmp::PartialOrd>::(lt|le|gt|ge)$')
def _prim_ord(M, fr, n, a):
    m = re.match(r'^<(\w+) as std::cmp::PartialOrd>::(\w+)$', n)
    return M.binop({'lt': 'Lt', 'le': 'Le', 'gt': 'Gt', 'ge': 'Ge'}[m.group(2)], D(M, a[0]), D(M, a[1]), m.group(1))
@reg(r'^<&.* as std::cmp::PartialEq<&.*>>::eq$|^<&.* as std::cmp::PartialEq>::eq$')
def _ref_eq(M, fr, n, a):
    m = re.match(r'^<&(?:mut )?(.*) as std::cmp::PartialEq(?:<&(?:mut )?(.*)>)?>::eq$', n)
    inner = m.group(1); other = m.group(2) or inner
    x = M.get(a[0].cell, a[0].path); y = M.get(a[1].cell, a[1].path)
    return M.invoke(fr, '<%s as std::cmp::PartialEq%s>::eq' % (inner, '' if other == inner else '<%s>' % other), [x, y])
@reg(r'^<std::option::Option<.*> as std::cmp::PartialEq>::eq$|^<std::vec::Vec<.*> as std::cmp::PartialEq.*>::eq$|^<\[.*\] as std::cmp::PartialEq.*>::eq$|^<\(.*\) as std::cmp::PartialEq>::eq$|^<std::boxed::Box<.*> as std::cmp::PartialEq>::eq$|^<std::result::Result<.*> as std::cmp::PartialEq>::eq$')
def _struct_eq(M, fr, n, a): return val_eq(M, fr, a[0], a[1])

# ------------------------------------------------------------------ strings
def as_str(M, x):
    x = M.deref(x)
    if isinstance(x, (Str, SymStr)): return x
    raise Unsupported('not a string: %r' % (x,))
@reg(r'^<str as std::string::ToString>::to_string$|^<std::string::String as std::convert::From<&str>>::from$|^<str as std::borrow::ToOwned>::to_owned$|^<std::string::String as std::clone::Clone>::clone$|^<std::string::String as std::convert::From<&std::string::String>>::from$|^std::str::<impl str>::to_string$|^<std::string::String as std::string::ToString>::to_string$|^<std::string::String as std::str::FromStr>::from_str$|^std::str::<impl str>::to_owned$|^<&str as std::string::ToString>::to_string$|^<std::string::String as std::convert::From<std::borrow::Cow<.*>>>::from$|^std::borrow::Cow::<.*>::into_owned$|^std::borrow::Cow::into_owned$|^std::str::<impl str>::into_string$|^<std::boxed::Box<str> as std::convert::From<.*>>::from$|^<std::string::String as std::convert::From<impl Into<String>>>::from$|^<std::string::String as std::convert::From<[A-Z]>>::from$|^<std::borrow::Cow<.*str> as std::string::ToString>::to_string$|^<std::borrow::Cow<.*str> as std::clone::Clone>::clone$')
def _str_owned(M, fr, n, a):
    v = as_str(M, a[0])
    r = Str(list(v.b)) if isinstance(v, Str) else v
    return ok(r) if n.endswith('from_str') else r
@reg(r'^std::string::String::as_str$|^<std::string::String as std::ops::Deref>::deref$|^std::string::String::as_mut_str$|^<std::string::String as std::convert::AsRef<str>>::as_ref$|^<std::string::String as std::borrow::Borrow<str>>::borrow$|^<std::borrow::Cow<.*> as std::ops::Deref>::deref$|^<str as std::convert::AsRef<str>>::as_ref$')
def _str_ref(M, fr, n, a): return a[0]
@reg(r'^std::string::String::new$|^<std::string::String as std::default::Default>::default$|^std::string::String::with_capacity$')
def _string_new(M, fr, n, a): return Str('')
@reg(r'^std::string::String::len$|^core::str::<impl str>::len$')
def _str_len(M, fr, n, a):
    s = as_str(M, a[0])
    if isinstance(s, SymStr):
        # an opaque text (a formatted message, an uninterpreted function of something): its length is some number, the same each time it is asked
        key = str(s.t)
        d = M.__dict__.setdefault('_opaque_len', {})
        if key not in d: d[key] = M.fresh_bv('len_of_opaque_text', 64)
        return d[key]
    return len(s.b)
@reg(r'^std::string::String::is_empty$|^core::str::<impl str>::is_empty$')
def _str_is_empty(M, fr, n, a):
    s = as_str(M, a[0])
    if isinstance(s, SymStr): raise Unsupported('is_empty of opaque string')
    return len(s.b) == 0
@reg(r'^std::string::String::push_str$')
def _push_str(M, fr, n, a):
    d, s_ = as_str(M, a[0]), as_str(M, a[1])
    if isinstance(d, SymStr):
        # appending to an opaque text gives another opaque text
        cnt = M.__dict__.setdefault('_opaque_cat', [0]); cnt[0] += 1
        d.t = z3.BitVec('appended%d_%s' % (cnt[0], str(d.t)[:30]), d.t.size()) if is_sym(d.t) else d.t
        if d.lower is not None and d.lower is not d: d.lower = None
        return UNIT
    if isinstance(s_, SymStr): raise Unsupported('concatenation with an opaque (unmodelled format!) string')
    d.b.extend(s_.b); return UNIT
@reg(r'^std::string::String::push$')
def _push_char(M, fr, n, a): as_str(M, a[0]).b.extend(encode_char(M, a[1])); return UNIT
def encode_char(M, c):
    c = simp(c)
    if not is_sym(c): return list(chr(c).encode())
    if M.branch(z3.ULT(c, 0x80)): return [z3.Extract(7, 0, c)]
    if M.branch(z3.ULT(c, 0x800)): return [z3.Extract(7, 0, 0xC0 | z3.LShR(c, 6)), z3.Extract(7, 0, 0x80 | (c & 0x3F))]
    if M.branch(z3.ULT(c, 0x10000)):
        return [z3.Extract(7, 0, 0xE0 | z3.LShR(c, 12)), z3.Extract(7, 0, 0x80 | (z3.LShR(c, 6) & 0x3F)), z3.Extract(7, 0, 0x80 | (c & 0x3F))]
    return [z3.Extract(7, 0, 0xF0 | z3.LShR(c, 18)), z3.Extract(7, 0, 0x80 | (z3.LShR(c, 12) & 0x3F)), z3.Extract(7, 0, 0x80 | (z3.LShR(c, 6) & 0x3F)), z3.Extract(7, 0, 0x80 | (c & 0x3F))]
@reg(r'^<str as std::cmp::PartialEq>::eq$|^<&str as std::cmp::PartialEq>::eq$|^<std::string::String as std::cmp::PartialEq.*>::eq$|^<str as std::cmp::PartialEq<.*>>::eq$|^<&str as std::cmp::PartialEq<.*>>::eq$|^<std::borrow::Cow<.*> as std::cmp::PartialEq<.*>>::eq$')
def _str_eq(M, fr, n, a): return str_eq(M, a[0], a[1])
@reg(r'^std::str::<impl str>::to_lowercase$|^std::str::<impl str>::to_ascii_lowercase$|^core::str::<impl str>::to_ascii_lowercase$')
def _lower(M, fr, n, a):
    x = as_str(M, a[0])
    if isinstance(x, SymStr): return x.lower if x.lower is not None else x
    out = []
    for b in x.b:
        if isinstance(b, int):
            if b >= 0x80 and not n.endswith('ascii_lowercase'):
                c = x.conc()
                if c is not None: return Str(c.lower())
                raise Unsupported('to_lowercase of non-ASCII symbolic text')
            out.append(b + 32 if 65 <= b <= 90 else b)
        else:
            M.assume_ascii = True
            if not n.endswith('ascii_lowercase'):
                if not M.branch(z3.ULT(b, 0x80)): raise Unsupported('to_lowercase of non-ASCII symbolic byte')
            out.append(z3.If(z3.And(z3.UGE(b, 65), z3.ULE(b, 90)), b + 32, b))
    return Str(out)
@reg(r'^std::str::<impl str>::to_uppercase$|^std::str::<impl str>::to_ascii_uppercase$')
def _upper(M, fr, n, a):
    x = as_str(M, a[0]); out = []
    for b in x.b:
        if isinstance(b, int):
            if b >= 0x80: raise Unsupported('to_uppercase non-ASCII')
            out.append(b - 32 if 97 <= b <= 122 else b)
        else:
            if not M.branch(z3.ULT(b, 0x80)): raise Unsupported('to_uppercase non-ASCII symbolic byte')
            out.append(z3.If(z3.And(z3.UGE(b, 97), z3.ULE(b, 122)), b - 32, b))
    return Str(out)
@reg(r'^core::str::<impl str>::as_bytes$|^std::string::String::as_bytes$|^std::string::String::into_bytes$')
def _as_bytes(M, fr, n, a):
    s = as_str(M, a[0]); return Ref(Cell(VecV(s.b))) if not n.endswith('into_bytes') else VecV(list(s.b))
@reg(r'^core::str::<impl str>::chars$')
def _chars(M, fr, n, a): return Agg('Chars', [as_str(M, a[0]), 0])
@reg(r'^core::str::<impl str>::char_indices$')
def _char_indices(M, fr, n, a): return Agg('Chars', [as_str(M, a[0]), 0, True])
@reg(r'^core::str::<impl str>::bytes$')
def _bytes(M, fr, n, a): return IterV(list(as_str(M, a[0]).b))
def chars_next(M, fr, it):
    sv = it.f[0]; pos = it.f[1]
    if isinstance(sv, SymStr): raise Unsupported('chars of opaque string')
    if pos >= len(sv.b): return False, None
    b0 = sv.b[pos]
    def cp_of(k):
        bs = sv.b[pos:pos + k]
        if all(isinstance(x, int) for x in bs): return ord(bytes(bs).decode('utf-8', 'replace')[0])
        bs = [z3.ZeroExt(24, tobv(x, 8)) for x in bs]
        if k == 1: return bs[0]
        if k == 2: return ((bs[0] & 0x1F) << 6) | (bs[1] & 0x3F)
        if k == 3: return ((bs[0] & 0x0F) << 12) | ((bs[1] & 0x3F) << 6) | (bs[2] & 0x3F)
        return ((bs[0] & 0x07) << 18) | ((bs[1] & 0x3F) << 12) | ((bs[2] & 0x3F) << 6) | (bs[3] & 0x3F)
    if isinstance(b0, int):
        k = 1 if b0 < 0x80 else (2 if b0 < 0xE0 else (3 if b0 < 0xF0 else 4))
    else:
        opts = [z3.ULT(b0, 0x80)]; ks = [1]
        if pos + 2 <= len(sv.b): opts.append(z3.And(z3.UGE(b0, 0xC0), z3.ULT(b0, 0xE0))); ks.append(2)
        if pos + 3 <= len(sv.b): opts.append(z3.And(z3.UGE(b0, 0xE0), z3.ULT(b0, 0xF0))); ks.append(3)
        if pos + 4 <= len(sv.b): opts.append(z3.UGE(b0, 0xF0)); ks.append(4)
        k = ks[M.choose(opts)]
    it.f[1] = pos + k
    c = simp(cp_of(k))
    if len(it.f) > 2: return True, Agg('()', [pos, c])
    return True, c
@reg(r"^<std::str::Chars<'_> as std::iter::Iterator>::next$|^<std::str::CharIndices<'_> as std::iter::Iterator>::next$")
def _chars_next(M, fr, n, a):
    okk, v = chars_next(M, fr, D(M, a[0])); return some(v) if okk else none()
def check_boundary(M, s, p):
    if 0 < p < len(s.b):
        b = s.b[p]
        okb = ((b & 0xC0) != 0x80) if isinstance(b, int) else ((b & 0xC0) != 0x80)
        if not M.branch(okb): raise Panic('byte index %d is not a char boundary' % p)
@reg(r'^<str as std::ops::Index<std::ops::Range<usize>>>::index$|^<std::string::String as std::ops::Index<std::ops::Range<usize>>>::index$|^core::str::traits::<impl std::ops::Index<.*> for str>::index$|^<str as std::ops::Index<std::ops::Range(From|To)<usize>>>::index$|^<std::string::String as std::ops::Index<std::ops::Range(From|To)<usize>>>::index$|^<str as std::ops::Index<std::ops::RangeFull>>::index$|^<std::string::String as std::ops::Index<std::ops::RangeFull>>::index$')
def _str_index(M, fr, n, a):
    s = as_str(M, a[0])
    if isinstance(s, SymStr): raise Unsupported('slice of opaque string')
    rng = a[1]
    if 'RangeFull' in n: return Ref(Cell(Str(list(s.b))))
    if 'RangeFrom' in n: lo, hi = simp(rng.f[0]), len(s.b)
    elif 'RangeTo' in n: lo, hi = 0, simp(rng.f[0])
    else: lo, hi = simp(rng.f[0]), simp(rng.f[1])
    lo = _concretize_idx(M, lo, len(s.b)); hi = _concretize_idx(M, hi, len(s.b))
    if lo > hi: raise Panic('slice index starts at %d but ends at %d' % (lo, hi))
    if hi > len(s.b): raise Panic('byte index out of range for string slice')
    check_boundary(M, s, lo); check_boundary(M, s, hi)
    return Ref(Cell(Str(s.b[lo:hi])))
def _concretize_idx(M, v, L):
    if not is_sym(v): return v
    k = M.choose([v == j for j in range(L + 1)] + [z3.UGT(v, L)])
    return k if k <= L else L + 1
@reg(r'^core::str::<impl str>::get$')
def _str_get(M, fr, n, a):
    s = as_str(M, a[0]); rng = a[1]
    kind = re.sub(r'<.*', '', rng.name).split('::')[-1] if isinstance(rng, Agg) else 'Range'
    if kind == 'RangeTo': lo, hi = 0, simp(rng.f[0])
    elif kind == 'RangeFrom': lo, hi = simp(rng.f[0]), len(s.b)
    elif kind == 'RangeFull': lo, hi = 0, len(s.b)
    elif kind in ('RangeInclusive', 'RangeToInclusive'): raise Unsupported('str::get with an inclusive range')
    else: lo, hi = simp(rng.f[0]), simp(rng.f[1])
    lo = _concretize_idx(M, lo, len(s.b)); hi = _concretize_idx(M, hi, len(s.b))
    if lo > hi or hi > len(s.b): return none()
    for p in (lo, hi):
        if 0 < p < len(s.b):
            b = s.b[p]
            if not M.branch((b & 0xC0) != 0x80): return none()
    return some(Ref(Cell(Str(s.b[lo:hi]))))
def _pat_bytes(M, p):
    p = simp(p) if not isinstance(p, (Ref, Str, SymStr, Agg, EnumV)) else p
    if isinstance(p, int): return list(chr(p).encode())
    v = M.deref(p)
    if isinstance(v, Str): return list(v.b)
    raise Unsupported('pattern %r' % (p,))
def _match_at(s, i, pat):
    if isinstance(s, SymStr): raise Unsupported('substring test on an opaque string')
    if i + len(pat) > len(s.b): return False
    return b_and(*[v_eq(s.b[i + j], pat[j]) for j in range(len(pat))])
@reg(r'^core::str::<impl str>::starts_with$')
def _starts_with(M, fr, n, a): return _match_at(as_str(M, a[0]), 0, _pat_bytes(M, a[1]))
@reg(r'^core::str::<impl str>::ends_with$')
def _ends_with(M, fr, n, a):
    s = as_str(M, a[0]); p = _pat_bytes(M, a[1]); return _match_at(s, len(s.b) - len(p), p) if len(p) <= len(s.b) else False
@reg(r'^core::str::<impl str>::find$')
def _str_find(M, fr, n, a):
    s = as_str(M, a[0]); p = _pat_bytes(M, a[1])
    for i in range(len(s.b) - len(p) + 1):
        if M.branch(_match_at(s, i, p)): return some(i)
    return none()
@reg(r'^core::str::<impl str>::(split_at|split_at_checked)$')
def _str_split_at(M, fr, n, a):
    s = as_str(M, a[0]); i = simp(a[1])
    if isinstance(s, SymStr): raise Unsupported('split_at on an opaque string')
    i = _concretize_idx(M, i, len(s.b))
    checked = n.endswith('checked')
    if i > len(s.b):
        if checked: return none()
        raise Panic('byte index %d is out of bounds of string of length %d' % (i, len(s.b)))
    if 0 < i < len(s.b):
        b = s.b[i]
        okb = ((b & 0xC0) != 0x80)
        if not M.branch(okb):
            if checked: return none()
            raise Panic('byte index %d is not a char boundary' % i)
    r = Agg('()', [Ref(Cell(Str(s.b[:i]))), Ref(Cell(Str(s.b[i:])))])
    return some(r) if checked else r
@reg(r'^core::str::<impl str>::rfind$')
def _str_rfind(M, fr, n, a):
    s = as_str(M, a[0]); pred = _char_pred(M, fr, a[1])
    if pred is None:
        p = _pat_bytes(M, a[1])
        for i in range(len(s.b) - len(p), -1, -1):
            if M.branch(_match_at(s, i, p)): return some(i)
        return none()
    end = len(s.b)
    while end > 0:
        st, c = _char_at_end(M, s, end)
        if M.branch(pred(c)): return some(st)
        end = st
    return none()
@reg(r'^core::str::<impl str>::(matches|match_indices|rmatches)$')
def _str_matches(M, fr, n, a):
    s = as_str(M, a[0]); pred = _char_pred(M, fr, a[1]); op = n.rsplit('::', 1)[1]
    out = []; i = 0
    if pred is None:
        p = _pat_bytes(M, a[1])
        while p and i + len(p) <= len(s.b):
            if M.branch(_match_at(s, i, p)): out.append((i, Ref(Cell(Str(s.b[i:i + len(p)]))))); i += len(p)
            else: i += 1
    else:
        while i < len(s.b):
            it = Agg('Chars', [Str(s.b[i:]), 0]); okk, c = chars_next(M, fr, it); k = it.f[1]
            if M.branch(pred(c)): out.append((i, Ref(Cell(Str(s.b[i:i + k])))))
            i += k
    if op == 'rmatches': out.reverse()
    return IterV([Agg('()', [i_, r]) for i_, r in out] if op == 'match_indices' else [r for _, r in out])
@reg(r'^core::str::<impl str>::contains$')
def _str_contains(M, fr, n, a):
    s = as_str(M, a[0]); p = _pat_bytes(M, a[1])
    return b_or(*[_match_at(s, i, p) for i in range(len(s.b) - len(p) + 1)])
@reg(r'^core::str::<impl str>::split_once$')
def _split_once(M, fr, n, a):
    s = as_str(M, a[0]); p = _pat_bytes(M, a[1])
    for i in range(len(s.b) - len(p) + 1):
        if M.branch(_match_at(s, i, p)):
            return some(Agg('()', [Ref(Cell(Str(s.b[:i]))), Ref(Cell(Str(s.b[i + len(p):])))]))
    return none()
@reg(r'^core::str::<impl str>::rsplit_once$')
def _rsplit_once(M, fr, n, a):
    s = as_str(M, a[0]); p = _pat_bytes(M, a[1])
    for i in range(len(s.b) - len(p), -1, -1):
        if M.branch(_match_at(s, i, p)):
            return some(Agg('()', [Ref(Cell(Str(s.b[:i]))), Ref(Cell(Str(s.b[i + len(p):])))]))
    return none()
@reg(r'^core::str::<impl str>::(trim|trim_start|trim_end)$')
def _trim(M, fr, n, a):
    s = as_str(M, a[0]); c = s.conc()
    if c is None: raise Unsupported('trim of symbolic text')
    op = n.rsplit('::', 1)[1]
    return Ref(Cell(Str({'trim': c.strip(), 'trim_start': c.lstrip(), 'trim_end': c.rstrip()}[op])))
@reg(r'^core::str::<impl str>::is_char_boundary$')
def _is_char_boundary(M, fr, n, a):
    s = as_str(M, a[0]); i = simp(a[1])
    if is_sym(i): raise Unsupported('symbolic boundary index')
    if i == 0 or i == len(s.b): return True
    if i > len(s.b): return False
    return (s.b[i] & 0xC0) != 0x80
@reg(r'^(?:core|std)::char::methods::<impl char>::(is_ascii_digit|is_ascii_alphabetic|is_ascii_alphanumeric|is_ascii_hexdigit|is_ascii_uppercase|is_ascii_lowercase|is_ascii|is_digit|len_utf8|len_utf16|is_whitespace|is_ascii_whitespace|to_ascii_lowercase|to_ascii_uppercase|is_alphanumeric|is_alphabetic|is_numeric)$')
def _char_class(M, fr, n, a):
    op = n.rsplit('::', 1)[1]; c = simp(D(M, a[0]) if isinstance(a[0], Ref) else a[0])
    def rng(lo, hi): return (lo <= c <= hi) if not is_sym(c) else z3.And(z3.UGE(c, lo), z3.ULE(c, hi))
    if op == 'is_ascii_digit': return rng(48, 57)
    if op == 'is_ascii_uppercase': return rng(65, 90)
    if op == 'is_ascii_lowercase': return rng(97, 122)
    if op == 'is_ascii_alphabetic': return b_or(rng(65, 90), rng(97, 122))
    if op == 'is_ascii_alphanumeric': return b_or(rng(48, 57), rng(65, 90), rng(97, 122))
    if op == 'is_ascii_hexdigit': return b_or(rng(48, 57), rng(65, 70), rng(97, 102))
    if op == 'is_ascii': return rng(0, 127)
    if op == 'is_digit':
        radix = simp(a[1])
        if radix == 10: return rng(48, 57)
        if radix == 16: return b_or(rng(48, 57), rng(65, 70), rng(97, 102))
        if radix == 8: return rng(48, 55)
        if radix == 2: return rng(48, 49)
        raise Unsupported('radix')
    if op == 'len_utf8':
        if not is_sym(c): return len(chr(c).encode())
        return [1, 2, 3, 4][M.choose([z3.ULT(c, 0x80), z3.And(z3.UGE(c, 0x80), z3.ULT(c, 0x800)), z3.And(z3.UGE(c, 0x800), z3.ULT(c, 0x10000)), z3.UGE(c, 0x10000)])]
    if op == 'len_utf16':
        if not is_sym(c): return 1 if c < 0x10000 else 2
        return 1 if M.branch(z3.ULT(c, 0x10000)) else 2
    if op in ('is_ascii_whitespace',):
        return b_or(v_eq(c, 32), v_eq(c, 9), v_eq(c, 10), v_eq(c, 12), v_eq(c, 13))
    if op == 'is_whitespace':
        if not is_sym(c): return chr(c).isspace()
        if M.branch(z3.ULT(c, 0x80)): return b_or(v_eq(c, 32), rng(9, 13))
        raise Unsupported('is_whitespace of non-ASCII symbolic char')
    if op == 'to_ascii_lowercase':
        if not is_sym(c): return c + 32 if 65 <= c <= 90 else c
        return z3.If(rng(65, 90), c + 32, c)
    if op == 'to_ascii_uppercase':
        if not is_sym(c): return c - 32 if 97 <= c <= 122 else c
        return z3.If(rng(97, 122), c - 32, c)
    if op in ('is_alphanumeric', 'is_alphabetic', 'is_numeric'):
        if not is_sym(c):
            return {'is_alphanumeric': chr(c).isalnum(), 'is_alphabetic': chr(c).isalpha(), 'is_numeric': chr(c).isnumeric()}[op]
        if M.branch(z3.ULT(c, 0x80)):
            return {'is_alphanumeric': b_or(rng(48, 57), rng(65, 90), rng(97, 122)), 'is_alphabetic': b_or(rng(65, 90), rng(97, 122)), 'is_numeric': rng(48, 57)}[op]
        raise Unsupported(op + ' of non-ASCII symbolic char')
    raise Unsupported('char op ' + op)
@reg(r'^<char as std::cmp::PartialEq>::eq$')
def _char_eq(M, fr, n, a): return v_eq(D(M, a[0]), D(M, a[1]))

# formatting: Arguments carry the compiled template and the arguments; std::fmt::format renders integers, strings and chars
# (fill/width/alignment as documented) and falls back to an opaque string for types with their own Display impl
@reg(r'^core::fmt::rt::Argument::<\'_>::new_|^core::fmt::rt::Argument::new_')
def _fmt_arg(M, fr, n, a):
    m = re.search(r'::new_(\w+)::<(.*)>$', M.cur_callee)
    return Agg('fmt::Argument', [m.group(2) if m else '?', a[0], m.group(1) if m else '?'])
@reg(r'^std::fmt::Arguments::<\'_>::new|^std::fmt::Arguments::new|^core::fmt::rt::<impl std::fmt::Arguments<\'_>>::new|^std::fmt::Arguments::<\'_>::from_str|^std::fmt::Arguments::from_str$|^std::fmt::Arguments::new_const$|^std::fmt::Arguments::new_v1$|^core::fmt::rt::Placeholder::new$|^core::fmt::rt::UnsafeArg::new$')
def _fmt_args(M, fr, n, a):
    if 'from_str' in n: return Agg('fmt::Arguments', [('str', M.deref(a[0])), []])
    t = M.deref(a[0]) if a else None
    if isinstance(t, VecV) and len(a) > 1:
        args = M.deref(a[1]); items = args.f if isinstance(args, Agg) else (args.items if isinstance(args, VecV) else [])
        return Agg('fmt::Arguments', [('tmpl', [simp(x) for x in t.items]), list(items)])
    return Agg('fmt::Arguments', [('opaque',), []])
def render_int(M, v, ty, maxdigits=7):
    """decimal digits of an integer value as a list of bytes (symbolic values fork on their magnitude class)"""
    v = simp(v)
    if not is_sym(v): return list(str(v).encode())
    w = v.size(); sg = ty[0] == 'i'
    neg = False
    if sg and M.branch(v < 0): neg = True; v = -v
    if w < 64: v = z3.ZeroExt(64 - w, v); w = 64       # the powers of ten below must not wrap in a narrow type
    k = None
    conds = [z3.ULT(v, 10 ** d) for d in range(1, maxdigits + 1)]
    excl = []; prev = None
    for c in conds:
        excl.append(c if prev is None else z3.And(z3.Not(prev), c)); prev = c
    excl.append(z3.Not(prev))
    k = M.choose(excl)
    if k == maxdigits: raise Unsupported('symbolic integer with more than %d digits in formatting (bound)' % maxdigits)
    nd = k + 1
    ds = [z3.Extract(7, 0, z3.URem(z3.UDiv(v, z3.BitVecVal(10 ** (nd - 1 - i), w)), z3.BitVecVal(10, w))) + 48 for i in range(nd)]
    return ([45] if neg else []) + ds
def lastseg_(t):
    from .mirread import lastseg
    return lastseg(t)
def render_arg(M, fr, arg):
    ty, ref, kind = arg.f
    v = M.deref(ref)
    if kind == 'debug' and isinstance(v, EnumV) and not is_sym(simp(v.disc)):
        # derived Debug of a fieldless variant prints the variant name
        t = lastseg_(ty)
        names = None
        for cr, es in M.prog.enums_by_crate.items():
            if t in es and (names is None or cr == fr.item.crate): names = es[t]
        names = names or M.prog.enums.get(t)
        if names and not v.f: return list(names[simp(v.disc)].encode())
        return None
    if kind != 'display': return None
    t = ty.lstrip('&').strip()
    if t in INT_W and t not in ('bool', 'char'): return render_int(M, v, t)
    if t == 'char': return encode_char(M, v)
    if isinstance(v, Str): return list(v.b)
    return user_display(M, fr, ty, ref)
def user_display(M, fr, ty, ref):
    """text a type's own `Display::fmt` writes into a Formatter (the impl is run on a recording formatter); None when no impl is found"""
    t = ty.strip()
    while t.startswith('&'): t = t[1:].strip(); 
    v = ref
    while isinstance(v, Ref) and isinstance(M.get(v.cell, v.path), Ref): v = M.get(v.cell, v.path)
    key = M.prog.resolve(fr.item.crate, '<%s as std::fmt::Display>::fmt' % t)
    if key is None or not M.prog.items[key].blocks: return None
    f = Cell(Agg('fmt::Formatter', [Str([])]))
    r = M.call_fn(key, [v if isinstance(v, Ref) else Ref(Cell(v)), Ref(f)])
    return f.v.f[0] if isinstance(f.v.f[0], SymStr) else list(f.v.f[0].b)
@reg(r'^<.* as std::string::ToString>::to_string$|^<.* as std::string::SpecToString>::spec_to_string$')
def _to_string_display(M, fr, n, a):
    m = re.match(r'^<(.*) as std::string::(Spec)?ToString>::', n); ty = m.group(1)
    if fr.generics and ty in fr.generics: ty = fr.generics[ty]
    v = M.deref(a[0])
    if isinstance(v, SymStr): return v
    if isinstance(v, Str): return Str(list(v.b))
    t = ty.lstrip('&').strip()
    if t in INT_W and t not in ('bool', 'char'): return Str(render_int(M, v, t))
    if t == 'char': return Str(encode_char(M, v))
    if t == 'bool':
        b = simp(v) if is_sym(v) else v
        if is_sym(b): b = M.branch(tobool(b))
        return Str('true' if b else 'false')
    r = user_display(M, fr, ty, a[0])
    if r is None: raise Unsupported('to_string of ' + ty)
    return r if isinstance(r, SymStr) else Str(r)
@reg(r"^std::fmt::Formatter::<'_>::write_str$|^std::fmt::Formatter::write_str$|^<std::fmt::Formatter<'_> as std::fmt::Write>::write_str$|^<str as std::fmt::Display>::fmt$|^<std::string::String as std::fmt::Display>::fmt$|^std::fmt::Formatter::<'_>::pad$|^std::fmt::Formatter::pad$")
def _fmt_write_str(M, fr, n, a):
    if n.endswith('::fmt'): s_, f = as_str(M, a[0]), D(M, a[1])
    else: f, s_ = D(M, a[0]), as_str(M, a[1])
    if not (isinstance(f, Agg) and f.name == 'fmt::Formatter'): raise Unsupported('formatter %r' % (f,))
    if isinstance(s_, SymStr):
        f.f[0] = s_ if (isinstance(f.f[0], Str) and not f.f[0].b) else SymStr(M.fresh_bv('fmt', 32)); return ok(UNIT)
    if isinstance(f.f[0], SymStr):
        f.f[0] = SymStr(M.fresh_bv('fmt', 32)); return ok(UNIT)
    f.f[0].b.extend(s_.b); return ok(UNIT)
@reg(r"^std::fmt::Formatter::<'_>::write_fmt$|^std::fmt::Formatter::write_fmt$|^<std::fmt::Formatter<'_> as std::fmt::Write>::write_fmt$")
def _fmt_write_fmt(M, fr, n, a):
    f = D(M, a[0])
    if not (isinstance(f, Agg) and f.name == 'fmt::Formatter'): raise Unsupported('formatter %r' % (f,))
    r = _fmt_format(M, fr, n, [a[1]])
    if isinstance(r, SymStr) or isinstance(f.f[0], SymStr):
        f.f[0] = SymStr(M.fresh_bv('fmt', 32)); return ok(UNIT)        # opaque text: the formatter's content is an unconstrained string from here on
    if not isinstance(r, Str): raise Unsupported('opaque format arguments written to a formatter')
    f.f[0].b.extend(r.b); return ok(UNIT)
@reg(r"^std::fmt::Formatter::<'_>::write_char$|^std::fmt::Formatter::write_char$|^<char as std::fmt::Display>::fmt$")
def _fmt_write_char(M, fr, n, a):
    if n.endswith('::fmt'): c, f = D(M, a[0]), D(M, a[1])
    else: f, c = D(M, a[0]), a[1]
    f.f[0].b.extend(encode_char(M, c)); return ok(UNIT)
@reg(r'^<(u8|u16|u32|u64|usize|u128|i8|i16|i32|i64|i128|isize) as std::fmt::Display>::fmt$')
def _int_display(M, fr, n, a):
    ty = re.match(r'^<(\w+) as', n).group(1); f = D(M, a[1])
    f.f[0].b.extend(render_int(M, D(M, a[0]), ty)); return ok(UNIT)
@reg(r'^std::fmt::format$|^alloc::fmt::format$')
def _fmt_format(M, fr, n, a):
    A = a[0]
    if not (isinstance(A, Agg) and A.name == 'fmt::Arguments'): return SymStr(M.fresh_bv('fmt', 32))
    kind = A.f[0][0]
    if kind == 'str': return Str(list(A.f[0][1].b))
    if kind != 'tmpl': return SymStr(M.fresh_bv('fmt', 32))
    t = A.f[0][1]; args = A.f[1]; out = []; i = 0; ai = 0
    while i < len(t):
        b = t[i]
        if is_sym(b): return SymStr(M.fresh_bv('fmt', 32))
        if b == 0: break
        if b < 0x80:
            out.extend(t[i + 1:i + 1 + b]); i += 1 + b; continue
        if b & 0xC0 != 0xC0: return SymStr(M.fresh_bv('fmt', 32))
        opts = b & 0x3F; i += 1; fill = 32; align = 0; width = None
        if opts & 1:
            flags = t[i] | (t[i + 1] << 8) | (t[i + 2] << 16) | (t[i + 3] << 24); i += 4
            fill = flags & 0x1FFFFF; align = (flags >> 29) & 3
            if flags & 0x07E00000: return SymStr(M.fresh_bv('fmt', 32))      # sign/alternate/zero-pad/debug-hex flags (bits 21..26): not modelled; bits 27/28 = width/precision present
        if opts & 2: width = t[i] | (t[i + 1] << 8); i += 2
        if opts & 4: return SymStr(M.fresh_bv('fmt', 32))
        if opts & 8: ai = t[i] | (t[i + 1] << 8); i += 2
        if ai >= len(args): return SymStr(M.fresh_bv('fmt', 32))
        r = render_arg(M, fr, args[ai]); ai += 1
        if r is None or isinstance(r, SymStr): return SymStr(M.fresh_bv('fmt', 32))
        if width is not None and len(r) < width:
            pad = list(chr(fill).encode()) * (width - len(r))
            isnum = True
            # default alignment: numbers right, everything else left; 0=left 1=right 2=center (as encoded by rustc)
            if align == 1 or (align == 3 and isnum): r = pad + r
            elif align == 0 and (opts & 1): r = r + pad
            elif align == 2: r = pad[:len(pad) // 2] + r + pad[len(pad) // 2:]
            else: r = pad + r
        out.extend(r)
    return Str(out)
@reg(r'^<(u8|u16|u32|u64|usize|u128|i8|i16|i32|i64|i128|isize) as std::string::ToString>::to_string$|^<(u8|u16|u32|u64|usize|u128|i8|i16|i32|i64|i128|isize) as std::string::SpecToString>::spec_to_string$')
def _int_to_string(M, fr, n, a):
    ty = re.match(r'^<(\w+) as', n).group(1)
    return Str(render_int(M, M.deref(a[0]), ty))

@reg(r'^log::__private_api::|^log::max_level$|^<log::Level as std::cmp::PartialOrd<log::LevelFilter>>::le$|^log::logger$')
def _log(M, fr, n, a):
    if n.endswith('::le'): return False          # assumption: logging disabled
    if n.endswith('max_level'): return EnumV('LevelFilter', 0, [])
    return UNIT

# ------------------------------------------------------------------ hash maps / sets with symbolic keys (association lists)
def hm_lookup(M, fr, hm, key):
    """fork on key equality; returns index or -1"""
    conds = []; neg = []
    for e in hm.items:
        eq = val_eq(M, fr, e.f[0], key)
        conds.append(b_and(eq, *neg)); neg.append(b_not(eq))
    conds.append(b_and(*neg) if neg else True)
    cs = [tobool(c) if isinstance(c, bool) else c for c in conds]
    i = M.choose([simp(c) if is_sym(c) else c for c in conds])
    return i if i < len(hm.items) else -1
@reg(r'^std::collections::(HashMap|BTreeMap)::(<.*>::)?new$|^std::collections::(HashSet|BTreeSet)::(<.*>::)?new$|^std::collections::(HashMap|HashSet)::(<.*>::)?with_capacity$')
def _hm_new(M, fr, n, a): return VecV()
@reg(r'^std::collections::(HashMap|BTreeMap)::(get|get_mut)$')
def _hm_get(M, fr, n, a):
    hm = D(M, a[0]); i = hm_lookup(M, fr, hm, a[1])
    if i < 0: return none()
    r = a[0]
    while isinstance(M.get(r.cell, r.path), Ref): r = M.get(r.cell, r.path)
    return some(Ref(r.cell, r.path + (('i', i), ('f', 1))))
@reg(r'^<std::collections::(HashMap|BTreeMap)<.*> as std::ops::Index<.*>>::index$')
def _hm_index(M, fr, n, a):
    # map[&key]: a reference to the value, panics when the key is absent
    hm = D(M, a[0]); i = hm_lookup(M, fr, hm, a[1])
    if i < 0: raise Panic('key not found in map (Index on a HashMap)')
    r = a[0]
    while isinstance(M.get(r.cell, r.path), Ref): r = M.get(r.cell, r.path)
    return Ref(r.cell, r.path + (('i', i), ('f', 1)))
@reg(r'^std::collections::(HashMap|BTreeMap)::contains_key$')
def _hm_contains_key(M, fr, n, a):
    hm = D(M, a[0]); res = False
    for e in hm.items: res = b_or(res, val_eq(M, fr, e.f[0], a[1]))
    return res
@reg(r'^std::collections::(HashMap|BTreeMap)::insert$')
def _hm_insert(M, fr, n, a):
    hm = D(M, a[0]); i = hm_lookup(M, fr, hm, a[1])
    if i < 0:
        hm.items.append(Agg('()', [a[1], a[2]])); return none()
    old = hm.items[i].f[1]; hm.items[i].f[1] = a[2]; return some(old)
@reg(r'^std::collections::(HashMap|BTreeMap)::remove$')
def _hm_remove(M, fr, n, a):
    hm = D(M, a[0]); i = hm_lookup(M, fr, hm, a[1])
    if i < 0: return none()
    return some(hm.items.pop(i).f[1])
@reg(r'^std::collections::(HashSet|BTreeSet)::insert$')
def _hs_insert(M, fr, n, a):
    hs = D(M, a[0])
    conds = []
    for e in hs.items:
        if M.branch(val_eq(M, fr, e, a[1])): return False
    hs.items.append(a[1]); return True
@reg(r'^std::collections::(HashSet|BTreeSet)::replace$')
def _hs_replace(M, fr, n, a):
    # replace(value): the equal element already in the set (if any) is handed back and the new value takes its place
    hs = D(M, a[0])
    for i, e in enumerate(hs.items):
        if M.branch(val_eq(M, fr, e, a[1])):
            hs.items[i] = a[1]; return some(e)
    hs.items.append(a[1]); return none()
@reg(r'^std::collections::(HashSet|BTreeSet)::take$')
def _hs_take(M, fr, n, a):
    hs = D(M, a[0])
    for i, e in enumerate(hs.items):
        if M.branch(val_eq(M, fr, e, a[1])):
            hs.items.pop(i); return some(e)
    return none()
@reg(r'^std::collections::(HashSet|BTreeSet)::contains$')
def _hs_contains(M, fr, n, a):
    res = False
    for e in D(M, a[0]).items: res = b_or(res, val_eq(M, fr, e, a[1]))
    return res
def hash_order(M, items, tag):
    """iteration order of a hash container: a nondeterministic permutation (fresh hash seed per run)"""
    items = list(items); out = []
    while len(items) > 1:
        sel = M.fresh_bv('hashorder_' + tag, 8)
        k = M.choose([sel == j for j in range(len(items))])
        out.append(items.pop(k))
    return out + items
@reg(r'^std::collections::HashMap::(values|values_mut|into_values)$')
def _hm_values(M, fr, n, a):
    hm = D(M, a[0])
    if n.endswith('into_values'): return IterV(hash_order(M, [e.f[1] for e in hm.items], 'values'))
    r = a[0]
    while isinstance(M.get(r.cell, r.path), Ref): r = M.get(r.cell, r.path)
    refs = [Ref(r.cell, r.path + (('i', i), ('f', 1))) for i in range(len(hm.items))]
    return IterV(hash_order(M, refs, 'values'), 'ref')
@reg(r'^std::collections::HashMap::keys$')
def _hm_keys(M, fr, n, a):
    hm = D(M, a[0]); r = a[0]
    while isinstance(M.get(r.cell, r.path), Ref): r = M.get(r.cell, r.path)
    refs = [Ref(r.cell, r.path + (('i', i), ('f', 0))) for i in range(len(hm.items))]
    return IterV(hash_order(M, refs, 'keys'), 'ref')
@reg(r'^std::collections::HashMap::(iter|iter_mut)$|^<&(mut )?std::collections::HashMap<.*> as std::iter::IntoIterator>::into_iter$')
def _hm_iter(M, fr, n, a):
    hm = D(M, a[0]); r = a[0]
    while isinstance(M.get(r.cell, r.path), Ref): r = M.get(r.cell, r.path)
    items = [Agg('()', [Ref(r.cell, r.path + (('i', i), ('f', 0))), Ref(r.cell, r.path + (('i', i), ('f', 1)))]) for i in range(len(hm.items))]
    return IterV(hash_order(M, items, 'iter'), 'ref')
@reg(r'^std::collections::HashSet::iter$|^<&std::collections::HashSet<.*> as std::iter::IntoIterator>::into_iter$')
def _hs_iter(M, fr, n, a):
    return IterV(hash_order(M, elem_refs(M, a[0]), 'set'), 'ref')
@reg(r'^std::collections::(HashMap|BTreeMap)::entry$')
def _hm_entry(M, fr, n, a):
    # entry(key): occupied (index of the equal key; forks on key equality) or vacant
    hm = D(M, a[0]); i = hm_lookup(M, fr, hm, a[1])
    r = a[0]
    while isinstance(M.get(r.cell, r.path), Ref): r = M.get(r.cell, r.path)
    return Agg('hm::Entry', [r, i, a[1]])
@reg(r'^std::collections::(hash_map|btree_map)::Entry::<.*>::(or_insert_with|or_insert|or_default|or_insert_with_key)(::<.*>)?$|^std::collections::(hash_map|btree_map)::Entry::(or_insert_with|or_insert|or_default|or_insert_with_key)$')
def _hm_entry_or_insert(M, fr, n, a):
    e = a[0]; r, i, key = e.f; hm = M.get(r.cell, r.path); op = re.search(r'Entry(?:::<.*>)?::(\w+)', n).group(1)
    if i < 0:
        if op == 'or_insert': v = a[1]
        elif op == 'or_insert_with': v = M.call_closure(fr, a[1], [])
        elif op == 'or_insert_with_key': v = M.call_closure(fr, a[1], [Ref(Cell(key))])
        else:
            m = re.search(r'Entry::<[^,]*, (.*?)(?:, .*)?>::or_default', M.cur_callee); t = m.group(1) if m else ''
            v = 0 if t in INT_W else (VecV() if t.startswith(('std::vec::Vec', 'std::collections')) else (Str('') if t == 'std::string::String' else None))
            if v is None: raise Unsupported('or_default of ' + t)
        hm.items.append(Agg('()', [key, v])); i = len(hm.items) - 1
    return Ref(r.cell, r.path + (('i', i), ('f', 1)))
@reg(r'^std::collections::hash_map::Entry|^std::collections::btree_map::Entry')
def _hm_entry_other(M, fr, n, a): raise Unsupported('HashMap entry API: ' + n)

# ------------------------------------------------------------------ petgraph by contract
@reg(r'^petgraph::(prelude|stable_graph)::StableGraph::new$|^petgraph::stable_graph::StableGraph::<.*>::new$|^petgraph::(prelude|stable_graph)::StableGraph::with_capacity$')
def _g_new(M, fr, n, a): return Agg('Graph', [VecV(), VecV()])
@reg(r'^petgraph::(prelude|stable_graph)::StableGraph::add_node$')
def _g_add_node(M, fr, n, a):
    g = D(M, a[0]); i = len(g.f[0].items); g.f[0].items.append(a[1]); return Agg('NodeIndex', [i])
@reg(r'^petgraph::(prelude|stable_graph)::StableGraph::add_edge$')
def _g_add_edge(M, fr, n, a):
    g = D(M, a[0]); u = simp(a[1].f[0]); v = simp(a[2].f[0])
    if is_sym(u) or is_sym(v): raise Unsupported('symbolic node index')
    g.f[1].items.append((u, v)); return Agg('EdgeIndex', [len(g.f[1].items) - 1])
@reg(r'^petgraph::algo::toposort$')
def _toposort(M, fr, n, a):
    """contract: Ok(any order consistent with the edges) or Err(Cycle(node on a cycle)) iff cyclic.
    Every tie-break is a nondeterministic choice, so all orders petgraph may return are covered."""
    g = D(M, a[0]); nodes = list(range(len(g.f[0].items))); edges = list(g.f[1].items)
    # cyclic?
    remaining = set(nodes); E = set(edges)
    changed = True
    while changed:
        changed = False
        for x in list(remaining):
            if not any(v == x and u in remaining for (u, v) in E):
                remaining.discard(x); changed = True
    if remaining:
        # nodes that can never be scheduled: on a cycle or downstream of one; report one on a cycle
        oncyc = [x for x in sorted(remaining) if _reaches(x, x, E)]
        sel = M.fresh_bv('cyclenode', 8)
        k = M.choose([sel == j for j in range(len(oncyc))])
        return err(Agg('Cycle', [Agg('NodeIndex', [oncyc[k]])]))
    order = []; todo = set(nodes)
    while todo:
        ready = sorted(x for x in todo if not any(v == x and u in todo for (u, v) in E))
        if len(ready) > 1 and not M.__dict__.get('toposort_deterministic'):
            sel = M.fresh_bv('topo', 8)
            k = M.choose([sel == j for j in range(len(ready))])
        else: k = 0
        order.append(ready[k]); todo.discard(ready[k])
    return ok(VecV([Agg('NodeIndex', [x]) for x in order]))
def _reaches(src, dst, E):
    seen = set(); st = [v for (u, v) in E if u == src]
    while st:
        x = st.pop()
        if x == dst: return True
        if x in seen: continue
        seen.add(x); st.extend(v for (u, v) in E if u == x)
    return False
@reg(r'^petgraph::algo::Cycle::node_id$|^petgraph::algo::Cycle::<.*>::node_id$')
def _cyc_node(M, fr, n, a): return D(M, a[0]).f[0]
@reg(r'^<petgraph::(prelude|stable_graph)::StableGraph<.*> as std::ops::Index<.*NodeIndex.*>>::index$')
def _g_index(M, fr, n, a):
    r = a[0]
    while isinstance(M.get(r.cell, r.path), Ref): r = M.get(r.cell, r.path)
    i = simp(a[1].f[0])
    return Ref(r.cell, r.path + (('f', 0), ('i', i)))
@reg(r'^petgraph::(prelude|stable_graph)::StableGraph::node_weight$')
def _g_node_weight(M, fr, n, a):
    r = a[0]
    while isinstance(M.get(r.cell, r.path), Ref): r = M.get(r.cell, r.path)
    i = simp(a[1].f[0]); g = D(M, r)
    if i >= len(g.f[0].items): return none()
    return some(Ref(r.cell, r.path + (('f', 0), ('i', i))))

@reg(r'^ironplc_problems::Problem::(code|message)$')
def _problem(M, fr, n, a):
    p = D(M, a[0])
    names = M.prog.enums.get('Problem')
    nm = names[p.disc] if names and not is_sym(p.disc) else '?'
    return Ref(Cell(Str('%s:%s' % (n.split('::')[-1], nm))))


@reg(r'^core::str::<impl str>::encode_utf16$')
def _encode_utf16(M, fr, n, a): return Agg('EncodeUtf16', [as_str(M, a[0])])
def utf16_len(bs):
    """number of UTF-16 code units of valid UTF-8 bytes: one per non-continuation byte, plus one per four-byte lead"""
    tot = 0
    for b in bs:
        if isinstance(b, int): tot = tot + (0 if (b & 0xC0) == 0x80 else (2 if b >= 0xF0 else 1))
        else: tot = tot + z3.If((b & 0xC0) == 0x80, z3.BitVecVal(0, 64), z3.If(z3.UGE(b, 0xF0), z3.BitVecVal(2, 64), z3.BitVecVal(1, 64)))
    return simp(tot) if not isinstance(tot, int) else tot
def char_len(bs):
    tot = 0
    for b in bs:
        if isinstance(b, int): tot = tot + (0 if (b & 0xC0) == 0x80 else 1)
        else: tot = tot + z3.If((b & 0xC0) == 0x80, z3.BitVecVal(0, 64), z3.BitVecVal(1, 64))
    return simp(tot) if not isinstance(tot, int) else tot
@reg(r'^core::str::<impl str>::lines$')
def _str_lines(M, fr, n, a):
    """str::lines: split on \\n, a trailing \\r of each line is stripped, no final empty line"""
    s = as_str(M, a[0]); out = []; cur = []
    for b in s.b:
        if M.branch(v_eq(b, 10)):
            if cur and M.branch(v_eq(cur[-1], 13)): cur = cur[:-1]
            out.append(Ref(Cell(Str(cur)))); cur = []
        else: cur.append(b)
    if cur:
        # (a trailing bare \r on the last line is also stripped since Rust 1.? - documented behaviour: "\r\n" or "\n" only; keep)
        out.append(Ref(Cell(Str(cur))))
    return IterV(out)
@reg(r'^std::str::<impl str>::repeat$|^alloc::str::<impl str>::repeat$')
def _str_repeat(M, fr, n, a):
    s = as_str(M, a[0]); k = simp(a[1])
    if is_sym(k): raise Unsupported('symbolic repeat count')
    return Str(list(s.b) * k)
@reg(r'^std::slice::<impl \[.*\]>::join$|^alloc::slice::<impl \[.*\]>::join$|^std::slice::<impl \[.*\]>::concat$')
def _slice_join(M, fr, n, a):
    parts = [as_str(M, x) for x in seq(M, a[0])]
    if any(isinstance(p, SymStr) for p in parts):
        # joining opaque names gives an opaque text (an uninterpreted function of the parts)
        cnt = M.__dict__.setdefault('_opaque_cat', [0]); cnt[0] += 1
        return SymStr(z3.BitVec('joined%d' % cnt[0], 32))
    sep = as_str(M, a[1]).b if len(a) > 1 else []
    out = []
    for i, p in enumerate(parts):
        if i: out.extend(sep)
        out.extend(p.b)
    return Str(out)
@reg(r'^core::str::<impl str>::split$')
def _str_split(M, fr, n, a):
    s = as_str(M, a[0]); p = _pat_bytes(M, a[1]); out = []; cur = []; i = 0
    while i < len(s.b):
        if i + len(p) <= len(s.b) and M.branch(_match_at(s, i, p)):
            out.append(Ref(Cell(Str(cur)))); cur = []; i += len(p)
        else: cur.append(s.b[i]); i += 1
    out.append(Ref(Cell(Str(cur))))
    return IterV(out)
def _char_pred(M, fr, pat):
    """a pattern that tests one character (char, closure FnMut(char) -> bool, slice/array of chars) as a Python predicate; None for string patterns"""
    p = simp(pat) if not isinstance(pat, (Ref, Str, SymStr, Agg, EnumV, VecV, FnItem)) else pat
    if isinstance(p, int) or is_sym(p): return lambda c: v_eq(c, p)
    v = M.deref(p)
    while isinstance(v, Ref): v = M.deref(v)
    if isinstance(v, (Str, SymStr)): return None
    if isinstance(v, FnItem) or (isinstance(v, Agg) and v.name.startswith('{closure@')): return lambda c: M.call_closure(fr, p, [c])
    if isinstance(v, VecV): return lambda c: b_or(*[v_eq(c, x) for x in v.items])
    if isinstance(v, Agg) and v.name.startswith('['): return lambda c: b_or(*[v_eq(c, x) for x in v.f])
    raise Unsupported('pattern %r' % (v,))
def _char_at_end(M, s, end):
    """(start, code point) of the character that ends at byte offset `end` of valid UTF-8 text"""
    for k in (1, 2, 3, 4):
        if end - k < 0: break
        b = s.b[end - k]
        lead = ((b & 0xC0) != 0x80) if isinstance(b, int) else M.branch((b & 0xC0) != 0x80)
        if lead:
            it = Agg('Chars', [Str(s.b[end - k:end]), 0]); okk, c = chars_next(M, None, it)
            return end - k, c
    raise Unsupported('text is not valid UTF-8')
@reg(r'^core::str::<impl str>::(trim_matches|trim_end_matches|trim_start_matches)$')
def _str_trim_matches(M, fr, n, a):
    s = as_str(M, a[0]); op = n.rsplit('::', 1)[1]
    pred = _char_pred(M, fr, a[1])
    if pred is None:
        if op == 'trim_matches': raise Unsupported('trim_matches with a string pattern')
        return _str_strip(M, fr, n, a)
    if isinstance(s, SymStr): raise Unsupported('trim of an opaque string')
    lo, hi = 0, len(s.b)
    if op in ('trim_matches', 'trim_start_matches'):
        while lo < hi:
            it = Agg('Chars', [Str(s.b[lo:hi]), 0]); okk, c = chars_next(M, fr, it)
            if not M.branch(tobool_model(pred(c))): break
            lo += it.f[1]
    if op in ('trim_matches', 'trim_end_matches'):
        while lo < hi:
            st, c = _char_at_end(M, Str(s.b[lo:hi]), hi - lo)
            if not M.branch(tobool_model(pred(c))): break
            hi = lo + st
    return Ref(Cell(Str(s.b[lo:hi])))
def tobool_model(v):
    return v
@reg(r'^core::str::<impl str>::(strip_prefix|strip_suffix)$')
def _str_strip(M, fr, n, a):
    s = as_str(M, a[0]); p = _pat_bytes(M, a[1]); op = n.rsplit('::', 1)[1]
    if op == 'strip_prefix':
        return some(Ref(Cell(Str(s.b[len(p):])))) if M.branch(_match_at(s, 0, p)) else none()
    if op == 'strip_suffix':
        if len(p) > len(s.b): return none()
        return some(Ref(Cell(Str(s.b[:len(s.b) - len(p)])))) if M.branch(_match_at(s, len(s.b) - len(p), p)) else none()
    b = list(s.b)
    if op == 'trim_end_matches':
        while len(b) >= len(p) and p and M.branch(_match_at(Str(b), len(b) - len(p), p)): b = b[:len(b) - len(p)]
    else:
        while len(b) >= len(p) and p and M.branch(_match_at(Str(b), 0, p)): b = b[len(p):]
    return Ref(Cell(Str(b)))
@reg(r'^std::string::String::(truncate|pop|clear|insert_str|insert)$')
def _string_mut(M, fr, n, a):
    s = as_str(M, a[0]); op = n.rsplit('::', 1)[1]
    if op == 'clear': s.b = []; return UNIT
    if op == 'truncate' and not isinstance(s, SymStr):
        k = simp(a[1]); s.b = s.b[:k]; return UNIT
    if isinstance(s, SymStr):
        if op == 'truncate':
            # cutting an opaque text at a fixed byte: nothing happens when it is short enough; otherwise the byte is a character boundary or it is not (then String::truncate panics)
            ln = _str_len(M, fr, 'std::string::String::len', [a[0]]); k = simp(a[1])
            if M.branch(z3.ULE(ln, tobv(k, 64))): return UNIT
            if not M.branch(M.fresh_bool('cut_is_char_boundary')): raise Panic('assertion failed: self.is_char_boundary(new_len)')
            s.t = z3.BitVec('truncated_' + str(s.t)[:40], s.t.size()) if is_sym(s.t) else s.t
            return UNIT
        raise Unsupported('String::' + op + ' on an opaque string')
    if op == 'pop':
        if not s.b: return none()
        st, c = _char_at_end(M, s, len(s.b)); s.b = s.b[:st]; return some(c)
    k = simp(a[1])
    if is_sym(k): raise Unsupported('symbolic index in String::' + op)
    if k > len(s.b): raise Panic('assertion failed: self.is_char_boundary(idx)')
    if 0 < k < len(s.b) and not M.branch((s.b[k] & 0xC0) != 0x80): raise Panic('assertion failed: self.is_char_boundary(idx)')
    ins = encode_char(M, a[2]) if op == 'insert' else list(as_str(M, a[2]).b)
    s.b = s.b[:k] + list(ins) + s.b[k:]; return UNIT

@reg(r'^<std::vec::Vec<.*> as std::ops::Index<std::ops::RangeFull>>::index$|^<\[.*\] as std::ops::Index<std::ops::RangeFull>>::index$')
def _index_full(M, fr, n, a): return a[0]

# vec![a, b, ..] lowering in current nightlies: Box::new_uninit -> aligned/non-null asserts on the raw pointer -> write of the
# array through (*ptr).1.0.0 -> box_assume_init_into_vec_unsafe
@reg(r'^std::boxed::Box::<\[.*\]>::new_uninit$|^std::boxed::Box::new_uninit$')
def _box_new_uninit(M, fr, n, a):
    return Ref(Cell(Agg('MaybeUninit', [UNIT, Agg('ManuallyDrop', [Agg('MaybeDangling', [None])])])))
@reg(r'^std::boxed::box_assume_init_into_vec_unsafe$')
def _box_into_vec(M, fr, n, a):
    x = M.deref(a[0]); arr = x.f[1].f[0].f[0]
    if arr is None: raise Unsupported('uninitialised box turned into vec')
    return VecV(list(arr.f))

def _g_nodes(a):
    u = simp(a.f[0]); 
    if is_sym(u): raise Unsupported('symbolic node index')
    return u
@reg(r'^petgraph::(prelude|stable_graph)::StableGraph::(<.*>::)?(find_edge|contains_edge)$')
def _g_find_edge(M, fr, n, a):
    g = D(M, a[0]); u = _g_nodes(a[1]); v = _g_nodes(a[2])
    for i, e in enumerate(g.f[1].items):
        if e == (u, v): return True if n.endswith('contains_edge') else some(Agg('EdgeIndex', [i]))
    return False if n.endswith('contains_edge') else none()
@reg(r'^petgraph::(prelude|stable_graph)::StableGraph::(<.*>::)?find_edge_undirected$')
def _g_find_edge_undirected(M, fr, n, a):
    g = D(M, a[0]); u = _g_nodes(a[1]); v = _g_nodes(a[2])
    for i, e in enumerate(g.f[1].items):
        if e == (u, v): return some(Agg('()', [Agg('EdgeIndex', [i]), EnumV('Direction', 0, [])]))
    for i, e in enumerate(g.f[1].items):
        if e == (v, u): return some(Agg('()', [Agg('EdgeIndex', [i]), EnumV('Direction', 1, [])]))
    return none()
@reg(r'^petgraph::(prelude|stable_graph)::StableGraph::(<.*>::)?update_edge$')
def _g_update_edge(M, fr, n, a):
    g = D(M, a[0]); u = _g_nodes(a[1]); v = _g_nodes(a[2])
    for i, e in enumerate(g.f[1].items):
        if e == (u, v): return Agg('EdgeIndex', [i])
    g.f[1].items.append((u, v)); return Agg('EdgeIndex', [len(g.f[1].items) - 1])
@reg(r'^petgraph::(prelude|stable_graph)::StableGraph::(<.*>::)?(node_count|edge_count)$')
def _g_count(M, fr, n, a):
    g = D(M, a[0]); return len(g.f[0].items) if n.endswith('node_count') else len(g.f[1].items)
@reg(r'^petgraph::algo::is_cyclic_directed$')
def _g_is_cyclic(M, fr, n, a):
    g = D(M, a[0]); E = set(g.f[1].items)
    return any(_reaches(x, x, E) for x in range(len(g.f[0].items)))


@reg(r'^core::str::<impl str>::parse$')
def _str_parse(M, fr, n, a):
    """str::parse::<uN/iN> by contract: exact value or Err (empty, non-digit, overflow)"""
    m = re.search(r'::parse::<(\w+)>$', M.cur_callee)
    ty = m.group(1) if m else None
    s_ = as_str(M, a[0])
    if ty not in INT_W or ty in ('bool', 'char'): raise Unsupported('str::parse::<%s>' % ty)
    w = INT_W[ty]; sg = ty[0] == 'i'
    bs = list(s_.b); neg = False
    E = lambda: err(Agg('ParseIntError', []))
    if not bs: return E()
    b0 = bs[0]
    if isinstance(b0, int):
        if b0 == 43: bs = bs[1:]
        elif b0 == 45 and sg: bs = bs[1:]; neg = True
    else:
        if M.branch(b0 == 43): bs = bs[1:]
        elif sg and M.branch(b0 == 45): bs = bs[1:]; neg = True
    if not bs: return E()
    digs = []
    for b in bs:
        if isinstance(b, int):
            if not (48 <= b <= 57): return E()
            digs.append(b - 48)
        else:
            if not M.branch(z3.And(z3.UGE(b, 48), z3.ULE(b, 57))): return E()
            digs.append(b - 48)
    if all(isinstance(d, int) for d in digs):
        v = int(''.join(str(d) for d in digs)); v = -v if neg else v
        lo = -(1 << (w - 1)) if sg else 0; hi = (1 << (w - 1)) - 1 if sg else (1 << w) - 1
        return ok(v) if lo <= v <= hi else E()
    W = max(w + 8, 4 * len(digs) + 8)          # wide enough for any digit string of this length: no wrap in the accumulator
    acc = z3.BitVecVal(0, W)
    lim = (1 << (w - 1)) - 1 if sg else (1 << w) - 1
    for d in digs:
        dd = z3.BitVecVal(d, W) if isinstance(d, int) else (z3.ZeroExt(W - d.size(), d) if d.size() < W else d)
        acc = acc * 10 + dd
    over = z3.UGT(acc, z3.BitVecVal(lim + (1 if (sg and neg) else 0), W))
    if M.branch(over): return E()
    v = z3.Extract(w - 1, 0, acc)
    return ok(-v if neg else v)
@reg(r'^core::num::<impl (u8|u16|u32|u64|u128|usize|i8|i16|i32|i64|i128)>::from_str_radix$')
def _from_str_radix(M, fr, n, a):
    m = re.match(r'^core::num::<impl (\w+)>::from_str_radix$', n); ty = m.group(1)
    s_ = as_str(M, a[0]); radix = simp(a[1]); w = INT_W[ty]
    if is_sym(radix) or ty[0] == 'i': raise Unsupported('from_str_radix variant')
    E = lambda: err(Agg('ParseIntError', []))
    bs = list(s_.b)
    if not bs: return E()
    if isinstance(bs[0], int) and bs[0] == 43: bs = bs[1:]
    if not bs: return E()
    W = max(w + 8, len(bs) * radix.bit_length() + 8); acc = 0; sym = False      # wide enough for any digit string of this length: the accumulator never wraps
    for b in bs:
        if isinstance(b, int):
            c = chr(b)
            if not c.isalnum(): return E()
            d = int(c, 36)
            if d >= radix: return E()
        else:
            isd = z3.And(z3.UGE(b, 48), z3.ULE(b, min(57, 48 + radix - 1)))
            up = z3.And(z3.UGE(b, 65), z3.ULE(b, 65 + radix - 11)) if radix > 10 else z3.BoolVal(False)
            lo = z3.And(z3.UGE(b, 97), z3.ULE(b, 97 + radix - 11)) if radix > 10 else z3.BoolVal(False)
            if not M.branch(z3.Or(isd, up, lo)): return E()
            d = z3.ZeroExt(W - 8, z3.If(isd, b - 48, z3.If(up, b - 55, b - 87))); sym = True      # no fork on the digit class
        acc = (acc * radix + d) if not (isinstance(acc, int) and isinstance(d, int)) else acc * radix + d
        if not isinstance(acc, int) and acc.size() != W: acc = z3.ZeroExt(W - acc.size(), acc)
    if isinstance(acc, int): return ok(acc) if acc < (1 << w) else E()
    if M.branch(z3.UGT(acc, z3.BitVecVal((1 << w) - 1, W))): return E()
    return ok(z3.Extract(w - 1, 0, acc))

@reg(r'^std::option::Option::<std::result::Result<.*>>::transpose$|^std::option::Option::transpose$')
def _opt_transpose(M, fr, n, a):
    o = a[0]
    if disc_of(M, o) == 0: return ok(none())
    r = o.f[0]
    return ok(some(r.f[0])) if disc_of(M, r) == 0 else err(r.f[0])
@reg(r'^std::result::Result::<std::option::Option<.*>, .*>::transpose$|^std::result::Result::transpose$')
def _res_transpose(M, fr, n, a):
    r = a[0]
    if disc_of(M, r) == 1: return some(err(r.f[0]))
    o = r.f[0]
    return some(ok(o.f[0])) if disc_of(M, o) == 1 else none()

@reg(r'^std::collections::(HashMap|BTreeMap)::get_key_value$')
def _hm_get_key_value(M, fr, n, a):
    hm = D(M, a[0]); i = hm_lookup(M, fr, hm, a[1])
    if i < 0: return none()
    r = a[0]
    while isinstance(M.get(r.cell, r.path), Ref): r = M.get(r.cell, r.path)
    return some(Agg('()', [Ref(r.cell, r.path + (('i', i), ('f', 0))), Ref(r.cell, r.path + (('i', i), ('f', 1)))]))

# ------------------------------------------------------------------ time crate by contract: Duration = exact signed nanoseconds
# (python int when concrete, 128-bit signed bit-vector when symbolic); constructors/ops panic exactly when the seconds leave i64
I64_MIN, I64_MAX = -(1 << 63), (1 << 63) - 1
NS = 10 ** 9
def _dur(ns): return Agg('time::Duration', [ns])
def _sx128(v, srcw=64): return z3.SignExt(128 - v.size(), v) if v.size() < 128 else v
def _dur_check(M, ns, what):
    if not is_sym(ns):
        secs = (abs(ns) // NS) * (1 if ns >= 0 else -1)
        if not (I64_MIN <= secs <= I64_MAX): raise Panic(what)
        return
    # seconds = ns / 10^9 truncated toward zero must fit i64; stated as a range of ns so that no 128-bit division reaches the solver
    bad = z3.Or(ns < z3.BitVecVal(I64_MIN * NS - (NS - 1), 128), ns > z3.BitVecVal(I64_MAX * NS + (NS - 1), 128))
    if M.branch(bad): raise Panic(what)
@reg(r'^time::Duration::(seconds|milliseconds|microseconds|nanoseconds|minutes|hours|days|weeks)$|^time::duration::Duration::(seconds|milliseconds|microseconds|nanoseconds|minutes|hours|days|weeks)$')
def _dur_ctor(M, fr, n, a):
    unit = n.rsplit('::', 1)[1]
    k = {'nanoseconds': 1, 'microseconds': 10 ** 3, 'milliseconds': 10 ** 6, 'seconds': NS, 'minutes': 60 * NS, 'hours': 3600 * NS, 'days': 86400 * NS, 'weeks': 7 * 86400 * NS}[unit]
    v = simp(a[0])
    ns = v * k if not is_sym(v) else _sx128(v) * z3.BitVecVal(k, 128)
    _dur_check(M, ns, 'overflow constructing `time::Duration`')
    return _dur(ns)
def _dur_ns(x): return x.f[0]
def _to128(x): return x if is_sym(x) else z3.BitVecVal(x, 128)
@reg(r'^<time::Duration as std::ops::Add>::add$|^<time::duration::Duration as std::ops::Add>::add$')
def _dur_add(M, fr, n, a):
    x, y = _dur_ns(a[0]), _dur_ns(a[1])
    r = x + y if not (is_sym(x) or is_sym(y)) else _to128(x) + _to128(y)
    _dur_check(M, r, 'overflow when adding durations')
    return _dur(simp(r))
@reg(r'^<time::Duration as std::ops::Mul<i(32|64|8|16)>>::mul$|^<time::duration::Duration as std::ops::Mul<i(32|64|8|16)>>::mul$')
def _dur_mul(M, fr, n, a):
    k = simp(a[1]); x = _dur_ns(a[0])
    if is_sym(k): raise Unsupported('symbolic duration factor')
    r = x * k if not is_sym(x) else x * z3.BitVecVal(k, 128)
    _dur_check(M, r, 'overflow when multiplying duration')
    return _dur(simp(r))
@reg(r'^time::(duration::)?Duration::(whole_milliseconds|whole_nanoseconds|whole_microseconds|whole_seconds|is_negative|is_zero|is_positive|subsec_nanoseconds|as_seconds_f64|as_seconds_f32)$')
def _dur_get(M, fr, n, a):
    d = D(M, a[0]) if isinstance(a[0], Ref) else a[0]; ns = d.f[0]; op = n.rsplit('::', 1)[1]
    if op.startswith('as_seconds_f'): raise Unsupported('floating point view of a duration (floats are not encoded)')
    if is_sym(ns):
        def q(k):
            # signed division by a constant, truncating toward zero, through the division lemma (fresh quotient / remainder): no 128-bit divider for the solver
            ck = ('sdiv', ns.get_id(), k)
            if ck not in M._divcache:
                qq = M.fresh_bv('squot', 128); rr = M.fresh_bv('srem', 128); K = z3.BitVecVal(k, 128)
                lim = ((1 << 127) - 1) // k
                M.assume(z3.And(ns == qq * K + rr, rr > -K, rr < K, z3.Or(rr == 0, (rr < 0) == (ns < 0)), qq <= z3.BitVecVal(lim, 128), qq >= z3.BitVecVal(-lim, 128)))
                M._divcache[ck] = (qq, rr, ns)
            return M._divcache[ck][0]
        r = {'whole_nanoseconds': lambda: ns, 'whole_microseconds': lambda: q(10 ** 3), 'whole_milliseconds': lambda: q(10 ** 6), 'is_negative': lambda: ns < 0, 'is_zero': lambda: ns == 0, 'is_positive': lambda: ns > 0}.get(op)
        r = r() if r else None
        if op == 'whole_seconds': r = z3.Extract(63, 0, q(NS))
        if op == 'subsec_nanoseconds': q(NS); r = z3.Extract(31, 0, M._divcache[('sdiv', ns.get_id(), NS)][1])
        if r is None: raise Unsupported('duration accessor ' + op)
        return r
    q = lambda x, k: (abs(x) // k) * (1 if x >= 0 else -1)
    return {'whole_nanoseconds': ns, 'whole_microseconds': q(ns, 10 ** 3), 'whole_milliseconds': q(ns, 10 ** 6), 'whole_seconds': q(ns, NS),
            'is_negative': ns < 0, 'is_zero': ns == 0, 'is_positive': ns > 0, 'subsec_nanoseconds': ns - q(ns, NS) * NS}[op]
@reg(r'^<time::(duration::)?Duration as std::cmp::PartialEq>::eq$')
def _dur_eq(M, fr, n, a): return v_eq(D(M, a[0]).f[0], D(M, a[1]).f[0])
@reg(r'^<time::(duration::)?Duration as std::clone::Clone>::clone$')
def _dur_clone(M, fr, n, a): return _dur(D(M, a[0]).f[0])

@reg(r'^petgraph::visit::Dfs::<.*>::new(::<.*>)?$|^petgraph::visit::Dfs::new$')
def _dfs_new(M, fr, n, a):
    return Agg('Dfs', [VecV([_g_nodes(a[1])]), VecV([])])
@reg(r'^petgraph::visit::Dfs::<.*>::next(::<.*>)?$|^petgraph::visit::Dfs::next$')
def _dfs_next(M, fr, n, a):
    """documented behaviour: preorder depth-first traversal; the order among the successors of a node is unspecified
    (explored nondeterministically unless the machine is in deterministic mode, where petgraph's adjacency order is used)"""
    d = D(M, a[0]); g = D(M, a[1]); stack = d.f[0].items; seen = d.f[1].items
    while stack:
        node = stack.pop()
        if node in seen: continue
        seen.append(node)
        succ = [v for (u, v) in reversed(g.f[1].items) if u == node]
        succ = [v for v in succ if v not in seen]
        if len(succ) > 1 and not M.__dict__.get('toposort_deterministic'): succ = hash_order(M, succ, 'dfs')
        stack.extend(succ)
        return some(Agg('NodeIndex', [node]))
    return none()

@reg(r'^<(u8|u16|u32|u64|usize|u128|i8|i16|i32|i64|i128|isize) as std::convert::TryInto<(u8|u16|u32|u64|usize|u128|i8|i16|i32|i64|i128|isize)>>::try_into$')
def _int_try_into(M, fr, n, a):
    m = re.match(r'^<(\w+) as std::convert::TryInto<(\w+)>>::try_into$', n)
    return _int_try_from(M, fr, '<%s as std::convert::TryFrom<%s>>::try_from' % (m.group(2), m.group(1)), a)
@reg(r'^<.* as std::convert::TryInto<.*>>::try_into$')
def _try_into_generic(M, fr, n, a):
    m = re.match(r'^<(.*) as std::convert::TryInto<(.*)>>::try_into$', n)
    return M.invoke(fr, '<%s as std::convert::TryFrom<%s>>::try_from' % (m.group(2), m.group(1)), a)

# LinkedList by contract (as VecV)
@reg(r'^std::collections::LinkedList::<.*>::new$|^std::collections::LinkedList::new$')
def _ll_new(M, fr, n, a): return VecV()
@reg(r'^std::collections::LinkedList::(<.*>::)?push_back$')
def _ll_push_back(M, fr, n, a): D(M, a[0]).items.append(a[1]); return UNIT
@reg(r'^std::collections::LinkedList::(<.*>::)?push_front$|^std::collections::VecDeque::(<.*>::)?push_front$')
def _ll_push_front(M, fr, n, a): D(M, a[0]).items.insert(0, a[1]); return UNIT
@reg(r'^std::collections::LinkedList::(<.*>::)?pop_front$')
def _ll_pop_front(M, fr, n, a):
    v = D(M, a[0]); return some(v.items.pop(0)) if v.items else none()
@reg(r'^std::collections::LinkedList::(<.*>::)?pop_back$')
def _ll_pop_back(M, fr, n, a):
    v = D(M, a[0]); return some(v.items.pop()) if v.items else none()
@reg(r'^std::collections::LinkedList::(<.*>::)?(front_mut|front)$|^std::collections::VecDeque::(<.*>::)?(front_mut|front)$')
def _ll_front(M, fr, n, a):
    rs = elem_refs(M, a[0]); return some(rs[0]) if rs else none()
@reg(r'^std::collections::LinkedList::(<.*>::)?(back_mut|back)$|^std::collections::VecDeque::(<.*>::)?(back_mut|back)$')
def _ll_back(M, fr, n, a):
    rs = elem_refs(M, a[0]); return some(rs[-1]) if rs else none()
@reg(r'^std::collections::LinkedList::(<.*>::)?(iter|iter_mut)$|^std::collections::VecDeque::(<.*>::)?iter_mut$')
def _ll_iter(M, fr, n, a): return IterV(elem_refs(M, a[0]), 'ref')
@reg(r'^std::collections::LinkedList::(<.*>::)?(len|is_empty)$')
def _ll_len(M, fr, n, a):
    k = len(D(M, a[0]).items); return k if n.endswith('len') else k == 0

@reg(r'^std::collections::(HashSet|BTreeSet)::(<.*>::)?get$')
def _hs_get(M, fr, n, a):
    hs = D(M, a[0]); rs = elem_refs(M, a[0])
    for i, e in enumerate(hs.items):
        if M.branch(val_eq(M, fr, e, a[1])): return some(rs[i])
    return none()

@reg(r'^<std::path::PathBuf as std::ops::Deref>::deref$|^<std::path::PathBuf as std::convert::AsRef<.*>>::as_ref$|^std::path::Path::new$|^std::path::PathBuf::as_path$|^<std::path::Path as std::convert::AsRef<.*>>::as_ref$|^std::path::Path::to_path_buf$|^<std::path::PathBuf as std::convert::From<.*>>::from$')
def _path_ident(M, fr, n, a): return a[0]

# ------------------------------------------------------------------ time::{Date, Time, Month, PrimitiveDateTime} by contract (documented range checks)
@reg(r'^<time::Month as std::convert::TryFrom<u8>>::try_from$|^time::Month::try_from$')
def _month_try_from(M, fr, n, a):
    v = simp(a[0])
    inr = (1 <= v <= 12) if not is_sym(v) else z3.And(z3.UGE(v, 1), z3.ULE(v, 12))
    if M.branch(inr): return ok(Agg('time::Month', [v]))
    return err(Agg('ComponentRange', []))
@reg(r'^<u8 as std::convert::From<time::Month>>::from$|^<time::Month as std::convert::Into<u8>>::into$')
def _month_into(M, fr, n, a): return a[0].f[0]
def _days_in_month(y, m):
    leap = (y % 4 == 0 and y % 100 != 0) or y % 400 == 0
    return [31, 29 if leap else 28, 31, 30, 31, 30, 31, 31, 30, 31, 30, 31][m - 1]
@reg(r'^time::Date::from_calendar_date$|^time::date::Date::from_calendar_date$')
def _date_from(M, fr, n, a):
    y, mo, d = simp(a[0]), simp(a[1].f[0]), simp(a[2])
    if not (is_sym(y) or is_sym(mo) or is_sym(d)):
        if -9999 <= y <= 9999 and 1 <= d <= _days_in_month(y, mo): return ok(Agg('time::Date', [y, mo, d]))
        return err(Agg('ComponentRange', []))
    Y = tobv(y, 32); MO = tobv(mo, 8); Dd = tobv(d, 8)
    leap = z3.Or(z3.And(z3.SRem(Y, 4) == 0, z3.SRem(Y, 100) != 0), z3.SRem(Y, 400) == 0)
    dim = z3.BitVecVal(31, 8)
    for mm, nd in ((4, 30), (6, 30), (9, 30), (11, 30)): dim = z3.If(MO == mm, z3.BitVecVal(nd, 8), dim)
    dim = z3.If(MO == 2, z3.If(leap, z3.BitVecVal(29, 8), z3.BitVecVal(28, 8)), dim)
    good = z3.And(Y >= -9999, Y <= 9999, z3.UGE(Dd, 1), z3.ULE(Dd, dim))
    if M.branch(good): return ok(Agg('time::Date', [y, mo, d]))
    return err(Agg('ComponentRange', []))
@reg(r'^time::(date::)?Date::(year|month|day)$|^time::(primitive_date_time::)?PrimitiveDateTime::(year|month|day)$')
def _date_get(M, fr, n, a):
    d = D(M, a[0]) if isinstance(a[0], Ref) else a[0]
    if d.name.endswith('PrimitiveDateTime'): d = d.f[0]
    op = n.rsplit('::', 1)[1]
    return {'year': d.f[0], 'month': Agg('time::Month', [d.f[1]]), 'day': d.f[2]}[op]
@reg(r'^time::(time::)?Time::from_hms$')
def _time_from_hms(M, fr, n, a):
    h, mi, s_ = simp(a[0]), simp(a[1]), simp(a[2])
    def lt(x, k): return (x < k) if not is_sym(x) else z3.ULT(x, k)
    good = b_and(lt(h, 24), lt(mi, 60), lt(s_, 60))
    if M.branch(good): return ok(Agg('time::Time', [h, mi, s_, 0]))
    return err(Agg('ComponentRange', []))
@reg(r'^time::(time::)?Time::from_hms_(milli|micro|nano)$')
def _time_from_hms_sub(M, fr, n, a):
    h, mi, s_, sub = simp(a[0]), simp(a[1]), simp(a[2]), simp(a[3])
    unit = n.rsplit('_', 1)[1]; k = {'milli': 10 ** 6, 'micro': 10 ** 3, 'nano': 1}[unit]; lim = 10 ** 9 // k
    def lt(x, kk): return (x < kk) if not is_sym(x) else z3.ULT(x, kk)
    good = b_and(lt(h, 24), lt(mi, 60), lt(s_, 60), lt(sub, lim))
    if M.branch(good): return ok(Agg('time::Time', [h, mi, s_, (sub * k) if not is_sym(sub) else (z3.ZeroExt(32 - sub.size(), sub) if sub.size() < 32 else sub) * z3.BitVecVal(k, 32)]))
    return err(Agg('ComponentRange', []))
@reg(r'^time::(time::)?Time::(hour|minute|second|millisecond|microsecond|nanosecond)$|^time::(primitive_date_time::)?PrimitiveDateTime::(hour|minute|second|millisecond|microsecond|nanosecond)$')
def _time_field(M, fr, n, a):
    t = D(M, a[0]) if isinstance(a[0], Ref) else a[0]
    if t.name.endswith('PrimitiveDateTime'): t = t.f[1]
    op = n.rsplit('::', 1)[1]
    if op in ('hour', 'minute', 'second'): return t.f[{'hour': 0, 'minute': 1, 'second': 2}[op]]
    ns = t.f[3]; k = {'millisecond': 10 ** 6, 'microsecond': 10 ** 3, 'nanosecond': 1}[op]
    return ns // k if not is_sym(ns) else (z3.UDiv(ns, z3.BitVecVal(k, ns.size())) if k > 1 else ns)
@reg(r'^time::(time::)?Time::as_hms_micro$|^time::(primitive_date_time::)?PrimitiveDateTime::as_hms_micro$')
def _time_hmsm(M, fr, n, a):
    t = D(M, a[0]) if isinstance(a[0], Ref) else a[0]
    if t.name.endswith('PrimitiveDateTime'): t = t.f[1]
    if len(t.f) < 4: raise Unsupported('as_hms_micro of %r' % (t,))
    ns = t.f[3]
    micro = ns // 1000 if not is_sym(ns) else z3.UDiv(ns, z3.BitVecVal(1000, ns.size()))
    return Agg('()', [t.f[0], t.f[1], t.f[2], micro])
@reg(r'^time::(primitive_date_time::)?PrimitiveDateTime::new$')
def _pdt_new(M, fr, n, a): return Agg('time::PrimitiveDateTime', [a[0], a[1]])
@reg(r'^<time::(date::)?Date as std::cmp::PartialEq>::eq$|^<time::(time::)?Time as std::cmp::PartialEq>::eq$|^<time::(primitive_date_time::)?PrimitiveDateTime as std::cmp::PartialEq>::eq$')
def _time_eq(M, fr, n, a): return val_eq(M, fr, a[0], a[1])
@reg(r'^<time::(date::)?Date as std::clone::Clone>::clone$|^<time::(time::)?Time as std::clone::Clone>::clone$|^<time::(primitive_date_time::)?PrimitiveDateTime as std::clone::Clone>::clone$')
def _time_clone(M, fr, n, a): return deep_clone(D(M, a[0]))

@reg(r'^std::collections::BTreeSet::(<.*>::)?iter$|^<&std::collections::BTreeSet<.*> as std::iter::IntoIterator>::into_iter$|^std::collections::BTreeMap::(<.*>::)?(iter|keys|values)$')
def _bt_iter(M, fr, n, a):
    rs = elem_refs(M, a[0])
    def keyf(r):
        v = M.deref(r)
        if isinstance(v, Agg) and v.name == '()': v = M.deref(v.f[0])
        c = v.conc() if isinstance(v, Str) else (v if isinstance(v, int) else None)
        if c is None: raise Unsupported('ordered iteration over symbolic keys')
        return c
    rs = sorted(rs, key=keyf)
    if n.endswith('keys'): rs = [Ref(r.cell, r.path + (('f', 0),)) for r in rs]
    if n.endswith('values'): rs = [Ref(r.cell, r.path + (('f', 1),)) for r in rs]
    return IterV(rs, 'ref')

@reg(r'^std::str::<impl str>::replace$|^alloc::str::<impl str>::replace$')
def _str_replace(M, fr, n, a):
    s_ = as_str(M, a[0]); p = _pat_bytes(M, a[1]); to = as_str(M, a[2]).b
    out = []; i = 0
    while i < len(s_.b):
        if p and i + len(p) <= len(s_.b) and M.branch(_match_at(s_, i, p)): out.extend(to); i += len(p)
        else: out.append(s_.b[i]); i += 1
    return Str(out)

@reg(r'^time::convert::(\w+)::per::<time::convert::(\w+)>$|^time::convert::(\w+)::per$')
def _time_per(M, fr, n, a):
    """time::convert::X::per(Y): how many X make one Y (documented constants)"""
    m = re.search(r'convert::(\w+)::per::<time::convert::(\w+)>', M.cur_callee)
    if not m: raise Unsupported('time::convert per without unit arguments')
    ns = {'Nanosecond': 1, 'Microsecond': 10 ** 3, 'Millisecond': 10 ** 6, 'Second': 10 ** 9, 'Minute': 60 * 10 ** 9, 'Hour': 3600 * 10 ** 9, 'Day': 86400 * 10 ** 9, 'Week': 7 * 86400 * 10 ** 9}
    x, y = m.group(1), m.group(2)
    if x not in ns or y not in ns or ns[y] % ns[x]: raise Unsupported('time::convert %s per %s' % (x, y))
    return ns[y] // ns[x]

@reg(r'^core::str::<impl str>::eq_ignore_ascii_case$|^std::string::String::eq_ignore_ascii_case$|^core::slice::ascii::<impl \[u8\]>::eq_ignore_ascii_case$|^std::ffi::OsStr::eq_ignore_ascii_case(::<.*>)?$')
def _eq_ignore_ascii_case(M, fr, n, a):
    x, y = as_str(M, a[0]), as_str(M, a[1])
    if isinstance(x, SymStr) or isinstance(y, SymStr): raise Unsupported('eq_ignore_ascii_case on an opaque string')
    if len(x.b) != len(y.b): return False
    def low(b):
        if isinstance(b, int): return b + 32 if 65 <= b <= 90 else b
        return z3.If(z3.And(z3.UGE(b, 65), z3.ULE(b, 90)), b + 32, b)
    return b_and(*[v_eq(low(p), low(q)) for p, q in zip(x.b, y.b)])

@reg(r'^std::path::Path::(extension|file_name|file_stem)$')
def _path_parts(M, fr, n, a):
    """Path::{extension,file_name,file_stem} over a textual path (documented rules: the extension is the text after the last `.` of the
    file name unless the name starts with its only `.`)"""
    p = as_str(M, a[0]).conc()
    if p is None: raise Unsupported('symbolic path text')
    name = p.rstrip('/').rsplit('/', 1)[-1]
    what = n.rsplit('::', 1)[1]
    if what == 'file_name': return some(Ref(Cell(Str(name)))) if name not in ('', '..') else none()
    if name in ('', '..'): return none()
    i = name.rfind('.')
    stem, ext = (name, None) if i <= 0 else (name[:i], name[i + 1:])
    if what == 'file_stem': return some(Ref(Cell(Str(stem))))
    return some(Ref(Cell(Str(ext)))) if ext is not None else none()
@reg(r'^std::ffi::OsStr::to_str$|^std::path::Path::to_str$')
def _osstr_to_str(M, fr, n, a): return some(Ref(Cell(as_str(M, a[0]))))       # paths in the models are UTF-8 text
@reg(r'^std::option::Option::<.*>::and_then::<.*>$|^std::option::Option::and_then$')
def _opt_and_then(M, fr, n, a):
    o = a[0]
    if disc_of(M, o) == 0: return none()
    return M.call_closure(fr, a[1], [o.f[0]])

# registered last: every specific Deref model above takes precedence
@reg(r'^<.* as std::ops::Deref>::deref$')
def _lazy_static_deref(M, fr, n, a):
    """`Deref` of a lazy_static! value: the impl is generated at the macro's span (identical printed path for every static of the crate);
    the n-th `deref(_1: &X)` in the dump belongs to the n-th `deref::__static_ref_initialize`.  The initialiser is evaluated once."""
    ty = re.match(r'^<(.*) as std::ops::Deref>::deref$', n).group(1)
    for (crate, base), names in M.prog.dups.items():
        if not base.endswith('::deref') or 'lazy_static' not in base: continue
        for j, nm in enumerate(names):
            it = M.prog.items[(crate, nm)]
            if it.args and it.locals.get(it.args[0], '').lstrip('&').strip() == ty:
                inits = M.prog.dups.get((crate, base + '::__static_ref_initialize'), [])
                if j >= len(inits): raise Unsupported('lazy_static initialiser of ' + ty)
                key = (crate, inits[j])
                if key not in _LAZY: _LAZY[key] = M.call_fn(key, [])
                return Ref(Cell(_LAZY[key]))
    return NotImplemented

# ------------------------------------------------------------------ further std models (added so that plausible rewrites of the code stay inside the encoding)
def _split_pieces(M, fr, s, pat):
    """pieces of s split on a string or character pattern (Python lists of bytes)"""
    pred = _char_pred(M, fr, pat)
    out = []; cur = []; i = 0
    if pred is None:
        p = _pat_bytes(M, pat)
        while i < len(s.b):
            if p and i + len(p) <= len(s.b) and M.branch(_match_at(s, i, p)): out.append(cur); cur = []; i += len(p)
            else: cur.append(s.b[i]); i += 1
    else:
        while i < len(s.b):
            it = Agg('Chars', [Str(s.b[i:]), 0]); okk, c = chars_next(M, fr, it); k = it.f[1]
            if M.branch(pred(c)): out.append(cur); cur = []
            else: cur.extend(s.b[i:i + k])
            i += k
    out.append(cur)
    return out
@reg(r'^core::str::<impl str>::(rsplit|split_terminator|rsplit_terminator|splitn|rsplitn|split_inclusive)$')
def _str_split_more(M, fr, n, a):
    op = n.rsplit('::', 1)[1]; s = as_str(M, a[0])
    if op in ('splitn', 'rsplitn'):
        cnt = simp(a[1])
        if is_sym(cnt): raise Unsupported('symbolic splitn count')
        pieces = _split_pieces(M, fr, s, a[2]); p = _pat_bytes(M, a[2]) if _char_pred(M, fr, a[2]) is None else None
        if p is None: raise Unsupported('splitn with a character pattern')
        if cnt == 0: return IterV([])
        if op == 'splitn' and len(pieces) > cnt:
            head = pieces[:cnt - 1]; rest = pieces[cnt - 1:]; joined = []
            for k, x in enumerate(rest): joined += (p if k else []) + x
            pieces = head + [joined]
        if op == 'rsplitn':
            if len(pieces) > cnt:
                tail = pieces[len(pieces) - cnt + 1:]; rest = pieces[:len(pieces) - cnt + 1]; joined = []
                for k, x in enumerate(rest): joined += (p if k else []) + x
                pieces = [joined] + tail
            pieces = pieces[::-1]
        return IterV([Ref(Cell(Str(x))) for x in pieces])
    if op == 'split_inclusive':
        p = _pat_bytes(M, a[1]); pieces = _split_pieces(M, fr, s, a[1])
        out = [x + p for x in pieces[:-1]] + ([pieces[-1]] if pieces[-1] else [])
        return IterV([Ref(Cell(Str(x))) for x in out])
    pieces = _split_pieces(M, fr, s, a[1])
    if 'terminator' in op and pieces and not pieces[-1]: pieces = pieces[:-1]
    if op.startswith('r'): pieces = pieces[::-1]
    return IterV([Ref(Cell(Str(x))) for x in pieces])
@reg(r'^core::str::<impl str>::(split_whitespace|split_ascii_whitespace)$')
def _str_split_ws(M, fr, n, a):
    s = as_str(M, a[0]); out = []; cur = []
    for b in s.b:
        if M.branch(b_or(*[v_eq(b, w) for w in (32, 9, 10, 13, 12)])):
            if cur: out.append(cur); cur = []
        else: cur.append(b)
    if cur: out.append(cur)
    return IterV([Ref(Cell(Str(x))) for x in out])
@reg(r'^core::str::<impl str>::rmatch_indices$')
def _str_rmatch_indices(M, fr, n, a):
    r = _str_matches(M, fr, n.replace('rmatch_indices', 'match_indices'), a); r.items = r.items[::-1] if hasattr(r, 'items') else r.items
    return r
@reg(r'^<.* as std::iter::Iterator>::(take_while|skip_while)$')
def _iter_take_skip_while(M, fr, n, a):
    xs = drain_all(M, fr, to_iter(M, fr, a[0])); op = n.rsplit('::', 1)[1]; k = 0
    while k < len(xs) and M.branch(M.call_closure(fr, a[1], [Ref(Cell(xs[k]))])): k += 1
    return IterV(xs[:k] if op == 'take_while' else xs[k:])
@reg(r'^<.* as std::iter::Iterator>::rposition$')
def _iter_rposition(M, fr, n, a):
    xs = drain_all(M, fr, to_iter(M, fr, a[0]))
    for i in range(len(xs) - 1, -1, -1):
        if M.branch(M.call_closure(fr, a[1], [xs[i]])): return some(i)
    return none()
@reg(r'^<.* as std::iter::Iterator>::(sum|product)(::<.*>)?$')
def _iter_sum(M, fr, n, a):
    xs = drain_all(M, fr, to_iter(M, fr, a[0])); prod = '::product' in n
    acc = None
    for x in xs:
        while isinstance(x, Ref): x = M.deref(x)
        acc = x if acc is None else (acc * x if prod else acc + x)
    if acc is None: return 1 if prod else 0
    return acc
@reg(r'^<.* as std::iter::Iterator>::(max|min)$')
def _iter_maxmin(M, fr, n, a):
    xs = drain_all(M, fr, to_iter(M, fr, a[0])); op = n.rsplit('::', 1)[1]
    if not xs: return none()
    best = xs[0]
    for x in xs[1:]:
        xv = x; bv = best
        while isinstance(xv, Ref) or (isinstance(xv, Agg) and len(xv.f) == 1): xv = M.deref(xv) if isinstance(xv, Ref) else xv.f[0]       # newtypes over an integer (NodeIndex) order like the integer
        while isinstance(bv, Ref) or (isinstance(bv, Agg) and len(bv.f) == 1): bv = M.deref(bv) if isinstance(bv, Ref) else bv.f[0]
        if not (isinstance(xv, int) or is_sym(xv)): raise Unsupported('max/min over non-integers')
        gt = (xv >= bv) if (isinstance(xv, int) and isinstance(bv, int)) else z3.UGE(tobv(xv, 64), tobv(bv, 64))
        take = M.branch(gt) if op == 'max' else not M.branch(gt)
        if take: best = x
    return some(best)
@reg(r'^<.* as std::iter::Iterator>::(max_by_key|min_by_key)$')
def _iter_maxmin_by_key(M, fr, n, a):
    xs = drain_all(M, fr, to_iter(M, fr, a[0])); op = 'max' if 'max_by_key' in n else 'min'
    if not xs: return none()
    best = xs[0]; bk = M.call_closure(fr, a[1], [Ref(Cell(best))])
    for x in xs[1:]:
        k = M.call_closure(fr, a[1], [Ref(Cell(x))])
        if not ((isinstance(k, int) or is_sym(k)) and (isinstance(bk, int) or is_sym(bk))): raise Unsupported('max_by_key over non-integers')
        ge = (k >= bk) if (isinstance(k, int) and isinstance(bk, int)) else z3.UGE(tobv(k, 64), tobv(bk, 64))
        lt = (k < bk) if (isinstance(k, int) and isinstance(bk, int)) else z3.ULT(tobv(k, 64), tobv(bk, 64))
        if (op == 'max' and M.branch(ge)) or (op == 'min' and M.branch(lt)): best = x; bk = k
    return some(best)
@reg(r'^<.* as std::iter::Iterator>::step_by$')
def _iter_step_by(M, fr, n, a):
    xs = drain_all(M, fr, to_iter(M, fr, a[0])); st = simp(a[1])
    if is_sym(st): raise Unsupported('symbolic step')
    if st == 0: raise Panic('assertion failed: step != 0')
    return IterV(xs[::st])
@reg(r'^<.* as std::iter::Iterator>::unzip(::<.*>)?$')
def _iter_unzip(M, fr, n, a):
    xs = drain_all(M, fr, to_iter(M, fr, a[0]))
    return Agg('()', [VecV([x.f[0] for x in xs]), VecV([x.f[1] for x in xs])])
@reg(r'^<.* as std::iter::Iterator>::inspect$')
def _iter_inspect(M, fr, n, a): return to_iter(M, fr, a[0])
@reg(r'^core::slice::<impl \[.*\]>::(starts_with|ends_with)$')
def _slice_starts_ends(M, fr, n, a):
    xs = seq(M, a[0]); ys = seq(M, a[1])
    if len(ys) > len(xs): return False
    part = xs[:len(ys)] if n.endswith('starts_with') else xs[len(xs) - len(ys):]
    return b_and(*[v_eq(x, y) for x, y in zip(part, ys)])
@reg(r'^core::slice::<impl \[.*\]>::(split_first|split_last)$')
def _slice_split_first(M, fr, n, a):
    xs = seq(M, a[0])
    if not xs: return none()
    if n.endswith('split_first'): return some(Agg('()', [Ref(Cell(xs[0])), Ref(Cell(VecV(list(xs[1:]))))]))
    return some(Agg('()', [Ref(Cell(xs[-1])), Ref(Cell(VecV(list(xs[:-1]))))]))
@reg(r'^core::slice::<impl \[.*\]>::reverse$')
def _slice_reverse(M, fr, n, a):
    v = D(M, a[0])
    if not isinstance(v, VecV): raise Unsupported('reverse of a non-vector')
    v.items = v.items[::-1]; return UNIT
@reg(r'^core::slice::<impl \[.*\]>::swap$')
def _slice_swap(M, fr, n, a):
    v = D(M, a[0]); i = simp(a[1]); j = simp(a[2])
    if not isinstance(v, VecV) or is_sym(i) or is_sym(j): raise Unsupported('swap')
    if i >= len(v.items) or j >= len(v.items): raise Panic('index out of bounds')
    v.items[i], v.items[j] = v.items[j], v.items[i]; return UNIT
@reg(r'^std::vec::Vec::(truncate|split_off|swap_remove|dedup)$')
def _vec_more(M, fr, n, a):
    v = D(M, a[0]); op = n.rsplit('::', 1)[1]
    if op == 'dedup': raise Unsupported('Vec::dedup')
    k = simp(a[1])
    if is_sym(k): raise Unsupported('symbolic index in Vec::' + op)
    if op == 'truncate':
        v.items = v.items[:k]; return UNIT
    if op == 'split_off':
        if k > len(v.items): raise Panic('`at` split index (is %d) should be <= len (is %d)' % (k, len(v.items)))
        tail = v.items[k:]; v.items = v.items[:k]; return VecV(tail)
    if op == 'swap_remove':
        if k >= len(v.items): raise Panic('swap_remove index (is %d) should be < len (is %d)' % (k, len(v.items)))
        x = v.items[k]; v.items[k] = v.items[-1]; v.items.pop(); return x
@reg(r'^(?:core|std)::char::methods::<impl char>::(to_digit|from_u32|from_digit)$|^core::char::convert::<impl .*>::from_u32$')
def _char_digit(M, fr, n, a):
    op = n.rsplit('::', 1)[1]; c = simp(a[0])
    if op == 'from_u32':
        if is_sym(c): return some(c) if M.branch(z3.And(z3.ULE(tobv(c, 32), 0x10FFFF), z3.Not(z3.And(z3.UGE(tobv(c, 32), 0xD800), z3.ULE(tobv(c, 32), 0xDFFF))))) else none()
        return some(c) if c <= 0x10FFFF and not (0xD800 <= c <= 0xDFFF) else none()
    radix = simp(a[1])
    if is_sym(radix) or radix not in (2, 8, 10, 16): raise Unsupported('radix')
    if op == 'to_digit':
        if is_sym(c):
            c32 = tobv(c, 32)
            if M.branch(z3.And(z3.UGE(c32, 48), z3.ULE(c32, 48 + min(radix, 10) - 1))): return some(c32 - 48)
            if radix == 16:
                if M.branch(z3.And(z3.UGE(c32, 97), z3.ULE(c32, 102))): return some(c32 - 87)
                if M.branch(z3.And(z3.UGE(c32, 65), z3.ULE(c32, 70))): return some(c32 - 55)
            return none()
        ch = chr(c)
        try:
            d = int(ch, radix) if ch.isascii() and ch.isalnum() else None
        except ValueError: d = None
        return some(d) if d is not None else none()
    raise Unsupported(op)

@reg(r'^std::iter::once(::<.*>)?$')
def _iter_once(M, fr, n, a): return IterV([a[0]])
@reg(r'^std::iter::empty(::<.*>)?$')
def _iter_empty(M, fr, n, a): return IterV([])
@reg(r'^<&(u8|u16|u32|u64|usize|i8|i16|i32|i64|isize) as std::ops::(Rem|Add|Sub|Mul|Div)<(&)?(u8|u16|u32|u64|usize|i8|i16|i32|i64|isize)>>::(rem|add|sub|mul|div)$|^<(u8|u16|u32|u64|usize|i8|i16|i32|i64|isize) as std::ops::(Rem|Add|Sub|Mul|Div)<&(u8|u16|u32|u64|usize|i8|i16|i32|i64|isize)>>::(rem|add|sub|mul|div)$')
def _ref_arith(M, fr, n, a):
    op = n.rsplit('::', 1)[1]; ty = re.search(r'(u8|u16|u32|u64|usize|i8|i16|i32|i64|isize)', n).group(1)
    x = a[0]; y = a[1]
    while isinstance(x, Ref): x = M.deref(x)
    while isinstance(y, Ref): y = M.deref(y)
    return M.binop({'rem': 'Rem', 'add': 'Add', 'sub': 'Sub', 'mul': 'Mul', 'div': 'Div'}[op], x, y, ty)

@reg(r'^core::num::<impl (u8|u16|u32|u64|u128|usize)>::(div_ceil|next_multiple_of|abs_diff|checked_rem|rem_euclid|div_euclid|is_power_of_two|saturating_mul|ilog2|ilog10|checked_next_multiple_of)$')
def _uint_ops_more(M, fr, n, a):
    m = re.match(r'^core::num::<impl (\w+)>::(\w+)$', n); ty, op = m.group(1), m.group(2)
    x = simp(a[0]); y = simp(a[1]) if len(a) > 1 else None
    if op in ('div_ceil', 'next_multiple_of', 'checked_rem', 'rem_euclid', 'div_euclid', 'checked_next_multiple_of'):
        if op in ('checked_rem',) and not is_sym(y) and y == 0: return none()
        if not is_sym(y) and y == 0: raise Panic('attempt to divide by zero' if 'div' in op else 'attempt to calculate the remainder with a divisor of zero')
        q = M.binop('Div', x, y, ty); r = M.binop('Rem', x, y, ty)
        if op == 'div_euclid': return q
        if op == 'rem_euclid': return r
        if op == 'checked_rem': return some(r)
        rz = M.binop('Eq', r, 0, ty)
        rz = M.branch(rz) if is_sym(rz) else rz
        if op == 'div_ceil': return q if rz else M.binop('Add', q, 1, ty)
        if rz: return some(x) if op.startswith('checked') else x
        up = M.binop('AddWithOverflow', x, M.binop('Sub', y, r, ty), ty)
        if M.branch(up.f[1]):
            if op.startswith('checked'): return none()
            raise Panic('attempt to add with overflow')
        return some(up.f[0]) if op.startswith('checked') else up.f[0]
    if op == 'abs_diff':
        lt = M.binop('Lt', x, y, ty); lt = M.branch(lt) if is_sym(lt) else lt
        return M.binop('Sub', y, x, ty) if lt else M.binop('Sub', x, y, ty)
    if op == 'is_power_of_two':
        if is_sym(x): return z3.And(x != 0, (x & (x - 1)) == 0)
        return x != 0 and (x & (x - 1)) == 0
    if op == 'saturating_mul':
        r = M.binop('MulWithOverflow', x, y, ty)
        return (1 << INT_W[ty]) - 1 if M.branch(r.f[1]) else r.f[0]
    if op in ('ilog2', 'ilog10'):
        if is_sym(x): raise Unsupported('symbolic ' + op)
        if x == 0: raise Panic('argument of integer logarithm must be positive')
        return x.bit_length() - 1 if op == 'ilog2' else len(str(x)) - 1
    raise Unsupported('int op ' + op)

# petgraph: iteration over nodes and neighbours by contract.  node_indices(): every node, in index order (documented).  neighbors(a) /
# neighbors_directed(a, dir): one item per edge (parallel edges give the neighbour several times), in an unspecified order
# (explored nondeterministically unless the machine is deterministic).
def _g_direction(d):
    """enum Direction { Outgoing = 0, Incoming = 1 }: a unit variant used as a constant prints as its path"""
    if isinstance(d, Agg) and not d.f and d.name.rsplit('::', 1)[-1] in ('Incoming', 'Outgoing'): return 1 if d.name.endswith('Incoming') else 0
    dd = simp(d.disc) if isinstance(d, EnumV) else simp(d)
    if is_sym(dd) or not isinstance(dd, int): raise Unsupported('Direction value %r' % (d,))
    return int(dd)
@reg(r'^petgraph::(prelude|stable_graph)::StableGraph::(<.*>::)?node_indices$')
def _g_node_indices(M, fr, n, a):
    g = D(M, a[0]); return IterV([Agg('NodeIndex', [i]) for i in range(len(g.f[0].items))])
@reg(r'^petgraph::(prelude|stable_graph)::StableGraph::(<.*>::)?(neighbors|neighbors_directed|neighbors_undirected)$')
def _g_neighbors(M, fr, n, a):
    g = D(M, a[0]); u = _g_nodes(a[1]); op = n.rsplit('::', 1)[1]
    incoming = False
    if op == 'neighbors_directed':
        d = a[2]
        while isinstance(d, Ref): d = M.deref(d)
        incoming = _g_direction(d) == 1
    E = g.f[1].items
    if op == 'neighbors_undirected': out = [v for (x, v) in E if x == u] + [x for (x, v) in E if v == u]
    elif incoming: out = [x for (x, v) in E if v == u]
    else: out = [v for (x, v) in E if x == u]
    out = out[::-1]       # petgraph walks the adjacency list from the most recently added edge
    if len(set(out)) > 1 and not M.__dict__.get('toposort_deterministic'): out = hash_order(M, out, 'nbr')
    return IterV([Agg('NodeIndex', [v]) for v in out])
@reg(r'^petgraph::(prelude|stable_graph)::StableGraph::(<.*>::)?externals$')
def _g_externals(M, fr, n, a):
    g = D(M, a[0]); d = a[1]
    while isinstance(d, Ref): d = M.deref(d)
    E = g.f[1].items; nn = len(g.f[0].items)
    if _g_direction(d) == 1: out = [i for i in range(nn) if not any(v == i for (u, v) in E)]
    else: out = [i for i in range(nn) if not any(u == i for (u, v) in E)]
    return IterV([Agg('NodeIndex', [i]) for i in out])
@reg(r'^petgraph::(prelude|stable_graph)::StableGraph::(<.*>::)?edge_endpoints$')
def _g_edge_endpoints(M, fr, n, a):
    g = D(M, a[0]); e = simp(a[1].f[0])
    if is_sym(e): raise Unsupported('symbolic edge index')
    if e >= len(g.f[1].items): return none()
    u, v = g.f[1].items[e]; return some(Agg('()', [Agg('NodeIndex', [u]), Agg('NodeIndex', [v])]))
@reg(r'^<petgraph::(prelude|stable_graph|graph)::NodeIndex(<.*>)? as std::(cmp::(PartialEq|Ord|PartialOrd)|hash::Hash|clone::Clone)>::(eq|ne|cmp|partial_cmp|hash|clone)$')
def _nodeindex_traits(M, fr, n, a): return NotImplemented
@reg(r'^petgraph::(prelude|stable_graph|graph)::NodeIndex::(<.*>::)?(index|new)$')
def _nodeindex_index(M, fr, n, a):
    if n.endswith('new'): return Agg('NodeIndex', [a[0]])
    return D(M, a[0]).f[0] if isinstance(a[0], Ref) else a[0].f[0]

# ------------------------------------------------------------------ further container / option helpers
@reg(r'^std::collections::(HashSet|BTreeSet)::remove$')
def _hs_remove(M, fr, n, a):
    hs = D(M, a[0])
    for i, e in enumerate(hs.items):
        if M.branch(val_eq(M, fr, e, a[1])): hs.items.pop(i); return True
    return False
@reg(r'^std::collections::(HashMap|BTreeMap)::retain$')
def _hm_retain(M, fr, n, a):
    hm = D(M, a[0]); keep = []
    for e in hm.items:
        if M.branch(M.call_closure(fr, a[1], [Ref(Cell(e.f[0])), Ref(Cell(e.f[1]))])): keep.append(e)
    hm.items = keep; return UNIT
@reg(r'^std::collections::(HashSet|BTreeSet)::retain$')
def _hs_retain(M, fr, n, a):
    hs = D(M, a[0]); keep = []
    for e in hs.items:
        if M.branch(M.call_closure(fr, a[1], [Ref(Cell(e))])): keep.append(e)
    hs.items = keep; return UNIT
@reg(r'^<std::collections::(HashMap|BTreeMap)<.*> as std::iter::Extend<.*>>::extend(::<.*>)?$')
def _hm_extend(M, fr, n, a):
    for kv in drain_all(M, fr, to_iter(M, fr, a[1])):
        while isinstance(kv, Ref): kv = M.deref(kv)
        _hm_insert(M, fr, 'std::collections::HashMap::insert', [a[0], kv.f[0], kv.f[1]])
    return UNIT
@reg(r'^<std::collections::(HashSet|BTreeSet)<.*> as std::iter::Extend<.*>>::extend(::<.*>)?$')
def _hs_extend(M, fr, n, a):
    for x in drain_all(M, fr, to_iter(M, fr, a[1])): _hs_insert(M, fr, 'std::collections::HashSet::insert', [a[0], x])
    return UNIT
@reg(r'^std::collections::(HashMap|BTreeMap)::(remove_entry|into_keys)$')
def _hm_more(M, fr, n, a):
    hm = D(M, a[0])
    if n.endswith('into_keys'): return IterV(hash_order(M, [e.f[0] for e in hm.items], 'keys'))
    i = hm_lookup(M, fr, hm, a[1])
    if i < 0: return none()
    e = hm.items.pop(i); return some(Agg('()', [e.f[0], e.f[1]]))
@reg(r'^core::bool::<impl bool>::(then|then_some)(::<.*>)?$')
def _bool_then(M, fr, n, a):
    b = simp(a[0]) if is_sym(a[0]) else a[0]
    if is_sym(b): b = M.branch(tobool(b))
    if not b: return none()
    return some(a[1]) if 'then_some' in n else some(M.call_closure(fr, a[1], []))
@reg(r'^std::option::Option::(<.*>::)?(zip|xor|flatten)(::<.*>)?$')
def _opt_more(M, fr, n, a):
    op = re.search(r'(zip|xor|flatten)', n.rsplit('Option', 1)[1]).group(1)
    x = a[0]
    if op == 'flatten': return x.f[0] if opt_is_some(M, x) else none()
    y = a[1]
    sx = opt_is_some(M, x); sy = opt_is_some(M, y)
    if op == 'zip': return some(Agg('()', [x.f[0], y.f[0]])) if sx and sy else none()
    if sx and not sy: return x
    if sy and not sx: return y
    return none()
@reg(r'^std::result::Result::(<.*>::)?(unwrap_or_default|is_ok_and|is_err_and)(::<.*>)?$')
def _res_more(M, fr, n, a):
    r = a[0]; d = simp(r.disc)
    isok = (d == 0) if not is_sym(d) else M.branch(r.disc == 0)
    if 'unwrap_or_default' in n:
        if isok: return r.f[0]
        raise Unsupported('Result::unwrap_or_default on Err (default of an unknown type)')
    if 'is_ok_and' in n: return M.call_closure(fr, a[1], [r.f[0]]) if isok else False
    return M.call_closure(fr, a[1], [r.f[0]]) if not isok else False
def _sort_key(M, v):
    while isinstance(v, Ref): v = M.deref(v)
    if isinstance(v, Str):
        c = v.conc()
        if c is None: raise Unsupported('sort of symbolic text')
        return (1, c.encode())
    if isinstance(v, int) and not isinstance(v, bool): return (0, v)
    if isinstance(v, Agg) and len(v.f) == 1: return _sort_key(M, v.f[0])
    if isinstance(v, Agg) and v.name == '()': return (2, tuple(_sort_key(M, x) for x in v.f))
    raise Unsupported('sort of %r' % (v,))
@reg(r'^(std|alloc)::slice::<impl \[.*\]>::(sort|sort_by_key|sort_by_cached_key)(::<.*>)?$|^core::slice::<impl \[.*\]>::(sort_unstable|sort_unstable_by_key)(::<.*>)?$')
def _slice_sort(M, fr, n, a):
    v = D(M, a[0])
    if not isinstance(v, VecV): raise Unsupported('sort of a non-vector')
    if 'by_key' in n or 'cached_key' in n: keyed = [(_sort_key(M, M.call_closure(fr, a[1], [Ref(Cell(x))])), i, x) for i, x in enumerate(v.items)]
    else: keyed = [(_sort_key(M, x), i, x) for i, x in enumerate(v.items)]
    keyed.sort(key=lambda t: (t[0], t[1]))          # stable; for the unstable sorts equal keys are indistinguishable values of these types
    v.items = [x for _, _, x in keyed]; return UNIT

# double-ended consumption of any iterator value: its remaining elements are materialised once (the iterator object then wraps the list)
def _materialise(M, fr, itref):
    it = itref
    while isinstance(it, Ref): it = M.deref(it)
    if isinstance(it, IterV): return it
    if not isinstance(it, Agg): raise Unsupported('double-ended use of %r' % (it,))
    if it.name == 'it:chain' and isinstance(it.f[0], IterV) and isinstance(it.f[1], IterV) and it.f[1].pos >= len(it.f[1].items): return it.f[0]
    if it.name == 'it:peekable' and isinstance(it.f[0], IterV) and it.f[1] is None: return it.f[0]
    peeked = []
    if it.name == 'it:peekable' and it.f[1] is not None:
        pk = it.f[1]            # [got one, value]: a value already peeked is the next element; a peeked end means the iterator is exhausted
        peeked = [pk[2].v if len(pk) > 2 else pk[1]] if pk[0] else None
        it.f[1] = None
    xs = [] if peeked is None else peeked + drain_all(M, fr, it)
    base = IterV(xs)
    if it.name == 'it:peekable': it.f = [base, None]          # still peekable, now over the materialised rest
    else: it.name = 'it:chain'; it.f = [base, IterV([])]
    return base
@reg(r'^<.* as std::iter::DoubleEndedIterator>::(next_back|nth_back|rfind)$')
def _next_back(M, fr, n, a):
    base = _materialise(M, fr, a[0]); op = n.rsplit('::', 1)[1]
    if op == 'next_back':
        if base.pos < len(base.items): return some(base.items.pop())
        return none()
    if op == 'nth_back':
        k = simp(a[1])
        if is_sym(k): raise Unsupported('symbolic nth_back')
        for _ in range(k):
            if base.pos < len(base.items): base.items.pop()
        if base.pos < len(base.items): return some(base.items.pop())
        return none()
    while base.pos < len(base.items):
        x = base.items.pop()
        if M.branch(M.call_closure(fr, a[1], [Ref(Cell(x))])): return some(x)
    return none()

@reg(r'^<.* as std::iter::Iterator>::map_while(::<.*>)?$')
def _iter_map_while(M, fr, n, a):
    out = []
    it = to_iter(M, fr, a[0])
    while True:
        okk, x = it_next(M, fr, it)
        if not okk: break
        r = M.call_closure(fr, a[1], [x])
        if not opt_is_some(M, r): break
        out.append(r.f[0])
    return IterV(out)
@reg(r'^<.* as std::iter::Iterator>::scan(::<.*>)?$')
def _iter_scan(M, fr, n, a):
    out = []; state = Cell(a[1]); it = to_iter(M, fr, a[0])
    while True:
        okk, x = it_next(M, fr, it)
        if not okk: break
        r = M.call_closure(fr, a[2], [Ref(state), x])
        if not opt_is_some(M, r): break
        out.append(r.f[0])
    return IterV(out)

@reg(r'^<std::string::String as std::ops::Add<&str>>::add$|^<std::string::String as std::ops::AddAssign<&str>>::add_assign$')
def _string_add(M, fr, n, a):
    if n.endswith('add_assign'): return _push_str(M, fr, 'std::string::String::push_str', a)
    d, s_ = as_str(M, a[0]), as_str(M, a[1])
    if isinstance(d, SymStr) or isinstance(s_, SymStr): raise Unsupported('concatenation with an opaque (unmodelled format!) string')
    return Str(list(d.b) + list(s_.b))
