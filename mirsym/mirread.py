"""Reader for rustc's textual MIR (-Zunpretty=mir) plus the auxiliary dumps.

Items are indexed by (crate, printed name).  Method resolution uses the `impl` header found at
the source location that the dump prints (`<impl at file:l:c: l:c>`), so kernels are located by
type/trait/method name and survive line shifts.
"""
import re, os, functools, pickle, glob

class Unsupported(Exception):
    """A construct / callee the encoder cannot handle: the kernel becomes INCONCLUSIVE."""

class Item:
    __slots__ = ('kind', 'crate', 'name', 'header', 'args', 'locals', 'blocks', 'ret', 'compiled', 'text')
    def __init__(self):
        self.compiled = None

INT_W = {'u8': 8, 'i8': 8, 'u16': 16, 'i16': 16, 'u32': 32, 'i32': 32, 'u64': 64, 'i64': 64, 'usize': 64, 'isize': 64,
         'u128': 128, 'i128': 128, 'char': 32, 'bool': 1}

CRATE_ALIAS = {'ironplc_dsl': 'ironplc-dsl', 'dsl': 'ironplc-dsl', 'ironplc_parser': 'ironplc-parser',
               'ironplc_analyzer': 'ironplc-analyzer', 'ironplc_plc2plc': 'ironplc-plc2plc', 'ironplcc': 'ironplcc',
               'ironplc_plc2x': 'ironplcc', 'peg_runtime': 'peg-runtime', 'peg': 'peg-runtime', 'logos': 'logos',
               'ironplc_problems': 'ironplc-problems'}


def split_top(s, sep=','):
    out = []; depth = 0; cur = []; i = 0; n = len(s)
    while i < n:
        c = s[i]
        if c == '"':
            j = i + 1
            while j < n and s[j] != '"':
                if s[j] == '\\': j += 1
                j += 1
            cur.append(s[i:j + 1]); i = j + 1; continue
        if c == "'" and i + 2 < n and (s[i + 2] == "'" or (s[i + 1] == '\\')):
            # char literal
            j = i + 1
            if s[j] == '\\': j += 1
            j = s.index("'", j + 1) if s[j] != "'" or j == i + 1 else j
            cur.append(s[i:j + 1]); i = j + 1; continue
        if c in '([{': depth += 1; cur.append(c)
        elif c == '<' and not (s[i - 1:i] == ' ' and s[i + 1:i + 2] in (' ', '=')): depth += 1; cur.append(c)
        elif c in ')]}': depth -= 1; cur.append(c)
        elif c == '>' and s[i - 1:i] not in ('-', '=') and not (s[i - 1:i] == ' ' and s[i + 1:i + 2] in (' ', '=')): depth -= 1; cur.append(c)
        elif c == sep and depth == 0:
            out.append(''.join(cur).strip()); cur = []
        else: cur.append(c)
        i += 1
    t = ''.join(cur).strip()
    if t: out.append(t)
    return out


def _fix_impl(name):
    return re.sub(r'<impl at ([^>]*?): ([^>]*?)>', lambda m: '<impl at %s:@%s>' % (m.group(1), m.group(2)), name)

_SKIP = ('StorageLive', 'StorageDead', 'debug ', 'scope ', '//', 'FakeRead', 'PlaceMention', 'AscribeUserType', 'Retag', 'nop', 'Coverage', 'ConstEvalCounter')


class Program:
    def __init__(self, mirdir, srcroot):
        self.mirdir = mirdir; self.srcroot = srcroot
        self.items = {}            # (crate, name) -> Item
        self.enums = {'Option': ['None', 'Some'], 'Result': ['Ok', 'Err'], 'ControlFlow': ['Continue', 'Break'],
                      'RuleResult': ['Matched', 'Failed'], 'Cow': ['Borrowed', 'Owned'], 'Ordering': ['Less', 'Equal', 'Greater'],
                      'Bound': ['Included', 'Excluded', 'Unbounded']}
        self.enum_payload = {}     # enum name -> {variant: [field names] or int arity}
        self.structs = {}          # struct name -> [field names]  (named-field structs only)
        self.fn_jumps = {}         # generated logos state fn -> Jump variants
        self.impl = {}             # (type last segment, trait key or None, method) -> item key (first seen)
        self.impl_all = {}         # same key -> [item keys] (name collisions across crates)
        self.enums_by_crate = {}   # crate -> {enum name: variants}
        self.impl_hdr = {}         # item key -> impl header text
        self.allocs = {}           # (crate, 'allocN') -> name of the static it refers to
        self.closure_of = {}       # (crate, fn name, local) -> closure def path
        self.closure_zst = {}      # (crate, fn name, bb, kept-line index) -> [def paths of zero-sized closure constants, in order]
        self.closure_nup = {}      # (crate, fn name, local) -> number of captured upvars (textual MIR prints only one capture per captured variable)
        self.crates = []
        self._res = {}
        self._by_suffix = None

    # ------------------------------------------------------------ loading
    def load(self, crate):
        if crate in self.crates: return
        self.crates.append(crate)
        path = os.path.join(self.mirdir, crate + '.mir')
        pk = path + '.pkl2'
        if os.path.exists(pk) and os.path.getmtime(pk) >= os.path.getmtime(path):
            try:
                items, allocs = pickle.load(open(pk, 'rb'))
                for it in items: self.items[(crate, it.name)] = it
                self.allocs.update(allocs)
                self._load_verbose(crate); self._load_adts(crate)
                return
            except Exception:
                pass
        items = []; allocs = {}
        cur = None; bb = None
        for line in open(path):
            if line.startswith('alloc'):
                ma = re.match(r'(alloc\d+) \(static: ([^,]+),', line)
                if ma: allocs[(crate, ma.group(1))] = ma.group(2)
                continue
            if line[0] not in ' \n}' and line.startswith(('fn ', 'const ', 'static ')):
                kind = line.split(' ', 1)[0]
                rest = line[len(kind) + 1:].rstrip()
                it = Item(); it.kind = kind; it.crate = crate; it.header = rest; it.locals = {}; it.blocks = {}; it.args = []
                if kind == 'static' and rest.startswith('mut '): rest = rest[4:]
                if kind == 'fn':
                    name = rest[:rest.index('(')]
                    depth = 0; j = rest.index('(')
                    for k in range(j, len(rest)):
                        if rest[k] in '([{': depth += 1
                        elif rest[k] in ')]}':
                            depth -= 1
                            if depth == 0: break
                    argstr = rest[j + 1:k]
                    for a in split_top(argstr):
                        m = re.match(r'(_\d+): (.*)$', a)
                        if m: it.args.append(m.group(1)); it.locals[m.group(1)] = m.group(2)
                    m = re.search(r'\) -> (.*) \{$', rest[k:])
                    it.ret = m.group(1) if m else '()'
                else:
                    tmp = _fix_impl(rest)
                    name = tmp[:tmp.index(': ')].replace(':@', ': ')
                    it.ret = tmp[tmp.index(': ') + 2:].rsplit(' = ', 1)[0]
                    if it.ret.endswith(' {'): it.ret = it.ret[:-2]
                it.name = name
                self.items[(crate, name)] = it; items.append(it); cur = it; bb = None
                continue
            if cur is None: continue
            if line.startswith('}'): cur = None; continue
            s = line.strip()
            if s.startswith('let '):
                m = re.match(r'let (?:mut )?(_\d+): (.*);$', s)
                if m: cur.locals[m.group(1)] = m.group(2); continue
            if s.startswith('bb'):
                m = re.match(r'(bb\d+)(?: \(cleanup\))?: \{$', s)
                if m: bb = m.group(1); cur.blocks[bb] = []; continue
            if s == '}': bb = None; continue
            if bb and s and not s.startswith(_SKIP):
                cur.blocks[bb].append(s)
        try:
            pickle.dump((items, allocs), open(pk, 'wb'))
        except Exception:
            pass
        self.allocs.update(allocs)
        self._load_verbose(crate); self._load_adts(crate)

    def _load_verbose(self, crate):
        path = os.path.join(self.mirdir, crate + '.vmir')
        if not os.path.exists(path): return
        pk = path + '.pkl4'
        if os.path.exists(pk) and os.path.getmtime(pk) >= os.path.getmtime(path):
            try:
                a, b, c = pickle.load(open(pk, 'rb')); self.closure_of.update(a); self.closure_zst.update(b); self.closure_nup.update(c); return
            except Exception: pass
        out = {}; zst = {}; nup = {}
        cur = None; bb = None; idx = 0
        zre = re.compile(r'const ConstValue\(ZeroSized: \{((?:[^{}]|\{closure#\d+\})+?::\{closure#\d+\})(?:<[^>]*>)? closure_kind_ty')
        for line in open(path):
            if line.startswith('fn '):
                cur = line[3:line.index('(')]; bb = None; continue
            if cur is None: continue
            if line.startswith('}'): cur = None; continue
            if line.startswith('    let ') and 'closure#' in line:
                m = re.match(r'\s+let (?:mut )?(_\d+): \{([A-Za-z_0-9:<>{}#, ]+?::\{closure#\d+\})(?:<[^>]*>)? closure_kind_ty', line)
                if m:
                    out[(crate, cur, m.group(1))] = re.sub(r'<[^>]*>', '', m.group(2))
                    mu = re.search(r' upvar_tys=\((.*)\)\}', line)
                    if mu: nup[(crate, cur, m.group(1))] = len(split_top(mu.group(1)))
                continue
            st = line.strip()
            if st.startswith('bb'):
                m = re.match(r'(bb\d+)(?: \(cleanup\))?: \{$', st)
                if m: bb = m.group(1); idx = 0; continue
            if st == '}': bb = None; continue
            if bb and st and not st.startswith(_SKIP):
                if 'ZeroSized: {' in st and 'closure#' in st:
                    ms = zre.findall(st)
                    if ms: zst[(crate, cur, bb, idx)] = [re.sub(r'<[^>]*>', '', x) for x in ms]
                idx += 1
        self.closure_of.update(out); self.closure_zst.update(zst); self.closure_nup.update(nup)
        try: pickle.dump((out, zst, nup), open(pk, 'wb'))
        except Exception: pass

    # ------------------------------------------------------------ ADT info from -Zunpretty=expanded
    @staticmethod
    def strip_attrs(b):
        out = []; i = 0; n = len(b)
        while i < n:
            if b.startswith('#[', i) or b.startswith('#![', i):
                depth = 0
                while i < n:
                    c = b[i]
                    if c == '"':
                        raw = b[i - 1:i] == 'r' or b[i - 2:i] == 'r#'
                        i += 1
                        while i < n and b[i] != '"':
                            if b[i] == '\\' and not raw: i += 1
                            i += 1
                    elif c == '[': depth += 1
                    elif c == ']':
                        depth -= 1
                        if depth == 0: i += 1; break
                    i += 1
                continue
            out.append(b[i]); i += 1
        return ''.join(out)

    def _load_adts(self, crate):
        path = os.path.join(self.mirdir, crate + '.expanded.rs')
        if not os.path.exists(path): return
        pk = path + '.adt.pkl'
        if os.path.exists(pk) and os.path.getmtime(pk) >= os.path.getmtime(path):
            try:
                e, p, s, j = pickle.load(open(pk, 'rb'))
                self.enums_by_crate[crate] = e
                for k, v in e.items(): self.enums.setdefault(k, v)
                for k, v in p.items(): self.enum_payload.setdefault(k, v)
                for k, v in s.items(): self.structs.setdefault(k, v)
                self.fn_jumps.update(j); return
            except Exception: pass
        src = open(path).read()
        enums = {}; payload = {}; structs = {}; jumps = {}
        for m in re.finditer(r'\benum\s+([A-Za-z_0-9]+)\s*(?:<[^>{]*>)?\s*(?:where[^{]*)?\{', src):
            name = m.group(1); i = m.end(); depth = 1; st = i
            while depth and i < len(src):
                c = src[i]
                if c == '{': depth += 1
                elif c == '}': depth -= 1
                i += 1
            body = src[st:i - 1]
            body = self.strip_attrs(body); body = re.sub(r'//[^\n]*', '', body)
            vs = []; pl = {}
            for part in split_top(body):
                mm = re.match(r'([A-Za-z_][A-Za-z_0-9]*)\s*(.*)$', part.strip(), re.S)
                if not mm: continue
                vs.append(mm.group(1)); rest = mm.group(2).strip()
                if rest.startswith('{'):
                    pl[mm.group(1)] = [re.match(r'(?:pub(?:\([a-z]+\))?\s+)?([A-Za-z_0-9]+)\s*:', f.strip()).group(1)
                                       for f in split_top(rest[1:rest.rindex('}')]) if re.match(r'(?:pub(?:\([a-z]+\))?\s+)?([A-Za-z_0-9]+)\s*:', f.strip())]
                elif rest.startswith('('):
                    pl[mm.group(1)] = len(split_top(rest[1:rest.rindex(')')]))
                else: pl[mm.group(1)] = 0
            if name == 'Jump':
                # logos: enum Jump inside fn gotoN
                k = src.rfind('fn goto', 0, m.start())
                fm = re.match(r'fn (goto\w+)', src[k:k + 40]) if k >= 0 else None
                if fm: jumps[fm.group(1)] = vs
                continue
            enums.setdefault(name, vs); payload.setdefault(name, pl)
        for m in re.finditer(r'\bstruct\s+([A-Za-z_0-9]+)\s*(?:<[^>{(;]*>)?\s*(?:where[^{;]*)?\{', src):
            name = m.group(1); i = m.end(); depth = 1; st = i
            while depth and i < len(src):
                c = src[i]
                if c == '{': depth += 1
                elif c == '}': depth -= 1
                i += 1
            body = self.strip_attrs(src[st:i - 1]); body = re.sub(r'//[^\n]*', '', body)
            fs = []
            for part in split_top(body):
                mm = re.match(r'(?:pub(?:\([a-z:]+\))?\s+)?([A-Za-z_][A-Za-z_0-9]*)\s*:\s*(.*)$', part.strip(), re.S)
                if mm: fs.append((mm.group(1), ' '.join(mm.group(2).split())))
            structs.setdefault(name, fs)
        for k, v in enums.items(): self.enums.setdefault(k, v)
        self.enums_by_crate[crate] = enums
        for k, v in payload.items(): self.enum_payload.setdefault(k, v)
        for k, v in structs.items(): self.structs.setdefault(k, v)
        self.fn_jumps.update(jumps)
        try: pickle.dump((enums, payload, structs, jumps), open(pk, 'wb'))
        except Exception: pass

    def load_expanded_only(self, crate):
        self._load_adts(crate)

    def variant_index(self, enum_path, variant, cur_crate=None):
        name = re.sub(r'<.*', '', enum_path).split('::')[-1]
        h = self.crate_hint(cur_crate, enum_path) if cur_crate else None
        if h and name in self.enums_by_crate.get(h, {}): return self.enums_by_crate[h][name].index(variant)
        vs = self.enums[name]
        if variant not in vs:
            for c, es in self.enums_by_crate.items():
                if name in es and variant in es[name]: return es[name].index(variant)
        return vs.index(variant)

    # ------------------------------------------------------------ impl index
    @functools.lru_cache(None)
    def _src(self, path):
        for r in (self.srcroot, ''):
            p = os.path.join(r, path) if r else path
            if os.path.exists(p): return open(p, errors='replace').read().split('\n')
        return None

    def build_impl_index(self):
        for key, it in self.items.items():
            if it.kind != 'fn': continue
            m = re.search(r'<impl at ([^:>]+):(\d+):(\d+): (\d+):(\d+)>::([A-Za-z_0-9]+)$', it.name)
            if not m: continue
            path, l1, c1, l2, c2, meth = m.group(1), int(m.group(2)), int(m.group(3)), int(m.group(4)), int(m.group(5)), m.group(6)
            src = self._src(path)
            if not src or l1 > len(src): continue
            snippet = src[l1 - 1][c1 - 1:c2 - 1] if l1 == l2 else ' '.join([src[l1 - 1][c1 - 1:]] + src[l1:l2 - 1] + [src[l2 - 1][:c2 - 1]])
            snippet = snippet.strip()
            self.impl_hdr[key] = snippet
            if snippet.startswith('impl'):
                s = re.sub(r'^impl\s*(<[^>]*>)?\s*', '', snippet)
                s = re.sub(r'\s+where\s.*$', '', s)
                if ' for ' in s:
                    tr, ty = s.split(' for ', 1); k3 = (lastseg(ty), traitkey(tr), meth)
                else: k3 = (lastseg(s), None, meth)
                self.impl.setdefault(k3, key); self.impl_all.setdefault(k3, []).append(key)
            else:
                ty = None
                for j in range(l1 - 1, min(l1 + 14, len(src))):
                    mm = re.search(r'\b(struct|enum)\s+([A-Za-z_0-9]+)', src[j])
                    if mm: ty = mm.group(2); break
                self.impl.setdefault((ty, snippet, meth), key); self.impl_all.setdefault((ty, snippet, meth), []).append(key)

    # ------------------------------------------------------------ callee resolution
    def resolve(self, crate, callee):
        k0 = (crate, callee)
        r = self._res.get(k0, 0)
        if r == 0:
            r = self._res[k0] = self._resolve(crate, callee)
        return r

    def _resolve(self, crate, callee):
        n = strip_generics(callee)
        if (crate, n) in self.items: return (crate, n)
        m = re.match(r'([a-z_0-9]+)::(.*)', n)
        if m and m.group(1) in CRATE_ALIAS and (CRATE_ALIAS[m.group(1)], m.group(2)) in self.items:
            return (CRATE_ALIAS[m.group(1)], m.group(2))
        m = re.match(r'^<(.+) as (.+?)>::([A-Za-z_0-9]+)(::.+)?$', n)
        if m and m.group(1).lstrip().startswith('&'): return None      # impl for a reference type: a blanket std impl (modelled), not the impl of the referent
        if m:
            k = (lastseg(m.group(1)), traitkey(m.group(2)), m.group(3))
            if k in self.impl:
                base = self.pick(self.impl_all[k], crate, m.group(1))
                if base is None: return None
                if m.group(4):
                    cand = (base[0], self.items[base].name + m.group(4))
                    return cand if cand in self.items else None
                return base
            return None
        mi = re.match(r'^(.*?)::<impl (.+)>::([A-Za-z_0-9]+)$', n)
        if mi and not mi.group(2).startswith('at '):
            modp = mi.group(1); modp = re.sub(r'^[a-z_0-9]+::', '', modp) if modp.split('::')[0] in CRATE_ALIAS else modp
            pat = re.compile(re.escape(modp) + r'::<impl at [^>]*>::' + re.escape(mi.group(3)))
            cands = [k2 for k2, it in self.items.items() if it.kind == 'fn' and pat.fullmatch(it.name)]
            if len(cands) > 1:
                ty = lastseg(re.sub(r'^.* for ', '', mi.group(2)))
                c2 = [k2 for k2 in cands if (ty, None, mi.group(3)) in self.impl_all and k2 in self.impl_all[(ty, None, mi.group(3))]]
                if c2: cands = c2
            if len(cands) == 1: return cands[0]
            return None
        parts = n.split('::')
        if len(parts) >= 2:
            k = (lastseg(parts[-2]), None, parts[-1])
            if k in self.impl:
                r = self.pick(self.impl_all[k], crate, '::'.join(parts[:-1]))
                if r is not None: return r
            ty = lastseg(parts[-2]); meth = parts[-1]; modp = '::'.join(parts[:-2])
            modp = re.sub(r'^[a-z_0-9]+::', '', modp) if modp.split('::')[0] in CRATE_ALIAS else modp
            pat = re.compile(re.escape(modp) + r'::<impl at [^>]*>::' + re.escape(meth))
            cands = [k2 for k2, it in self.items.items() if it.kind == 'fn' and pat.fullmatch(it.name)]
            def impl_type_ok(k2):
                hdr = self.impl_hdr.get(k2)
                if hdr and hdr.startswith('impl'):
                    s = re.sub(r'^impl\s*(<[^>]*>)?\s*', '', hdr); s = re.sub(r'\s+where\s.*$', '', s)
                    return lastseg(s.split(' for ', 1)[-1]) == ty          # the impl block names its type: it must be the type asked for
                return re.search(r'\b' + re.escape(ty) + r'\b', self.items[k2].header) is not None
            cands = [k2 for k2 in cands if impl_type_ok(k2)]
            if len(cands) == 1: return cands[0]
        return None

    def crate_hint(self, cur_crate, path):
        p = path.strip()
        for pre in ('&mut ', '&', 'dyn '): 
            if p.startswith(pre): p = p[len(pre):]
        first = p.split('::')[0].lstrip('<')
        return CRATE_ALIAS.get(first, cur_crate if first not in ('std', 'core', 'alloc') else None)

    def pick(self, cands, cur_crate, path):
        if len(cands) == 1: return cands[0]
        h = self.crate_hint(cur_crate, path)
        c2 = [k for k in cands if k[0] == h]
        if len(c2) == 1: return c2[0]
        # same crate, several modules: match the module path
        mods = [seg for seg in re.sub(r'<.*', '', path).split('::')[:-1] if seg not in CRATE_ALIAS]
        c3 = [k for k in (c2 or cands) if all(seg in k[1] for seg in mods)] if mods else []
        if len(c3) == 1: return c3[0]
        return None

    def pick_impl(self, type_str, trait_base, method, cur_crate=None):
        """impl method for a (possibly generic, possibly module-ambiguous) concrete type; None -> trait default; False -> ambiguous"""
        ty = lastseg(type_str)
        cands = []
        for (t, tr, me), ks in self.impl_all.items():
            if t == ty and me == method and tr and tr.split('<')[0] == trait_base: cands.extend(ks)
        if not cands: return None
        base = re.sub(r'<.*', '', type_str.strip().lstrip('&').replace('mut ', '').strip())
        mods = '::'.join(seg for seg in base.split('::')[:-1] if seg not in CRATE_ALIAS)
        def same_type(k):
            m = re.match(r'^(.*?)::<impl at ([^:>]+):(\d+)', k[1])
            if not m: return True
            if not mods or m.group(1) == mods: return True
            # impl written in another module: it is for this type only if that file does not define its own type of that name
            src = self._src(m.group(2))
            if src is None: return True
            return not any(re.search(r'\b(struct|enum)\s+%s\b' % re.escape(ty), line) for line in src)
        cands = [k for k in cands if same_type(k)]
        if not cands: return None
        def norm(t):
            m = re.search(r'<(.*)>', t)
            if not m: return ()
            return tuple(lastseg(a) for a in split_top(m.group(1)) if not a.strip().startswith("'"))
        want = norm(type_str)
        if want:
            c3 = []
            for k in cands:
                hdr = self.impl_hdr.get(k, ''); hty = hdr.split(' for ', 1)[-1] if ' for ' in hdr else hdr
                hn = norm(hty)
                if hn == want or any(len(x) == 1 and x.isupper() for x in hn): c3.append(k)      # equal args, or a blanket impl over type parameters
            cands = c3
            if not cands: return None
        return cands[0] if len(cands) == 1 else False

    def type_modules(self, tyname):
        """modules (item-name prefixes) that define inherent/trait impls for a type of this simple name: >1 means the name is ambiguous"""
        c = self.__dict__.setdefault('_tymods', {})
        if tyname not in c:
            mods = set()
            for (t, tr, me), ks in self.impl_all.items():
                if t == tyname:
                    for k in ks:
                        m = re.match(r'^(.*?)::<impl at ', k[1]); mods.add((k[0], m.group(1) if m else ''))
            c[tyname] = mods
        return c[tyname]

    def find_fn(self, crate, suffix):
        """Locate a function by unique name suffix (used by kernels to name entry points)."""
        c = [k for k in self.items if k[0] == crate and self.items[k].kind == 'fn' and (k[1] == suffix or k[1].endswith('::' + suffix))]
        if len(c) != 1: raise Unsupported('entry %s::%s: %d candidates' % (crate, suffix, len(c)))
        return c[0]

    def method(self, ty, trait, meth):
        k = (ty, trait, meth)
        if k not in self.impl: raise Unsupported('no impl %r' % (k,))
        return self.impl[k]


def lastseg(t):
    t = t.strip(); t = re.sub(r'<.*>', '', t)
    for p in ('&mut ', '&', "'_ ", 'dyn ', "'a ", "'static "): t = t.replace(p, '')
    return t.split('::')[-1].strip()


def traitkey(t):
    t = t.strip()
    m = re.match(r'^([^<]*)<(.*)>$', t)
    if not m: return lastseg(t)
    args = [a for a in split_top(m.group(2)) if not a.startswith("'")]
    return lastseg(m.group(1)) + ('<' + ','.join(lastseg(a) for a in args) + '>' if args else '')


@functools.lru_cache(None)
def strip_generics(n):
    if '::<' not in n: return n
    res = []; i = 0; L = len(n)
    while i < L:
        if n.startswith('::<', i) and not n.startswith('::<impl ', i):
            depth = 1; i += 3
            while depth and i < L:
                if n[i] == '<': depth += 1
                elif n[i] == '>' and n[i - 1] != '-': depth -= 1
                i += 1
            continue
        res.append(n[i]); i += 1
    return ''.join(res)


_PROGRAMS = {}
def program(mirdir, crates, srcroot):
    key = (mirdir, tuple(crates))
    if key not in _PROGRAMS:
        p = Program(mirdir, srcroot)
        for c in crates: p.load(c)
        for f in glob.glob(os.path.join(mirdir, '*.expanded.rs')):
            c = os.path.basename(f)[:-len('.expanded.rs')]
            if c not in crates: p.load_expanded_only(c)
        p.build_impl_index()
        _PROGRAMS[key] = p
    return _PROGRAMS[key]
