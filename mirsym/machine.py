"""Symbolic interpreter for rustc MIR (engine M).

Direct recursive style: the Python call stack mirrors the MIR call stack.  Path exploration is by
re-execution: every symbolic branch asks `choose()`, which follows the decision trace of the
current run and, at the frontier, asks the solver which alternatives are feasible, continues with the
first and queues the others.  No state is ever cloned, so contract models can be ordinary Python
functions that call back into interpreted closures.

Concrete scalars are Python ints/bools (signed types hold signed values); symbolic scalars are z3
bit-vectors / Bools of the MIR type's width.
"""
import re, sys, os, copy, time, collections, threading
import z3
from .mirread import Unsupported, INT_W, split_top, strip_generics, lastseg, traitkey, CRATE_ALIAS

sys.setrecursionlimit(1000000)
threading.stack_size(512 * 1024 * 1024)

for _t in (z3.BitVecRef, z3.BoolRef, z3.BitVecNumRef, z3.ArithRef, z3.IntNumRef, z3.ExprRef, z3.FuncDeclRef):
    copy._deepcopy_dispatch[_t] = copy._deepcopy_atomic


class Panic(Exception):
    """The code under analysis panics on this path."""
    def __init__(self, msg, where=''):
        Exception.__init__(self, msg); self.msg = msg; self.where = where

class Dead(Exception):
    """Path condition became unsatisfiable (e.g. after an assume)."""

class Split(Exception):
    """exploration stopped at the split depth; the pending prefixes are in Machine.splits"""

# ------------------------------------------------------------------ values
class Cell:
    __slots__ = ('v',)
    def __init__(self, v=None): self.v = v

class Ref:
    __slots__ = ('cell', 'path')
    def __init__(self, cell, path=()): self.cell = cell; self.path = tuple(path)
    def __repr__(self): return 'Ref(%r,%r)' % (self.cell.v if len(self.path) == 0 else '..', self.path)

class Agg:      # struct / tuple / closure / array
    __slots__ = ('name', 'f', 'g')
    def __init__(self, name, f, g=None): self.name = name; self.f = list(f); self.g = g       # g: type-parameter bindings captured by a closure
    def __repr__(self): return '%s%r' % (self.name, self.f)

class EnumV:
    __slots__ = ('name', 'disc', 'f')
    def __init__(self, name, disc, f=()): self.name = name; self.disc = disc; self.f = list(f)
    def __repr__(self): return '%s#%s%r' % (self.name, self.disc, self.f)

class VecV:     # Vec / slice / VecDeque / sets (contract model: concrete length, symbolic elements)
    __slots__ = ('items',)
    def __init__(self, items=()): self.items = list(items)
    def __repr__(self): return 'Vec%r' % (self.items,)

class Str:      # String / &str : list of bytes (int or BV8)
    __slots__ = ('b',)
    def __init__(self, b=()):
        self.b = list(b.encode() if isinstance(b, str) else b)
    def conc(self):
        if all(isinstance(x, int) for x in self.b): return bytes(self.b).decode('utf-8', 'replace')
        return None
    def __repr__(self):
        c = self.conc(); return 'Str(%r)' % c if c is not None else 'Str(sym,len=%d)' % len(self.b)

class SymStr:   # opaque symbolic string: only identity (a z3 term) is known
    __slots__ = ('t', 'lower')
    def __init__(self, t, lower=None): self.t = t; self.lower = lower
    def __repr__(self): return 'SymStr(%s)' % self.t

class IterV:
    __slots__ = ('items', 'pos', 'kind')
    def __init__(self, items, kind='owned'): self.items = list(items); self.pos = 0; self.kind = kind

class Opaque:
    __slots__ = ('tag',)
    def __init__(self, tag): self.tag = tag
    def __repr__(self): return 'Opaque(%s)' % (self.tag,)

class AddrV:
    """integer view of a pointer (only alignment / null tests are supported)"""
    __slots__ = ('r',)
    def __init__(self, r): self.r = r

class FnItem:
    __slots__ = ('name',)
    def __init__(self, name): self.name = name
    def __repr__(self): return 'FnItem(%s)' % self.name

UNIT = Agg('()', [])
def some(v): return EnumV('Option', 1, [v])
def none(): return EnumV('Option', 0, [])
def ok(v): return EnumV('Result', 0, [v])
def err(v): return EnumV('Result', 1, [v])

def is_sym(x): return isinstance(x, z3.ExprRef)

def tobv(x, w):
    if isinstance(x, bool): return z3.BitVecVal(1 if x else 0, w)
    if isinstance(x, int): return z3.BitVecVal(x, w)
    if z3.is_bool(x): return z3.If(x, z3.BitVecVal(1, w), z3.BitVecVal(0, w))
    return x
def tobool(x):
    return z3.BoolVal(x) if isinstance(x, bool) else x

def simp(x):
    """simplify a z3 term; give back a python value if it became concrete"""
    if not is_sym(x): return x
    x = z3.simplify(x)
    if z3.is_bv_value(x): return x.as_long()
    if z3.is_true(x): return True
    if z3.is_false(x): return False
    return x

def norm(v, ty):
    """wrap a python int into the range of integer type ty"""
    w = INT_W[ty]
    v &= (1 << w) - 1
    if ty[0] == 'i' and v >> (w - 1): v -= 1 << w
    return v

def b_and(*xs):
    out = []
    for x in xs:
        if x is True: continue
        if x is False: return False
        out.append(x)
    if not out: return True
    return out[0] if len(out) == 1 else z3.And(out)
def b_or(*xs):
    out = []
    for x in xs:
        if x is False: continue
        if x is True: return True
        out.append(x)
    if not out: return False
    return out[0] if len(out) == 1 else z3.Or(out)
def b_not(x):
    return (not x) if isinstance(x, bool) else z3.Not(x)
def v_eq(a, b, w=None):
    if not is_sym(a) and not is_sym(b): return a == b
    if isinstance(a, bool) or isinstance(b, bool) or z3.is_bool(a) or z3.is_bool(b): return tobool(a) == tobool(b)
    w = (a if is_sym(a) else b).size()
    return tobv(a, w) == tobv(b, w)
def ite(c, a, b, w=None):
    if c is True: return a
    if c is False: return b
    if isinstance(a, bool) or isinstance(b, bool) or (is_sym(a) and z3.is_bool(a)): return z3.If(c, tobool(a), tobool(b))
    if w is None: w = (a if is_sym(a) else b).size()
    return z3.If(c, tobv(a, w), tobv(b, w))

def copy_val(v):
    """semantic copy for `copy` operands (Copy types): duplicate aggregates, share references"""
    if isinstance(v, Agg): return Agg(v.name, [copy_val(x) for x in v.f], v.g)
    if isinstance(v, EnumV): return EnumV(v.name, v.disc, [copy_val(x) for x in v.f])
    return v

def deep_clone(v, memo=None):
    """Clone::clone model: deep copy of owned data, boxes included; shared refs are copied too (harmless)."""
    return copy.deepcopy(v)

# ------------------------------------------------------------------ place / statement compilation
def parse_place(s, i=0):
    """('local', name) | ('deref', p) | ('field', p, n, ty) | ('downcast', p, variant) | ('index', p, local) | ('cindex', p, n, fromend)"""
    if s[i] == '_':
        m = re.compile(r'_\d+').match(s, i); p = ('local', m.group(0)); i = m.end()
    elif s[i] == '(':
        if s[i + 1] == '*':
            p, i = parse_place(s, i + 2); assert s[i] == ')', s[i:]; i += 1; p = ('deref', p)
        else:
            p, i = parse_place(s, i + 1)
            if s.startswith(' as ', i):
                j = i + 4; depth = 0
                while True:
                    c = s[j]
                    if c in '(<[': depth += 1
                    elif c in '>]' and s[j - 1] != '-': depth -= 1
                    elif c == ')':
                        if depth == 0: break
                        depth -= 1
                    j += 1
                p = ('downcast', p, s[i + 4:j]); i = j + 1
            else:
                m = re.compile(r'\.(\d+): ').match(s, i); assert m, s[i:]
                i = m.end(); depth = 0; st = i
                while True:
                    c = s[i]
                    if c in '([{<': depth += 1
                    elif c == '>' and s[i - 1] != '-': depth -= 1
                    elif c in ']}': depth -= 1
                    elif c == ')':
                        if depth == 0: break
                        depth -= 1
                    i += 1
                p = ('field', p, int(m.group(1)), s[st:i]); i += 1
    else:
        raise Unsupported('place ' + s[i:])
    while i < len(s) and s[i] == '[':
        m = re.compile(r'\[(_\d+)\]').match(s, i)
        if m: p = ('index', p, m.group(1)); i = m.end(); continue
        m = re.compile(r'\[(-?)(\d+) of (\d+)\]').match(s, i)
        if m: p = ('cindex', p, int(m.group(2)), bool(m.group(1))); i = m.end(); continue
        m = re.compile(r'\[(\d+):(-?)(\d+)\]').match(s, i)
        if m: p = ('subslice', p, int(m.group(1)), int(m.group(3)), bool(m.group(2))); i = m.end(); continue
        raise Unsupported('index ' + s[i:])
    return p, i

def place_of(s):
    p, i = parse_place(s.strip())
    if i != len(s.strip()): raise Unsupported('trailing place text: ' + s)
    return p

_CAST_RE = re.compile(r'^((?:copy |move |const )?[^ ].*?) as (.*?) \((IntToInt|IntToFloat|FloatToInt|FloatToFloat|PtrToPtr|FnPtrToPtr|Transmute|PointerExposeProvenance|PointerWithExposedProvenance|PointerCoercion|Subtype)(?:\(.*\))?\)$')
_BIN_RE = re.compile(r'^(Add|Sub|Mul|Div|Rem|BitAnd|BitOr|BitXor|Shl|Shr|Eq|Ne|Lt|Le|Gt|Ge|AddWithOverflow|SubWithOverflow|MulWithOverflow|AddUnchecked|SubUnchecked|MulUnchecked|ShlUnchecked|ShrUnchecked|Offset|Cmp)\((.*)\)$')

def parse_operand(s):
    s = s.strip()
    if s.startswith('copy '): return ('copy', place_of(s[5:]))
    if s.startswith('move '): return ('move', place_of(s[5:]))
    if s.startswith('const '): return ('const', s[6:].strip())
    if re.fullmatch(r'[A-Za-z_<][A-Za-z_0-9:<>, &\'\[\]\(\)]*', s) and '::' in s: return ('const', s)
    raise Unsupported('operand ' + s)

def parse_rvalue(rhs):
    rhs = rhs.strip()
    if rhs.startswith('no_retag '): rhs = rhs[9:]
    m = _CAST_RE.match(rhs)
    if m: return ('cast', parse_operand(m.group(1)), m.group(2), m.group(3))
    if rhs.startswith(('copy ', 'move ', 'const ')): return ('use', parse_operand(rhs))
    m = re.match(r'^&(?:mut |raw const |raw mut |fake shallow |fake )?(.*)$', rhs)
    if m: return ('ref', place_of(m.group(1)))
    m = re.match(r'^discriminant\((.*)\)$', rhs)
    if m: return ('discr', place_of(m.group(1)))
    m = _BIN_RE.match(rhs)
    if m:
        a, b = split_top(m.group(2))
        return ('bin', m.group(1), parse_operand(a), parse_operand(b))
    m = re.match(r'^(Not|Neg|PtrMetadata)\((.*)\)$', rhs)
    if m: return ('un', m.group(1), parse_operand(m.group(2)))
    m = re.match(r'^Len\((.*)\)$', rhs)
    if m: return ('len', place_of(m.group(1)))
    m = re.match(r'^CopyForDeref\((.*)\)$', rhs)
    if m: return ('use', ('copy', place_of(m.group(1))))
    if rhs.startswith('[') and rhs.endswith(']'):
        inner = rhs[1:-1]
        parts = split_top(inner, ';')
        if len(parts) == 2 and not split_top(inner)[1:]:
            return ('repeat', parse_operand(parts[0]), parts[1].strip())
        return ('array', [parse_operand(x) for x in split_top(inner)])
    if rhs.startswith('(') and rhs.endswith(')'):
        return ('tuple', [parse_operand(x) for x in split_top(rhs[1:-1])])
    m = re.match(r'^(\{(?:closure|coroutine)@[^}]*\}) \{(.*)\}$', rhs) or re.match(r'^(\{(?:closure|coroutine)@[^}]*\})$', rhs)
    if m:
        caps = []
        if m.lastindex == 2:
            for x in split_top(m.group(2)):
                caps.append(parse_operand(x.split(': ', 1)[1] if re.match(r'[A-Za-z_0-9]+: ', x) else x))
        return ('closure', m.group(1), caps)
    m = re.match(r'^([A-Za-z_<][^{(]*?) \{ (.*) \}$', rhs)
    if not m and rhs.endswith(' }') and re.match(r'^[A-Za-z_<]', rhs):
        # struct path whose generic arguments contain parentheses, e.g. phf::Map::<&str, ()> { .. }
        depth = 0
        for i, ch in enumerate(rhs):
            if ch in '<(': depth += 1
            elif ch in '>)' and not (ch == '>' and rhs[i - 1] == '-'): depth -= 1
            elif ch == '{' and depth == 0 and rhs[i - 1] == ' ':
                m = re.match(r'^(.*) \{ (.*) \}$', rhs[:i - 1] + ' { ' + rhs[i + 2:]) if rhs[i + 1] == ' ' else None
                break
    if m:
        names = []; ops = []
        for x in split_top(m.group(2)):
            fn, op = x.split(': ', 1); names.append(fn); ops.append(parse_operand(op))
        return ('struct', strip_generics(m.group(1)), names, ops)
    if rhs.endswith(')'):
        # Path::Variant(ops) or TupleStruct::<G>(ops): find the '(' matching the final ')'
        depth = 0; j = None
        for i in range(len(rhs) - 1, -1, -1):
            c = rhs[i]
            if c == ')': depth += 1
            elif c == '(':
                depth -= 1
                if depth == 0: j = i; break
        if j:
            head = strip_generics(rhs[:j]); args = rhs[j + 1:-1]
            mm = re.match(r'^(.*)::([A-Za-z_0-9]+)$', head)
            if mm: return ('variant', mm.group(1), mm.group(2), [parse_operand(x) for x in split_top(args)])
            if re.fullmatch(r'[A-Za-z_][A-Za-z_0-9]*', head): return ('variant', '', head, [parse_operand(x) for x in split_top(args)])
    m = re.match(r'^(.*)::([A-Za-z_0-9]+)$', rhs)
    if m: return ('variant', strip_generics(m.group(1)), m.group(2), [])
    if re.fullmatch(r'[A-Za-z_][A-Za-z_0-9]*', rhs): return ('struct', rhs, [], [])
    raise Unsupported('rvalue ' + rhs)

def parse_statement(s):
    m = re.match(r'^discriminant\((.*)\) = (\d+);$', s)
    if m: return ('setdisc', place_of(m.group(1)), int(m.group(2)))
    if s.startswith(('Deinit(', 'assume(', 'Intrinsic(')): return ('nop',)
    i = s.index(' = ')
    return ('assign', place_of(s[:i]), parse_rvalue(s[i + 3:].rstrip(';')))

def parse_terminator(t):
    if t == 'return;': return ('return',)
    m = re.match(r'^goto -> (bb\d+);$', t)
    if m: return ('goto', m.group(1))
    if t == 'unreachable;': return ('unreachable',)
    if t.startswith(('resume', 'unwind resume', 'terminate', 'abort', 'unwind terminate')): return ('resume',)
    m = re.match(r'^drop\((.*)\) -> \[return: (bb\d+)', t)
    if m: return ('goto', m.group(2))
    m = re.match(r'^falseEdge -> \[real: (bb\d+)', t) or re.match(r'^falseUnwind -> \[real: (bb\d+)', t)
    if m: return ('goto', m.group(1))
    m = re.match(r'^assert\((!?)(.*?), "(.*?)"(.*)\) -> \[success: (bb\d+)', t)
    if m: return ('assert', bool(m.group(1)), parse_operand(m.group(2)), m.group(3), m.group(5))
    m = re.match(r'^switchInt\((.*?)\) -> \[(.*)\];$', t)
    if m:
        arms = []; other = None
        for a in split_top(m.group(2)):
            k, tb = a.split(': ')
            if k == 'otherwise': other = tb
            else: arms.append((int(k), tb))
        return ('switch', parse_operand(m.group(1)), arms, other)
    # calls
    if ' -> ' in t:
        head, tail = t.rsplit(' -> ', 1)
        mm = re.match(r'\[return: (bb\d+)', tail); retbb = mm.group(1) if mm else None
        if not mm and re.match(r'(bb\d+);', tail): retbb = None     # `-> bbN;` = unwind edge of a diverging call
        if ' = ' in head:
            dst, call = head.split(' = ', 1)
            # a ' = ' might be inside generics; take the first top-level
            call = call.strip()
            if not call.endswith(')'): raise Unsupported('terminator ' + t)
            depth = 0; j = None
            for i in range(len(call) - 1, -1, -1):
                c = call[i]
                if c == ')': depth += 1
                elif c == '(':
                    depth -= 1
                    if depth == 0: j = i; break
            argstr = call[j + 1:-1]
            args = [parse_operand(a) for a in split_top(argstr)] if argstr.strip() else []
            return ('call', place_of(dst.strip()), call[:j].strip(), args, retbb)
    raise Unsupported('terminator ' + t)

def compile_item(it):
    if it.compiled is None:
        it.compiled = {}
    return it.compiled

_ZST_LOCALS = {}
ZST_DEFS = None     # set by Machine: prog.closure_zst
def _annotate(it, bb, raw):
    if ZST_DEFS is None: return raw
    out = []
    for i, s in enumerate(raw):
        if 'const ZeroSized: {closure@' in s:
            defs = ZST_DEFS.get((it.crate, it.name, bb, i))
            if defs:
                k = [0]
                def rep(m):
                    j = k[0]; k[0] += 1
                    return m.group(0) + ('@@DEF@@' + defs[j] if j < len(defs) else '')
                s = re.sub(r'const ZeroSized: \{closure@[^}]*\}', rep, s)
        out.append(s)
    return out

NUP = None           # set by Machine: prog.closure_nup
def _fix_closure_captures(it, stmts):
    """textual MIR prints one capture per captured *variable*; a closure that captures several disjoint places of one variable
    therefore shows too few operands.  The missing operands are the references built just before the aggregate that nothing else uses."""
    if NUP is None: return stmts
    for idx, s in enumerate(stmts):
        if s[0] != 'assign' or s[2][0] != 'closure' or s[1][0] != 'local': continue
        need = NUP.get((it.crate, it.name, s[1][1]))
        caps = s[2][2]
        if not need or len(caps) >= need: continue
        text = '\n'.join('\n'.join(v) for v in it.blocks.values())
        have = {c[1][1] for c in caps if c[0] in ('move', 'copy') and c[1][0] == 'local'}
        first = min((int(x[1:]) for x in have), default=None)
        extra = []
        for t in stmts[:idx]:
            if t[0] == 'assign' and t[1][0] == 'local' and t[1][1] not in have:
                loc = t[1][1]
                if len(re.findall(r'\b%s\b' % loc, text)) == 1 and (first is None or int(loc[1:]) > first): extra.append(('move', ('local', loc)))
        if len(caps) + len(extra) != need:
            raise Unsupported('closure captures cannot be reconstructed (%d printed, %d needed, %d candidates)' % (len(caps), need, len(extra)))
        stmts[idx] = ('assign', s[1], ('closure', s[2][1], list(caps) + extra))
    return stmts

def block(it, bb):
    c = it.compiled
    if c is None: c = it.compiled = {}
    r = c.get(bb)
    if r is None:
        raw = _annotate(it, bb, it.blocks[bb])
        try:
            stmts = [parse_statement(s) for s in raw[:-1]]
            stmts = _fix_closure_captures(it, stmts)
            term = parse_terminator(raw[-1])
        except Unsupported as e:
            raise Unsupported('%s in %s %s' % (e, it.name, bb))
        r = c[bb] = (stmts, term)
    return r

# ------------------------------------------------------------------ machine
class Frame:
    __slots__ = ('item', 'locals', 'generics')

class PathResult:
    __slots__ = ('pc', 'result', 'panic', 'events', 'trace', 'inconclusive', 'extra')

class Machine:
    def __init__(self, prog, stubs=None, max_steps=2_000_000, release=False, timeout_ms=20000, arith=False):
        self.prog = prog; self.stubs = [(re.compile(p), f) for p, f in (stubs or {}).items()]
        self.max_steps = max_steps; self.release = release
        # arith=True: path feasibility is decided by z3's integer-blasting bit-vector solver (smt.bv.solver=2), for kernels dominated by multiply / divide by constants
        self.arith = arith
        self.solver = z3.SimpleSolver() if arith else z3.Solver()
        if arith: self.solver.set('smt.bv.solver', 2)
        self.solver.set('timeout', timeout_ms)
        self.stats = collections.Counter(); self.promoted = {}
        self.trace = []; self.tpos = 0; self.work = []
        self.pc = []; self.events = []; self.steps = 0; self.nfresh = 0; self._divcache = {}
        self.base_constraints = []
        self.encoded = set()       # item keys actually executed
        self.models_used = set()   # contract models actually used
        self._dyn = {}; self._clo = {}
        self.split_depth = None; self.splits = []; self.domains = {}
        global ZST_DEFS, NUP
        ZST_DEFS = prog.closure_zst; NUP = prog.closure_nup
        from . import models
        self.intrinsics = models.INTRINSICS

    # ---- symbolic inputs
    def fresh_bv(self, name, w):
        self.nfresh += 1; return z3.BitVec('%s!%d' % (name, self.nfresh), w)
    def fresh_bool(self, name):
        self.nfresh += 1; return z3.Bool('%s!%d' % (name, self.nfresh))
    def assume(self, c):
        c = simp(c)
        if c is True: return
        if c is False: raise Dead()
        self.pc.append(c); self.solver.add(c)

    # ---- path exploration
    def choose(self, conds):
        """conds: list of bool terms, mutually exclusive & exhaustive by construction. Returns the index taken."""
        cs = [simp(c) for c in conds]
        for i, c in enumerate(cs):
            if c is True: return i
        live = [i for i, c in enumerate(cs) if c is not False]
        if not live: raise Dead()
        dm = self._domain_test(cs) if (self.domains and len(cs) == 2) else None
        if dm is not None:
            # `var == const` on a variable with a declared finite domain: decided from the domain, no solver call
            key, val, dom, eqi = dm            # cs[eqi] is the equality, cs[1 - eqi] its negation
            if val not in dom: return 1 - eqi
            if len(dom) == 1: return eqi
            if self.tpos < len(self.trace):
                i = self.trace[self.tpos]; self.tpos += 1
            else:
                if self.split_depth is not None and len(self.trace) >= self.split_depth:
                    for j in (0, 1): self.splits.append(self.trace + [j])
                    raise Split()
                self.work.append(self.trace + [1]); self.stats['forks'] += 1
                i = 0; self.trace.append(i); self.tpos += 1
            self.domains[key] = {val} if i == eqi else dom - {val}
            self.pc.append(cs[i]); self.solver.add(cs[i]); return i
        if self.tpos < len(self.trace):
            i = self.trace[self.tpos]; self.tpos += 1
            self.pc.append(cs[i]); self.solver.add(cs[i]); return i
        feas = []
        for i in live:
            self.stats['smt'] += 1
            self.solver.push(); self.solver.add(cs[i]); r = self.solver.check(); self.solver.pop()
            if r == z3.unknown: raise Unsupported('solver unknown in feasibility check')
            if r == z3.sat: feas.append(i)
        if not feas: raise Dead()
        if self.split_depth is not None and len(self.trace) >= self.split_depth and len(feas) > 1:
            for j in feas: self.splits.append(self.trace + [j])
            raise Split()
        for j in feas[1:]:
            self.work.append(self.trace + [j]); self.stats['forks'] += 1
        i = feas[0]
        self.trace.append(i); self.tpos += 1
        self.pc.append(cs[i]); self.solver.add(cs[i])
        return i

    def declare_domain(self, var, values):
        """`var` (a fresh bit-vector constant) ranges over `values` and the code under analysis only ever tests it for equality
        with constants: such tests are then decided by domain bookkeeping instead of solver calls.  The constraint is also assumed."""
        self.assume(z3.Or([var == v for v in values]))
        self.domains[var.get_id()] = set(values)

    def _domain_test(self, cs):
        c = cs[0]; eqi = 0
        if not z3.is_expr(c): return None
        if z3.is_not(c): c = c.arg(0); eqi = 1
        elif z3.is_distinct(c) and c.num_args() == 2: eqi = 1
        if not (z3.is_eq(c) or (eqi == 1 and z3.is_distinct(c))): return None
        a, b = c.arg(0), c.arg(1)
        if z3.is_bv_value(a): a, b = b, a
        if not (z3.is_bv_value(b) and z3.is_const(a) and a.decl().kind() == z3.Z3_OP_UNINTERPRETED): return None
        dom = self.domains.get(a.get_id())
        if dom is None: return None
        return a.get_id(), b.as_long(), dom, eqi

    def enum_int(self, term, lo, hi):
        """fork over the feasible values of bit-vector `term` within [lo, hi] (model-based enumeration: one query per
        feasible value plus one, instead of one per candidate)"""
        t = simp(term)
        if not is_sym(t): return t
        if self.tpos < len(self.trace):
            v = self.trace[self.tpos]; self.tpos += 1
            c = t == v; self.pc.append(c); self.solver.add(c); return v
        vals = []
        self.solver.push()
        self.solver.add(z3.UGE(t, lo), z3.ULE(t, hi))
        while True:
            self.stats['smt'] += 1
            r = self.solver.check()
            if r == z3.unknown: self.solver.pop(); raise Unsupported('solver unknown in value enumeration')
            if r != z3.sat: break
            v = self.solver.model().eval(t, True).as_long(); vals.append(v); self.solver.add(t != v)
        self.solver.pop()
        if not vals: raise Dead()
        vals.sort()
        if self.split_depth is not None and len(self.trace) >= self.split_depth:
            for v in vals: self.splits.append(self.trace + [v])
            raise Split()
        for v in vals[1:]:
            self.work.append(self.trace + [v]); self.stats['forks'] += 1
        v = vals[0]
        self.trace.append(v); self.tpos += 1
        c = t == v; self.pc.append(c); self.solver.add(c)
        return v

    def branch(self, c):
        """bool decision"""
        c = simp(c)
        if isinstance(c, bool): return c
        return self.choose([c, z3.Not(c)]) == 0

    def concretize(self, v, candidates):
        """fork v over a finite list of candidate python values (plus 'other' -> Unsupported)"""
        if not is_sym(v): return v
        i = self.choose([v == c for c in candidates] + [z3.And([v != c for c in candidates])])
        if i == len(candidates): raise Unsupported('value outside candidate set')
        return candidates[i]

    def split(self, entry, depth):
        """explore only down to `depth` decisions; returns (finished path results, pending prefixes)"""
        self.split_depth = depth; self.splits = []
        done = self.explore(entry)
        self.split_depth = None
        sp = self.splits; self.splits = []
        return done, sp

    def explore(self, entry, on_path=None, prefixes=None, max_paths=100000):
        """Run entry(M) along every feasible path.  entry builds the inputs and calls into the code.
        Returns list of PathResult (or whatever on_path returns)."""
        out = []
        self.work = [list(p) for p in prefixes] if prefixes is not None else [[]]
        npaths = 0
        while self.work:
            self.trace = self.work.pop(); self.tpos = 0
            self.pc = []; self.events = []; self.steps = 0; self.nfresh = 0; self.domains = {}; self._divcache = {}
            self.solver.reset(); self.solver.set('timeout', 20000)
            if self.arith: self.solver.set('smt.bv.solver', 2)
            for c in self.base_constraints: self.solver.add(c)
            pr = PathResult(); pr.panic = None; pr.result = None; pr.inconclusive = None; pr.extra = None
            try:
                pr.result = entry(self)
            except Panic as e:
                pr.panic = e
            except (Dead, Split):
                continue
            except Unsupported as e:
                pr.inconclusive = str(e)
            except RecursionError:
                pr.inconclusive = 'python recursion limit'
            pr.pc = list(self.pc); pr.events = list(self.events); pr.trace = list(self.trace)
            npaths += 1; self.stats['paths'] += 1
            out.append(on_path(self, pr) if on_path else pr)
            if npaths >= max_paths:
                if self.work:
                    pr2 = PathResult(); pr2.panic = None; pr2.result = None; pr2.pc = []; pr2.events = []; pr2.trace = []
                    pr2.inconclusive = 'path budget exhausted (%d paths, %d pending)' % (npaths, len(self.work)); pr2.extra = None
                    out.append(on_path(self, pr2) if on_path else pr2)
                break
        return out

    # ---- memory
    def lv(self, fr, p):
        k = p[0]
        if k == 'local':
            c = fr.locals.get(p[1])
            if c is None: c = fr.locals[p[1]] = Cell(None)
            return c, ()
        if k == 'deref':
            c, path = self.lv(fr, p[1]); r = self.get(c, path)
            if isinstance(r, Ref): return r.cell, r.path
            raise Unsupported('deref of %r' % (r,))
        c, path = self.lv(fr, p[1])
        if k == 'field': return c, path + (('f', p[2]),)
        if k == 'downcast': return c, path
        if k == 'cindex':
            if p[3]: return c, path + (('ie', p[2]),)
            return c, path + (('i', p[2]),)
        if k == 'index':
            iv = simp(fr.locals[p[2]].v)
            if is_sym(iv): raise Unsupported('symbolic index')
            return c, path + (('i', iv),)
        raise Unsupported('place kind ' + k)

    def get(self, cell, path):
        v = cell.v
        for kind, n in path:
            if kind == 'f':
                if isinstance(v, (Agg, EnumV)):
                    try: v = v.f[n]
                    except IndexError: raise Unsupported('field %d of %r' % (n, v))
                elif isinstance(v, Ref) and n == 0: pass       # Box / Unique / NonNull newtype deref-through
                elif isinstance(v, Opaque): v = Opaque((v.tag, 'f', n))
                elif isinstance(v, (VecV, Str)) and n == 0: pass
                else: raise Unsupported('field of %r' % (v,))
            else:
                if isinstance(v, Ref): v = self.get(v.cell, v.path)
                seq = v.items if isinstance(v, VecV) else (v.f if isinstance(v, Agg) else (v.b if isinstance(v, Str) else None))
                if seq is None: raise Unsupported('index of %r' % (v,))
                if kind == 'ie': n = len(seq) - n
                if not (0 <= n < len(seq)): raise Panic('index out of bounds')
                v = seq[n]
        return v

    def put(self, cell, path, val):
        if not path: cell.v = val; return
        v = cell.v
        for kind, n in path[:-1]:
            if kind == 'f':
                if isinstance(v, Ref) and n == 0: continue
                v = v.f[n]
            else:
                if isinstance(v, Ref): v = self.get(v.cell, v.path)
                seq = v.items if isinstance(v, VecV) else v.f
                v = seq[len(seq) - n if kind == 'ie' else n]
        kind, n = path[-1]
        if kind == 'f':
            if v is None: raise Unsupported('field write into uninitialised aggregate')
            if isinstance(v, Ref) and n == 0: raise Unsupported('write through box newtype')
            while len(v.f) <= n: v.f.append(None)
            v.f[n] = val
        else:
            if isinstance(v, Ref): v = self.get(v.cell, v.path)
            seq = v.items if isinstance(v, VecV) else (v.b if isinstance(v, Str) else v.f)
            if kind == 'ie': n = len(seq) - n
            seq[n] = val

    def read(self, fr, p):
        c, path = self.lv(fr, p); return self.get(c, path)
    def write(self, fr, p, val):
        c, path = self.lv(fr, p)
        if not path: c.v = val
        else:
            # field write into a not-yet-built aggregate: create it from the local's declared type
            if c.v is None and path[0][0] == 'f':
                c.v = Agg(strip_generics(fr.item.locals.get(p_root(p), '?')), [])
            self.put(c, path, val)
    def deref(self, r):
        while isinstance(r, Ref): r = self.get(r.cell, r.path)
        return r

    # ---- types
    def placetype(self, fr, p):
        k = p[0]
        if k == 'local': return fr.item.locals.get(p[1])
        if k == 'field': return p[3]
        if k == 'downcast': return self.placetype(fr, p[1])
        t = self.placetype(fr, p[1])
        if t is None: return None
        if k == 'deref':
            t = t.strip()
            for pre in ('&mut ', '&', '*const ', '*mut '):
                if t.startswith(pre):
                    t = t[len(pre):]
                    t = re.sub(r"^'[a-z_]+ (mut )?", '', t)
                    return t
            m = re.match(r'^std::boxed::Box<(.*)>$', t)
            return m.group(1) if m else None
        if k in ('index', 'cindex'):
            m = re.match(r'^\[(.*?)(; \d+)?\]$', t)
            return m.group(1) if m else None
        return None
    def optype(self, fr, op):
        if op[0] in ('copy', 'move'): return self.placetype(fr, op[1])
        c = op[1]
        m = re.match(r'^-?\d+_([iu](?:8|16|32|64|128|size))$', c)
        if m: return m.group(1)
        m = re.match(r'^([iu](?:8|16|32|64|128|size))::(MAX|MIN)$', c)
        if m: return m.group(1)
        if c in ('true', 'false'): return 'bool'
        if c.startswith("'"): return 'char'
        return None

    # ---- operands
    def operand(self, fr, op):
        k = op[0]
        if k == 'move': return self.read(fr, op[1])
        if k == 'copy': return copy_val(self.read(fr, op[1]))
        return self.const(fr, op[1])

    _INT_RE = re.compile(r'^(-?\d+)_(u8|i8|u16|i16|u32|i32|u64|i64|usize|isize|u128|i128)$')
    def const(self, fr, c):
        m = self._INT_RE.match(c)
        if m: return int(m.group(1))
        if c == 'true': return True
        if c == 'false': return False
        if c == '()': return UNIT
        m = re.match(r'^(u8|u16|u32|u64|usize|i8|i16|i32|i64|i128|u128|isize)::(MAX|MIN)$', c)
        if m:
            w = INT_W[m.group(1)]; sg = m.group(1)[0] == 'i'
            return (2 ** (w - 1) - 1 if sg else 2 ** w - 1) if m.group(2) == 'MAX' else (-(2 ** (w - 1)) if sg else 0)
        m = re.match(r'^(?:core::num::<impl )?(u8|u16|u32|u64|usize|i8|i16|i32|i64|i128|u128|isize)>?::(MAX|MIN|BITS)$', c)
        if m:
            w = INT_W[m.group(1)]; sg = m.group(1)[0] == 'i'
            if m.group(2) == 'BITS': return w
            return (2 ** (w - 1) - 1 if sg else 2 ** w - 1) if m.group(2) == 'MAX' else (-(2 ** (w - 1)) if sg else 0)
        if c.startswith('"'): return Ref(Cell(Str(_unescape(c))))
        if c.startswith('b"'): return Ref(Cell(VecV(list(_unescape_bytes(c[1:])))))
        if c.startswith("'"): return ord(_unescape('"' + c[1:-1] + '"'))
        if c.startswith('ZeroSized: '): return self.zst(fr, c[len('ZeroSized: '):])
        ma = re.match(r'^\{(alloc\d+): (&+)', c)
        if ma:
            nm = self.prog.allocs.get((fr.item.crate, ma.group(1)))
            if nm is None: raise Unsupported('constant allocation ' + c)
            v = Agg('static:' + nm, [])
            for _ in ma.group(2): v = Ref(Cell(v))
            return v
        mg = re.match(r'^<(.+) as (.+)>::([A-Z_0-9]+)$', c)
        if mg:
            ty = mg.group(1)
            if fr.generics and ty in fr.generics: ty = fr.generics[ty]
            return self.assoc_const(fr, ty, mg.group(2), mg.group(3))
        m = re.match(r'^(.*)::promoted\[(\d+)\]$', c)
        if m:
            k2 = (fr.item.crate, fr.item.name + '::promoted[%s]' % m.group(2))
            return self.eval_const_item(fr, c, k2 if k2 in self.prog.items else None)
        r = self.prog.resolve(fr.item.crate, c)
        if r and self.prog.items[r].kind in ('const', 'static'): return self.eval_const_item(fr, c, r)
        if r and self.prog.items[r].kind == 'fn': return FnItem(c)
        m = re.match(r'^(\d+(?:\.\d+)?(?:[eE][-+]?\d+)?)f(32|64)$', c) or re.match(r'^(-?\d+(?:\.\d+)?(?:[eE][-+]?\d+)?)f(32|64)$', c)
        if m: return Opaque(('float', float(m.group(1))))
        mv = re.match(r'^std::(result::Result|option::Option)::<.*>::(Ok|Err|Some)\((.*)\)$', c) or re.match(r'^std::(option::Option)::<.*>::(None)()$', c)
        if mv:
            # constant of a std enum: Result::<..>::Err(UnitStruct()) and the like
            inner = mv.group(3).strip()
            if mv.group(2) == 'None': return none()
            if re.fullmatch(r'[A-Za-z_0-9:<>]+\(\)', inner): val = Agg(strip_generics(inner[:-2]).split('::')[-1], [])
            else: val = self.const(fr, inner)
            return {'Ok': ok, 'Err': err, 'Some': some}[mv.group(2)](val)
        mc = re.match(r'^(?:([a-z_0-9]+)::)?(.*)::([A-Za-z_0-9]+)::([A-Z][A-Z_0-9]*)$', c)
        if mc:
            # associated constant of an inherent impl: `module::Type::NAME` is printed as `module::<impl at ..>::NAME` where it is defined
            from .mirread import CRATE_ALIAS
            crate = CRATE_ALIAS.get(mc.group(1), fr.item.crate) if mc.group(1) else fr.item.crate
            modp = mc.group(2) if (mc.group(1) in CRATE_ALIAS or mc.group(1) is None) else (mc.group(1) + '::' + mc.group(2))
            pat = re.compile(r'^' + re.escape(modp) + r'::<impl at ([^:>]+):(\d+):(\d+): [^>]*>::' + re.escape(mc.group(4)) + r'$')
            cands = []
            for k2, it in self.prog.items.items():
                if it.kind != 'const' or k2[0] != crate: continue
                mm = pat.match(it.name)
                if not mm: continue
                src = self.prog._src(mm.group(1)); line = src[int(mm.group(2)) - 1] if src and int(mm.group(2)) <= len(src) else ''
                if re.search(r'\bimpl\b[^{]*\b' + re.escape(mc.group(3)) + r'\b', line): cands.append(k2)
            if len(cands) == 1: return self.eval_const_item(fr, c, cands[0])
        if '::' in c and not c.startswith('{'): return FnItem(c)
        return Opaque(('const', c))
    def assoc_const(self, fr, ty, trait, name):
        if trait.endswith('SizedTypeProperties'):
            return {'ALIGN': 8, 'SIZE': 8, 'IS_ZST': False}.get(name, 8)       # layout facts: nonzero size, power-of-two alignment
        return Ref(Cell(Str('ASSOC:%s:%s' % (lastseg(ty), name))))
    def zst(self, fr, t):
        if t.startswith('{closure@'):
            if '@@DEF@@' in t:
                t, d = t.split('@@DEF@@', 1)
                return Agg(t + '@@' + fr.item.name + '@@' + d, [], fr.generics)
            return Agg(t + '@@' + fr.item.name, [], fr.generics)
        return FnItem(t)
    def eval_const_item(self, fr, c, key=None):
        items = self.prog.items
        key = key or (fr.item.crate, c)
        if key not in items:
            suffix = c.split('::', 1)[-1]
            cands = [k for k in items if k[0] == fr.item.crate and k[1].endswith(suffix)]
            if len(cands) != 1: raise Unsupported('const ' + c)
            key = cands[0]
        if key not in self.promoted:
            it = items[key]
            if not it.blocks:
                m = re.search(r' = const (.*);$', it.header)
                if m: self.promoted[key] = self.const(fr, m.group(1).strip())
                else: raise Unsupported('const item without body ' + c)
            else:
                self.promoted[key] = self.call_fn(key, [])
        v = self.promoted[key]
        return deep_clone(v)

    # ---- execution
    def call_fn(self, key, args, generics=None):
        it = self.prog.items[key]
        self.encoded.add(key)
        fr = Frame(); fr.item = it; fr.locals = {}; fr.generics = generics
        for a, v in zip(it.args, args): fr.locals[a] = Cell(v)
        # a non-capturing closure bound to a variable is zero-sized: MIR declares the local and never assigns it
        zl = _ZST_LOCALS.get(id(it))
        if zl is None: zl = _ZST_LOCALS[id(it)] = [(l, t) for l, t in it.locals.items() if t.startswith('{closure@') and l not in it.args]
        for l, t in zl: fr.locals[l] = Cell(self.zst(fr, t))
        bb = 'bb0'
        while True:
            stmts, term = block(it, bb)
            self.steps += len(stmts) + 1
            if self.steps > self.max_steps: raise Unsupported('step budget exceeded (unwinding bound)')
            try:
                for s in stmts:
                    if s[0] == 'assign':
                        self.write(fr, s[1], self.rvalue(fr, s[2], s[1]))
                    elif s[0] == 'setdisc':
                        v = self.read(fr, s[1])
                        if isinstance(v, EnumV): v.disc = s[2]
                        else:
                            ty = self.placetype(fr, s[1]) or '?'
                            self.write(fr, s[1], EnumV(lastseg(ty), s[2], v.f if isinstance(v, Agg) else []))
                k = term[0]
                if k == 'goto': bb = term[1]; continue
                if k == 'return':
                    c = fr.locals.get('_0')
                    return c.v if c is not None and c.v is not None else UNIT
                if k == 'switch':
                    v = simp(self.operand(fr, term[1]))
                    arms, other = term[2], term[3]
                    if not is_sym(v):
                        iv = int(v); nb = other
                        for kk, tb in arms:
                            if kk == iv: nb = tb; break
                        if nb is None: raise Unsupported('switch without target')
                        bb = nb; continue
                    conds = []; neg = []
                    for kk, tb in arms:
                        cnd = (v if kk else z3.Not(v)) if z3.is_bool(v) else (v == z3.BitVecVal(kk, v.size()))
                        conds.append(cnd); neg.append(z3.Not(cnd))
                    tg = [tb for _, tb in arms]
                    if other: conds.append(z3.And(neg) if len(neg) > 1 else neg[0]); tg.append(other)
                    bb = tg[self.choose(conds)]; continue
                if k == 'call':
                    dst, callee, aops, retbb = term[1], term[2], term[3], term[4]
                    args2 = [self.operand(fr, a) for a in aops]
                    if callee.startswith(('copy _', 'move _', 'copy (', 'move (')):
                        r = self.call_closure(fr, self.operand(fr, parse_operand(callee)), args2)      # call through a fn pointer / closure value
                    else:
                        r = self.invoke(fr, callee, args2)
                    if retbb is None:
                        raise Unsupported('diverging call returned: ' + callee)
                    self.write(fr, dst, r)
                    bb = retbb; continue
                if k == 'assert':
                    c = self.operand(fr, term[2])
                    if term[1]: c = b_not(c)
                    msg = term[3]
                    if self.release and 'overflow' in msg: bb = term[4]; continue
                    if self.branch(c): bb = term[4]; continue
                    raise Panic(msg, it.name)
                if k == 'unreachable': raise Unsupported('reached `unreachable` in ' + it.name)
                raise Unsupported('terminator kind ' + k)
            except Unsupported as e:
                if not getattr(e, 'ctx', None):
                    e.ctx = 1; e.args = ('%s\n   in %s %s' % (e.args[0] if e.args else '', it.name, bb),)
                elif e.ctx < 6 and os.environ.get('MIRSYM_TRACE'):
                    e.ctx += 1; e.args = ('%s\n   called from %s %s' % (e.args[0], it.name, bb),)
                raise
            except Panic as e:
                if not e.where: e.where = it.name
                raise

    def rvalue(self, fr, rv, dst=None):
        k = rv[0]
        if k == 'use': return self.operand(fr, rv[1])
        if k == 'ref':
            c, path = self.lv(fr, rv[1]); return Ref(c, path)
        if k == 'bin':
            a = self.operand(fr, rv[2]); b = self.operand(fr, rv[3])
            ty = self.optype(fr, rv[2]) or self.optype(fr, rv[3])
            return self.binop(rv[1], a, b, ty, self.optype(fr, rv[3]))
        if k == 'variant':
            ops = [self.operand(fr, x) for x in rv[3]]
            try: idx = self.prog.variant_index(rv[1], rv[2], fr.item.crate)
            except (KeyError, ValueError):
                return Agg(rv[1] + '::' + rv[2] if rv[1] else rv[2], ops)
            return EnumV(lastseg(rv[1]), idx, ops)
        if k == 'struct':
            return Agg(rv[1], [self.operand(fr, x) for x in rv[3]])
        if k == 'discr':
            v = self.read(fr, rv[1])
            if isinstance(v, EnumV): return v.disc
            raise Unsupported('discriminant of %r' % (v,))
        if k == 'cast': return self.cast(fr, self.operand(fr, rv[1]), rv[2], rv[3], self.optype(fr, rv[1]))
        if k == 'tuple': return Agg('()', [self.operand(fr, x) for x in rv[1]])
        if k == 'array': return Agg('[]', [self.operand(fr, x) for x in rv[1]])
        if k == 'repeat':
            v = self.operand(fr, rv[1]); n = self.const(fr, rv[2]) if not rv[2].isdigit() else int(rv[2])
            return Agg('[]', [copy_val(v) for _ in range(n)])
        if k == 'un':
            a = self.operand(fr, rv[2])
            if rv[1] == 'PtrMetadata':
                v = self.deref(a); return self.seq_len(v)
            if isinstance(a, bool): return not a
            if is_sym(a) and z3.is_bool(a): return z3.Not(a)
            ty = self.optype(fr, rv[2])
            if rv[1] == 'Not':
                if isinstance(a, int): return norm(~a, ty)
                return ~a
            if isinstance(a, int): return norm(-a, ty)
            return -a
        if k == 'len':
            v = self.deref(self.read(fr, rv[1])); return self.seq_len(v)
        if k == 'closure':
            caps = [self.operand(fr, x) for x in rv[2]]
            defp = None
            if dst is not None and dst[0] == 'local':
                defp = self.prog.closure_of.get((fr.item.crate, fr.item.name, dst[1]))
            return Agg(rv[1] + '@@' + fr.item.name + ('@@' + defp if defp else ''), caps, fr.generics)
        raise Unsupported('rvalue kind ' + k)

    def seq_len(self, v):
        if isinstance(v, VecV): return len(v.items)
        if isinstance(v, Str): return len(v.b)
        if isinstance(v, Agg): return len(v.f)
        raise Unsupported('len of %r' % (v,))

    def cast(self, fr, v, ty, kind, srcty):
        if kind == 'IntToInt':
            if ty not in INT_W: raise Unsupported('cast to ' + ty)
            w = INT_W[ty]
            if isinstance(v, bool): return int(v)
            if isinstance(v, int): return norm(v, ty) if ty != 'bool' else bool(v)
            if isinstance(v, EnumV): v = v.disc
            if isinstance(v, int): return norm(v, ty)
            if z3.is_bool(v): return z3.If(v, z3.BitVecVal(1, w), z3.BitVecVal(0, w))
            if v.size() == w: return v
            if v.size() > w: return z3.Extract(w - 1, 0, v)
            if srcty and srcty[0] == 'i': return z3.SignExt(w - v.size(), v)
            return z3.ZeroExt(w - v.size(), v)
        if kind in ('Transmute', 'PointerExposeProvenance') and ty in INT_W and isinstance(v, Ref): return AddrV(v)
        if kind in ('PointerCoercion', 'Transmute', 'PtrToPtr', 'Subtype'): return v
        if kind == 'IntToFloat': return Opaque(('float', float(v) if isinstance(v, int) and not isinstance(v, bool) else v))
        if kind == 'FloatToFloat' and isinstance(v, Opaque) and v.tag[0] == 'float' and ty == 'f64': return v
        raise Unsupported('cast ' + kind)

    def binop(self, op, a, b, ty, tyb=None):
        if isinstance(a, AddrV) or isinstance(b, AddrV):
            # address of a live allocation: aligned and non-null (the only facts the generated checks ask for)
            if op == 'BitAnd': return 0
            if op == 'Eq': return False
            if op == 'Ne': return True
            raise Unsupported('arithmetic on a pointer address')
        if isinstance(a, EnumV): a = a.disc
        if isinstance(b, EnumV): b = b.disc
        if isinstance(a, Opaque) and isinstance(b, Opaque) and a.tag[0] == 'float' and b.tag[0] == 'float' and isinstance(a.tag[1], (int, float)) and isinstance(b.tag[1], (int, float)):
            # concrete IEEE-754 doubles: evaluated natively (floating point is not encoded symbolically)
            x, y = float(a.tag[1]), float(b.tag[1])
            if op in ('Add', 'Sub', 'Mul', 'Div'):
                try: r = {'Add': x + y, 'Sub': x - y, 'Mul': x * y}[op] if op != 'Div' else (x / y if y != 0 else (float('nan') if x == 0 or x != x else (float('inf') if (x > 0) == (str(y)[0] != '-') else float('-inf'))))
                except OverflowError: r = float('inf')
                return Opaque(('float', r))
            if op in ('Eq', 'Ne', 'Lt', 'Le', 'Gt', 'Ge'):
                return {'Eq': x == y, 'Ne': x != y, 'Lt': x < y, 'Le': x <= y, 'Gt': x > y, 'Ge': x >= y}[op]
            raise Unsupported('float binop ' + op)
        if isinstance(a, (Ref, Agg, Opaque)) or isinstance(b, (Ref, Agg, Opaque)):
            if op in ('Eq', 'Ne') and isinstance(a, Ref) and isinstance(b, Ref):
                r = a.cell is b.cell and a.path == b.path
                return r if op == 'Eq' else not r
            raise Unsupported('binop %s on %r, %r' % (op, a, b))
        boolish = isinstance(a, bool) or isinstance(b, bool) or (is_sym(a) and z3.is_bool(a)) or (is_sym(b) and z3.is_bool(b))
        if boolish:
            if op == 'Eq': return v_eq(a, b)
            if op == 'Ne': return b_not(v_eq(a, b))
            if op == 'BitAnd': return b_and(a, b)
            if op == 'BitOr': return b_or(a, b)
            if op == 'BitXor': return b_not(v_eq(a, b))
            if op in ('Lt', 'Le', 'Gt', 'Ge'):
                # false < true
                if op == 'Lt': return b_and(b_not(a), b)
                if op == 'Le': return b_or(b_not(a), b)
                if op == 'Gt': return b_and(a, b_not(b))
                return b_or(a, b_not(b))
            raise Unsupported('bool binop ' + op)
        sym = is_sym(a) or is_sym(b)
        if ty is None or ty not in INT_W:
            if sym:
                w = (a if is_sym(a) else b).size(); ty = {8: 'u8', 16: 'u16', 32: 'u32', 64: 'u64', 128: 'u128'}[w]
            elif op in ('Eq', 'Ne', 'Lt', 'Le', 'Gt', 'Ge'):
                return {'Eq': a == b, 'Ne': a != b, 'Lt': a < b, 'Le': a <= b, 'Gt': a > b, 'Ge': a >= b}[op]
            else: raise Unsupported('binop %s without type' % op)
        w = INT_W[ty]; sg = ty[0] == 'i'
        if not sym:
            if op == 'Eq': return a == b
            if op == 'Ne': return a != b
            if op == 'Lt': return a < b
            if op == 'Le': return a <= b
            if op == 'Gt': return a > b
            if op == 'Ge': return a >= b
            if op in ('Add', 'AddUnchecked'): return norm(a + b, ty)
            if op in ('Sub', 'SubUnchecked'): return norm(a - b, ty)
            if op in ('Mul', 'MulUnchecked'): return norm(a * b, ty)
            if op == 'Div':
                if b == 0: raise Panic('attempt to divide by zero')
                q = abs(a) // abs(b); return norm(q if (a < 0) == (b < 0) else -q, ty)
            if op == 'Rem':
                if b == 0: raise Panic('attempt to calculate the remainder with a divisor of zero')
                r = abs(a) % abs(b); return norm(r if a >= 0 else -r, ty)
            if op == 'BitAnd': return norm(a & b, ty)
            if op == 'BitOr': return norm(a | b, ty)
            if op == 'BitXor': return norm(a ^ b, ty)
            if op in ('Shl', 'ShlUnchecked'): return norm(a << (b & (w - 1)), ty)
            if op in ('Shr', 'ShrUnchecked'): return norm(a >> (b & (w - 1)), ty)
            if op == 'AddWithOverflow': r = a + b; n = norm(r, ty); return Agg('()', [n, n != r])
            if op == 'SubWithOverflow': r = a - b; n = norm(r, ty); return Agg('()', [n, n != r])
            if op == 'MulWithOverflow': r = a * b; n = norm(r, ty); return Agg('()', [n, n != r])
            if op == 'Cmp': return EnumV('Ordering', 0 if a < b else (1 if a == b else 2), [])
            raise Unsupported('binop ' + op)
        A = tobv(a, w)
        if op in ('Shl', 'Shr', 'ShlUnchecked', 'ShrUnchecked'):
            B = tobv(b, w) if not is_sym(b) else (b if b.size() == w else (z3.ZeroExt(w - b.size(), b) if b.size() < w else z3.Extract(w - 1, 0, b)))
            B = B & (w - 1)
            if op.startswith('Shl'): return A << B
            return (A >> B) if sg else z3.LShR(A, B)
        B = tobv(b, w)
        if op == 'Eq': return A == B
        if op == 'Ne': return A != B
        if op == 'Lt': return (A < B) if sg else z3.ULT(A, B)
        if op == 'Le': return (A <= B) if sg else z3.ULE(A, B)
        if op == 'Gt': return (A > B) if sg else z3.UGT(A, B)
        if op == 'Ge': return (A >= B) if sg else z3.UGE(A, B)
        if op in ('Add', 'AddUnchecked'): return A + B
        if op in ('Sub', 'SubUnchecked'): return A - B
        if op in ('Mul', 'MulUnchecked'): return A * B
        if op in ('Div', 'Rem') and not sg and not is_sym(b) and b > 1 and self.__dict__.get('div_lemma', True):
            # unsigned division by a constant: fresh quotient and remainder tied to the dividend by the division lemma
            # (A = q*d + r, r < d, q <= max/d so that q*d + r cannot wrap) — the same function, without a divider circuit for the solver
            ck = (A.get_id(), b, w)
            if ck not in self._divcache:
                q = self.fresh_bv('quot', w); r = self.fresh_bv('rem', w)
                self.assume(z3.And(A == q * z3.BitVecVal(b, w) + r, z3.ULT(r, z3.BitVecVal(b, w)), z3.ULE(q, z3.BitVecVal(((1 << w) - 1) // b, w)), z3.BVAddNoOverflow(q * z3.BitVecVal(b, w), r, False)))
                self._divcache[ck] = (q, r, A)          # A kept alive so that its id is not reused
            q, r, _ = self._divcache[ck]
            return q if op == 'Div' else r
        if op == 'Div':
            if self.branch(B == 0): raise Panic('attempt to divide by zero')
            return (A / B) if sg else z3.UDiv(A, B)
        if op == 'Rem':
            if self.branch(B == 0): raise Panic('attempt to calculate the remainder with a divisor of zero')
            return z3.SRem(A, B) if sg else z3.URem(A, B)
        if op == 'BitAnd': return A & B
        if op == 'BitOr': return A | B
        if op == 'BitXor': return A ^ B
        if op == 'AddWithOverflow':
            r = A + B
            ov = z3.Not(z3.BVAddNoOverflow(A, B, sg)) if not sg else z3.Or(z3.Not(z3.BVAddNoOverflow(A, B, True)), z3.Not(z3.BVAddNoUnderflow(A, B)))
            return Agg('()', [r, ov])
        if op == 'SubWithOverflow':
            r = A - B
            ov = z3.ULT(A, B) if not sg else z3.Or(z3.Not(z3.BVSubNoOverflow(A, B)), z3.Not(z3.BVSubNoUnderflow(A, B, True)))
            return Agg('()', [r, ov])
        if op == 'MulWithOverflow':
            r = A * B
            ov = z3.Not(z3.BVMulNoOverflow(A, B, sg)) if not sg else z3.Or(z3.Not(z3.BVMulNoOverflow(A, B, True)), z3.Not(z3.BVMulNoUnderflow(A, B)))
            return Agg('()', [r, ov])
        if op == 'Cmp':
            lt = (A < B) if sg else z3.ULT(A, B)
            i = self.choose([lt, A == B, z3.And(z3.Not(lt), A != B)])
            return EnumV('Ordering', i, [])
        raise Unsupported('binop ' + op)

    # ---- calls
    def invoke(self, fr, callee, args):
        self.stats['calls'] += 1
        for pat, fn in self.stubs:
            if pat.search(callee):
                r = fn(self, fr, callee, args)
                if r is not NotImplemented: return r
        n = strip_generics(callee)
        post = None
        if n.endswith('::ne') and re.search(r' as std::cmp::PartialEq(<.*>)?>::ne$', n):
            r = self.invoke(fr, callee[:-2] + 'eq', args)
            return b_not(r)
        # closure call through Fn* traits
        m = re.match(r'^<(.*) as std::ops::(Fn|FnMut|FnOnce)<.*>>::(call|call_mut|call_once)$', n)
        if m:
            tup = args[1]
            return self.call_closure(fr, args[0], tup.f if isinstance(tup, Agg) else [])
        key = self.prog.resolve(fr.item.crate, callee)
        # calls on a type parameter / Self: dispatch on the run-time type of the receiver
        md = re.match(r'^<(Self|[A-Z][A-Za-z0-9]*|dyn [^<>]+?) as (.*?)>::(\w+)$', n)
        if md and args and (md.group(1) == 'Self' or md.group(1).startswith('dyn ') or len(md.group(1)) <= 2 or (fr.generics and md.group(1) in fr.generics)):
            k2 = self.dyn_dispatch(fr, callee, md, args)
            if k2 is not None: key = k2
        if key is None:
            parts = n.split('::')
            if len(parts) >= 2 and not n.startswith('<'):
                idx = getattr(self.prog, '_impl_by_ty_me', None)
                if idx is None:
                    idx = {}
                    for (ty, tr, me), k2 in self.prog.impl.items(): idx.setdefault((ty, me), []).append(k2)
                    self.prog._impl_by_ty_me = idx
                c2 = idx.get((lastseg(parts[-2]), parts[-1]), [])
                if len(c2) == 1: key = c2[0]
        if key is None:
            # trait default method (static dispatch to a non-overridden method)
            mt = re.match(r'^<(.+) as ([a-z_0-9]+)::(.+?)(?:<.*>)?>::(\w+)$', n)
            if mt and mt.group(2) in CRATE_ALIAS:
                cand = (CRATE_ALIAS[mt.group(2)], mt.group(3) + '::' + mt.group(4))
                if cand in self.prog.items: key = cand
        if key is not None and self.prog.items[key].kind == 'fn' and self.prog.items[key].blocks:
            generics = None
            ms = re.match(r'^<(.+) as (.+?)>::(\w+)(?:::<.*>)?$', callee)
            if ms:
                selfty = ms.group(1)
                if fr.generics and selfty in fr.generics: selfty = fr.generics[selfty]
                generics = {'Self': selfty}
            elif fr.generics and 'Self' in fr.generics and '<impl at' not in self.prog.items[key].name:
                pass
            tf = _last_turbofish(callee)
            if tf:
                targs = [a for a in split_top(tf) if not a.startswith("'")]
                it = self.prog.items[key]
                gm = re.match(r'.*?<([A-Z][A-Za-z0-9]*(?:, [A-Z][A-Za-z0-9]*)*)>$', it.name.split('::')[-1]) if False else None
                names = ['T', 'U', 'V', 'W']
                # parameter names: take single upper-case idents appearing in the signature, in order
                sig = it.header
                found = []
                for mm in re.finditer(r'\b([A-Z][A-Za-z0-9]?)\b', sig):
                    if mm.group(1) not in found and not re.search(r'::' + mm.group(1) + r'\b', sig[max(0, mm.start() - 2):mm.end()]):
                        found.append(mm.group(1))
                if len(found) >= len(targs): names = found
                g2 = {nm: t for nm, t in zip(names, targs)}
                if fr.generics:
                    g2 = {k: fr.generics.get(v, v) for k, v in g2.items()}
                generics = dict(generics or {}, **g2)
            return self.call_fn(key, args, generics)
        r = self.intrinsics.dispatch(self, fr, callee, n, args)
        if r is NotImplemented:
            raise Unsupported('callee ' + callee)
        return r

    def dyn_dispatch(self, fr, callee, md, args):
        """callee `<P as Trait<..>>::m` where P is a type parameter (or Self): pick the impl for the static type bound to P in
        this frame when known, else for the run-time type of the receiver; None -> fall back to the trait default"""
        static = (fr.generics or {}).get(md.group(1))
        if static and re.fullmatch(r'[A-Z][A-Za-z0-9]?|Self', static.strip()): static = None      # unresolved type parameter
        rv = self.deref(args[0])
        tname = rv.name if isinstance(rv, (Agg, EnumV)) else None
        type_str = static or tname
        if type_str is None: return None
        ck = (strip_generics(callee), type_str)
        if ck in self._dyn: return self._dyn[ck]
        tb = lastseg(md.group(2))
        key = self.prog.pick_impl(type_str, tb, md.group(3), fr.item.crate)
        if key is False: raise Unsupported('ambiguous impl of %s::%s for %s' % (tb, md.group(3), type_str))
        if key is None:
            for k2, it in self.prog.items.items():
                if it.kind == 'fn' and k2[1].endswith('::' + tb + '::' + md.group(3)): key = k2; break
        self._dyn[ck] = key
        return key

    def call_closure(self, fr, clo, cargs):
        """clo: closure Agg / FnItem / Ref to one.  cargs: list of argument values."""
        clo_ref = clo
        clo_v = self.deref(clo)
        if isinstance(clo_v, FnItem):
            nm = clo_v.name
            for pat, fn in self.stubs:
                if pat.search(nm):
                    r = fn(self, fr, nm, list(cargs))
                    if r is not NotImplemented: return r
            m = re.match(r'^(.*)::([A-Za-z_0-9]+)$', strip_generics(nm))
            key = self.prog.resolve(fr.item.crate, nm)
            if key and self.prog.items[key].kind == 'fn' and self.prog.items[key].blocks:
                return self.call_fn(key, list(cargs))
            if m:
                # tuple-struct / enum-variant constructor used as a function
                try: return EnumV(lastseg(m.group(1)), self.prog.variant_index(m.group(1), m.group(2)), list(cargs))
                except (KeyError, ValueError): pass
            return self.invoke(fr, nm, list(cargs))
        if not isinstance(clo_v, Agg) or not clo_v.name.startswith('{closure@'):
            raise Unsupported('closure value %r' % (clo_v,))
        key = self.closure_body(fr, clo_v, len(cargs))
        it = self.prog.items[key]
        first_ty = it.locals[it.args[0]]
        if first_ty.startswith('&'):
            a0 = clo_ref if isinstance(clo_ref, Ref) else Ref(Cell(clo_v))
            # closure_ref may be a & to & ...: make it point at the Agg
            while isinstance(a0, Ref) and isinstance(self.get(a0.cell, a0.path), Ref): a0 = self.get(a0.cell, a0.path)
        else: a0 = clo_v
        return self.call_fn(key, [a0] + list(cargs), getattr(clo_v, 'g', None))

    def closure_body(self, fr, clo_v, nargs):
        ck = (clo_v.name, nargs)
        if ck in self._clo: return self._clo[ck]
        items = self.prog.items
        parts = clo_v.name.split('@@'); loc, creator = parts[0], parts[1]
        cands = None
        if len(parts) > 2:
            last = parts[2].rsplit('::', 1)[-1]
            for cr in [fr.item.crate] + [c for c in self.prog.crates if c != fr.item.crate]:
                if (cr, creator + '::' + last) in items: cands = [(cr, creator + '::' + last)]; break
        if not cands and len(parts) > 2:
            for cr in [fr.item.crate] + [c for c in self.prog.crates if c != fr.item.crate]:
                if (cr, parts[2]) in items: cands = [(cr, parts[2])]; break
        if not cands:
            cands = [k for k, it in items.items() if it.kind == 'fn' and it.args and loc in it.locals.get(it.args[0], '')]
            if len(cands) > 1:
                c2 = [k for k in cands if re.fullmatch(re.escape(creator) + r'::\{closure#\d+\}', items[k].name)]
                if c2: cands = c2
            if len(cands) > 1: cands = [k for k in cands if len(items[k].args) == nargs + 1]
        if len(cands) != 1: raise Unsupported('closure body for %s: %d candidates' % (loc, len(cands)))
        self._clo[ck] = cands[0]
        return cands[0]


def _last_turbofish(callee):
    """generic arguments of the final path segment: `a::<X>::f::<Y, Z>` -> 'Y, Z'"""
    if not callee.endswith('>'): return None
    depth = 0
    for i in range(len(callee) - 1, -1, -1):
        c = callee[i]
        if c == '>' and callee[i - 1] != '-': depth += 1
        elif c == '<':
            depth -= 1
            if depth == 0:
                return callee[i + 1:-1] if callee[i - 2:i] == '::' else None
    return None

def p_root(p):
    while p[0] != 'local': p = p[1]
    return p[1]

def _unescape(c):
    # MIR prints strings in Rust debug syntax
    s = c[1:-1] if c.endswith('"') else c[1:]
    out = []; i = 0
    while i < len(s):
        ch = s[i]
        if ch == '\\':
            n = s[i + 1]
            if n == 'n': out.append('\n'); i += 2
            elif n == 't': out.append('\t'); i += 2
            elif n == 'r': out.append('\r'); i += 2
            elif n == '0': out.append('\0'); i += 2
            elif n in '\\"\'': out.append(n); i += 2
            elif n == 'u':
                j = s.index('}', i); out.append(chr(int(s[i + 3:j], 16))); i = j + 1
            elif n == 'x': out.append(chr(int(s[i + 2:i + 4], 16))); i += 4
            else: out.append(n); i += 2
        else: out.append(ch); i += 1
    return ''.join(out)

def _unescape_bytes(c):
    return _unescape(c).encode('latin-1')
