"""Lift the logos-generated lexer (`<TokenType as Logos>::lex` and its gotoN/patternN state functions)
from MIR into z3 terms.

The state functions form a straight-line state machine over the input bytes, so instead of forking
per byte the lifter memoises  R(state fn, offset) -> (outcome, token end)  as an ite-DAG over the
symbolic bytes: lexing N symbolic bytes is one polynomial-size term.  Everything here is read from
the MIR dump of the current tree: the state functions, the jump tables (`enum Jump` variant order
from the expanded source), the byte-class tables (statics) and the pattern bit-sets.

logos runtime operations used by the generated code (`read`, `read_at`, `bump_unchecked`, `set`,
`error`, `end`, `test`) are modelled per their documented behaviour; `error` resynchronises on the next
char boundary (logos::Lexer::error / find_boundary semantics).
"""
import re, collections
import z3
from .mirread import Unsupported

ERR, END = 1000, 1001


class LexModel:
    def __init__(self, prog, crate='ironplc-parser'):
        self.prog = prog; self.crate = crate
        lex = [k for k, it in prog.items.items() if k[0] == crate and it.kind == 'fn' and re.fullmatch(r'token::<impl at [^>]*>::lex', k[1])]
        if len(lex) != 1: raise Unsupported('lexer entry: %d candidates' % len(lex))
        self.pfx = lex[0][1] + '::'
        body = prog.items[lex[0]].blocks['bb0'][-1]
        m = re.search(r'lex::(goto\d+)\(', body)
        if not m: raise Unsupported('lexer start state not found')
        self.start = m.group(1)
        self.tokens = prog.enums['TokenType']
        self.tok_id = {t: i for i, t in enumerate(self.tokens)}
        self.lut = {}
        self.encoded = set()

    def fn(self, name):
        it = self.prog.items.get((self.crate, self.pfx + name))
        if it is None: raise Unsupported('lexer item ' + name)
        self.encoded.add(self.pfx + name)
        return it

    def table(self, name):        # static [u8;256]
        if name not in self.lut:
            it = self.fn(name)
            body = ' '.join(it.blocks['bb0'])
            vals = re.findall(r'const (\d+)_u8|const (u8::MAX)', body)
            arr = [255 if b else int(a) for a, b in vals]
            if len(arr) != 256: raise Unsupported('table %s has %d entries' % (name, len(arr)))
            self.lut[name] = arr
        return self.lut[name]

    def jump_lut(self, fname):   # const [Jump;256] -> list of discriminants
        key = ('J', fname)
        if key not in self.lut:
            c = self.fn(fname + '::LUT')
            variants = self.prog.fn_jumps.get(fname)
            if not variants: raise Unsupported('Jump enum of ' + fname)
            idx = {v: i for i, v in enumerate(variants)}
            env = {}; arr = None
            for s in c.blocks['bb0']:
                m = re.match(r'(_\d+) = <.*>::lex::%s::Jump::(\w+);' % re.escape(fname), s)
                if m: env[m.group(1)] = idx[m.group(2)]; continue
                m = re.match(r'_0 = \[(.*)\];', s)
                if m: arr = [env[x.split()[-1]] for x in m.group(1).split(', ')]
            if not arr or len(arr) != 256: raise Unsupported('jump table of ' + fname)
            self.lut[key] = arr
        return self.lut[key]

    def pattern_bits(self, pname):
        c = self.fn(pname + '::LUT')
        m = re.search(r'const (\d+)_u64', c.header)
        if not m: raise Unsupported('pattern LUT ' + pname)
        return int(m.group(1))


def leaves(v, limit=8):
    """[(cond, int)] if v is an ite-tree over at most `limit` concrete leaves, else None"""
    if isinstance(v, bool): return None
    if isinstance(v, int): return [(True, v)]
    if not z3.is_expr(v) or z3.is_bool(v): return None
    if z3.is_bv_value(v): return [(True, v.as_long())]
    if z3.is_app_of(v, z3.Z3_OP_ITE):
        c, a, b = v.children()
        la = leaves(a, limit)
        if la is None: return None
        lb = leaves(b, limit)
        if lb is None or len(la) + len(lb) > limit: return None
        nc = z3.Not(c)
        return [(c if ca is True else z3.And(c, ca), x) for ca, x in la] + [(nc if cb is True else z3.And(nc, cb), x) for cb, x in lb]
    return None

def from_leaves(lv, w):
    """ite-tree from [(cond, int)] (conditions exhaustive & exclusive), merging equal values"""
    groups = collections.OrderedDict()
    for c, x in lv: groups.setdefault(x, []).append(c)
    items = list(groups.items())
    if len(items) == 1: return items[0][0]
    res = z3.BitVecVal(items[-1][0], w)
    for x, cs in reversed(items[:-1]):
        res = z3.If(z3.Or(cs) if len(cs) > 1 else cs[0], z3.BitVecVal(x, w), res)
    return res

def map_leaves(fn, a, w):
    lv = leaves(a)
    if lv is None: return None
    return from_leaves([(c, fn(x)) for c, x in lv], w)

def _select(arr, idx, w):
    if isinstance(idx, int): return arr[idx]
    lv = leaves(idx)
    if lv is not None: return from_leaves([(c, arr[x]) for c, x in lv], w)
    groups = collections.defaultdict(list)
    for i, v in enumerate(arr): groups[v].append(i)
    items = sorted(groups.items(), key=lambda kv: -len(kv[1]))
    res = z3.BitVecVal(items[0][0], w)
    for v, idxs in items[1:]:
        # contiguous ranges -> range tests
        conds = []; idxs = sorted(idxs); st = idxs[0]; prev = st
        for i in idxs[1:] + [None]:
            if i is not None and i == prev + 1: prev = i; continue
            conds.append(idx == st if st == prev else z3.And(z3.UGE(idx, st), z3.ULE(idx, prev)))
            st = prev = i
        res = z3.If(z3.Or(conds) if len(conds) > 1 else conds[0], z3.BitVecVal(v, w), res)
    return res


class Lift:
    """Lex N bytes b[0..N) (ints or BV8 terms). toks[e] = (kind term BV16, end term BV8) of the token starting at e."""
    def __init__(self, model, bytes_):
        self.m = model; self.N = len(bytes_); self.b = list(bytes_); self.memo = {}; self.stack = set(); self.calls = 0
        self.EW = 8 if self.N < 250 else 24

    def lex_all(self):
        return [self.R(self.m.start, e) for e in range(self.N + 1)]

    def R(self, fname, e):
        key = (fname, e)
        if key in self.memo: return self.memo[key]
        if key in self.stack: raise Unsupported('epsilon cycle %s' % (key,))
        self.stack.add(key)
        f = self.m.fn(fname)
        out = self.run(f, fname, 'bb0', {'e': e}, {})
        self.stack.discard(key)
        self.memo[key] = out
        return out

    def run(self, f, fname, bb, st, env):
        env = dict(env); st = dict(st)
        while True:
            stmts = f.blocks[bb]
            for s in stmts[:-1]:
                self.assign(f, fname, s, st, env)
            t = stmts[-1]
            if t == 'return;': return st['out']
            if t == 'unreachable;': return None
            m = re.match(r'goto -> (bb\d+);', t)
            if m: bb = m.group(1); continue
            m = re.match(r'assert\((.*?), "index out of bounds.*\) -> \[success: (bb\d+)', t)
            if m: bb = m.group(2); continue          # LUT index < 256 always holds for a u8 index
            m = re.match(r'switchInt\(((?:move|copy) .*?)\) -> \[(.*)\];', t)
            if m:
                v = self.val(m.group(1), env)
                targets = []; other = None
                for a in [a.strip() for a in m.group(2).split(',')]:
                    k, tb = a.split(': ')
                    if k == 'otherwise': other = tb
                    else: targets.append((int(k), tb))
                if isinstance(v, bool): v = int(v)
                if isinstance(v, int):
                    bb = dict(targets).get(v, other); continue
                lv = leaves(v)
                if lv is not None:
                    tmap = dict(targets); by_t = collections.OrderedDict()
                    for c, x in lv: by_t.setdefault(tmap.get(x, other), []).append(c)
                    res = None
                    for tb, cs in by_t.items():
                        r = self.run(f, fname, tb, st, env) if tb else None
                        if r is None: continue
                        cond = z3.Or(cs) if len(cs) > 1 else cs[0]
                        res = r if res is None else (z3.If(cond, r[0], res[0]), z3.If(cond, r[1], res[1]))
                    return res
                res = self.run(f, fname, other, st, env) if other else None
                for k, tb in reversed(targets):
                    r = self.run(f, fname, tb, st, env)
                    if r is None: continue
                    cond = (v == k) if not z3.is_bool(v) else (v if k else z3.Not(v))
                    res = r if res is None else (z3.If(cond, r[0], res[0]), z3.If(cond, r[1], res[1]))
                return res
            m = re.match(r'(_\d+) = (.*)\((.*)\) -> \[return: (bb\d+)', t)
            if not m: raise Unsupported('lexer terminator ' + t)
            dst, callee, args, nb = m.groups()
            self.calls += 1
            mm = re.search(r'lex::(goto\w+|_error|_end)$', callee)
            if mm:
                g = mm.group(1); e = st['e']
                if g == '_end': st['out'] = (z3.BitVecVal(END, 16), z3.BitVecVal(e, self.EW))
                elif g == '_error': st['out'] = self.error(e + 1)
                else: st['out'] = self.R(g, e)
                bb = nb; continue
            mm = re.search(r'lex::(pattern\d+)$', callee)
            if mm:
                env[dst] = self.pattern(mm.group(1), env[args.split()[-1]]); bb = nb; continue
            mm = re.search(r'LexerInternal<\'_>>::(\w+)(?:::<(.*)>)?$', callee)
            if not mm: raise Unsupported('lexer callee ' + callee)
            op, targ = mm.groups(); e = st['e']
            if op in ('read', 'read_at'):
                off = 0
                if op == 'read_at': off = int(re.search(r'const (\d+)_usize', args).group(1))
                k = 1 if targ == 'u8' else int(re.search(r'\[u8; (\d+)\]', targ).group(1))
                if e + off + k <= self.N:
                    val = self.b[e + off] if targ == 'u8' else ('ref', ('arr', self.b[e + off:e + off + k]))
                    env[dst] = ('some', val)
                else: env[dst] = 'none'
            elif op == 'bump_unchecked':
                st['e'] = e + int(re.search(r'const (\d+)_usize', args).group(1))
            elif op == 'set':
                st['out'] = (z3.BitVecVal(env[args.split()[-1]], 16), z3.BitVecVal(st['e'], self.EW))
            elif op == 'error': st['out'] = self.error(e)
            elif op == 'end': st['out'] = (z3.BitVecVal(END, 16), z3.BitVecVal(e, self.EW))
            elif op == 'test':
                pm = re.search(r'lex::(pattern\d+)\}', targ)
                env[dst] = self.pattern(pm.group(1), self.b[e]) if e < self.N else False
            else: raise Unsupported('logos runtime op ' + op)
            bb = nb

    def error(self, e):
        # logos: token_end advanced to the next char boundary (bytes that are not 10xxxxxx), at most N
        end = z3.BitVecVal(self.N, self.EW)
        for i in range(self.N - 1, e - 1, -1):
            bi = self.b[i]
            isb = ((bi & 0xC0) != 0x80) if isinstance(bi, int) else ((bi & 0xC0) != 0x80)
            if isb is True: end = z3.BitVecVal(i, self.EW)
            elif isb is False: pass
            else: end = z3.If(isb, z3.BitVecVal(i, self.EW), end)
        if e >= self.N: end = z3.BitVecVal(self.N, self.EW)
        return (z3.BitVecVal(ERR, 16), end)

    def pattern(self, pname, byte):
        f = self.m.fn(pname)
        return self.runp(f, 'bb0', {'_1': byte})

    def runp(self, f, bb, env):
        env = dict(env)
        while True:
            stmts = f.blocks[bb]
            for s in stmts[:-1]: self.assign(f, None, s, {}, env)
            t = stmts[-1]
            if t == 'return;': return env['_0']
            if t == 'unreachable;': return None
            m = re.match(r'goto -> (bb\d+);', t)
            if m: bb = m.group(1); continue
            m = re.match(r'assert\((.*?), .*\) -> \[success: (bb\d+)', t)
            if m: bb = m.group(2); continue
            m = re.match(r'(_\d+) = core::num::<impl u8>::wrapping_sub\((.*), (.*)\) -> \[return: (bb\d+)', t)
            if m:
                a, b2 = self.val(m.group(2), env), self.val(m.group(3), env)
                if isinstance(b2, int) and z3.is_expr(a) and leaves(a) is not None: env[m.group(1)] = map_leaves(lambda x: (x - b2) & 0xFF, a, 8)
                else: env[m.group(1)] = (a - b2) if z3.is_expr(a) or z3.is_expr(b2) else ((a - b2) & 0xFF)
                bb = m.group(4); continue
            m = re.match(r'(_\d+) = core::num::<impl u64>::checked_shl\(const 1_u64, (.*)\) -> \[return: (bb\d+)', t)
            if m:
                sh = self.val(m.group(2), env)
                if isinstance(sh, int): env[m.group(1)] = ('some', 1 << sh) if sh < 64 else 'none'
                elif leaves(sh) is not None:
                    lv = leaves(sh)
                    okc = [c for c, x in lv if x < 64]
                    env[m.group(1)] = ('optsym', z3.BoolVal(True) if len(okc) == len(lv) else (z3.Or(okc) if okc else z3.BoolVal(False)),
                                       from_leaves([(c, (1 << x) if x < 64 else 0) for c, x in lv], 64))
                else:
                    sh64 = z3.ZeroExt(64 - sh.size(), sh)
                    env[m.group(1)] = ('optsym', z3.ULT(sh64, 64), z3.BitVecVal(1, 64) << sh64)
                bb = m.group(3); continue
            m = re.match(r'switchInt\(((?:move|copy) .*?)\) -> \[(.*)\];', t)
            if not m: raise Unsupported('pattern terminator ' + t)
            v = self.val(m.group(1), env)
            targets = []; other = None
            for a in [a.strip() for a in m.group(2).split(',')]:
                k, tb = a.split(': ')
                if k == 'otherwise': other = tb
                else: targets.append((int(k), tb))
            if isinstance(v, bool): v = int(v)
            if isinstance(v, int):
                bb = dict(targets).get(v, other); continue
            lv = leaves(v)
            if lv is not None:
                tmap = dict(targets); by_t = collections.OrderedDict()
                for c, x in lv: by_t.setdefault(tmap.get(x, other), []).append(c)
                res = None
                for tb, cs in by_t.items():
                    r = self.runp(f, tb, env) if tb else None
                    if r is None: continue
                    r = self.tobool(r)
                    cond = z3.Or(cs) if len(cs) > 1 else cs[0]
                    res = r if res is None else z3.If(cond, r, res)
                return res
            res = self.runp(f, other, env) if other else None
            res = None if res is None else self.tobool(res)
            for k, tb in reversed(targets):
                r = self.runp(f, tb, env)
                if r is None: continue
                r = self.tobool(r)
                if res is None: res = r; continue
                cond = (v == k) if not z3.is_bool(v) else (v if k else z3.Not(v))
                res = z3.If(cond, r, res)
            return res

    def tobool(self, x): return z3.BoolVal(x) if isinstance(x, bool) else x

    def val(self, tok, env):
        tok = tok.strip()
        m = re.match(r'(?:move|copy) (.*)$', tok)
        if m: return self.place(m.group(1), env)
        m = re.match(r'const <.*>::lex::(pattern\d+)::LUT$', tok)
        if m: return self.m.pattern_bits(m.group(1))
        m = re.match(r'const (\d+)_(u8|usize|u16|u32|u64)$', tok)
        if m: return int(m.group(1))
        if tok == 'const u8::MAX': return 255
        if tok == 'const true': return True
        if tok == 'const false': return False
        raise Unsupported('lexer operand ' + tok)

    def place(self, p, env):
        p = p.strip()
        if re.fullmatch(r'_\d+', p): return env[p]
        m = re.fullmatch(r'\(\*(_\d+)\)', p)
        if m:
            v = env[m.group(1)]
            if v[0] != 'ref': raise Unsupported('deref in lexer')
            return v[1]
        m = re.fullmatch(r'\(\((_\d+) as Some\)\.0: .*\)', p)
        if m:
            v = env[m.group(1)]
            if v[0] == 'optsym': return v[2]
            if v[0] != 'some': raise Unsupported('Some-projection of None in lexer')
            return v[1]
        m = re.fullmatch(r'\(\*(_\d+)\)\[(\d+) of \d+\]', p)
        if m:
            v = env[m.group(1)][1]; return v[1][int(m.group(2))]
        m = re.fullmatch(r'\(\*(_\d+)\)\[(_\d+)\]', p)
        if m:
            v = env[m.group(1)][1]; i = env[m.group(2)]
            if v[0] == 'table': return _select(v[1], i, 8)
            if v[0] == 'arr' and isinstance(i, int): return v[1][i]
            raise Unsupported('lexer place ' + p)
        raise Unsupported('lexer place ' + p)

    def assign(self, f, fname, s, st, env):
        m = re.match(r'(_\d+) = (.*);$', s)
        if not m: raise Unsupported('lexer statement ' + s)
        dst, rhs = m.groups()
        if rhs.startswith('&'):
            inner = re.sub(r'^&(mut )?', '', rhs).strip()
            mm = re.fullmatch(r'\(\*(_\d+)\)', inner)
            if mm and mm.group(1) not in env: env[dst] = ('ref', 'LEXER'); return
            env[dst] = ('ref', self.place(inner, env)); return
        mm = re.match(r'discriminant\((_\d+)\)$', rhs)
        if mm:
            v = env[mm.group(1)]
            if isinstance(v, tuple) and v[0] == 'optsym': env[dst] = z3.If(v[1], z3.BitVecVal(1, 8), z3.BitVecVal(0, 8)); return
            env[dst] = 0 if v == 'none' else 1; return
        mm = re.match(r'discriminant\((_\d+)\[(_\d+)\]\)$', rhs)
        if mm:
            env[dst] = _select(env[mm.group(1)], env[mm.group(2)], 16); return
        mm = re.match(r'const <.*>::lex::(\w+)::LUT$', rhs)
        if mm and mm.group(1).startswith('goto'): env[dst] = self.m.jump_lut(mm.group(1)); return
        mm = re.match(r'const \{alloc\d+: &\[u8; 256\]\}$', rhs) or re.match(r'const <static\(DefId\(.*lex::(COMPACT_TABLE_\d+)\)\)>', rhs)
        if mm and mm.groups():
            env[dst] = ('ref', ('table', self.m.table(mm.group(1)))); return
        mm = re.match(r'(Lt|Le|Gt|Ge|Eq|Ne|BitAnd)\((.*), (.*)\)$', rhs)
        if mm:
            op, a, b = mm.group(1), self.val(mm.group(2), env), self.val(mm.group(3), env)
            if isinstance(a, int) and isinstance(b, int):
                env[dst] = {'Lt': a < b, 'Le': a <= b, 'Gt': a > b, 'Ge': a >= b, 'Eq': a == b, 'Ne': a != b, 'BitAnd': a & b}[op]
            elif isinstance(b, int) and leaves(a) is not None:
                pyop = {'Lt': lambda x: x < b, 'Le': lambda x: x <= b, 'Gt': lambda x: x > b, 'Ge': lambda x: x >= b, 'Eq': lambda x: x == b, 'Ne': lambda x: x != b}
                lv = leaves(a)
                if op == 'BitAnd': env[dst] = from_leaves([(c, x & b) for c, x in lv], a.size())
                else:
                    tr = [c for c, x in lv if pyop[op](x)]
                    env[dst] = True if len(tr) == len(lv) else (False if not tr else (z3.Or(tr) if len(tr) > 1 else tr[0]))
            else:
                w = (a if z3.is_expr(a) else b).size()
                A = a if z3.is_expr(a) else z3.BitVecVal(a, w); B = b if z3.is_expr(b) else z3.BitVecVal(b, w)
                env[dst] = {'Lt': z3.ULT(A, B), 'Le': z3.ULE(A, B), 'Gt': z3.UGT(A, B), 'Ge': z3.UGE(A, B), 'Eq': A == B, 'Ne': A != B, 'BitAnd': A & B}[op]
            return
        mm = re.match(r'(.*) as (usize|u32|u64) \(IntToInt\)$', rhs)
        if mm: env[dst] = self.val(mm.group(1), env); return
        mm = re.match(r'no_retag (.*)$', rhs)
        if mm: rhs = mm.group(1)
        mm = re.match(r'std::result::Result::<token::TokenType, \(\)>::Ok\((?:move|copy) (_\d+)\)$', rhs)
        if mm: env[dst] = env[mm.group(1)]; return
        mm = re.match(r'token::TokenType::(\w+)$', rhs)
        if mm: env[dst] = self.m.tok_id[mm.group(1)]; return
        if rhs.startswith(('move ', 'copy ', 'const ')):
            env[dst] = self.val(rhs, env); return
        raise Unsupported('lexer rvalue ' + rhs)


def lex_concrete(model, data):
    """concrete mode of the lifted lexer (translator validation): list of (kind name, start, end)"""
    bs = list(data)
    L = Lift(model, bs); toks = L.lex_all()
    pos = 0; out = []
    while True:
        t, e = toks[pos]
        t = z3.simplify(t).as_long(); e = z3.simplify(e).as_long()
        if t == END: break
        out.append((model.tokens[t] if t < 1000 else 'ERR', pos, e))
        if e <= pos: raise Unsupported('lexer model made no progress at %d' % pos)
        pos = e
    return out
