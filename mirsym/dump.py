"""MIR / expanded-source dumps of /repo's current working tree, cached by source hash.

Every check calls ensure_dumps(); the cache key is the sha256 of every file that can
influence the build (sources, manifests, lock file, resources), so a changed tree can never be
analysed through stale MIR.  Nothing under /repo is written: cargo runs with an external
--target-dir and the re-emission is forced by an extra --cfg on the final crate only.
"""
import hashlib, os, subprocess, sys, time, fcntl, shutil, json

REPO = os.environ.get('VERIF_REPO', '/repo')
COMPILER = os.path.join(REPO, 'compiler')
WORK = os.environ.get('VERIF_WORK', '/verif/work')
TARGET = os.path.join(WORK, 'target-mir')
MIRROOT = os.path.join(WORK, 'mir')

# crate -> package name for cargo -p
CRATES = ['ironplc-dsl', 'ironplc-parser', 'ironplc-analyzer', 'ironplc-plc2plc', 'ironplcc', 'ironplc-problems']
DEP_CRATES = ['logos', 'peg-runtime']      # dependency bodies that are interpreted rather than modelled
EXPANDED_DEPS = ['lsp-server', 'lsp-types']             # ADT layouts of third-party types kernels touch


def source_hash():
    h = hashlib.sha256()
    files = []
    for root, dirs, fs in os.walk(COMPILER):
        dirs[:] = sorted(d for d in dirs if d not in ('target', '.git', 'node_modules'))
        for f in sorted(fs):
            if f.endswith(('.rs', '.toml', '.lock', '.csv', '.st', '.xml')):
                files.append(os.path.join(root, f))
    for p in files:
        h.update(os.path.relpath(p, COMPILER).encode()); h.update(b'\0')
        with open(p, 'rb') as fh: h.update(fh.read())
        h.update(b'\0')
    return h.hexdigest()[:24]


def _cargo(pkg, extra, out, nonce, env=None):
    cmd = ['cargo', '+nightly', 'rustc', '--offline', '-p', pkg, '--lib', '--target-dir', TARGET, '--'] + extra + \
          ['-C', 'overflow-checks=on', '--cfg', 'mirdump_' + nonce]
    e = dict(os.environ); e['CARGO_NET_OFFLINE'] = 'true'
    e.pop('RUSTFLAGS', None)
    if env: e.update(env)
    with open(out + '.tmp', 'wb') as fo, open(out + '.err', 'wb') as fe:
        r = subprocess.run(cmd, cwd=COMPILER, stdout=fo, stderr=fe, env=e)
    if r.returncode != 0:
        sys.stderr.write(open(out + '.err', errors='replace').read()[-4000:])
        raise RuntimeError('MIR dump failed for %s (%s)' % (pkg, ' '.join(extra)))
    os.replace(out + '.tmp', out)
    os.remove(out + '.err')


def ensure_dumps(verbose=False):
    """Returns the directory holding <crate>.mir, <crate>.vmir (verbose internals) and <crate>.expanded.rs."""
    os.makedirs(MIRROOT, exist_ok=True)
    key = source_hash()
    d = os.path.join(MIRROOT, key)
    done = os.path.join(d, 'DONE')
    if os.path.exists(done): return d
    lock = open(os.path.join(MIRROOT, '.lock'), 'w')
    fcntl.flock(lock, fcntl.LOCK_EX)
    try:
        if os.path.exists(done): return d
        os.makedirs(d, exist_ok=True)
        t0 = time.time()
        nonce = key[:10]
        for c in CRATES + DEP_CRATES:
            _cargo(c, ['-Zunpretty=mir', '-Ztrim-diagnostic-paths=no'], os.path.join(d, c + '.mir'), nonce + 'm')
            if verbose: print('dumped', c, 'mir %.1fs' % (time.time() - t0), file=sys.stderr)
        for c in CRATES + DEP_CRATES:
            if c in ('ironplc-problems',): continue
            _cargo(c, ['-Zunpretty=mir', '-Ztrim-diagnostic-paths=no', '-Zverbose-internals'], os.path.join(d, c + '.vmir'), nonce + 'v')
        for c in CRATES + DEP_CRATES + EXPANDED_DEPS:
            _cargo(c, ['-Zunpretty=expanded'], os.path.join(d, c + '.expanded.rs'), nonce + 'e')
        with open(done, 'w') as f: json.dump({'key': key, 'seconds': time.time() - t0}, f)
        # keep at most 4 cached trees
        ents = sorted((e for e in os.listdir(MIRROOT) if os.path.isdir(os.path.join(MIRROOT, e))),
                      key=lambda e: os.path.getmtime(os.path.join(MIRROOT, e)))
        for e in ents[:-4]: shutil.rmtree(os.path.join(MIRROOT, e), ignore_errors=True)
        return d
    finally:
        fcntl.flock(lock, fcntl.LOCK_UN)


if __name__ == '__main__':
    t = time.time(); print(ensure_dumps(verbose=True), '%.1fs' % (time.time() - t))
