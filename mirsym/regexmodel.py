"""Contract model of `regex::Regex::{new, captures, is_match}` for the pattern subset the tree uses.

The pattern text is read from the MIR (the string constant given to `Regex::new`), parsed here, and matched by a
backtracking matcher with the regex crate's leftmost-first semantics (alternatives and greedy quantifiers are tried in
order, the search is unanchored).  Subject bytes may be symbolic: every byte-class test is a `Machine.branch`, so each
path of the exploration fixes the outcome of every test the matcher made, and the matcher is deterministic per path.

Supported: literals, escapes (\\d \\. \\* \\\\ and other escaped punctuation), classes [..] with ranges and negation, groups ( ),
non-capturing (?: ), alternation |, quantifiers ? * + (greedy), anchors ^ $.  Anything else raises Unsupported.
"""
import z3
from .mirread import Unsupported


class Node:
    __slots__ = ('kind', 'a', 'b')
    def __init__(self, kind, a=None, b=None): self.kind = kind; self.a = a; self.b = b
    def __repr__(self): return '%s(%r,%r)' % (self.kind, self.a, self.b)


def parse(pat):
    pos = [0]; ngroups = [0]
    def peek(): return pat[pos[0]] if pos[0] < len(pat) else None
    def take():
        c = pat[pos[0]]; pos[0] += 1; return c
    def alt():
        branches = [seq()]
        while peek() == '|': take(); branches.append(seq())
        return branches[0] if len(branches) == 1 else Node('alt', branches)
    def seq():
        items = []
        while peek() is not None and peek() not in '|)': items.append(quant())
        return Node('seq', items)
    def quant():
        a = atom()
        while peek() in ('?', '*', '+'):
            q = take()
            if peek() == '?': raise Unsupported('lazy quantifier in regex')
            a = Node({'?': 'opt', '*': 'star', '+': 'plus'}[q], a)
        if peek() == '{': raise Unsupported('counted repetition in regex')
        return a
    def cls_escape(c):
        if c == 'd': return [(48, 57)]
        if c == 'w': return [(48, 57), (65, 90), (97, 122), (95, 95)]
        if c == 's': return [(9, 13), (32, 32)]
        if c in 'DWSbB': raise Unsupported('regex escape \\' + c)
        if c == 'n': return [(10, 10)]
        if c == 't': return [(9, 9)]
        if c == 'r': return [(13, 13)]
        if c.isalnum(): raise Unsupported('regex escape \\' + c)
        return [(ord(c), ord(c))]
    def atom():
        c = take()
        if c == '(':
            cap = None
            if peek() == '?':
                take()
                if take() != ':': raise Unsupported('regex group flag')
            else:
                ngroups[0] += 1; cap = ngroups[0]
            inner = alt()
            if take() != ')': raise Unsupported('unbalanced regex group')
            return Node('group', cap, inner)
        if c == '[':
            neg = False
            if peek() == '^': take(); neg = True
            ranges = []; first = True
            while True:
                c = take()
                if c == ']' and not first: break
                first = False
                if c == '\\': lo = cls_escape(take())
                else: lo = [(ord(c), ord(c))]
                if peek() == '-' and pos[0] + 1 < len(pat) and pat[pos[0] + 1] != ']' and len(lo) == 1 and lo[0][0] == lo[0][1]:
                    take(); hi = take()
                    if hi == '\\': hi = take()
                    ranges.append((lo[0][0], ord(hi)))
                else: ranges.extend(lo)
            if any(hi > 127 for _, hi in ranges): raise Unsupported('non-ASCII regex class')
            return Node('class', ranges, neg)
        if c == '\\': return Node('class', cls_escape(take()), False)
        if c == '.': return Node('class', [(10, 10)], True)
        if c == '^': return Node('bol')
        if c == '$': return Node('eol')
        if c in '*+?{': raise Unsupported('dangling regex quantifier')
        if ord(c) > 127: raise Unsupported('non-ASCII regex literal')
        return Node('class', [(ord(c), ord(c))], False)
    tree = alt()
    if pos[0] != len(pat): raise Unsupported('unbalanced regex')
    return tree, ngroups[0]


def _in_class(M, b, ranges, neg):
    # the regex crate matches Unicode scalar values (\d, \w, \s are Unicode-aware): this model only speaks for ASCII subjects
    if isinstance(b, int):
        if b >= 128: raise Unsupported('regex over a non-ASCII subject')
        r = any(lo <= b <= hi for lo, hi in ranges)
        return (not r) if neg else r
    if not M.branch(z3.ULT(b, 128)): raise Unsupported('regex over a non-ASCII subject')
    c = z3.Or([z3.And(z3.UGE(b, lo), z3.ULE(b, hi)) if lo != hi else b == lo for lo, hi in ranges])
    r = M.branch(c)
    return (not r) if neg else r


def match_at(M, tree, text, start, ngroups):
    """leftmost-first match starting exactly at `start`; returns (end, groups) or None.  groups[i] = (s, e) or None"""
    n = len(text)
    def m(node, pos, groups, k):
        kind = node.kind
        if kind == 'seq':
            def go(i, pos, groups):
                if i == len(node.a): return k(pos, groups)
                return m(node.a[i], pos, groups, lambda p2, g2: go(i + 1, p2, g2))
            return go(0, pos, groups)
        if kind == 'alt':
            for br in node.a:
                r = m(br, pos, groups, k)
                if r is not None: return r
            return None
        if kind == 'class':
            if pos >= n: return None
            if _in_class(M, text[pos], node.a, node.b): return k(pos + 1, groups)
            return None
        if kind == 'group':
            def after(p2, g2):
                if node.a is not None:
                    g2 = list(g2); g2[node.a] = (pos, p2)
                return k(p2, g2)
            return m(node.b, pos, groups, after)
        if kind == 'opt':
            r = m(node.a, pos, groups, k)
            if r is not None: return r
            return k(pos, groups)
        if kind in ('star', 'plus'):
            def more(p, g, count):
                # greedy: try one more iteration first (an empty iteration would loop forever: require progress)
                r = m(node.a, p, g, lambda p2, g2: more(p2, g2, count + 1) if p2 > p else None)
                if r is not None: return r
                if kind == 'plus' and count == 0: return None
                return k(p, g)
            return more(pos, groups, 0)
        if kind == 'bol': return k(pos, groups) if pos == 0 else None
        if kind == 'eol': return k(pos, groups) if pos == n else None
        raise Unsupported('regex node ' + kind)
    g0 = [None] * (ngroups + 1)
    r = m(tree, start, g0, lambda p, g: (p, g))
    if r is None: return None
    end, groups = r; groups = list(groups); groups[0] = (start, end)
    return end, groups


def search(M, pattern, text):
    tree, ng = parse(pattern)
    for start in range(len(text) + 1):
        r = match_at(M, tree, text, start, ng)
        if r is not None: return r[1]
    return None
