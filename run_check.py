#!/usr/bin/env python3
"""usage: python3-vt run_check.py --property Cnn [--tier quick|thorough] [--kernel regex]"""
import argparse, os, sys, threading
sys.path.insert(0, os.path.dirname(os.path.abspath(__file__)))

def main():
    ap = argparse.ArgumentParser()
    ap.add_argument('--property', required=True)
    ap.add_argument('--tier', default=os.environ.get('VERIF_TIER', 'quick'))
    ap.add_argument('--kernel', default=None)
    a = ap.parse_args()
    seed = int(os.environ.get('VERIF_SEED', '0') or 0)
    import framework
    rc = [2]
    def go():
        rc[0] = framework.run_property(a.property, a.tier, seed, a.kernel)
    t = threading.Thread(target=go); t.start(); t.join()
    sys.stdout.flush()
    os._exit(rc[0])

if __name__ == '__main__':
    main()
