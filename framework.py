"""Check framework: kernel results, replay against the real build, known findings, evidence."""
import json, os, sys, time, subprocess, fcntl, tempfile, hashlib, traceback, re
sys.path.insert(0, os.path.dirname(os.path.abspath(__file__)))
from mirsym import dump, mirread

VERIF = os.path.dirname(os.path.abspath(__file__))
WORK = dump.WORK
REPLAY_TARGET = os.path.join(WORK, 'target-replay')
ALL_CRATES = ['ironplc-dsl', 'ironplc-parser', 'ironplc-analyzer', 'ironplc-plc2plc', 'ironplcc', 'ironplc-problems', 'logos', 'peg-runtime']


class Finding:
    """A solver model that violates a kernel's assertion."""
    def __init__(self, role, what, witness, replay=None, unreachable=False):
        self.role = role            # stable key: kernel + minimal distinguishing feature
        self.what = what            # human-readable statement of what fails
        self.witness = witness      # JSON-able description of the model / input
        self.replay = replay        # callable(ctx) -> (reproduced: bool, details: dict)  or None
        self.unreachable = unreachable


class KernelResult:
    def __init__(self, kid):
        self.kernel = kid
        self.status = 'proved'      # proved | violated | inconclusive
        self.findings = []
        self.functions = []         # stable paths of the functions encoded
        self.bounds = ''
        self.paths = 0              # symbolic paths / memoised states explored
        self.queries = 0            # solver queries discharged
        self.solver_s = 0.0
        self.wall_s = 0.0
        self.models = []            # contract models used
        self.stubs = []
        self.assumptions = []
        self.samples = []
        self.outside = []
        self.inconclusive = []      # reasons
        self.nontrivial = 0
        self.vacuity = None         # reachability witness result
        self.exhaustive = False
        self.notes = []
        self.validate = []         # (replay name, args): proved sample paths whose witness is run on the real build and must agree (translator validation)
        self.validated = 0
    def inconc(self, reason):
        self.inconclusive.append(reason)
        if self.status == 'proved': self.status = 'inconclusive'


class Ctx:
    def __init__(self, pid, tier, seed):
        self.pid = pid; self.tier = tier; self.seed = seed
        self.mirdir = None; self._prog = {}
        self._replay_ready = False
        self.tmp = tempfile.mkdtemp(prefix='verif-%s-' % pid, dir=os.path.join(WORK, 'tmp')) if os.path.isdir(os.path.join(WORK, 'tmp')) else tempfile.mkdtemp(prefix='verif-')
        self.replays_attempted = 0; self.replays_reproduced = 0
    def program(self, crates=None):
        if self.mirdir is None: self.mirdir = dump.ensure_dumps()
        crates = tuple(crates or ALL_CRATES)
        if crates not in self._prog:
            self._prog[crates] = mirread.program(self.mirdir, list(crates), dump.COMPILER)
        return self._prog[crates]

    # ---------------- replay against the real build
    def ensure_replay(self):
        if self._replay_ready: return
        os.makedirs(WORK, exist_ok=True)
        key = dump.source_hash() + '-' + hashlib.sha256(open(os.path.join(VERIF, 'replay', 'src', 'main.rs'), 'rb').read()).hexdigest()[:10]
        stamp = os.path.join(REPLAY_TARGET, 'stamp-' + key)
        lock = open(os.path.join(WORK, '.replay.lock'), 'w')
        fcntl.flock(lock, fcntl.LOCK_EX)
        try:
            if not os.path.exists(stamp):
                env = dict(os.environ); env['CARGO_NET_OFFLINE'] = 'true'; env.pop('RUSTFLAGS', None)
                rdir = os.path.join(VERIF, 'replay')
                if dump.REPO != '/repo':
                    # checks pointed at another tree (VERIF_REPO, used for seeded changes in scratch worktrees): the replay driver must be built against that tree
                    import shutil
                    rdir = os.path.join(WORK, 'replay-src'); shutil.rmtree(rdir, ignore_errors=True); shutil.copytree(os.path.join(VERIF, 'replay'), rdir)
                    ct = open(os.path.join(rdir, 'Cargo.toml')).read().replace('"/repo/', '"%s/' % dump.REPO)
                    open(os.path.join(rdir, 'Cargo.toml'), 'w').write(ct)
                r = subprocess.run(['cargo', 'build', '--offline', '--target-dir', REPLAY_TARGET], cwd=rdir,
                                   env=env, capture_output=True, text=True)
                if r.returncode != 0: raise RuntimeError('replay driver build failed:\n' + r.stderr[-3000:])
                r = subprocess.run(['cargo', 'build', '--offline', '-p', 'ironplcc', '--bin', 'ironplcc', '--target-dir', REPLAY_TARGET],
                                   cwd=dump.COMPILER, env=env, capture_output=True, text=True)
                if r.returncode != 0: raise RuntimeError('ironplcc build failed:\n' + r.stderr[-3000:])
                for f in os.listdir(REPLAY_TARGET):
                    if f.startswith('stamp-'): os.remove(os.path.join(REPLAY_TARGET, f))
                open(stamp, 'w').write(str(time.time()))
        finally:
            fcntl.flock(lock, fcntl.LOCK_UN)
        self._replay_ready = True
    def replay(self, cmds, timeout=120):
        """run JSON command(s) through the replay driver (public API of the real crates)"""
        self.ensure_replay()
        single = isinstance(cmds, dict)
        p = os.path.join(self.tmp, 'cmd-%d.json' % int(time.time() * 1e6))
        with open(p, 'w') as f: json.dump([cmds] if single else cmds, f)
        r = subprocess.run([os.path.join(REPLAY_TARGET, 'debug', 'vreplay'), p], capture_output=True, text=True, timeout=timeout)
        if r.returncode != 0: raise RuntimeError('vreplay failed: rc=%d %s' % (r.returncode, r.stderr[-2000:]))
        out = json.loads(r.stdout)
        return out[0] if single else out
    def ironplcc(self, args, files=None, timeout=60, stdin=None):
        """run the real CLI on temp files; returns (rc, stdout, stderr)"""
        self.ensure_replay()
        d = tempfile.mkdtemp(dir=self.tmp)
        paths = []
        for name, content in (files or {}).items():
            pth = os.path.join(d, name)
            with open(pth, 'wb') as f: f.write(content if isinstance(content, bytes) else content.encode())
            paths.append(pth)
        r = subprocess.run([os.path.join(REPLAY_TARGET, 'debug', 'ironplcc')] + args + paths, capture_output=True, timeout=timeout, input=stdin)
        return r.returncode, r.stdout.decode(errors='replace'), r.stderr.decode(errors='replace')
    def ironplcc_path(self):
        self.ensure_replay(); return os.path.join(REPLAY_TARGET, 'debug', 'ironplcc')
    def cleanup(self):
        import shutil
        shutil.rmtree(self.tmp, ignore_errors=True)


def load_known():
    p = os.path.join(VERIF, 'known_findings.json')
    if not os.path.exists(p): return {'findings': [], 'fixed': []}
    return json.load(open(p))


def run_property(pid, tier, seed, kernel_filter=None):
    t0 = time.time()
    os.makedirs(os.path.join(WORK, 'tmp'), exist_ok=True)
    ctx = Ctx(pid, tier, seed)
    mod = __import__('kernels.%s' % pid, fromlist=['KERNELS'])
    known = load_known()
    known_roles = {f['role']: f for f in known.get('findings', []) if f['property'] == pid}
    results = []
    violations = []; known_hits = []; unconfirmed = []
    for kfn in mod.KERNELS:
        kid = getattr(kfn, 'kid', kfn.__name__)
        if kernel_filter and not re.search(kernel_filter, kid): continue
        kr = KernelResult(kid)
        tk = time.time()
        try:
            kfn(ctx, kr)
        except mirread.Unsupported as e:
            kr.inconc('unsupported: %s' % e)
        except Exception as e:
            kr.inconc('internal error: %s: %s' % (type(e).__name__, e))
            kr.notes.append(traceback.format_exc()[-1500:])
        kr.wall_s = time.time() - tk
        for f in kr.findings:
            rep = None; details = None
            if f.unreachable:
                print('UNREACHABLE-CEX: property=%s kernel=%s %s' % (pid, kid, f.what)); continue
            if f.replay is not None:
                ctx.replays_attempted += 1
                try:
                    rep, details = f.replay(ctx)
                except Exception as e:
                    rep, details = None, {'replay_error': '%s: %s' % (type(e).__name__, e)}
                if rep: ctx.replays_reproduced += 1
            f.reproduced = rep; f.details = details
            if rep:
                kr.status = 'violated'
                if f.role in known_roles:
                    known_hits.append((kr, f))
                else:
                    violations.append((kr, f))
            else:
                unconfirmed.append((kr, f))
                kr.inconc('model did not reproduce on the real build: %s' % f.role)
        # translator validation: witnesses of sample paths on which the kernel's assertion holds must also hold on the real build
        for name, args in kr.validate[:12]:
            try:
                rep, details = REPLAYS[name](*args)(ctx)
            except Exception as e:
                rep, details = None, {'error': str(e)}
            if rep is False: kr.validated += 1
            elif rep is True:
                kr.inconc('translator validation: the real build violates the assertion on a case the encoding proved (%s %s)' % (name, json.dumps(details, default=str)[:300]))
        results.append(kr)
        st = kr.status.upper()
        print('[%s] %-44s %-12s paths=%d queries=%d %.1fs %s' % (pid, kid, st, kr.paths, kr.queries, kr.wall_s,
              ('; '.join(kr.inconclusive)[:300]) if kr.inconclusive else ''), flush=True)
    seen_known = set()
    for kr, f in known_hits:
        if f.role in seen_known: continue
        seen_known.add(f.role)
        print('KNOWN-FINDING: property=%s %s [%s]' % (pid, known_roles[f.role].get('what', f.what), f.role))
    for kr, f in unconfirmed:
        print('UNCONFIRMED: property=%s kernel=%s role=%s (model not reproduced on the real build; treated as inconclusive) %s' % (pid, kr.kernel, f.role, json.dumps(f.details)[:300]))
    rc = 0
    if violations:
        rdir = os.environ.get('VERIF_REPLAY_DIR') or os.path.join(VERIF, 'replays')
        os.makedirs(rdir, exist_ok=True)
        for kr, f in violations:
            name = re.sub(r'[^A-Za-z0-9_.-]+', '_', '%s_%s' % (pid, f.role))[:120] + '.json'
            path = os.path.join(rdir, name)
            with open(path, 'w') as fh:
                json.dump({'property': pid, 'kernel': kr.kernel, 'role': f.role, 'what': f.what, 'witness': f.witness, 'observed': f.details}, fh, indent=1, default=str)
            print('VIOLATION property=%s replay=%s' % (pid, path))
            print('  what: %s' % f.what)
        rc = 1
    if kernel_filter and not os.environ.get('VERIF_EVIDENCE_DIR'):
        os.environ['VERIF_EVIDENCE_DIR'] = os.path.join(WORK, 'evidence-partial')      # a run restricted to some kernels must not overwrite the evidence of the registered check
    write_evidence(pid, tier, seed, results, ctx, time.time() - t0, len(violations), known_hits, unconfirmed)
    ctx.cleanup()
    return rc


def write_evidence(pid, tier, seed, results, ctx, wall, nviol, known_hits, unconfirmed):
    states = sum(k.paths for k in results); trans = sum(k.queries for k in results)
    samples = []
    for k in results:
        for s in k.samples[:3]: samples.append({'kernel': k.kernel, 'case': s})
    if not samples: samples = [{'kernel': k.kernel, 'case': 'no sample recorded'} for k in results[:1]]
    ev = {
        'property_id': pid, 'tier': tier, 'seed': seed, 'level': 'model_checking',
        'coverage': {
            'states': max(states, 0), 'transitions': max(trans, 0) + max(states, 0), 'solver_queries': max(trans, 0),
            'traces_validated_against_impl': ctx.replays_attempted + sum(getattr(k, 'validated', 0) for k in results),
            'translator_validation_cases': sum(getattr(k, 'validated', 0) for k in results),
            'samples': samples[:40],
            'evaluations': states, 'distinct_nontrivial': sum(k.nontrivial for k in results),
            'rule': 'one evaluation = one symbolic path (or memoised lexer state) of a kernel; non-trivial = its path condition or assertion involves at least one symbolic input; transitions = solver queries discharged (solver_queries) + paths completed (branches on selector variables with a declared finite domain are decided by domain bookkeeping, not by a query)',
            'exhaustive': all(k.exhaustive for k in results) and all(k.status != 'inconclusive' for k in results),
            'kernels': [{
                'kernel': k.kernel, 'status': k.status, 'functions_encoded': k.functions[:60], 'n_functions': len(k.functions), 'bounds': k.bounds,
                'paths': k.paths, 'queries': k.queries, 'solver_s': round(k.solver_s, 3), 'wall_s': round(k.wall_s, 3),
                'contract_models': sorted(set(k.models))[:80], 'stubs': k.stubs, 'assumptions': k.assumptions, 'outside_claim': k.outside,
                'inconclusive': k.inconclusive, 'vacuity_witness': k.vacuity, 'notes': k.notes[:5],
                'findings': [{'role': f.role, 'what': f.what, 'witness': f.witness, 'reproduced': getattr(f, 'reproduced', None)} for f in k.findings][:30],
            } for k in results],
            'replays_attempted': ctx.replays_attempted, 'replays_reproduced': ctx.replays_reproduced,
            'known_findings_hit': sorted(set(f.role for _, f in known_hits)),
            'unconfirmed_models': [f.role for _, f in unconfirmed],
            'source_hash': dump.source_hash(),
        },
        'assumptions': sorted(set(a for k in results for a in k.assumptions)) + [
            'rustc nightly MIR of the dev profile is a faithful rendering of the code', 'mirsym interpreter and its contract models (listed per kernel)', 'z3 4.x/5.x decision procedures'],
        'wall_s': round(wall, 2), 'violations': nviol,
    }
    evdir = os.environ.get('VERIF_EVIDENCE_DIR') or os.path.join(VERIF, 'evidence')      # seed-matrix runs on mutated trees write elsewhere
    os.makedirs(evdir, exist_ok=True)
    with open(os.path.join(evdir, pid + '.json'), 'w') as f:
        json.dump(ev, f, indent=1, default=str)


def kernel(kid):
    def deco(fn): fn.kid = kid; return fn
    return deco


class Timer:
    def __init__(self): self.t = 0.0
    def __enter__(self): self.s = time.time(); return self
    def __exit__(self, *a): self.t += time.time() - self.s


def fn_paths(prog, keys):
    """stable path + short hash of the MIR text for evidence"""
    out = []
    for k in sorted(keys):
        it = prog.items.get(k)
        if it is None: continue
        h = hashlib.sha256(('\n'.join('\n'.join(v) for v in it.blocks.values())).encode()).hexdigest()[:8]
        out.append('%s::%s#%s' % (k[0], stable_name(prog, k), h))
    return out

def stable_name(prog, k):
    name = k[1]
    def rep(m):
        for (ty, tr, me), kk in prog.impl.items():
            if kk == k: return '<%s%s>' % (ty, (' as ' + tr) if tr else '')
        return '<impl>'
    name = re.sub(r'<impl at [^>]*>', rep, name)
    name = re.sub(r'<None as parser! \{.*\}>', '<grammar>', name, flags=re.S)       # functions generated by the peg macro carry the grammar text in their path
    return name if len(name) <= 240 else name[:200] + '...' + name[-30:]


# ------------------------------------------------------------------ parallel exploration helpers
import multiprocessing

class Part:
    """picklable partial result of a kernel, produced by a worker process"""
    def __init__(self):
        self.paths = 0; self.queries = 0; self.solver_s = 0.0; self.nontrivial = 0
        self.findings = []        # dicts: role, what, witness, replay=(name, args)
        self.inconclusive = []; self.samples = []; self.encoded = set(); self.models = set(); self.notes = []; self.validate = []
    def inconc(self, r):
        if r not in self.inconclusive: self.inconclusive.append(r)
    def add(self, role, what, witness, replay=None):
        if any(f['role'] == role for f in self.findings): return
        self.findings.append({'role': role, 'what': what, 'witness': witness, 'replay': replay})

REPLAYS = {}     # name -> factory(*args) -> callable(ctx) -> (reproduced, details)
def replay_factory(name):
    def deco(fn): REPLAYS[name] = fn; return fn
    return deco

def merge_part(kr, part, prog=None):
    kr.paths += part.paths; kr.queries += part.queries; kr.solver_s += part.solver_s; kr.nontrivial += part.nontrivial
    for r in part.inconclusive: kr.inconc(r)
    for s in part.samples:
        if len(kr.samples) < 6: kr.samples.append(s)
    kr.notes.extend(part.notes[:3])
    for v in part.validate:
        if len(kr.validate) < 12 and v not in kr.validate: kr.validate.append(v)
    kr._enc = getattr(kr, '_enc', set()) | part.encoded
    kr.models = sorted(set(kr.models) | part.models)
    for f in part.findings:
        if any(g.role == f['role'] for g in kr.findings): continue
        rp = None
        if f.get('replay'):
            name, args = f['replay']; rp = REPLAYS[name](*args)
        kr.findings.append(Finding(f['role'], f['what'], f['witness'], replay=rp))

_POOL_CTX = None
def par_map(fn, jobs, nproc=None):
    """run fn over jobs in forked worker processes (the loaded MIR program is shared copy-on-write)"""
    nproc = nproc or min(int(os.environ.get('VERIF_NPROC', '14')), max(1, len(jobs)))
    if nproc <= 1 or len(jobs) <= 1: return [fn(j) for j in jobs]
    mp = multiprocessing.get_context('fork')
    with mp.Pool(nproc) as pool:
        return pool.map(fn, jobs, chunksize=1)


def all_models(solver, terms, limit=400):
    """every assignment of `terms` (bit-vector / bool z3 terms) consistent with the solver's assertions, up to `limit` (None if exceeded).
    A path fixes only the comparisons the code made; inputs the code never looked at are free and all their values must be examined."""
    import z3
    out = []
    solver.push()
    while True:
        if solver.check() != z3.sat: break
        m = solver.model()
        vals = [m.eval(t, True) for t in terms]
        out.append(vals)
        if len(out) > limit: solver.pop(); return None
        solver.add(z3.Or([t != v for t, v in zip(terms, vals)]) if terms else z3.BoolVal(False))
    solver.pop()
    return out


def check_arith(constraints, timeout_s=60):
    """Decide a bit-vector query dominated by multiply / divide by constants: first the default (bit-blasting) solver under a short cap, then z3's
    integer-blasting bit-vector solver (smt.bv.solver=2), which keeps the mod-2^k semantics and decides q*d+r=a identities that bit-blasting does not finish.
    Returns (result, model or None, engine name)."""
    import z3
    s = z3.Solver(); s.set('timeout', 4000); s.add(*constraints)
    r = s.check()
    if r != z3.unknown: return r, (s.model() if r == z3.sat else None), 'z3 bit-blast'
    s2 = z3.SimpleSolver(); s2.set('smt.bv.solver', 2); s2.set('timeout', int(timeout_s * 1000)); s2.add(*constraints)
    r = s2.check()
    return r, (s2.model() if r == z3.sat else None), 'z3 int-blast'
