#!/usr/bin/env python3
"""Validate the std contract models of mirsym/models.py: every function of /verif/modelcheck is run natively and through the MIR interpreter
on the same inputs; results must agree.  usage: python3-vt tools/modelcheck.py [name-regex]"""
import os, sys, subprocess, re, json, shutil
sys.path.insert(0, '/verif')
from mirsym import mirread, machine
from mirsym.machine import *
from mirsym.mirread import Unsupported
CR = '/verif/modelcheck'; WORK = '/verif/work'; TD = os.path.join(WORK, 'target-modelcheck'); MD = os.path.join(WORK, 'mir-modelcheck')
env = dict(os.environ, CARGO_NET_OFFLINE='true'); env.pop('RUSTFLAGS', None)

def native():
    r = subprocess.run(['cargo', 'run', '-q', '--offline', '--target-dir', TD], cwd=CR, capture_output=True, text=True, env=env)
    if r.returncode: sys.exit('native build failed\n' + r.stderr[-2000:])
    out = {}
    for line in r.stdout.split('\n'):
        if not line: continue
        name, i, val = line.split('\t', 2)
        out[(name, int(i))] = 'PANIC' if val == 'PANIC' else json.loads(val)
    return out

def dumps():
    os.makedirs(MD, exist_ok=True)
    src = os.path.join(CR, 'src', 'lib.rs'); stamp = os.path.join(MD, 'stamp')
    if os.path.exists(stamp) and os.path.getmtime(stamp) >= os.path.getmtime(src): return
    for ext, extra in (('mir', ['-Zunpretty=mir', '-Ztrim-diagnostic-paths=no']), ('vmir', ['-Zunpretty=mir', '-Ztrim-diagnostic-paths=no', '-Zverbose-internals']), ('expanded.rs', ['-Zunpretty=expanded'])):
        os.utime(src)
        out = os.path.join(MD, 'modelcheck.' + ext)
        with open(out, 'wb') as fo:
            r = subprocess.run(['cargo', '+nightly', 'rustc', '--offline', '--lib', '--target-dir', TD + '-mir', '--'] + extra + ['-C', 'overflow-checks=on'], cwd=CR, stdout=fo, stderr=subprocess.PIPE, env=env)
        if r.returncode: sys.exit('dump failed\n' + r.stderr.decode()[-2000:])
        for f in os.listdir(MD):
            if f.startswith('modelcheck.' + ext + '.'): os.remove(os.path.join(MD, f))
    open(stamp, 'w').write('ok')

def to_py(M, v):
    while isinstance(v, Ref): v = M.deref(v)
    if isinstance(v, VecV): return [to_py(M, x) for x in v.items]
    if isinstance(v, Str):
        bs = []
        for b in v.b:
            b = simp(b) if is_sym(b) else b
            bs.append(b.as_long() if is_sym(b) else b)
        return bytes(bs).decode('utf-8', 'replace')
    raise Unsupported('result value %r' % (v,))

def main():
    pat = re.compile(sys.argv[1]) if len(sys.argv) > 1 else None
    want = native(); dumps()
    P = mirread.program(MD, ['modelcheck'], CR)
    lib = open(os.path.join(CR, 'src', 'lib.rs')).read()
    inputs = json.loads('[' + re.search(r'pub const INPUTS: \[&str; \d+\] = \[(.*?)\];', lib, re.S).group(1) + ']')
    names = sorted({k[0] for k in want})
    bad = 0; okc = 0; unsup = {}
    for name in names:
        if pat and not pat.search(name): continue
        key = P.find_fn('modelcheck', name)
        for i, s in enumerate(inputs):
            M = Machine(P)
            res = []
            def entry(M): return M.call_fn(key, [Ref(Cell(Str(list(s.encode()))))])
            def on_path(M, pr): res.append((pr, to_py(M, pr.result) if not pr.panic and not pr.inconclusive else None))
            try: M.explore(entry, on_path)
            except Exception as e: res.append((None, 'EXC %r' % (e,)))
            exp = want[(name, i)]
            # several paths on a concrete input come from nondeterministic contracts (hash iteration order): every one of them must give the native result
            allok = True
            for pr, got in res:
                if pr is None: print('ERROR %s(%r): %s' % (name, s, got)); bad += 1; allok = False; break
                if pr.inconclusive: unsup.setdefault(name, pr.inconclusive); allok = None; break
                if pr.panic: got = 'PANIC'
                if got != exp: print('MISMATCH %s(%r): model %r, native %r' % (name, s, got, exp)); bad += 1; allok = False; break
            if allok: okc += 1
    for n_, why in sorted(unsup.items()): print('UNSUPPORTED %s: %s' % (n_, why))
    print('modelcheck: %d agree, %d mismatches, %d functions outside the models' % (okc, bad, len(unsup)))
    return 1 if bad else 0
if __name__ == '__main__': sys.exit(main())
