#!/usr/bin/env python3
"""Regenerates /verif/MANIFEST.json from the table below (single source of truth for what is claimed)."""
import json, os, sys
V = '/verif'
TRUST = ('Trusted base: rustc nightly textual MIR of the dev profile for the current tree; the mirsym interpreter and the contract models listed '
         'per kernel in the evidence; z3; the replay driver (public API of the real crates). Bounded claim: holds for all inputs within the bounds '
         'stated per kernel in the evidence; nothing is claimed outside them. ')
CLAIMS = {
 'C01': dict(text='Bounded symbolic execution of the real peg-generated expression parser (plc_parser::expression, __infix_parse and its closures, from MIR) on token sequences whose operator '
                  'token types are symbolic; each path yields the complete ExprKind tree, compared with an Annex B.3.1 precedence-climbing reference; mismatches are replayed through parse_program.',
             tech='SMT-guided bounded symbolic execution of rustc MIR of the generated parser (z3)', sect='§4 C01',
             note='Kernels K1 (expressions), K4 (variable block class x qualifier, symbolic block/qualifier token types through parse_library), K5 (statement_list over token sequences with symbolic token types against an IEC B.3.2 DFA reference; flatten_statements unit step), K6 (33 source templates with symbolic shape selectors and unique identifiers: the names of the returned library, depth-first, equal the names written, in order), K7 (sign and digits of integer literals symbolic in four grammar contexts). Outside: all other productions, whole-grammar faithfulness, literal spelling (C09). K8 (= C09-K6: the characters written in a string literal are the characters of the value).'),
 'C02': dict(text='Bounded symbolic execution of rule visitors from MIR on program templates resolved by the real resolve_types, with identifiers symbolic over a small alphabet, compared with reference predicates written from the rule documentation; '
                  'stages::semantic executed with every rule replaced by a nondeterministic stub (registration of every rule module, Err iff any rule fails, diagnostics concatenated). Mismatches are replayed through analyze().',
             tech='SMT-guided bounded symbolic execution of rustc MIR (z3) with symbolic-key hash-map model', sect='§4 C02',
             note='Kernels K1 (7 rule templates incl. function-block invocation scope and constant globals), K4 (subrange limits on symbolic signed bounds) and K3. Outside: the remaining rules, rule interaction on whole programs, derive(Recurse) traversal completeness (K2) unless listed in evidence. K5 (parse_program + stages::analyze on ~700 shapes of 12 source templates covering every documented rule - function-block arguments P0006-P0009, invocation scope P0021, enumerated values P0012-P0014, CONSTANT rules P0016/P0017, unsupported standard types P0029, undeclared variables in every statement kind P0015, structure elements, enumeration values, tasks, subranges, constant globals - against reference predicates written from the rule documentation). K2 (derive(Recurse) traversal of all 103 node types from the MIR with a recording visitor whose k-th call fails for a symbolic k: every child not marked #[recurse(ignore)] is visited once, in order, and a child\'s Err is returned), K2b (Visitor::walk with the trait\'s default methods on parsed template shapes reaches every identifier exactly once; replay through a Visitor implemented against the public API).'),
 'C03': dict(text='Symbolic execution of FileBackedProject::semantic (parse/analyze as nondeterministic stubs, hash order nondeterministic) and of xform_toposort_declarations::apply on declaration pairs with symbolic names; '
                  'the solver decides that no parse error, analysis error or declaration is lost. Models are replayed through Project::semantic / ironplcc check / analyze.',
             tech='SMT-guided bounded symbolic execution of rustc MIR (z3)', sect='§4 C03',
             note='Kernels K1, K3, K4 (same-name declarations diagnosed by resolve_types), K5 (a rule finding is never hidden by a second, valid declaration; both orders). Outside: per-rule behaviour in company of other declarations (argued from C02), sets larger than the bounds. K6 (16 single-fault units x valid companion declarations, before/after and in a second file, every toposort tie-break: the fault\'s code is still reported). K2 (a valid program with 1-2 symbolic bytes inserted: whenever the lexer of the same tree yields an error token, parse_program returns Err).'),
 'C06': dict(text='Symbolic execution of project.semantic under every hash iteration order, of toposort apply under every permutation of the declarations and every toposort tie-break, and of stages::resolve_types under file partitions, '
                  'with reference edges symbolic; verdicts must equal the reference graph verdict whatever the order/partition.',
             tech='SMT-guided bounded symbolic execution of rustc MIR (z3), nondeterministic contract models for hash order and toposort ties', sect='§4 C06',
             note='Kernels K1-K3, K4 (rule verdict under exchange of independent POUs, identifiers symbolic). Outside: order-independence of reported code/location through the remaining rules; CLI argument order. K5 (17 compilation units: parse + full analysis for every order of the declarations, every split into one or two files and every toposort tie-break: same codes and same label text).'),
 'C07': dict(text='Symbolic execution of the real graph-building visitor and DeclarationsGraph::sorted_ids over every directed graph on K nodes (one symbolic bit per edge) in three realisations; verdict compared with the transitive closure of the reference graph; mismatches replayed through analyze().',
             tech='SMT-guided bounded symbolic execution of rustc MIR (z3), petgraph by contract', sect='§4 C07',
             note='Kernel K1. Outside: graphs beyond the node bound, mixed realisations, alias-chain walk (K2) unless listed. K1 also realises graphs whose nodes alternate between function blocks and structures.'),
 'C11': dict(text='Symbolic execution of LspServer::handle_notification, LspProject and FileBackedProject (real HashMap-backed project) over every notification history up to the bound; parse and analysis are uninterpreted functions of the texts, '
                  'so the solver decides that the published diagnostics are a function of the current contents only, carry the notification uri/version, and that the project holds exactly the current texts. Replayed through the real LSP binary against a fresh server.',
             tech='SMT-guided bounded symbolic execution of rustc MIR (z3) with uninterpreted parse/analyze', sect='§4 C11',
             note='Kernel K3 (covers K1/K2 obligations on the explored histories; the reference is a fresh server told only the current contents, run on the same path with the same uninterpreted parse/analysis outcomes). Outside: JSON framing, URI conversion, equality with `check` beyond sharing FileBackedProject::semantic. K4 (the published start position is the line/character `check` prints: lsp_project::map_label on symbolic documents and spans).'),
 'C12': dict(text='One-step symbolic execution of the server message loop, request and notification handlers for an arbitrary message (method symbolic, params deserialise or not, document URI scheme file or other, 0..2 content changes) and of diagnostic conversion for two-document diagnostics; '
                  'solver decides exactly-one-response, no response to notifications, no panic. Replayed through the real LSP binary.',
             tech='SMT-guided bounded symbolic execution of rustc MIR (z3); inductive one-step kernels', sect='§4 C12',
             note='Kernels K1, K2, K2b, K4. Outside: liveness of I/O threads, process exit status after exit (lsp-server), frame syntax. K5 (histories of two messages on one server built by the tree\'s own LspServer::new: request then notification - incl. $/cancelRequest with a symbolic id - or second request; lsp_server::ReqQueue by contract).'),
 'C13': dict(text='Symbolic execution of cli::check, cli::tokenize and cli::create_project with the file system, the project and the output streams as nondeterministic stubs/events: every combination of enumeration, read, lexical and semantic outcomes; '
                  'solver-enumerated paths decide OK-line <=> Ok <=> no diagnostics and that any failing path or file fails the command. Replayed through the ironplcc binary.',
             tech='SMT-guided bounded symbolic execution of rustc MIR (z3) with nondeterministic environment stubs', sect='§4 C13',
             note='Kernels K1, K2, K2b, K3, K4 (enumerate_files over a nondeterministic file system: a directory stands for every entry in it). Outside: clap argument parsing, process exit status mapping (Rust Termination), stream contents. K5 (handle_diagnostics prints every diagnostic with its code, also when its label names the default file id or a file the project does not hold; codespan emit by contract).'),
 'C14': dict(text='Symbolic execution of source::path_to_source with std::fs::read and encoding_rs::Encoding::decode* modelled by their documented contract over abstract files (stored encoding x text); '
                  'symbolic execution of the real lexer over every valid UTF-8 text up to N bytes (totality, tiling, character boundaries). Replayed through `ironplcc check` on files stored in each encoding.',
             tech='SMT-guided bounded symbolic execution of rustc MIR (z3); lexer DFA lifted to an ite-DAG', sect='§4 C14',
             note='Kernels K1, K2. Outside: encoding_rs internals, UTF-16 without BOM, positions after multi-byte text (C05). K1 models parts of the file (prefixes/chunks) as abstract byte strings whose decodability is independent of the whole; replay also stores files whose first non-ASCII character lies behind or across 1 KiB .. 64 KiB boundaries. K3 (one arbitrary Unicode scalar of 1-4 symbolic bytes inside a comment, a string, between tokens, inside an identifier, after a line comment: no panic, tiling, no boundary inside the character).'),
 'C15': dict(text='Symbolic execution of LspProject::tokenize and From<LspTokenType> for Option<SemanticToken>: tokens with symbolic, ordered (line, col) are decoded under the LSP relative encoding by the solver; legend table over a symbolic TokenType; error result on lexical errors; '
                  'lexer line/column accounting over all UTF-8 texts up to N bytes. Replayed through the LSP binary.',
             tech='SMT-guided bounded symbolic execution of rustc MIR (z3)', sect='§4 C15',
             note='Kernels K1, K2, K4, K5, K6 (the token stream handed to the LSP keeps every lexeme). Outside: token length in UTF-16 units, multi-line tokens (K3), edit histories (C11). K3 (start and length of the tokens for a comment/string with symbolic UTF-8 body followed by an identifier are consistent in one unit - bytes, UTF-16 code units or characters - and cover the lexemes).'),
 'C10': dict(text='Symbolic round trip of leaf literals: the literal node of a parsed template is made symbolic, the real renderer is executed symbolically (format!/to_string by contract), the rendered text is lexed by the lexer lifted on that text, '
                  'parsed by the real peg parser and compared with the derived PartialEq of Library; the solver decides value preservation and re-parsability for all values in the bound. write_ws lexeme separation as an inductive step. Replayed through write_to_string/parse_program.',
             tech='SMT-guided bounded symbolic execution of rustc MIR (z3): renderer -> lifted lexer -> generated parser', sect='§4 C10',
             note='Kernels K1 (duration, integer, date, time of day), K2, K3 (23 source templates with symbolic shape selectors: every optional segment / alternative combination run through parse -> render -> parse -> eq on the MIR; concrete f64 values evaluated natively). Outside: constructs and combinations not in the templates; symbolic reals (floating point is not encoded). K4 (literal texts with symbolic digits/characters - time of day and date-and-time fractions, dates, durations, based integers, strings, subranges - through parse -> render -> parse -> eq).'),
 'C04': dict(text='Kani/CBMC proof harnesses over the compiled ironplc-dsl numeric constructors (all FixedPoint values, real time crate) decide panic freedom; '
                  'failing checks come with concrete playback values that are replayed through the public API and through `check` of a program containing the literal.',
             tech='bounded model checking with Kani/CBMC (bit-precise, compiled code)', sect='§4 C04', kani=True,
             note='Kernels K2 (Kani), K3 (FixedPoint::parse on symbolic digit strings), K4 (AddressAssignment::try_from on symbolic direct-address texts, regex crate by contract with the patterns read from the MIR), K5 (parse_library error path on a token of symbolic type and symbolic UTF-8 text), K6 (parse_program + stages::analyze on template shapes with extreme limits and malformed initialisers: never a panic). Outside: stack depth, time budgets, panic sites not enumerated in evidence. K7 (preprocess() on every text of up to 4 [6] pieces out of {OSCAT keys, letter, line break, comment}: returns within an unwinding bound derived from the input length; a loop that exceeds it is replayed with a timeout).'),
 'C09': dict(text='Kani/CBMC harnesses decide integer and duration value conversions over all 128-bit / FixedPoint values; mirsym kernels (when listed in evidence) execute the literal grammar actions on symbolic digit strings; '
                  'models are replayed through parse_program.',
             tech='bounded model checking with Kani/CBMC; SMT-based symbolic execution of MIR (z3)', sect='§4 C09', kani=True,
             note='Kernels K3a (Kani), K2 (based/decimal integer texts incl. the u128 limit), K3b (fixed point texts with underscores), K4 (DATE / TOD grammar actions on symbolic digits), K5 (sign and digits of integer literals through parse_program). Outside: correct rounding of reals, $-escapes in strings, duration unit arithmetic beyond K3a. K6 (character string literals of 1-3 symbolic characters, both quote kinds, three contexts), K7 (DurationLiteral::{days..milliseconds}: interval = (whole + fraction) x unit exactly, fraction digits symbolic; decided with a division-lemma encoding and z3\'s integer-blasting bit-vector solver where bit-blasting does not finish), K8 (direct addresses with symbolic prefix letters and multi-digit components).'),
 'C05': dict(text='Bounded symbolic execution of the real lexer::tokenize over the logos state machine lifted from MIR (all valid UTF-8 sources up to N bytes), '
                  'of preprocessor::remove_oscat_comment and of lsp_project::map_label; solver decides token tiling/text/line/col, offset preservation and span->position mapping for '
                  'every input in the bound; models are replayed through tokenize_program / the LSP binary.',
             tech='SMT-based bounded symbolic execution of rustc MIR (z3), lexer DFA lifted to an ite-DAG', sect='§4 C05',
             note='Kernels K1,K2,K5,K3 (span and file id of every identifier node on template shapes), K6 (terminal rendering: every label of a diagnostic is drawn in its own file at its own span; codespan SimpleFiles/emit as recording stubs), K7 (labels of the duplicate-name rules on symbolic names). Outside: spans of nodes other than identifiers, labels of the other rules; sources longer than the bound. K2 now enters through preprocess() and also covers plain texts and comment texts with symbolic bytes (preprocessing leaves them unchanged; replay against the lexer model of the same tree). K8 (20 single-fault units: the primary label of the fault\'s diagnostic lies in its file and covers the spelling of the construct the message is about).'),
 'C08': dict(text='Solver queries over the lexer lifted from MIR: every case pattern of every reserved word, every string of the reference trivia language up to n bytes; '
                  'bounded symbolic execution of insert_keyword_statement_terminators over symbolic token types. Violations are replayed through tokenize_program.',
             tech='SMT queries over lexer transition relation lifted from MIR; bounded symbolic execution of MIR (z3)', sect='§4 C08',
             note='Kernels K1a,K1b,K2,K4 (Eq/Hash consistency of Id and Type under case folding),K5 (words the grammar matches by text, every case pattern, through parse_program),K6 (semantic rule verdicts with every identifier occurrence optionally upper-cased), K7 (parse + full analysis of four programs with one identifier occurrence upper-cased). Outside: equality of whole parsed libraries under re-spelling (grammar), textual keyword comparisons inside grammar actions unless listed. K8 (the preprocessor leaves comment texts with symbolic bytes unchanged, so what is lexed is the text as written).'),
}
NOT_YET = 'check not built yet (work in progress)'
def main():
    checks = []; na = []
    for i in range(1, 16):
        pid = 'C%02d' % i
        if pid in CLAIMS and os.path.exists(os.path.join(V, 'kernels', pid + '.py')):
            c = CLAIMS[pid]
            checks.append({
                'property_id': pid,
                'quick_cmd': 'python3-vt /verif/run_check.py --property %s --tier quick' % pid,
                'thorough_cmd': 'python3-vt /verif/run_check.py --property %s --tier thorough' % pid,
                'evidence_file': '/verif/evidence/%s.json' % pid,
                'replay_cmd_template': 'cat {path}',
                'engine': 'mirsym' + ('+kani' if c.get('kani') else ''),
                'level_claimed': {'category': 'model_checking', 'text': c['text'], 'design_ref': c['sect']},
                'level_note': TRUST + c['note'],
                'technique': c['tech'],
            })
        else:
            na.append({'property_id': pid, 'reason': CLAIMS.get(pid, {}).get('na', NOT_YET)})
    m = {'version': 1, 'setup_cmd': 'python3-vt /verif/setup.py',
         'hooks': {'guard': 'ironplc_verif', 'enable': 'no source hooks are needed: checks read rustc MIR dumps of /repo (external --target-dir) and use public API for replays',
                   'baseline_off_cmd': 'cd /repo/compiler && cargo test --workspace --no-fail-fast --offline', 'source_commits': [], 'add_only': True},
         'engines': [{'name': 'mirsym', 'path': '/verif/mirsym', 'serves_properties': sorted(CLAIMS), 'kind_free_text': 'symbolic interpreter over rustc textual MIR with z3 back end; lexer lifting; contract models for std/petgraph/time'},
                     {'name': 'kani', 'path': '/verif/kani', 'serves_properties': ['C04', 'C09'], 'kind_free_text': 'Kani 0.68 / CBMC 6.11 proof harnesses over ironplc-dsl public API'}],
         'checks': checks, 'notes': 'see DESIGN.md; known findings in known_findings.json; seeded changes in seeded/', 'not_applicable': na}
    json.dump(m, open(os.path.join(V, 'MANIFEST.json'), 'w'), indent=1)
    import jsonschema
    jsonschema.validate(m, json.load(open('/root/.vp/MANIFEST.schema.json')))
    print('MANIFEST ok: %d checks, %d not applicable' % (len(checks), len(na)))
if __name__ == '__main__': main()
