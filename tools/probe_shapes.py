#!/usr/bin/env python3
"""dev tool: run every shape of a template (module:NAME or all of a dict) through the real build (replay driver `analyze`) and print the problem codes."""
import sys, os, itertools, json, importlib
sys.path.insert(0, '/verif')
import framework
from kernels import C10 as K10
modname, dictname = sys.argv[1].split(':')
only = sys.argv[2:] 
mod = importlib.import_module('kernels.' + modname)
T = getattr(mod, dictname)
ctx = framework.Ctx('probe', 'quick', 0)
for name, tpl in T.items():
    if only and name not in only: continue
    tpl = tpl['tpl'] if isinstance(tpl, dict) else tpl
    dims = K10._shapes(tpl)
    choices = list(itertools.product(*[range(d) for d in dims]))
    cmds = [{'cmd': 'analyze', 'sources': [K10._tpl_text(tpl, c)]} for c in choices]
    res = ctx.replay(cmds)
    print('==', name, len(choices), 'shapes')
    for c, r in zip(choices, res):
        segs = K10._selectors(tpl)
        lab = ' | '.join(K10._seg_label(s, v) for s, v in zip(segs, c))
        if 'panic' in r: out = 'PANIC ' + r['panic'][:60]
        elif 'parse_error' in r: out = 'parse-error ' + r['parse_error']['code']
        else: out = ','.join(sorted(set(d['code'] for d in r['diagnostics']))) or 'OK'
        ref = ''
        if isinstance(T[name], dict) and 'ref' in T[name]:
            texts = [ (s[1] if v else '') if s[0]=='opt' else s[1][v] for s, v in zip(segs, c)]
            want = T[name]['ref'](texts)
            ref = '   want=' + (','.join(sorted(want)) if want is not None else 'n/a')
        print('  %-70s %s%s' % (lab[:70], out, ref))
ctx.cleanup()
