#!/usr/bin/env python3
"""Apply each seeded change to /repo, run the check(s) of the property it breaks, undo. usage: seed_matrix.py [seed ...] [--all-props]"""
import json, os, subprocess, sys, time
V = '/verif'
seeds = [a for a in sys.argv[1:] if not a.startswith('--')] or sorted(os.listdir(V + '/seeded'))
man = json.load(open(V + '/MANIFEST.json')); claimed = {c['property_id'] for c in man['checks']}
out = {}
for sd in seeds:
    meta = json.load(open('%s/seeded/%s/meta.json' % (V, sd))); pid = meta['property']
    props = sorted(claimed) if '--all-props' in sys.argv else [pid]
    st = subprocess.run(['git', '-C', '/repo', 'status', '--short'], capture_output=True, text=True).stdout.strip()
    if st: print('REPO NOT CLEAN, abort'); sys.exit(2)
    r = subprocess.run(['git', '-C', '/repo', 'apply', '%s/seeded/%s/patch.diff' % (V, sd)], capture_output=True, text=True)
    if r.returncode: print(sd, 'patch failed', r.stderr); continue
    try:
        for p in props:
            if p not in claimed or not os.path.exists('%s/kernels/%s.py' % (V, p)): out[(sd, p)] = 'no-check'; continue
            t = time.time()
            env = dict(os.environ, VERIF_EVIDENCE_DIR=V + '/work/evidence-seeds/' + sd, VERIF_REPLAY_DIR=V + '/work/replays-seeds/' + sd)
            r = subprocess.run(['python3-vt', V + '/run_check.py', '--property', p, '--tier', 'quick'], capture_output=True, text=True, cwd=V, env=env)
            viol = [l for l in r.stdout.split('\n') if l.startswith('VIOLATION')]
            inc = [l for l in r.stdout.split('\n') if 'INCONCLUSIVE' in l or 'UNCONFIRMED' in l]
            out[(sd, p)] = 'DETECTED(%d)' % len(viol) if r.returncode == 1 and viol else ('rc=%d %s' % (r.returncode, 'inconclusive:%d' % len(inc) if inc else 'missed'))
            print('%-6s %-4s %-28s %.0fs' % (sd, p, out[(sd, p)], time.time() - t), flush=True)
            if viol: print('       ', viol[0][:160])
    finally:
        subprocess.run(['git', '-C', '/repo', 'checkout', '--', '.'])
json.dump({'%s/%s' % k: v for k, v in out.items()}, open(V + '/work/seed_matrix.json', 'w'), indent=1)
