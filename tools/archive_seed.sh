#!/bin/bash
# usage: archive_seed.sh <tag>   — copy a confirmed seed from /tmp/wtout/<tag> into /verif/seeded/<tag>
tag=$1
mkdir -p /verif/seeded/$tag
cp -r /tmp/wtout/$tag/* /verif/seeded/$tag/
rm -f /verif/seeded/$tag/.demo_tmp
ls /verif/seeded/$tag
