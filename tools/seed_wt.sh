#!/bin/bash
# usage: seed_wt.sh <tag> <property> [kernel-regex] [tier]  — run a check against the scratch worktree /tmp/wt/<tag> (patch applied there), own work dir; /repo is not touched
tag=$1; prop=$2; kern=$3; tier=${4:-quick}
export VERIF_REPO=/tmp/wt/$tag VERIF_WORK=/tmp/vwork/$tag VERIF_EVIDENCE_DIR=/tmp/vwork/$tag/evidence VERIF_REPLAY_DIR=/tmp/vwork/$tag/replays
if [ ! -d $VERIF_WORK/target-mir ]; then mkdir -p $VERIF_WORK; cp -a /verif/work/target-mir /verif/work/target-replay $VERIF_WORK/ 2>/dev/null; rm -f $VERIF_WORK/target-replay/stamp-*; fi
mkdir -p $VERIF_WORK/tmp
cd /verif
if [ -n "$kern" ]; then python3-vt run_check.py --property $prop --tier $tier --kernel "$kern"; else python3-vt run_check.py --property $prop --tier $tier; fi
echo "rc=$?"
