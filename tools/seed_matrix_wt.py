#!/usr/bin/env python3
"""Run the quick check of the property each seeded change breaks against a scratch worktree of /repo HEAD with the change applied (no edits to /repo itself).
usage: seed_matrix_wt.py [-j N] [seed ...]   -> /verif/work/seed_matrix.json and one line per seed"""
import json, os, subprocess, sys, time, shutil
from concurrent.futures import ThreadPoolExecutor
V = '/verif'
args = sys.argv[1:]; J = 3
if args and args[0] == '-j': J = int(args[1]); args = args[2:]
seeds = args or sorted(os.listdir(V + '/seeded'))
def run(sd):
    meta = json.load(open('%s/seeded/%s/meta.json' % (V, sd))); pid = meta['property']
    wt = '/tmp/wt/m_' + sd; work = '/tmp/vwork/m_' + sd
    subprocess.run(['git', '-C', '/repo', 'worktree', 'remove', '--force', wt], capture_output=True); shutil.rmtree(wt, ignore_errors=True)
    r = subprocess.run(['git', '-C', '/repo', 'worktree', 'add', '-q', '--detach', wt, 'HEAD'], capture_output=True, text=True)
    if r.returncode: return sd, pid, 'worktree failed: ' + r.stderr[:100], 0
    try:
        r = subprocess.run(['git', '-C', wt, 'apply', '%s/seeded/%s/patch.diff' % (V, sd)], capture_output=True, text=True)
        if r.returncode: return sd, pid, 'PATCH DOES NOT APPLY', 0
        t = time.time()
        env = dict(os.environ, VERIF_NPROC='8')
        r = subprocess.run([V + '/tools/seed_wt.sh', 'm_' + sd, pid], capture_output=True, text=True, env=env)
        out = r.stdout
        viol = [l for l in out.split('\n') if l.startswith('VIOLATION')]
        inc = [l for l in out.split('\n') if 'INCONCLUSIVE' in l or l.startswith('UNCONFIRMED')]
        rc = [l for l in out.split('\n') if l.startswith('rc=')]
        res = 'DETECTED(%d)' % len(viol) if viol else ('inconclusive:%d' % len(inc) if inc else 'missed') + ' ' + (rc[-1] if rc else '')
        open('/tmp/vwork/m_%s.log' % sd, 'w').write(out + r.stderr[-2000:])
        return sd, pid, res, time.time() - t
    finally:
        subprocess.run(['git', '-C', '/repo', 'worktree', 'remove', '--force', wt], capture_output=True); shutil.rmtree(work, ignore_errors=True)
os.makedirs('/tmp/vwork', exist_ok=True)
out = {}
with ThreadPoolExecutor(J) as ex:
    for sd, pid, res, dt in ex.map(run, seeds):
        out[sd] = res; print('%-6s %-4s %-34s %.0fs' % (sd, pid, res, dt), flush=True)
os.makedirs(V + '/work', exist_ok=True)
json.dump(out, open(V + '/work/seed_matrix.json', 'w'), indent=1)
