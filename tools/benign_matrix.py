#!/usr/bin/env python3
"""Run the quick checks that look at the refactored area against scratch worktrees of /repo HEAD carrying a behaviour-preserving refactoring (/verif/benign/*.diff):
no check may print VIOLATION or exit non-zero.  usage: benign_matrix.py [-j N]"""
import json, os, subprocess, sys, time, shutil
from concurrent.futures import ThreadPoolExecutor
V = '/verif'
PROPS = {'benign_1': ['C05', 'C14', 'C15', 'C08'], 'benign_2': ['C05', 'C04', 'C08'], 'benign_3': ['C02', 'C06', 'C08', 'C03'], 'benign_4': ['C02', 'C03', 'C06'],
         'benign_5': ['C15', 'C11', 'C12', 'C05'], 'benign_6': ['C03', 'C06', 'C11', 'C13'], 'benign_7': ['C09', 'C04', 'C10'], 'benign_8': ['C10', 'C04']}
J = int(sys.argv[2]) if len(sys.argv) > 2 and sys.argv[1] == '-j' else 2
def run(name):
    wt = '/tmp/wt/b_' + name
    subprocess.run(['git', '-C', '/repo', 'worktree', 'remove', '--force', wt], capture_output=True); shutil.rmtree(wt, ignore_errors=True)
    subprocess.run(['git', '-C', '/repo', 'worktree', 'add', '-q', '--detach', wt, 'HEAD'], capture_output=True)
    out = []
    try:
        r = subprocess.run(['git', '-C', wt, 'apply', '%s/benign/%s.diff' % (V, name)], capture_output=True, text=True)
        if r.returncode: return name, ['PATCH DOES NOT APPLY']
        for p in PROPS[name]:
            t = time.time()
            r = subprocess.run([V + '/tools/seed_wt.sh', 'b_' + name, p], capture_output=True, text=True, env=dict(os.environ, VERIF_NPROC='8'))
            viol = [l for l in r.stdout.split('\n') if l.startswith('VIOLATION')]
            inc = [l for l in r.stdout.split('\n') if 'INCONCLUSIVE' in l]
            rc = [l for l in r.stdout.split('\n') if l.startswith('rc=')]
            out.append('%s %s%s%s %.0fs' % (p, rc[-1] if rc else 'rc=?', ' FALSE-ALARM(%d)' % len(viol) if viol else '', ' inconclusive:%d' % len(inc) if inc else '', time.time() - t))
            open('/tmp/vwork/b_%s_%s.log' % (name, p), 'w').write(r.stdout + r.stderr[-2000:])
        return name, out
    finally:
        subprocess.run(['git', '-C', '/repo', 'worktree', 'remove', '--force', wt], capture_output=True); shutil.rmtree('/tmp/vwork/b_' + name, ignore_errors=True)
os.makedirs('/tmp/vwork', exist_ok=True)
with ThreadPoolExecutor(J) as ex:
    for name, out in ex.map(run, sorted(PROPS)):
        print(name, '|', ' ; '.join(out), flush=True)
