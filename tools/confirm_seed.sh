#!/bin/bash
# usage: confirm_seed.sh <tag> <demo-dest-relative-to-worktree> <cargo-package> <test-name>
# Confirms a seeded change in its scratch worktree: demo passes on clean tree; with patch: suite passes, demo fails.
tag=$1; dest=$2; pkg=$3; tname=$4
wt=/tmp/wt/$tag; out=/tmp/wtout/$tag
export CARGO_NET_OFFLINE=true
cd $wt || exit 2
git checkout -q -- . ; git clean -qfd -e compiler/target
mkdir -p $(dirname $dest); cp $out/demo.rs $dest
{
echo "== clean tree: demo"
(cd compiler && cargo test --offline -p $pkg --test $tname 2>&1 | grep -E "^test result|FAILED|error" | head -5); 
(cd compiler && cargo test --offline -p $pkg --test $tname >/dev/null 2>&1); echo "demo_clean_rc=$?"
git apply $out/patch.diff || echo "PATCH-APPLY-FAILED"
echo "== patched: suite (demo file moved away)"
mv $dest /tmp/wtout/$tag/.demo_tmp
(cd compiler && cargo test --workspace --no-fail-fast --offline 2>&1 | grep -E "^test result" | awk '{p+=$4; f+=$6} END {print "passed="p" failed="f}')
mv /tmp/wtout/$tag/.demo_tmp $dest
echo "== patched: demo"
(cd compiler && cargo test --offline -p $pkg --test $tname 2>&1 | grep -E "^test result" | head -3)
(cd compiler && cargo test --offline -p $pkg --test $tname >/dev/null 2>&1); echo "demo_patched_rc=$?"
} > $out/confirm.txt 2>&1
rm -f $dest
cat $out/confirm.txt
