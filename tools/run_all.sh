#!/bin/bash
# runs every registered quick check on the current /repo tree; prints one status line per property
cd "$(dirname "$0")/.."
tier=${1:-quick}
for p in $(python3 -c "import json; print(' '.join(c['property_id'] for c in json.load(open('MANIFEST.json'))['checks']))"); do
  s=$(date +%s)
  out=$(python3-vt ./run_check.py --property $p --tier $tier 2>&1); rc=$?
  e=$(date +%s)
  echo "$p rc=$rc $((e-s))s  viol=$(echo "$out" | grep -c '^VIOLATION')  known=$(echo "$out" | grep -c '^KNOWN-FINDING')  inconclusive=$(echo "$out" | grep -c 'INCONCLUSIVE')  unconfirmed=$(echo "$out" | grep -c '^UNCONFIRMED')"
  echo "$out" | grep -E "INCONCLUSIVE|^UNCONFIRMED|^VIOLATION" | cut -c1-260
done
