#!/usr/bin/env python3
"""Print the as-built kernel table (markdown) from /verif/evidence/*.json (written by the last quick run)."""
import json, glob, os, re
V = os.path.dirname(os.path.dirname(os.path.abspath(__file__)))
print('| prop | kernel | functions encoded | bound (quick tier) | result on the current tree |')
print('|---|---|---|---|---|')
known = json.load(open(V + '/known_findings.json'))['findings']
for f in sorted(glob.glob(V + '/evidence/C*.json')):
    e = json.load(open(f)); pid = e['property_id']
    for k in e['coverage']['kernels']:
        kid = k['kernel'].split()[0]
        nk = sum(1 for x in known if x['role'].startswith('%s/%s/' % (pid, kid)) or x['role'].startswith('%s/%s' % (pid, re.sub(r'[ab]$', '', kid)) + '/'))
        res = k['status'] + (' + %d known finding(s)' % nk if nk and k['status'] != 'proved' else '')
        b = (k.get('bounds') or '').replace('|', '\\|')
        print('| %s | %s | %d | %s | %s |' % (pid, k['kernel'], k.get('n_functions', 0), b[:420], res))
