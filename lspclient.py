"""Minimal scripted LSP client for replays against the real `ironplcc lsp --stdio` binary."""
import json, subprocess, threading, time, os, queue


class LspSession:
    def __init__(self, binary, timeout=20):
        self.p = subprocess.Popen([binary, 'lsp', '--stdio'], stdin=subprocess.PIPE, stdout=subprocess.PIPE, stderr=subprocess.PIPE)
        self.q = queue.Queue(); self.timeout = timeout; self.received = []
        self.t = threading.Thread(target=self._reader, daemon=True); self.t.start()
        self.next_id = 1

    def _reader(self):
        f = self.p.stdout
        try:
            while True:
                hdr = b''
                while not hdr.endswith(b'\r\n\r\n'):
                    c = f.read(1)
                    if not c: self.q.put(None); return
                    hdr += c
                n = 0
                for line in hdr.decode().split('\r\n'):
                    if line.lower().startswith('content-length:'): n = int(line.split(':')[1])
                body = f.read(n)
                self.q.put(json.loads(body))
        except Exception:
            self.q.put(None)

    def send(self, msg):
        data = json.dumps(msg).encode()
        try:
            self.p.stdin.write(b'Content-Length: %d\r\n\r\n' % len(data) + data); self.p.stdin.flush()
        except BrokenPipeError:
            pass

    def request(self, method, params, rid=None):
        rid = rid if rid is not None else self.next_id; self.next_id = max(self.next_id, (rid if isinstance(rid, int) else 0)) + 1
        self.send({'jsonrpc': '2.0', 'id': rid, 'method': method, 'params': params}); return rid

    def notify(self, method, params):
        self.send({'jsonrpc': '2.0', 'method': method, 'params': params})

    def recv(self, timeout=None):
        try:
            m = self.q.get(timeout=timeout if timeout is not None else self.timeout)
        except queue.Empty:
            return None
        if m is not None: self.received.append(m)
        return m

    def wait_for(self, pred, timeout=None):
        end = time.time() + (timeout if timeout is not None else self.timeout)
        while time.time() < end:
            m = self.recv(timeout=max(0.05, end - time.time()))
            if m is None: return None
            if pred(m): return m
        return None

    def drain(self, quiet=0.5):
        out = []
        while True:
            m = self.recv(timeout=quiet)
            if m is None: break
            out.append(m)
        return out

    def initialize(self, root=None):
        folders = [{'uri': 'file://' + root, 'name': 'ws'}] if root else None
        rid = self.request('initialize', {'processId': None, 'rootUri': ('file://' + root) if root else None, 'capabilities': {}, 'workspaceFolders': folders})
        r = self.wait_for(lambda m: m.get('id') == rid)
        self.notify('initialized', {})
        return r

    def did_open(self, uri, text, version=1):
        self.notify('textDocument/didOpen', {'textDocument': {'uri': uri, 'languageId': 'st', 'version': version, 'text': text}})

    def did_change(self, uri, texts, version=2):
        self.notify('textDocument/didChange', {'textDocument': {'uri': uri, 'version': version}, 'contentChanges': [{'text': t} for t in texts]})

    def diagnostics_for(self, uri, version=None, timeout=None):
        return self.wait_for(lambda m: m.get('method') == 'textDocument/publishDiagnostics' and m['params']['uri'] == uri and
                             (version is None or m['params'].get('version') == version), timeout)

    def shutdown(self):
        rid = self.request('shutdown', None)
        r = self.wait_for(lambda m: m.get('id') == rid, timeout=5)
        self.notify('exit', None)
        try:
            rc = self.p.wait(timeout=5)
        except subprocess.TimeoutExpired:
            self.p.kill(); rc = None
        return r, rc

    def close(self):
        try:
            self.p.stdin.close()
        except Exception: pass
        try:
            return self.p.wait(timeout=3)
        except subprocess.TimeoutExpired:
            self.p.kill(); return None

    def stderr(self):
        try:
            return self.p.stderr.read().decode(errors='replace')
        except Exception:
            return ''
