"""Engine K: run the Kani harness crate /verif/kani against /repo's current ironplc-dsl and parse verdicts + concrete playback values."""
import os, re, subprocess, time, shutil, resource

KDIR = '/verif/kani'
TARGET = '/verif/work/target-kani'


def _sync_lock():
    src = '/repo/compiler/Cargo.lock'; dst = os.path.join(KDIR, 'Cargo.lock')
    # keep the harness crate resolving to the versions the repository pins (vkani entry is added by cargo itself)
    if not os.path.exists(dst): shutil.copy(src, dst)


def _limits():
    resource.setrlimit(resource.RLIMIT_AS, (16 << 30, 16 << 30))


def run(harnesses=None, timeout=900):
    """returns {harness: {'status': 'SUCCESSFUL'|'FAILED'|'INCONCLUSIVE', 'failed': [..], 'witnesses': [..], 'cover': str, 'time': s}}, raw output"""
    _sync_lock()
    cmd = ['cargo', 'kani', '--target-dir', TARGET, '-Z', 'concrete-playback', '--concrete-playback=print']
    for h in harnesses or []: cmd += ['--harness', h]
    env = dict(os.environ); env['CARGO_NET_OFFLINE'] = 'true'; env.pop('RUSTFLAGS', None)
    t0 = time.time()
    try:
        r = subprocess.run(cmd, cwd=KDIR, env=env, capture_output=True, text=True, timeout=timeout, preexec_fn=_limits)
        out = r.stdout + '\n' + r.stderr
    except subprocess.TimeoutExpired as e:
        return {}, 'TIMEOUT after %ds' % timeout
    res = {}
    # split per harness
    parts = re.split(r'^Checking harness (\S+?)\.\.\.$', out, flags=re.M)
    for i in range(1, len(parts), 2):
        name = parts[i].split('::')[-1]; body = parts[i + 1]
        ent = {'status': 'INCONCLUSIVE', 'failed': [], 'witnesses': [], 'cover': None, 'time': None, 'checks': None}
        m = re.search(r'^VERIFICATION:- (SUCCESSFUL|FAILED)', body, re.M)
        if m: ent['status'] = m.group(1)
        if re.search(r'Status: ERROR|out of memory|CBMC failed|unwinding assertion', body, re.I): ent['status'] = 'INCONCLUSIVE'
        m = re.search(r'\*\* (\d+) of (\d+) failed', body)
        if m: ent['checks'] = int(m.group(2))
        for fm in re.finditer(r'^Failed Checks: (.*)\n File: "(.*?)", line (\d+), in (\S+)', body, re.M):
            ent['failed'].append({'desc': fm.group(1).strip('"'), 'file': fm.group(2), 'line': int(fm.group(3)), 'func': fm.group(4)})
        m = re.search(r'\*\* (\d+) of (\d+) cover properties satisfied', body)
        if m: ent['cover'] = '%s of %s' % (m.group(1), m.group(2))
        m = re.search(r'^Verification Time: ([0-9.]+)s', body, re.M)
        if m: ent['time'] = float(m.group(1))
        res[name] = ent
    for pm in re.finditer(r'/// Test generated for harness `(\S+?)`\s*\n///\s*\n/// Check for `(\w+)`: "([^\n]*)"\n(.*?)kani::concrete_playback_run', out, re.S):
        name = pm.group(1).split('::')[-1]
        vals = []
        for vm in re.finditer(r'vec!\[([0-9, ]*)\],', pm.group(4)):
            bs = [int(x) for x in vm.group(1).split(',') if x.strip()]
            vals.append(int.from_bytes(bytes(bs), 'little'))
        if name in res: res[name]['witnesses'].append({'kind': pm.group(2), 'check': pm.group(3).strip('"'), 'vals': vals})
    return res, out


def prebuild():
    _sync_lock()
    env = dict(os.environ); env['CARGO_NET_OFFLINE'] = 'true'
    subprocess.run(['cargo', 'kani', '--target-dir', TARGET, '--harness', 'dur_seconds_no_panic'], cwd=KDIR, env=env, capture_output=True, text=True, timeout=1200)


if __name__ == '__main__':
    import json, sys
    r, out = run(sys.argv[1:] or None)
    print(json.dumps(r, indent=1))
