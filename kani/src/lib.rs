//! Kani proof harnesses over the public API of ironplc-dsl (engine K of DESIGN.md).
//! Inputs are constrained only by the documented invariant of the type (FixedPoint.femptos < 10^15).
#![allow(unused)]
#[cfg(kani)]
mod proofs {
    use ironplc_dsl::common::{FixedPoint, Integer, SignedInteger};
    use ironplc_dsl::core::SourceSpan;
    use ironplc_dsl::time::DurationLiteral;

    fn any_fixed_point() -> FixedPoint {
        let whole: u64 = kani::any();
        let femptos: u64 = kani::any();
        kani::assume(femptos < FixedPoint::FRACTIONAL_UNITS);
        FixedPoint { span: SourceSpan::default(), whole, femptos }
    }

    macro_rules! no_panic {
        ($name:ident, $f:path) => {
            #[kani::proof]
            fn $name() {
                let fp = any_fixed_point();
                let d = $f(fp);
                kani::cover!(true, "reached the end (vacuity witness)");
                core::mem::forget(d);
            }
        };
    }
    no_panic!(dur_days_no_panic, DurationLiteral::days);
    no_panic!(dur_hours_no_panic, DurationLiteral::hours);
    no_panic!(dur_minutes_no_panic, DurationLiteral::minutes);
    no_panic!(dur_seconds_no_panic, DurationLiteral::seconds);
    no_panic!(dur_milliseconds_no_panic, DurationLiteral::milliseconds);

    // whole part representable in i64 seconds: the value must be exact (no wrap) - seconds
    #[kani::proof]
    fn dur_seconds_whole_not_wrapped() {
        let fp = any_fixed_point();
        let whole = fp.whole;
        let d = DurationLiteral::seconds(fp);
        // a non-negative literal never denotes a negative duration
        assert!(!d.interval.is_negative(), "non-negative seconds literal became a negative duration");
        assert!(d.interval.whole_seconds() as i128 == whole as i128, "whole seconds altered");
        core::mem::forget(d);
    }

    // the shape the grammar builds for `T#<sec>s_<ms>ms`: ms.plus(seconds(sec))
    #[kani::proof]
    fn dur_plus_no_panic() {
        let ms = DurationLiteral::milliseconds(any_fixed_point());
        let sec: u64 = kani::any();
        let s = DurationLiteral::seconds(FixedPoint { span: SourceSpan::default(), whole: sec, femptos: 0 });
        let c = ms.plus(s);
        kani::cover!(true, "reached the end (vacuity witness)");
        core::mem::forget(c); core::mem::forget(ms);
    }

    fn any_integer() -> Integer {
        Integer { span: SourceSpan::default(), value: kani::any() }
    }

    #[kani::proof]
    fn signed_integer_to_i128() {
        let v = any_integer(); let value = v.value; let is_neg: bool = kani::any();
        let s = SignedInteger { value: v, is_neg };
        let r: Result<i128, _> = s.try_into();
        match r {
            Ok(x) => {
                assert!(value <= i128::MAX as u128);
                assert!(x == if is_neg { -(value as i128) } else { value as i128 });
            }
            Err(_) => assert!(value > i128::MAX as u128),
        }
    }

    #[kani::proof]
    fn integer_to_small() {
        let v = any_integer(); let value = v.value;
        let r: Result<u8, _> = v.try_into();
        match r { Ok(x) => assert!(x as u128 == value), Err(_) => assert!(value > u8::MAX as u128) }
        let v = any_integer(); let value = v.value;
        let r: Result<u32, _> = v.try_into();
        match r { Ok(x) => assert!(x as u128 == value), Err(_) => assert!(value > u32::MAX as u128) }
        let v = any_integer(); let value = v.value;
        let r: Result<i128, _> = v.try_into();
        match r { Ok(x) => assert!(x as u128 == value && x >= 0), Err(_) => assert!(value > i128::MAX as u128) }
    }

    #[kani::proof]
    fn integer_to_fixed_point_not_truncated() {
        let v = any_integer(); let value = v.value;
        let fp: FixedPoint = v.into();
        assert!(fp.whole as u128 == value, "integer silently truncated to 64 bits");
        assert!(fp.femptos == 0);
    }
}
