#!/usr/bin/env python3
"""setup_cmd: build everything the checks need, offline, from files on disk (MIR dump dependencies under
nightly, the replay driver and ironplcc from /repo's working tree, the Kani harness crate)."""
import os, sys, subprocess, time
sys.path.insert(0, os.path.dirname(os.path.abspath(__file__)))
os.makedirs('/verif/work/tmp', exist_ok=True)
from mirsym import dump
import framework
t = time.time()
d = dump.ensure_dumps(verbose=True); print('MIR dumps ready in', d, '%.0fs' % (time.time() - t), flush=True)
ctx = framework.Ctx('setup', 'quick', 0); ctx.ensure_replay(); print('replay driver + ironplcc built %.0fs' % (time.time() - t), flush=True)
ctx.cleanup()
if os.path.isdir('/verif/kani'):
    try:
        import kani_run
        kani_run.prebuild(); print('kani harness crate prebuilt %.0fs' % (time.time() - t), flush=True)
    except Exception as e:
        print('kani prebuild skipped:', e)
