//! Test bench for the contract models of std functions in /verif/mirsym/models.py:
//! every function below is run natively (src/main.rs) and through the MIR interpreter on the same inputs; the results must agree.
//! All results are Vec<String> so that they can be compared without knowing layouts.

pub const INPUTS: [&str; 14] = ["", "a", "abc", "a,b,c", "a,,b,", ",", "ab\ncd\n", "ab\r\ncd", "\n\nx", "  a  b\t c ", "'q\"", "abab12cd", "007x", "a::b::c"];

fn v(o: Option<&str>) -> Vec<String> { match o { Some(x) => vec![x.to_string()], None => vec![] } }
fn n(o: Option<usize>) -> Vec<String> { match o { Some(x) => vec![x.to_string()], None => vec![] } }
fn pair(o: Option<(&str, &str)>) -> Vec<String> { match o { Some((a, b)) => vec![a.to_string(), b.to_string()], None => vec![] } }

pub fn t_rsplit_once_char(s: &str) -> Vec<String> { pair(s.rsplit_once('\n')) }
pub fn t_rsplit_once_str(s: &str) -> Vec<String> { pair(s.rsplit_once("::")) }
pub fn t_split_once_char(s: &str) -> Vec<String> { pair(s.split_once(',')) }
pub fn t_split_once_str(s: &str) -> Vec<String> { pair(s.split_once("::")) }
pub fn t_split_char(s: &str) -> Vec<String> { s.split(',').map(|x| x.to_string()).collect() }
pub fn t_split_str(s: &str) -> Vec<String> { s.split("::").map(|x| x.to_string()).collect() }
pub fn t_rsplit(s: &str) -> Vec<String> { s.rsplit(',').map(|x| x.to_string()).collect() }
pub fn t_split_terminator(s: &str) -> Vec<String> { s.split_terminator('\n').map(|x| x.to_string()).collect() }
pub fn t_splitn(s: &str) -> Vec<String> { s.splitn(2, ",").map(|x| x.to_string()).collect() }
pub fn t_rsplitn(s: &str) -> Vec<String> { s.rsplitn(2, ",").map(|x| x.to_string()).collect() }
pub fn t_split_inclusive(s: &str) -> Vec<String> { s.split_inclusive("\n").map(|x| x.to_string()).collect() }
pub fn t_split_whitespace(s: &str) -> Vec<String> { s.split_whitespace().map(|x| x.to_string()).collect() }
pub fn t_lines(s: &str) -> Vec<String> { s.lines().map(|x| x.to_string()).collect() }
pub fn t_trim_matches_arr(s: &str) -> Vec<String> { vec![s.trim_matches(['\'', '"']).to_string()] }
pub fn t_trim_start_matches(s: &str) -> Vec<String> { vec![s.trim_start_matches("ab").to_string()] }
pub fn t_trim_end_matches_char(s: &str) -> Vec<String> { vec![s.trim_end_matches(',').to_string()] }
pub fn t_trim(s: &str) -> Vec<String> { vec![s.trim().to_string(), s.trim_start().to_string(), s.trim_end().to_string()] }
pub fn t_strip_prefix(s: &str) -> Vec<String> { v(s.strip_prefix("ab")) }
pub fn t_strip_suffix(s: &str) -> Vec<String> { v(s.strip_suffix(',')) }
pub fn t_find_str(s: &str) -> Vec<String> { n(s.find("b")) }
pub fn t_find_char(s: &str) -> Vec<String> { n(s.find(',')) }
pub fn t_rfind_char(s: &str) -> Vec<String> { n(s.rfind(',')) }
pub fn t_rfind_closure(s: &str) -> Vec<String> { n(s.rfind(|c: char| c.is_ascii_digit())) }
pub fn t_matches(s: &str) -> Vec<String> { vec![s.matches('a').count().to_string(), s.matches("ab").count().to_string()] }
pub fn t_match_indices(s: &str) -> Vec<String> { s.match_indices(',').map(|(i, m)| format_pair(i, m)).collect() }
fn format_pair(i: usize, m: &str) -> String { let mut o = i.to_string(); o.push(':'); o.push_str(m); o }
pub fn t_char_indices(s: &str) -> Vec<String> { s.char_indices().map(|(i, c)| { let mut o = i.to_string(); o.push(c); o }).collect() }
pub fn t_contains(s: &str) -> Vec<String> { vec![s.contains("b,").to_string(), s.contains('\n').to_string(), s.starts_with("ab").to_string(), s.ends_with(',').to_string()] }
pub fn t_case(s: &str) -> Vec<String> { vec![s.to_uppercase(), s.to_lowercase(), s.to_ascii_uppercase(), s.eq_ignore_ascii_case("ABC").to_string()] }
pub fn t_replace(s: &str) -> Vec<String> { vec![s.replace(',', ";"), s.replace("ab", "")] }
pub fn t_repeat(s: &str) -> Vec<String> { vec![s.repeat(2)] }
pub fn t_parse(s: &str) -> Vec<String> { match s.parse::<u32>() { Ok(x) => vec![x.to_string()], Err(_) => vec![] } }
pub fn t_split_at(s: &str) -> Vec<String> { if s.len() >= 2 { let (a, b) = s.split_at(2); vec![a.to_string(), b.to_string()] } else { vec![] } }
pub fn t_get(s: &str) -> Vec<String> { let mut o = v(s.get(1..3)); o.extend(v(s.get(2..))); o.extend(v(s.get(..1))); o }
pub fn t_take_while(s: &str) -> Vec<String> { vec![s.chars().take_while(|c| c.is_ascii_alphabetic()).collect::<String>(), s.chars().skip_while(|c| c.is_ascii_alphabetic()).collect::<String>()] }
pub fn t_positions(s: &str) -> Vec<String> { let b = s.as_bytes(); let mut o = n(b.iter().position(|x| *x == b',')); o.extend(n(b.iter().rposition(|x| *x == b','))); o }
pub fn t_sum(s: &str) -> Vec<String> { vec![s.bytes().map(|b| b as u64).sum::<u64>().to_string()] }
pub fn t_max_min(s: &str) -> Vec<String> { let mut o = vec![]; if let Some(m) = s.bytes().max() { o.push(m.to_string()) } if let Some(m) = s.bytes().min() { o.push(m.to_string()) } o }
pub fn t_max_by_key(s: &str) -> Vec<String> { let parts: Vec<&str> = s.split(',').collect(); let mut o = v(parts.iter().max_by_key(|p| p.len()).copied()); o.extend(v(parts.iter().min_by_key(|p| p.len()).copied())); o }
pub fn t_step_by(s: &str) -> Vec<String> { vec![s.chars().step_by(2).collect::<String>()] }
pub fn t_rev(s: &str) -> Vec<String> { vec![s.chars().rev().collect::<String>()] }
pub fn t_slice_starts(s: &str) -> Vec<String> { let b = s.as_bytes(); vec![b.starts_with(&[b'a', b'b']).to_string(), b.ends_with(&[b',']).to_string(), b.contains(&b'\n').to_string()] }
pub fn t_split_first(s: &str) -> Vec<String> { let parts: Vec<&str> = s.split(',').collect(); match parts.split_first() { Some((h, t)) => vec![h.to_string(), t.len().to_string()], None => vec![] } }
pub fn t_split_last(s: &str) -> Vec<String> { let parts: Vec<&str> = s.split(',').collect(); match parts.split_last() { Some((h, t)) => vec![h.to_string(), t.len().to_string()], None => vec![] } }
pub fn t_vec_ops(s: &str) -> Vec<String> { let mut parts: Vec<String> = s.split(',').map(|x| x.to_string()).collect(); parts.reverse(); let tail = if parts.len() > 1 { parts.split_off(1) } else { vec![] }; parts.extend(tail.into_iter().rev()); parts.truncate(3); parts }
pub fn t_swap_remove(s: &str) -> Vec<String> { let mut parts: Vec<String> = s.split(',').map(|x| x.to_string()).collect(); if parts.len() > 1 { let x = parts.swap_remove(0); parts.push(x); parts.swap(0, 1); } parts }
pub fn t_to_digit(s: &str) -> Vec<String> { s.chars().map(|c| match c.to_digit(16) { Some(d) => d.to_string(), None => "-".to_string() }).collect() }
pub fn t_utf16(s: &str) -> Vec<String> { vec![s.encode_utf16().count().to_string(), s.chars().count().to_string(), s.len().to_string()] }
pub fn t_retain(s: &str) -> Vec<String> { let mut parts: Vec<String> = s.split(',').map(|x| x.to_string()).collect(); parts.retain(|p| !p.is_empty()); parts }
pub fn t_join(s: &str) -> Vec<String> { let parts: Vec<&str> = s.split(',').collect(); vec![parts.join("-"), parts.concat()] }
pub fn t_enumerate_filter(s: &str) -> Vec<String> { s.split(',').enumerate().filter(|(i, _)| i % 2 == 0).map(|(_, p)| p.to_string()).collect() }
pub fn t_zip_chain(s: &str) -> Vec<String> { s.split(',').zip(s.split(',').skip(1)).map(|(a, b)| { let mut o = a.to_string(); o.push_str(b); o }).chain(std::iter::once(String::from("end"))).collect() }
pub fn t_last_nth(s: &str) -> Vec<String> { let mut o = v(s.split(',').last()); o.extend(v(s.split(',').nth(1))); o.push(s.split(',').count().to_string()); o }
pub fn t_any_all(s: &str) -> Vec<String> { vec![s.chars().any(|c| c == ',').to_string(), s.chars().all(|c| c.is_ascii_alphanumeric()).to_string()] }
pub fn t_fold(s: &str) -> Vec<String> { vec![s.bytes().fold(0u32, |acc, b| acc.wrapping_mul(31).wrapping_add(b as u32)).to_string()] }
pub fn t_string_ops(s: &str) -> Vec<String> { let mut t = String::from(s); t.insert(0, '<'); t.push('>'); let p = t.pop(); t.insert_str(1, "--"); let mut o = vec![t.clone()]; if let Some(c) = p { o.push(c.to_string()) } t.truncate(2); o.push(t); o }

pub fn t_local_closure(s: &str) -> Vec<String> { let digits = |part: &str| -> String { part.chars().filter(|c| c.is_ascii_digit()).collect() }; match s.split_once(',') { Some((a, b)) => vec![digits(a), digits(b)], None => vec![digits(s)] } }

pub fn t_uint_ops(s: &str) -> Vec<String> { let n = s.len() as u32; let d = (s.bytes().next().unwrap_or(3) % 7 + 1) as u32; vec![n.div_ceil(d).to_string(), n.next_multiple_of(d).to_string(), n.abs_diff(d).to_string(), n.rem_euclid(d).to_string(), n.is_power_of_two().to_string(), u128::BITS.div_ceil(d).to_string(), (n + 1).ilog2().to_string(), n.saturating_mul(4000000000).to_string()] }

pub fn t_sets_maps(s: &str) -> Vec<String> {
    use std::collections::{HashMap, HashSet};
    let mut set: HashSet<String> = HashSet::new();
    set.extend(s.split(',').map(|x| x.to_string()));
    let had = set.remove("a");
    set.retain(|x| !x.is_empty());
    let mut map: HashMap<String, usize> = HashMap::new();
    map.extend(s.split(',').enumerate().map(|(i, x)| (x.to_string(), i)));
    map.retain(|k, v| !k.is_empty() && *v < 3);
    let e = map.remove_entry("b");
    let mut keys: Vec<String> = map.into_keys().collect(); keys.sort();
    let mut rest: Vec<String> = set.into_iter().collect(); rest.sort();
    let mut o = vec![had.to_string(), rest.join("|"), keys.join("|")];
    if let Some((k, v)) = e { o.push(k); o.push(v.to_string()); }
    o
}
pub fn t_option_helpers(s: &str) -> Vec<String> {
    let first = s.chars().next(); let last = s.chars().last();
    let mut o = vec![];
    if let Some((a, b)) = first.zip(last) { o.push(a.to_string()); o.push(b.to_string()); }
    o.extend((s.len() > 2).then(|| s.len().to_string()));
    o.extend((s.len() > 3).then_some("long".to_string()));
    o.extend(Some(first).flatten().map(|c| c.to_string()));
    o.push(s.parse::<u32>().is_ok_and(|v| v > 5).to_string());
    o
}

pub fn t_double_ended(s: &str) -> Vec<String> {
    let mut it = s.chars().peekable();
    let mut o = vec![];
    if let Some(c) = it.peek() { o.push(c.to_string()); }
    if let Some(c) = it.next_back() { o.push(c.to_string()); }
    if let Some(c) = it.next() { o.push(c.to_string()); }
    if let Some(c) = it.next_back() { o.push(c.to_string()); }
    if let Some(c) = it.peek() { o.push(c.to_string()); }
    if let Some(c) = it.next_back() { o.push(c.to_string()); }
    o.push(it.collect::<String>());
    let mut parts = s.split(',');
    if let Some(p) = parts.next_back() { o.push(p.to_string()); }
    o.push(parts.count().to_string());
    o
}
pub fn t_nested_fn(s: &str) -> Vec<String> {
    fn digits(part: &str) -> String { part.chars().filter(|c| c.is_ascii_digit()).collect() }
    vec![digits(s), Wrapper::go(s)]
}
pub struct Wrapper;
impl Wrapper {
    pub fn go(s: &str) -> String {
        fn inner(part: &str) -> String { part.to_uppercase() }
        inner(s)
    }
}

pub fn t_map_while(s: &str) -> Vec<String> {
    let mut o: Vec<String> = s.split(',').map_while(|p| if p.is_empty() { None } else { Some(p.to_uppercase()) }).collect();
    o.extend(s.bytes().scan(0u32, |acc, b| { *acc += b as u32; if *acc > 300 { None } else { Some((*acc).to_string()) } }));
    o
}

pub fn t_string_add(s: &str) -> Vec<String> { let mut t = String::from("<") + s + ">"; t += "!"; vec![t] }

pub type TestFn = fn(&str) -> Vec<String>;
pub const TESTS: &[(&str, TestFn)] = &[
    ("t_rsplit_once_char", t_rsplit_once_char), ("t_rsplit_once_str", t_rsplit_once_str), ("t_split_once_char", t_split_once_char), ("t_split_once_str", t_split_once_str),
    ("t_split_char", t_split_char), ("t_split_str", t_split_str), ("t_rsplit", t_rsplit), ("t_split_terminator", t_split_terminator), ("t_splitn", t_splitn), ("t_rsplitn", t_rsplitn),
    ("t_split_inclusive", t_split_inclusive), ("t_split_whitespace", t_split_whitespace), ("t_lines", t_lines), ("t_trim_matches_arr", t_trim_matches_arr),
    ("t_trim_start_matches", t_trim_start_matches), ("t_trim_end_matches_char", t_trim_end_matches_char), ("t_trim", t_trim), ("t_strip_prefix", t_strip_prefix), ("t_strip_suffix", t_strip_suffix),
    ("t_find_str", t_find_str), ("t_find_char", t_find_char), ("t_rfind_char", t_rfind_char), ("t_rfind_closure", t_rfind_closure), ("t_matches", t_matches), ("t_match_indices", t_match_indices),
    ("t_char_indices", t_char_indices), ("t_contains", t_contains), ("t_case", t_case), ("t_replace", t_replace), ("t_repeat", t_repeat), ("t_parse", t_parse), ("t_split_at", t_split_at), ("t_get", t_get),
    ("t_take_while", t_take_while), ("t_positions", t_positions), ("t_sum", t_sum), ("t_max_min", t_max_min), ("t_max_by_key", t_max_by_key), ("t_step_by", t_step_by), ("t_rev", t_rev),
    ("t_slice_starts", t_slice_starts), ("t_split_first", t_split_first), ("t_split_last", t_split_last), ("t_vec_ops", t_vec_ops), ("t_swap_remove", t_swap_remove), ("t_to_digit", t_to_digit),
    ("t_utf16", t_utf16), ("t_retain", t_retain), ("t_join", t_join), ("t_enumerate_filter", t_enumerate_filter), ("t_zip_chain", t_zip_chain), ("t_last_nth", t_last_nth), ("t_any_all", t_any_all),
    ("t_fold", t_fold), ("t_string_add", t_string_add), ("t_map_while", t_map_while), ("t_double_ended", t_double_ended), ("t_nested_fn", t_nested_fn), ("t_sets_maps", t_sets_maps), ("t_option_helpers", t_option_helpers), ("t_uint_ops", t_uint_ops), ("t_local_closure", t_local_closure), ("t_string_ops", t_string_ops),
];
