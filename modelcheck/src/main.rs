use modelcheck::{INPUTS, TESTS};
fn main() {
    for (name, f) in TESTS {
        for (i, s) in INPUTS.iter().enumerate() {
            let r = std::panic::catch_unwind(|| f(s));
            match r {
                Ok(v) => println!("{}\t{}\t{:?}", name, i, v),
                Err(_) => println!("{}\t{}\tPANIC", name, i),
            }
        }
    }
}
