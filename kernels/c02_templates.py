"""C02 verdict templates: source skeletons with shape selectors and, per template, the verdict the *documented* rules require
(written from the rule modules' doc comments and the property text, not from the implementation).

ref(texts) gets the chosen text of every selector (in order) and returns the set of rule problem codes a conforming analyzer must report,
or None when the documentation does not decide the shape (then nothing is compared)."""

def _T(*segs): return list(segs)

_CALLEE = ('FUNCTION_BLOCK callee\nVAR_INPUT\n  in1 : BOOL;\n  in2 : INT;\nEND_VAR\nVAR_OUTPUT\n  out1 : BOOL;\nEND_VAR\nVAR\n  loc : INT;\nEND_VAR\nEND_FUNCTION_BLOCK\n'
           'FUNCTION_BLOCK callee2\nVAR_INPUT\n  in1 : BOOL;\nEND_VAR\nVAR_IN_OUT\n  io1 : INT;\nEND_VAR\nVAR_OUTPUT\n  out1 : BOOL;\n  out2 : INT;\nEND_VAR\nEND_FUNCTION_BLOCK\n')

# (argument text, expected codes against `callee`)
_ARGS = [
    ('', set()), ('in1 := TRUE', set()), ('in1 := TRUE, in2 := 1', set()), ('in2 := x, in1 := b', set()),
    ('zz := 1', {'P0007'}), ('in1 := TRUE, zz := 1', {'P0007'}), ('loc := 1', {'P0007'}), ('out1 := TRUE', {'P0007'}),
    ('TRUE, 1', set()), ('TRUE', {'P0008'}), ('TRUE, 1, 2', {'P0008'}),
    ('in1 := TRUE, 1', {'P0006'}), ('TRUE, in2 := 1', {'P0006'}),
    ('out1 => b', set()), ('in1 := TRUE, out1 => b', set()), ('NOT out1 => b', set()),
    ('in1 => b', {'P0009'}), ('zz => b', {'P0009'}), ('loc => x', {'P0009'}), ('in1 := TRUE, zz => b', {'P0009'}),
    ('IN1 := TRUE, OUT1 => b', set()),
    ('TRUE, 1, out1 => b', set()), ('TRUE, 1, zz => b', {'P0009'}), ('TRUE, 1, in1 => b', {'P0009'}),
]
_ARGS2 = [
    ('in1 := TRUE, io1 := x', set()), ('io1 := x', set()), ('out2 => x', set()), ('out1 => b, out2 => x', set()),
    ('io1 => x', {'P0009'}), ('out2 := 1', {'P0007'}), ('in2 := 1', {'P0007'}),
]
def _ref_fb_args(t):
    return dict(_ARGS)[t[1]]
def _ref_fb_args2(t):
    return dict(_ARGS2)[t[1]]

def _ref_fb_scope(t):
    # t[0]: declaration of the instance in the caller; t[1]: name invoked
    declared = {'  inst : callee;\n': {'inst'}, '  inst : callee;\n  other : callee;\n': {'inst', 'other'}, '  other : callee;\n': {'other'}, '  inst : INT;\n': set()}[t[0]]
    return set() if t[1].lower() in declared else {'P0021'}

def _ref_enum_value(t):
    # t[0]: alias chain of f ; t[1]: initial value of v ; values of e are a, b
    v = t[1].replace(' := ', '').replace('e#', '').replace('f#', '').strip().lower()
    return set() if v in ('', 'a', 'b') else {'P0014'}

def _ref_const_init(t):
    # t[0] block keyword, t[1] qualifier, t[2] declaration
    const = 'CONSTANT' in t[1]
    external = t[0] == 'VAR_EXTERNAL'
    want = set()
    for decl in t[2].strip().split('\n'):
        has_init = ':=' in decl; fb = 'callee' in decl
        if const and fb:
            if external: return None        # an external declaration of a constant function-block instance: the documentation does not decide it
            want.add('P0017')
        if const and not external and not has_init and not fb: want.add('P0016')
    return want

def _ref_stdlib(t):
    unsupported = {'ton', 'tof', 'tp', 'ctu', 'ctd', 'ctud', 'r_trig', 'f_trig', 'rs', 'sr'}
    ty = t[0].lower()
    if ty in unsupported: return {'P0029'}
    if ty == 'callee': return set()
    return None      # an undeclared, non-standard type: which code is reported is not a documented rule of C02's list beyond "type declared"

def _ref_symvar(t):
    # t[0]: POU kind ; t[1]: declarations ; t[2]: statement using names
    declared = {'x', 'y'} if 'y : INT' in t[1] else {'x'}
    if 'arr' in t[1]: declared.add('arr')
    if 's :' in t[1]: declared.add('s')
    used = {'  x := 1;\n': {'x'}, '  y := 1;\n': {'y'}, '  x := y;\n': {'x', 'y'}, '  x := x + y * 2;\n': {'x', 'y'}, '  IF y > 0 THEN\n    x := 1;\n  END_IF;\n': {'x', 'y'},
            '  FOR x := 1 TO y DO\n    x := x;\n  END_FOR;\n': {'x', 'y'}, '  WHILE y > 0 DO\n    x := 1;\n  END_WHILE;\n': {'x', 'y'}, '  CASE y OF\n    1:\n      x := 1;\n  END_CASE;\n': {'x', 'y'},
            '  x := X;\n': {'x'}, '  REPEAT\n    x := 1;\n  UNTIL y > 0\n  END_REPEAT;\n': {'x', 'y'}, '  IF x > 0 THEN\n    x := 1;\n  ELSIF y > 0 THEN\n    x := 2;\n  END_IF;\n': {'x', 'y'},
            '  IF x > 0 THEN\n    x := 1;\n  ELSE\n    y := 2;\n  END_IF;\n': {'x', 'y'}}[t[2]]
    return set() if used <= declared else {'P0015'}

def _ref_struct(t):
    names = [x.lower() for x in t]
    return {'P0003'} if len(set(names)) < len(names) else set()

def _ref_enum_unique(t):
    names = [x.lower() for x in t]
    return {'P0005'} if len(set(names)) < len(names) else set()

def _ref_task(t):
    tasks = set()
    if t[0]: tasks.add('t1')
    if t[1]: tasks.add('t2')
    used = set()
    for seg in t[2:]:
        if 'WITH' in seg: used.add(seg.split('WITH ')[1].split(' ')[0].lower())
    return set() if used <= tasks else {'P0011'}

def _ref_subrange(t):
    lo = int(t[0]); hi = int(t[1])
    return {'P0004'} if lo >= hi else set()

def _ref_gconst(t):
    # t[0]: qualifier of the global block, t[1]: qualifier of the external block, t[2]: name declared external
    gconst = 'CONSTANT' in t[0]; econst = 'CONSTANT' in t[1]
    same = t[2].lower() == 'g'
    return {'P0018'} if (gconst and same and not econst) else set()

VERDICT_TEMPLATES = {
    'fb_args': dict(ref=_ref_fb_args, tpl=_T(_CALLEE, ('alt', ['FUNCTION_BLOCK caller\n', 'PROGRAM caller\n']), 'VAR\n  inst : callee;\n  b : BOOL;\n  x : INT;\nEND_VAR\n  inst(', ('alt', [a for a, _ in _ARGS]), ');\n',
                                         ('dep', 0, ['END_FUNCTION_BLOCK\n', 'END_PROGRAM\n']))),
    'fb_args_inout': dict(ref=_ref_fb_args2, tpl=_T(_CALLEE, ('alt', ['FUNCTION_BLOCK caller\n']), 'VAR\n  inst : callee2;\n  b : BOOL;\n  x : INT;\nEND_VAR\n  inst(', ('alt', [a for a, _ in _ARGS2]), ');\nEND_FUNCTION_BLOCK\n')),
    'fb_scope': dict(ref=_ref_fb_scope, tpl=_T(_CALLEE, 'FUNCTION_BLOCK caller\nVAR\n', ('alt', ['  inst : callee;\n', '  inst : callee;\n  other : callee;\n', '  other : callee;\n', '  inst : INT;\n']), 'END_VAR\n  ',
                                          ('alt', ['inst', 'other', 'INST', 'callee', 'zz']), '();\nEND_FUNCTION_BLOCK\n')),
    'enum_value': dict(ref=_ref_enum_value, tpl=_T('TYPE\n  e : (a, b) := a;\n', ('alt', ['  f : e;\n', '  f : g;\n  g : e;\n', '  f : e := b;\n', '  f : (a, b) := a;\n']), 'END_TYPE\nFUNCTION_BLOCK fb\nVAR\n  v : f',
                                            ('alt', ['', ' := a', ' := b', ' := zz', ' := B', ' := e']), ';\nEND_VAR\nEND_FUNCTION_BLOCK\n')),
    'const_rules': dict(ref=_ref_const_init, tpl=_T('TYPE\n  e : (a, b) := a;\nEND_TYPE\n' + _CALLEE + 'FUNCTION_BLOCK fb\n', ('alt', ['VAR', 'VAR_INPUT', 'VAR_OUTPUT', 'VAR_EXTERNAL']), ('alt', ['', ' CONSTANT', ' RETAIN']), '\n',
                                             ('alt', ['  v : INT;\n', '  v : INT := 1;\n', '  v : e;\n', '  v : e := a;\n', "  v : STRING;\n", "  v : STRING := 'a';\n", '  v : (p, q);\n', '  v : (p, q) := p;\n', '  v : callee;\n',
                                                      '  w : INT := 1;\n  v : INT;\n']), 'END_VAR\nEND_FUNCTION_BLOCK\n')),
    'stdlib_types': dict(ref=_ref_stdlib, tpl=_T(_CALLEE, 'FUNCTION_BLOCK fb\nVAR\n  v : ', ('alt', ['callee', 'TON', 'tof', 'Tp', 'CTU', 'CTD', 'CTUD', 'R_TRIG', 'F_TRIG', 'RS', 'SR', 'nosuch']), ';\nEND_VAR\nEND_FUNCTION_BLOCK\n')),
    'symvar_use': dict(ref=_ref_symvar, tpl=_T(('alt', ['FUNCTION_BLOCK p\n', 'PROGRAM p\n', 'FUNCTION p : INT\n']), 'VAR\n  x : INT;\n', ('opt', '  y : INT;\n'), 'END_VAR\n',
                                            ('alt', ['  x := 1;\n', '  y := 1;\n', '  x := y;\n', '  x := x + y * 2;\n', '  IF y > 0 THEN\n    x := 1;\n  END_IF;\n', '  FOR x := 1 TO y DO\n    x := x;\n  END_FOR;\n',
                                                     '  WHILE y > 0 DO\n    x := 1;\n  END_WHILE;\n', '  CASE y OF\n    1:\n      x := 1;\n  END_CASE;\n', '  x := X;\n', '  REPEAT\n    x := 1;\n  UNTIL y > 0\n  END_REPEAT;\n',
                                                     '  IF x > 0 THEN\n    x := 1;\n  ELSIF y > 0 THEN\n    x := 2;\n  END_IF;\n', '  IF x > 0 THEN\n    x := 1;\n  ELSE\n    y := 2;\n  END_IF;\n']),
                                            ('dep', 0, ['END_FUNCTION_BLOCK\n', 'END_PROGRAM\n', 'END_FUNCTION\n']))),
    'struct_elements': dict(ref=_ref_struct, tpl=_T('TYPE\n  s : STRUCT\n    ', ('alt', ['a', 'b']), ' : INT;\n    ', ('alt', ['a', 'b', 'A', 'c']), ' : BOOL;\n    ', ('alt', ['a', 'c', 'd', 'B']), ' : INT := 1;\n  END_STRUCT;\nEND_TYPE\n')),
    'enum_values': dict(ref=_ref_enum_unique, tpl=_T('TYPE\n  e : (', ('alt', ['a', 'b']), ', ', ('alt', ['a', 'b', 'A', 'c']), ', ', ('alt', ['a', 'c', 'd', 'B']), ') := ', 'a' if False else 'b' if False else '', 'END_TYPE\n')),
    'tasks': dict(ref=_ref_task, tpl=_T('CONFIGURATION c\nRESOURCE r ON PLC\n', ('opt', '  TASK t1(INTERVAL := T#1s, PRIORITY := 1);\n'), ('opt', '  TASK t2(INTERVAL := T#2s, PRIORITY := 2);\n'),
                                      ('alt', ['  PROGRAM i1 : p;\n', '  PROGRAM i1 WITH t1 : p;\n', '  PROGRAM i1 WITH t2 : p;\n', '  PROGRAM i1 WITH T1 : p;\n', '  PROGRAM i1 WITH t3 : p;\n']),
                                      ('alt', ['', '  PROGRAM i2 WITH t1 : p;\n', '  PROGRAM i2 WITH t2 : p;\n', '  PROGRAM i2 WITH t3 : p;\n']), 'END_RESOURCE\nEND_CONFIGURATION\nPROGRAM p\nVAR\n  x : INT;\nEND_VAR\nEND_PROGRAM\n')),
    'subrange': dict(ref=_ref_subrange, tpl=_T('TYPE\n  r : INT(', ('alt', ['-10', '-1', '0', '1', '5', '10']), '..', ('alt', ['-10', '-5', '-1', '0', '1', '5', '10']), ');\nEND_TYPE\n')),
    'global_const': dict(ref=_ref_gconst, tpl=_T('CONFIGURATION c\nVAR_GLOBAL', ('alt', ['', ' CONSTANT', ' RETAIN']), '\n  g : INT := 1;\nEND_VAR\nRESOURCE r ON PLC\n  TASK t(INTERVAL := T#1s, PRIORITY := 1);\n  PROGRAM i WITH t : p;\nEND_RESOURCE\nEND_CONFIGURATION\n'
                                              'PROGRAM p\nVAR_EXTERNAL', ('alt', ['', ' CONSTANT']), '\n  ', ('alt', ['g', 'G', 'h']), ' : INT;\nEND_VAR\nEND_PROGRAM\n')),
}
# enumeration template: the default value must be one of the values, keep it out of the way by omitting it
VERDICT_TEMPLATES['enum_values']['tpl'] = _T('TYPE\n  e : (', ('alt', ['a', 'b']), ', ', ('alt', ['a', 'b', 'A', 'c']), ', ', ('alt', ['a', 'c', 'd', 'B']), ');\nEND_TYPE\n')

# every place an expression or a variable can be written inside a POU body: `y` is declared or not; the undeclared use must be found wherever it is written
_USES = ['x := y;', 'y := x;', 'x := -y;', 'x := NOT y;', 'x := (x + y) * 2;', 'x := arr[y];', 'arr[y] := 1;', 'x := twice(val := y);', 'x := twice(y);', 'inst(in1 := b, in2 := y);', 'inst(out1 => y);',
         'IF b THEN\n    IF x > y THEN\n      x := 1;\n    END_IF;\n  END_IF;', 'CASE x OF\n    1:\n      x := y;\n  ELSE\n    x := 0;\n  END_CASE;', 'CASE x OF\n    1:\n      x := 0;\n  ELSE\n    x := y;\n  END_CASE;',
         'FOR x := y TO 10 DO\n    x := x;\n  END_FOR;', 'FOR x := 1 TO 10 BY y DO\n    x := x;\n  END_FOR;', 'WHILE b DO\n    x := y;\n  END_WHILE;', 'REPEAT\n    x := y;\n  UNTIL b\n  END_REPEAT;',
         'x := s.a + y;', 's.a := y;', 'x := x MOD y;', 'b := x = y;', 'b := (x > 1) AND (y < 2);', 'x := x ** y;']
def _ref_uses(t):
    return set() if t[0] else {'P0015'}
VERDICT_TEMPLATES['symvar_contexts'] = dict(ref=_ref_uses, tpl=_T('TYPE\n  st : STRUCT\n    a : INT;\n  END_STRUCT;\nEND_TYPE\nFUNCTION twice : INT\nVAR_INPUT\n  val : INT;\nEND_VAR\n  twice := val * 2;\nEND_FUNCTION\n' + _CALLEE +
    'FUNCTION_BLOCK p\nVAR\n  x : INT;\n  b : BOOL;\n  arr : ARRAY[1..3] OF INT;\n  s : st;\n  inst : callee;\n', ('opt', '  y : INT;\n'), 'END_VAR\n  ', ('alt', _USES), '\nEND_FUNCTION_BLOCK\n'))

# an enumeration, an alias of it and an alias of the alias, used by several variables in one or two POUs: every use is valid (a walk along
# the alias chain must not remember anything from one use to the next)
def _ref_alias_twice(t): return set()
VERDICT_TEMPLATES['enum_alias_used_twice'] = dict(ref=_ref_alias_twice, tpl=_T('TYPE\n  e : (a, b) := a;\n  f : e;\n  g : f;\nEND_TYPE\nFUNCTION_BLOCK one\nVAR\n  v1 : ', ('alt', ['e', 'f', 'g']), ' := a;\n  v2 : ', ('alt', ['e', 'f', 'g']), ' := b;\nEND_VAR\nEND_FUNCTION_BLOCK\n',
    ('opt', 'FUNCTION_BLOCK two\nVAR\n  w : g := a;\nEND_VAR\nEND_FUNCTION_BLOCK\n')))

# a function-block instance is in scope only in the POU that declares it: another POU (a function, a function block or a program, written before or after the caller)
# that declares an instance of the same name does not make the name known in the caller
_HELPERS = ['', 'FUNCTION helper : INT\nVAR_INPUT\n  inst : callee;\nEND_VAR\n  helper := 1;\nEND_FUNCTION\n', 'FUNCTION helper : INT\nVAR\n  inst : callee;\nEND_VAR\n  helper := 1;\nEND_FUNCTION\n',
            'FUNCTION_BLOCK helper\nVAR\n  inst : callee;\nEND_VAR\nEND_FUNCTION_BLOCK\n', 'PROGRAM helper\nVAR\n  inst : callee;\nEND_VAR\nEND_PROGRAM\n']
def _ref_scope_pous(t):
    return set() if 'inst : callee' in t[1] else {'P0021'}
VERDICT_TEMPLATES['fb_scope_across_pous'] = dict(ref=_ref_scope_pous, tpl=_T(_CALLEE, ('alt', _HELPERS), ('alt', ['FUNCTION_BLOCK caller\nVAR\n  inst : callee;\nEND_VAR\n', 'FUNCTION_BLOCK caller\nVAR\n  x : INT;\nEND_VAR\n', 'FUNCTION_BLOCK caller\nVAR\n  other : callee;\nEND_VAR\n']),
    '  inst();\nEND_FUNCTION_BLOCK\n', ('alt', [h.replace('helper', 'helper2') for h in _HELPERS])))

# variables with a location and global variables may be of a user-defined type, with or without an initial value, like any other variable
def _ref_located(t): return set()
VERDICT_TEMPLATES['located_and_global_types'] = dict(ref=_ref_located, tpl=_T('TYPE\n  mytype : INT;\n  lvl : (lo, hi) := lo;\nEND_TYPE\nCONFIGURATION c\nVAR_GLOBAL\n  g ', ('opt', 'AT %QW1 '), ': ', ('alt', ['INT', 'INT := 1', 'mytype', 'mytype := 1', 'lvl']), ';\nEND_VAR\n'
    'RESOURCE r ON PLC\n  TASK t(INTERVAL := T#1s, PRIORITY := 1);\n  PROGRAM i WITH t : p;\nEND_RESOURCE\nEND_CONFIGURATION\nPROGRAM p\nVAR\n  x AT %IW1 : ', ('alt', ['INT', 'INT := 1', 'mytype', 'mytype := 1', 'lvl']), ';\nEND_VAR\nEND_PROGRAM\n'))

# every elementary type name of the standard is a declared type in every kind of variable block ("every used type is declared" must not reject the standard's own names)
_ELEMENTARY = 'BOOL SINT INT DINT LINT USINT UINT UDINT ULINT REAL LREAL TIME DATE TIME_OF_DAY TOD DATE_AND_TIME DT STRING WSTRING BYTE WORD DWORD LWORD'.split()
def _ref_elementary(t): return set()
VERDICT_TEMPLATES['elementary_types'] = dict(ref=_ref_elementary, tpl=_T('FUNCTION_BLOCK fb\n', ('alt', ['VAR', 'VAR_INPUT', 'VAR_OUTPUT', 'VAR_IN_OUT']), '\n  v : ', ('alt', _ELEMENTARY), ';\nEND_VAR\nEND_FUNCTION_BLOCK\n'))

# assigning an enumeration value to a variable of an enumeration (or alias-of-enumeration) type, declared with or without an initial value, is a valid unit
def _ref_enum_assign(t): return set()
VERDICT_TEMPLATES['enum_value_assignment'] = dict(ref=_ref_enum_assign, tpl=_T('TYPE\n  e : (a, b) := a;\n  f : e;\nEND_TYPE\n', ('alt', ['FUNCTION_BLOCK p\n', 'PROGRAM p\n']), 'VAR\n  v : ', ('alt', ['e', 'f']), ('alt', ['', ' := a', ' := b']), ';\n  x : INT;\nEND_VAR\n  v := ',
    ('alt', ['a', 'b', 'B']), ';\n  x := 1;\n', ('dep', 0, ['END_FUNCTION_BLOCK\n', 'END_PROGRAM\n'])))
