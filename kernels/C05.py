"""C05 — every reported position points at the text it is about."""
import re, time
import z3
from framework import kernel, Finding, fn_paths, Part, par_map, merge_part, replay_factory, REPLAYS
from mirsym.machine import *
from mirsym.mirread import Unsupported
from . import lexcommon as LC


def ref_linecol(b, off):
    """reference (the convention of the code's own consumers: map_label and codespan count '\\n' only):
    line = number of '\\n' before off, col = bytes since the last '\\n' (or start)"""
    line = z3.BitVecVal(0, 16); col = z3.BitVecVal(0, 16)
    for j in range(off):
        nl = (b[j] == 10)
        line = z3.If(nl, line + 1, line); col = z3.If(nl, z3.BitVecVal(0, 16), col + 1)
    return line, col


# ---------------------------------------------------------------------------------------------- K1 lexer accounting
def _fault_codes(code): return (code,) if isinstance(code, str) else tuple(code)

_CTX = None

def _k1_job(job):
    N, prefixes = job[:2]; frame = job[2] if len(job) > 2 else None
    ctx = _CTX; part = Part()
    if frame is None: M, entry, b0, L, toks, LM = LC.tokenize_machine(ctx, N)
    else: M, entry, b0, L, toks, LM = LC.tokenize_machine(ctx, N, bytes_=[x if x is not None else z3.BitVec('f%d' % i, 8) for i, x in enumerate(frame)])
    b = [z3.BitVecVal(x, 8) if isinstance(x, int) else x for x in b0]       # the assertions below are over terms
    COMMENT, NEWLINE = LM.tok_id['Comment'], LM.tok_id['Newline']
    STRS = [LM.tok_id[x] for x in ('SingleByteString', 'DoubleByteString') if x in LM.tok_id]
    valid = M.base_constraints[0]
    def chk(s):
        t = time.time(); r = s.check(); part.solver_s += time.time() - t; part.queries += 1; return r
    def on_path(M, pr):
        part.paths += 1
        if pr.inconclusive: part.inconc(pr.inconclusive); return
        if pr.panic:
            s = z3.Solver(); s.add(valid, *pr.pc)
            if chk(s) == z3.sat:
                data = LC.model_bytes(s.model(), b)
                part.add('C05/K1/panic', 'tokenize panics: %s (witness %r)' % (pr.panic.msg, data), {'source_bytes': list(data)}, ('tokens', (data,)))
            return
        res = pr.result
        tokens = res.f[0].items; diags = res.f[1].items
        spans = []
        for t in tokens:
            sp = t.f[1]; spans.append((simp(sp.f[0]), simp(sp.f[1]), 'tok', t))
        for d in diags:
            sp = _find_span(M, d)
            if sp is None: part.inconc('diagnostic without recognisable span'); return
            spans.append((simp(sp.f[0]), simp(sp.f[1]), 'err', d))
        spans.sort(key=lambda x: (x[0], x[1]))
        s = z3.Solver(); s.add(valid, *pr.pc); s.set('timeout', 60000)
        part.nontrivial += 1
        def witness(role, what):
            data = LC.model_bytes(s.model(), b)
            part.add(role, '%s (witness %r)' % (what, data.decode('utf-8', 'replace')), {'source_bytes': list(data)}, ('tokens', (data,)))
        # (a) tiling: contiguous, ordered, start at 0, end at N   (structural on this path)
        pos = 0; tiling_ok = True
        for a, e, kind, obj in spans:
            if a != pos or e <= a: tiling_ok = False
            pos = e
        if pos != N: tiling_ok = False
        if not tiling_ok:
            if chk(s) == z3.sat: witness('C05/K1/tiling', 'token/error spans do not tile the source: %r' % [(x[0], x[1], x[2]) for x in spans])
            return
        # (b) text == source[span]; spans on char boundaries
        bad_struct = []
        for a, e, kind, obj in spans:
            if kind == 'tok':
                txt = obj.f[4]
                if not isinstance(txt, Str) or len(txt.b) != e - a: bad_struct.append(z3.BoolVal(True)); continue
                for x, y in zip(txt.b, b[a:e]):
                    if x is not y and not (is_sym(x) and is_sym(y) and x.eq(y)): bad_struct.append(tobv(x, 8) != tobv(y, 8))
            for p in (a, e):
                if 0 < p < N: bad_struct.append((b[p] & 0xC0) == 0x80)
        if bad_struct:
            s.push(); s.add(z3.Or(bad_struct))
            if chk(s) == z3.sat: witness('C05/K1/text-or-boundary', 'token text differs from source[span] or a span boundary falls inside a character')
            s.pop()
        # (c) line/col == reference, split by what precedes the token in the file
        per_role = {r: [] for r in ('after-comment', 'after-lexical-error', 'after-formfeed', 'after-multiline-string', 'other')}
        for idx, (a, e, kind, obj) in enumerate(spans):
            if kind != 'tok': continue
            line = tobv(obj.f[2], 64); col = tobv(obj.f[3], 64)
            rl, rc = ref_linecol(b, a)
            bad = z3.Or(line != z3.ZeroExt(48, rl), col != z3.ZeroExt(48, rc))
            pre = spans[:idx]
            def anyk(pred): return z3.Or([pred(x) for x in pre]) if pre else z3.BoolVal(False)
            def kind_is(x, k): return tobv(x[3].f[0].disc, 16) == k if x[2] == 'tok' else z3.BoolVal(False)
            has_comment = anyk(lambda x: kind_is(x, COMMENT))
            has_err = z3.BoolVal(any(x[2] == 'err' for x in pre))
            has_ff = anyk(lambda x: z3.And(kind_is(x, NEWLINE), b[x[0]] == 12))
            has_mlstr = anyk(lambda x: z3.And(z3.Or([kind_is(x, k) for k in STRS]), z3.Or([b[j] == 10 for j in range(x[0], x[1])])))
            per_role['after-lexical-error'].append(z3.And(bad, has_err))
            per_role['after-comment'].append(z3.And(bad, has_comment, z3.Not(has_err)))
            per_role['after-formfeed'].append(z3.And(bad, has_ff, z3.Not(has_comment), z3.Not(has_err)))
            per_role['after-multiline-string'].append(z3.And(bad, has_mlstr, z3.Not(has_comment), z3.Not(has_err), z3.Not(has_ff)))
            per_role['other'].append(z3.And(bad, z3.Not(z3.Or(has_comment, has_err, has_ff, has_mlstr))))
        WHAT = {'after-comment': 'line/column of a token that follows a comment is not advanced correctly over the comment',
                'after-lexical-error': 'line/column of a token after an invalid character is not advanced over it',
                'after-formfeed': 'form feed is counted as a new line although it is not a line break for position consumers',
                'after-multiline-string': 'line break inside a string literal is not counted',
                'other': 'token line/column differ from the line/column of its span start'}
        for role, cs in per_role.items():
            if not cs: continue
            full = 'C05/K1/linecol/' + role
            if role != 'other' and any(f['role'] == full for f in part.findings): continue
            s.push(); s.add(z3.Or(cs))
            r = chk(s)
            if r == z3.sat: witness(full, WHAT[role])
            elif r == z3.unknown: part.inconc('solver unknown')
            s.pop()
        if not part.findings and len(part.validate) < 1 and chk(s) == z3.sat:
            part.validate.append(('tokens', (LC.model_bytes(s.model(), b),)))
        if len(part.samples) < 2: part.samples.append({'N': N, 'spans': [(x[0], x[1], x[2]) for x in spans], 'pc_terms': len(pr.pc)})
    M.explore(entry, on_path, prefixes=prefixes)
    part.queries += M.stats['smt']; part.encoded = set(M.encoded); part.models = set(M.models_used)
    part.notes.append('lexer functions: %d' % len(LM.encoded))
    return part


@replay_factory('tokens')
def _replay_tokens(data):
    def rp(ctx):
        src = data.decode('utf-8')
        r = ctx.replay({'cmd': 'tokenize', 'source': src})
        if 'panic' in r: return True, r
        toks = r['tokens']; bs = src.encode()
        bad = []
        for t in toks:
            if t['type'] == 'Semicolon' and t['text'] == '': continue
            a = t['start']
            line = bs[:a].count(b'\n'); col = a - (bs[:a].rfind(b'\n') + 1)
            if (t['line'], t['col']) != (line, col): bad.append({'token': t, 'expected_line_col': [line, col]})
            if bs[t['start']:t['end']].decode('utf-8', 'replace') != t['text']: bad.append({'token': t, 'expected_text': bs[t['start']:t['end']].decode('utf-8', 'replace')})
        return bool(bad), {'mismatches': bad[:3], 'tokens': [(t['type'], t['start'], t['end'], t['line'], t['col']) for t in toks][:8]}
    return rp


@replay_factory('lexes_as_written')
def _replay_lexes_as_written(data):
    """the real tokenize_program on `data` must give the token sequence that the lexer of the same tree (lifted from its MIR, run concretely) gives on the text as written:
    a preprocessing step that alters the text shows as a difference"""
    def rp(ctx):
        from mirsym import lexlift
        LM = LC.lexmodel(ctx); bs = list(data); N = len(bs)
        L = lexlift.Lift(LM, bs); toks = L.lex_all()
        names = {v: k for k, v in LM.tok_id.items()}
        exp = []; pos = 0; err_ = False
        while pos < N:
            kind, end = toks[pos]; kind = simp(kind); end = simp(end)
            if not isinstance(kind, int) or not isinstance(end, int) or end <= pos: return None, {'note': 'lexer model not concrete'}
            if kind == lexlift.ERR: err_ = True; break
            exp.append((names.get(kind, str(kind)), pos, end)); pos = end
        r = ctx.replay({'cmd': 'tokenize', 'source': data.decode('utf-8')})
        if 'panic' in r: return True, r
        got = [(t['type'], t['start'], t['end']) for t in r['tokens'] if not (t['type'] == 'Semicolon' and t['text'] == '')]
        texts_ok = all(data[t['start']:t['end']].decode('utf-8', 'replace') == t['text'] for t in r['tokens'] if t['text'] != '')
        if err_: bad = (not r['diagnostics']) or got[:len(exp)] != exp or not texts_ok
        else: bad = bool(r['diagnostics']) or got != exp or not texts_ok
        return bad, {'source': data.decode('utf-8', 'replace'), 'lexer_on_the_text_as_written': exp[:10], 'tokenize_program': got[:10], 'diagnostics': len(r['diagnostics']), 'token_texts_equal_source': texts_ok}
    return rp

@kernel('K1 lexer.tokenize_accounting')
def k1(ctx, kr):
    global _CTX
    _CTX = ctx
    NMAX = 4 if ctx.tier == 'quick' else 6
    kr.bounds = 'every valid UTF-8 source of 1..%d bytes (all bytes symbolic)' % NMAX
    P = ctx.program()
    jobs = []
    for N in range(1, NMAX + 1):
        M, entry, b, L, toks, LM = LC.tokenize_machine(ctx, N)
        done, pending = M.split(entry, 2 if N < 5 else 4)
        kr.queries += M.stats['smt']
        pref = [d.trace for d in done] + pending
        # group small prefixes of one N into one job to amortise the lift
        chunk = max(1, len(pref) // 28 + 1)
        for i in range(0, len(pref), chunk): jobs.append((N, pref[i:i + chunk]))
    jobs.sort(key=lambda j: -j[0])
    for part in par_map(_k1_job, jobs): merge_part(kr, part)
    kr.functions = fn_paths(P, getattr(kr, '_enc', set())) + ['ironplc-parser::<TokenType as Logos>::lex (generated state machine, lifted)']
    kr.stubs = LC.STUB_NOTES
    kr.exhaustive = True
    kr.assumptions = ['source is valid UTF-8 (it is a Rust &str)', 'reference for line/column: number of \\n before the offset / bytes since the last \\n (the convention of map_label and codespan)']
    kr.outside = ['sources longer than %d bytes; columns in characters vs bytes (K5)' % NMAX]


@kernel('K9 lexer.positions_around_multi_line_lexemes')
def k9(ctx, kr):
    """K1's assertions on framed documents: a comment / string / line comment whose body is k arbitrary bytes (line breaks, carriage returns, multi-byte
    characters, anything), followed by an identifier on the same line: the lexemes K1's 4..6 byte documents are too short to contain."""
    global _CTX
    _CTX = ctx
    KMAX = 4 if ctx.tier == 'quick' else 6
    FRAMES = [('block comment', b'(*', b'*)x'), ('string', b"'", b"'x"), ('wide string', b'"', b'"x'), ('line comment', b'//', b'\nx'), ('block comment after a token', b'a(*', b'*) x')]
    kr.bounds = 'documents <open> body <close> x with body = every valid UTF-8 sequence of 1..%d bytes, for %s' % (KMAX, [f[0] for f in FRAMES])
    P = ctx.program()
    jobs = []
    for name, pre, suf in FRAMES:
        for k in range(1, KMAX + 1):
            frame = list(pre) + [None] * k + list(suf)
            jobs.append((len(frame), None, frame))
    jobs.sort(key=lambda j: -j[0])
    for part in par_map(_k1_job, jobs):
        for f in part.findings: f['role'] = f['role'].replace('C05/K1/', 'C05/K9/')
        merge_part(kr, part)
    kr.functions = fn_paths(P, getattr(kr, '_enc', set())) + ['ironplc-parser::<TokenType as Logos>::lex (generated state machine, lifted)']
    kr.stubs = LC.STUB_NOTES
    kr.exhaustive = True
    kr.assumptions = ['source is valid UTF-8 (it is a Rust &str)', 'reference for line/column: number of \\n before the offset / bytes since the last \\n']
    kr.outside = ['bodies longer than %d bytes' % KMAX]

def _find_span(M, d):
    # Diagnostic { code, description, primary: Label { location: SourceSpan{start,end,file_id}, ...}, ...}
    stack = [d]
    while stack:
        v = stack.pop()
        if isinstance(v, Agg) and lastseg_name(v.name) in ('SourceSpan', 'Location'): return v
        if isinstance(v, (Agg, EnumV)): stack.extend(reversed(v.f))
        elif isinstance(v, VecV): stack.extend(reversed(v.items))
        elif isinstance(v, Ref): stack.append(M.get(v.cell, v.path))
    return None
def lastseg_name(n): return re.sub(r'<.*', '', n).split('::')[-1]



# ---------------------------------------------------------------------------------------------- K2 preprocessor keeps offsets
KEY = b'(*@KEY@:DESCRIPTION*)'; ENDKEY = b'(*@KEY@:END_DESCRIPTION*)'

COMMENT_ALPHABET = "(*){}'\"/x \n"
def _k2_job(job):
    if job[0] == 'tpl': return _k2_tpl_job(job)
    lp, lm, ls = job
    ctx = _CTX; part = Part()
    P = ctx.program(['ironplc-parser', 'ironplc-dsl'])
    key = P.find_fn('ironplc-parser', 'preprocessor::preprocess')
    M = Machine(P)
    plain = lm is None
    if plain: lm = 0
    pb = [z3.BitVec('p%d' % i, 8) for i in range(lp)]; mb = [z3.BitVec('m%d' % i, 8) for i in range(lm)]; sb = [z3.BitVec('s%d' % i, 8) for i in range(ls)]
    allb = pb + ((list(KEY) + mb + list(ENDKEY)) if not plain else []) + sb
    valid = z3.And(LC.utf8_valid(pb)[0] if pb else z3.BoolVal(True), LC.utf8_valid(mb)[0] if mb else z3.BoolVal(True), LC.utf8_valid(sb)[0] if sb else z3.BoolVal(True))
    M.base_constraints = [valid]
    def entry(M): return M.call_fn(key, [Ref(Cell(Str(list(allb))))])
    def on_path(M, pr):
        part.paths += 1
        if pr.inconclusive: part.inconc(pr.inconclusive); return
        s = z3.Solver(); s.add(valid, *pr.pc)
        def wit(role, what):
            m = s.model(); data = bytes(x if isinstance(x, int) else m.eval(x, True).as_long() for x in allb)
            part.add(role, '%s (witness %r)' % (what, data.decode('utf-8', 'replace')), {'source_bytes': list(data)}, ('lexes_as_written', (data,)))
        t = time.time(); r = s.check(); part.solver_s += time.time() - t; part.queries += 1
        if r != z3.sat: return
        part.nontrivial += 1
        if pr.panic: wit('C05/K2/panic', 'remove_oscat_comment panics: ' + pr.panic.msg); return
        out = pr.result
        if not isinstance(out, Str): part.inconc('unexpected result %r' % (out,)); return
        a0 = lp + len(KEY); a1 = a0 + lm      # the comment body region
        if plain:
            a0 = a1 = -1
            if len(out.b) != len(allb): wit('C05/K2/length/plain-text', 'preprocessing a text without an OSCAT description changes its length (%d -> %d bytes), shifting every later span' % (len(allb), len(out.b))); return
        if len(out.b) != len(allb):
            multibyte = z3.Or([z3.UGE(x, 0x80) for x in mb]) if mb else z3.BoolVal(False)
            s.push(); s.add(multibyte)
            t = time.time(); r1 = s.check(); part.solver_s += time.time() - t; part.queries += 1
            if r1 == z3.sat: wit('C05/K2/length/multibyte-char-in-oscat-comment', 'blanking an OSCAT description that contains a multi-byte character changes the text length (%d -> %d), shifting every later span' % (len(allb), len(out.b)))
            s.pop(); s.push(); s.add(z3.Not(multibyte))
            t = time.time(); r2 = s.check(); part.solver_s += time.time() - t; part.queries += 1
            if r2 == z3.sat: wit('C05/K2/length/ascii', 'blanking an OSCAT description changes the text length (%d -> %d), shifting every later span' % (len(allb), len(out.b)))
            s.pop(); return
        bad = []
        for i, (x, y) in enumerate(zip(out.b, allb)):
            if a0 <= i < a1:
                bad.append(tobv(x, 8) != z3.If(tobv(y, 8) == 10, z3.BitVecVal(10, 8), z3.BitVecVal(32, 8)))
            elif not (x is y or (isinstance(x, int) and isinstance(y, int) and x == y) or (is_sym(x) and is_sym(y) and x.eq(y))):
                bad.append(tobv(x, 8) != tobv(y, 8))
        if bad:
            s.add(z3.Or(bad))
            t = time.time(); r = s.check(); part.solver_s += time.time() - t; part.queries += 1
            if r == z3.sat: wit('C05/K2/content', 'preprocessing alters text outside the OSCAT description or moves a line break inside it')
        if not part.findings and len(part.validate) < 1:
            s2 = z3.Solver(); s2.add(valid, *pr.pc)
            s2.add(*[z3.Or(x == 32, x == 10) for x in mb])      # blanking is the identity on such a body, so the real tokens must carry the source text
            if s2.check() == z3.sat:
                m2 = s2.model(); part.validate.append(('tokens', (bytes(x if isinstance(x, int) else m2.eval(x, True).as_long() for x in allb),)))
        if len(part.samples) < 1: part.samples.append({'lengths': [lp, lm, ls], 'out_len': len(out.b)})
    M.explore(entry, on_path)
    part.queries += M.stats['smt']; part.encoded = set(M.encoded); part.models = set(M.models_used)
    return part

def _k2_tpl_job(job):
    """source = fixed pieces and runs of symbolic bytes over COMMENT_ALPHABET (comment delimiters, braces, quotes, slash, a letter, blank, line break): preprocess must return it unchanged"""
    _, pieces = job
    ctx = _CTX; part = Part()
    P = ctx.program(['ironplc-parser', 'ironplc-dsl'])
    key = P.find_fn('ironplc-parser', 'preprocessor::preprocess')
    M = Machine(P, max_steps=20_000_000)
    allb = []; sym = []
    for pc in pieces:
        if isinstance(pc, str): allb += list(pc.encode())
        else:
            for _ in range(pc):
                b = z3.BitVec('c%d' % len(sym), 8); sym.append(b); allb.append(b)
    dom = z3.And([z3.Or([b == ord(c) for c in COMMENT_ALPHABET]) for b in sym]) if sym else z3.BoolVal(True)
    M.base_constraints = [dom]
    def entry(M): return M.call_fn(key, [Ref(Cell(Str(list(allb))))])
    def on_path(M, pr):
        part.paths += 1
        if pr.inconclusive: part.inconc(pr.inconclusive); return
        s = z3.Solver(); s.add(dom, *pr.pc)
        def wit(role, what):
            m = s.model(); data = bytes(x if isinstance(x, int) else m.eval(x, True).as_long() for x in allb)
            part.add(role, '%s (witness %r)' % (what, data.decode('utf-8', 'replace')), {'source_bytes': list(data)}, ('lexes_as_written', (data,)))
        t = time.time(); r = s.check(); part.solver_s += time.time() - t; part.queries += 1
        if r != z3.sat: return
        part.nontrivial += 1
        if pr.panic: wit('C05/K2/panic', 'preprocess panics: ' + pr.panic.msg); return
        out = pr.result
        if not isinstance(out, Str): part.inconc('unexpected result %r' % (out,)); return
        if len(out.b) != len(allb): wit('C05/K2/length/comment-text', 'preprocessing a text of comments without an OSCAT description changes its length (%d -> %d bytes)' % (len(allb), len(out.b))); return
        bad = [tobv(x, 8) != tobv(y, 8) for x, y in zip(out.b, allb) if not (x is y or (isinstance(x, int) and isinstance(y, int) and x == y) or (is_sym(x) and is_sym(y) and x.eq(y)))]
        if bad:
            s.add(z3.Or(bad)); t = time.time(); r = s.check(); part.solver_s += time.time() - t; part.queries += 1
            if r == z3.sat: wit('C05/K2/content/comment-text', 'preprocessing alters a text that holds no OSCAT description')
        if len(part.samples) < 1: part.samples.append({'pieces': [p if isinstance(p, str) else '<%d symbolic>' % p for p in pieces]})
    M.explore(entry, on_path, max_paths=60000)
    part.queries += M.stats['smt']; part.encoded = set(M.encoded); part.models = set(M.models_used)
    return part

COMMENT_TEXTS = [['(*', 3, '*) a := 1; (*', 2, '*)'], ['(*', 2, '*)', 2, '(*', 1, '*)'], ['a := ', 2, '; (* c *) ', 2], [4]]

@kernel('K2 preprocessor.offset_preservation')
def k2(ctx, kr):
    global _CTX
    _CTX = ctx
    LM_ = 3 if ctx.tier == 'quick' else 4
    jobs = [(lp, lm, ls) for lp in (0, 1) for lm in range(0, LM_ + 1) for ls in (0, 1)] + [(lp, None, 0) for lp in range(1, LM_ + 2)] + [('tpl', t) for t in COMMENT_TEXTS]
    kr.bounds = 'preprocess(source) with source = P ++ "(*@KEY@:DESCRIPTION*)" ++ M ++ "(*@KEY@:END_DESCRIPTION*)" ++ S with P, M, S symbolic valid UTF-8, |P|,|S| <= 1, |M| <= %d; and source = any valid UTF-8 text of 1..%d bytes, and comment texts %s with runs of symbolic bytes over the alphabet %r (left unchanged)' % (LM_, LM_ + 1, COMMENT_TEXTS, COMMENT_ALPHABET)
    for part in par_map(_k2_job, jobs): merge_part(kr, part)
    P = ctx.program(['ironplc-parser', 'ironplc-dsl'])
    kr.functions = fn_paths(P, getattr(kr, '_enc', set()))
    kr.exhaustive = True
    kr.outside = ['longer description bodies; sources where the two markers overlap or appear several times']


# ---------------------------------------------------------------------------------------------- K5 span -> line/character (LSP)
def _k5_job(job):
    N, = job
    ctx = _CTX; part = Part()
    P = ctx.program(['ironplcc', 'ironplc-dsl', 'ironplc-parser'])
    key = P.find_fn('ironplcc', 'lsp_project::map_label')
    b = [z3.BitVec('c%d' % i, 8) for i in range(N)]
    valid = LC.utf8_valid(b)[0] if b else z3.BoolVal(True)
    def find_stub(M_, fr, callee, args):
        from . import lspcommon as LSP_
        return some(Ref(Cell(LSP_.new_source(M_, P, 'f', Str(list(b))))))
    M = Machine(P, stubs={r'project::Project>::find$': find_stub,
                          r'lsp_types::Position::new$': lambda M_, fr, c, a: Agg('Position', [a[0], a[1]]),
                          r'lsp_types::Range::new$': lambda M_, fr, c, a: Agg('Range', [a[0], a[1]])})
    M.base_constraints = [valid]
    def ref_pos(off):
        line = z3.BitVecVal(0, 32); col = z3.BitVecVal(0, 32)
        for i in range(off):
            is_nl = b[i] == 10; is_cont = (b[i] & 0xC0) == 0x80
            line = z3.If(is_nl, line + 1, line); col = z3.If(is_nl, z3.BitVecVal(0, 32), z3.If(is_cont, col, col + 1))
        return line, col
    for start in range(N + 1):
        for end in range(start, N + 1):
            def entry(M):
                label = Agg('Label', [Agg('Location', [start, end]), Agg('FileId', [Str('f')]), Str('msg')])
                return M.call_fn(key, [Ref(Cell(label)), Ref(Cell(Agg('DynProject', [])))])
            def on_path(M, pr):
                part.paths += 1
                if pr.inconclusive: part.inconc(pr.inconclusive); return
                s = z3.Solver(); s.add(valid, *pr.pc)
                def chk():
                    t = time.time(); r = s.check(); part.solver_s += time.time() - t; part.queries += 1; return r
                def wit(role, what):
                    data = LC.model_bytes(s.model(), b)
                    part.add(role, '%s (contents %r, span %d..%d)' % (what, data.decode('utf-8', 'replace'), start, end), {'contents': list(data), 'span': [start, end]}, ('lsp_label', (data, start, end)))
                part.nontrivial += 1
                if pr.panic:
                    onb = z3.And([(b[p_] & 0xC0) != 0x80 for p_ in (start, end) if 0 < p_ < N] or [z3.BoolVal(True)])
                    s.add(onb)
                    if chk() == z3.sat: wit('C05/K5/panic', 'map_label panics for a span on character boundaries: ' + pr.panic.msg)
                    return
                r = pr.result; sl, sc = ref_pos(start); el, ec = ref_pos(end)
                s.push(); s.add(z3.Or(tobv(r.f[0].f[0], 32) != sl, tobv(r.f[0].f[1], 32) != sc))
                if chk() == z3.sat: wit('C05/K5/start-position', 'range start is not the line/character of the span start')
                s.pop()
                onb2 = z3.And([(b[p_] & 0xC0) != 0x80 for p_ in (start, end) if 0 < p_ < N] or [z3.BoolVal(True)])
                s.push(); s.add(onb2, z3.Or(tobv(r.f[1].f[0], 32) != el, tobv(r.f[1].f[1], 32) != ec))
                if chk() == z3.sat: wit('C05/K5/end-position', 'range end is not the line/character of the span end')
                s.pop()
                if not part.findings and len(part.validate) < 1 and start < end and N >= 2:
                    s.push(); s.add(z3.And([z3.And(z3.UGE(x, 97), z3.ULE(x, 122)) for x in b]))
                    if chk() == z3.sat: part.validate.append(('lsp_label', (LC.model_bytes(s.model(), b), start, end)))
                    s.pop()
                if len(part.samples) < 1: part.samples.append({'N': N, 'span': [start, end], 'pc_terms': len(pr.pc)})
            M.explore(entry, on_path)
    part.queries += M.stats['smt']; part.encoded = set(M.encoded); part.models = set(M.models_used)
    return part

@replay_factory('lsp_label')
def _replay_lsp_label(data, start, end):
    """witness builder: the bytes before the span go into a comment; the span itself is an undeclared variable (P0015 label)"""
    def rp(ctx):
        import lspclient
        pre = data[:start].decode('utf-8', 'replace').replace('*)', '* )').replace('(*', '( *')
        name = 'y' * max(1, end - start)
        text = 'PROGRAM p VAR x : INT; END_VAR (*' + pre + '*) ' + name + ' := 1; END_PROGRAM'
        off = len(('PROGRAM p VAR x : INT; END_VAR (*' + pre + '*) ').encode())
        bs = text.encode()
        def pos(o):
            before = bs[:o].decode('utf-8', 'replace'); line = before.count('\n'); col = len(before) - (before.rfind('\n') + 1)
            return [line, col]
        want = {'start': pos(off), 'end': pos(off + len(name))}
        s = lspclient.LspSession(ctx.ironplcc_path())
        try:
            s.initialize(); s.did_open('file:///tmp/verif_replay.st', text, 1)
            m = s.diagnostics_for('file:///tmp/verif_replay.st', timeout=10)
        finally:
            s.close()
        if m is None: return True, {'note': 'no publishDiagnostics received (server died?)', 'text': text}
        ds = [d for d in m['params']['diagnostics'] if d.get('code') == 'P0015']
        if not ds: return None, {'note': 'witness program did not produce P0015', 'diagnostics': m['params']['diagnostics']}
        got = {'start': [ds[0]['range']['start']['line'], ds[0]['range']['start']['character']], 'end': [ds[0]['range']['end']['line'], ds[0]['range']['end']['character']]}
        return got != want, {'text': text, 'published': got, 'expected': want}
    return rp

@kernel('K5 lsp.map_label')
def k5(ctx, kr):
    global _CTX
    _CTX = ctx
    NMAX = 4 if ctx.tier == 'quick' else 6
    kr.bounds = 'document contents: every valid UTF-8 string of <= %d bytes; label span: every 0 <= start <= end <= len' % NMAX
    for part in par_map(_k5_job, [(n,) for n in range(NMAX, -1, -1)]): merge_part(kr, part)
    P = ctx.program(['ironplcc', 'ironplc-dsl', 'ironplc-parser'])
    kr.functions = fn_paths(P, getattr(kr, '_enc', set()))
    kr.stubs = ['<dyn Project>::find returns the document with the symbolic contents', 'lsp_types::Position::new / Range::new as plain constructors']
    kr.assumptions = ['LSP character offsets counted in Unicode scalar values (as the code does); UTF-16 surrogate pairs outside the claim']
    kr.exhaustive = True

# ---------------------------------------------------------------------------------------------- K6 terminal rendering: every label is drawn in its own file at its own span
@kernel('K6 cli.terminal_labels')
def k6(ctx, kr):
    from . import lspcommon as LSP
    P = ctx.program(['ironplcc', 'ironplc-dsl', 'ironplc-parser', 'ironplc-analyzer'])
    key = P.find_fn('ironplcc', 'cli::handle_diagnostics')
    FILES = ['/p/a.st', '/p/b.st', '/p/c.st']
    emitted = []; st = {}
    def st_files_new(M, fr, c, a): return Agg('SimpleFiles', [VecV()])
    def st_files_add(M, fr, c, a):
        f = M.deref(a[0]); f.f[0].items.append(Agg('()', [a[1], a[2]])); return len(f.f[0].items) - 1
    def st_emit(M, fr, c, a):
        emitted.append((deep_clone(M.deref(a[2])), M.deref(a[3]))); return ok(UNIT)
    def st_label_new(M, fr, c, a): return Agg('CodeSpanLabel', [a[0], a[1], a[2], Str('')])
    def st_label_msg(M, fr, c, a): a[0].f[3] = a[1]; return a[0]
    def st_diag_new(M, fr, c, a): return Agg('CodeSpanDiagnostic', [a[0], none(), Str(''), VecV()])
    def st_with(M, fr, c, a):
        d = a[0]; what = c.rsplit('::', 1)[1].split('<')[0]
        if what == 'with_code': d.f[1] = some(a[1])
        elif what == 'with_message': d.f[2] = a[1]
        elif what == 'with_labels': d.f[3] = a[1]
        return d
    stubs = {r'^codespan_reporting::files::SimpleFiles::<.*>::new$': st_files_new, r'^codespan_reporting::files::SimpleFiles::<.*>::add(::<.*>)?$': st_files_add,
             r'^codespan_reporting::term::emit': st_emit, r'^codespan_reporting::diagnostic::Label::<.*>::new(::<.*>)?$': st_label_new,
             r'^codespan_reporting::diagnostic::Label::<.*>::with_message': st_label_msg, r'^codespan_reporting::diagnostic::Diagnostic::<.*>::new(::<.*>)?$': st_diag_new,
             r'^codespan_reporting::diagnostic::Diagnostic::<.*>::with_(code|message|labels)': st_with,
             r'^codespan_reporting::term::termcolor::StandardStream::(stderr|lock)$|^termcolor::StandardStream::(stderr|lock)$': lambda M, fr, c, a: Opaque('stream'),
             r'^<codespan_reporting::term::Config as std::default::Default>::default$': lambda M, fr, c, a: Opaque('config'),
             r'^<.*StandardStreamLock.* as std::ops::Drop>::drop$|^std::ptr::drop_in_place': lambda M, fr, c, a: UNIT}
    M = Machine(P, stubs=stubs)
    def label(file, lo, hi, msg): return LSP.mkstruct(P, 'Label', location=Agg('Location', [lo, hi]), file_id=Agg('FileId', [Str(file)]), message=Str(msg))
    for nsec in (0, 1, 2):
        def entry(M):
            emitted.clear()
            sel = []
            for j in range(1 + nsec):
                v = M.fresh_bv('file%d' % j, 8); M.declare_domain(v, [0, 1, 2])
                k = 0 if M.branch(v == 0) else (1 if M.branch(v == 1) else 2)
                sel.append(k)
            st['sel'] = sel
            srcs = VecV([Agg('()', [Agg('FileId', [Str(f)]), LSP.new_source(M, P, f, 'text of %s ' % f * 4)]) for f in FILES])
            project = Ref(Cell(Agg('project::FileBackedProject', [srcs])))
            labels = [label(FILES[k], 3 + 5 * j, 6 + 5 * j, 'label%d' % j) for j, k in enumerate(sel)]
            d = LSP.mkstruct(P, 'Diagnostic', code=Str('P0007'), description=Str('desc'), primary=labels[0], described=VecV(), secondary=VecV(labels[1:]))
            return M.call_fn(key, [Ref(Cell(VecV([d]))), some(project), False])
        def on_path(M, pr):
            kr.paths += 1
            if pr.inconclusive: kr.inconc(pr.inconclusive); return
            kr.nontrivial += 1
            sel = st['sel']; names = [FILES[k] for k in sel]
            wit = {'primary_in': names[0], 'secondary_in': names[1:]}
            rep = ('terminal_labels', (names,))
            def add(role, what):
                if not any(f.role == role for f in kr.findings): kr.findings.append(Finding(role, what, wit, replay=REPLAYS['terminal_labels'](names)))
            shape = 'primary-%s/secondaries-%s' % ('abc'[sel[0]], ''.join('abc'[k] for k in sel[1:]) or 'none')
            if pr.panic: add('C05/K6/panic/' + shape, 'rendering the diagnostic panics: ' + pr.panic.msg[:60]); return
            if len(emitted) != 1: add('C05/K6/emit-count/' + shape, '%d diagnostics rendered for one diagnostic' % len(emitted)); return
            files, cd = emitted[0]
            table = [M.deref(e.f[0]).conc() for e in files.f[0].items]
            got = []
            for l in cd.f[3].items:
                idx = simp(l.f[1]); rg = M.deref(l.f[2]) if isinstance(l.f[2], Ref) else l.f[2]
                got.append((table[idx] if isinstance(idx, int) and idx < len(table) else None, simp(rg.f[0]), simp(rg.f[1])))
            want = [(names[j], 3 + 5 * j, 6 + 5 * j) for j in range(len(sel))]
            if got != want:
                add('C05/K6/label-drawn-elsewhere/' + shape, 'labels %s are drawn at %s (file table %s)' % (want, got, table))
            elif len(kr.validate) < 2 and len(set(names)) > 1: kr.validate.append(rep)
            if len(kr.samples) < 2: kr.samples.append({'labels': want, 'drawn': got})
        M.explore(entry, on_path)
    kr.queries += M.stats['smt']
    kr.functions = fn_paths(P, M.encoded); kr.models = sorted(M.models_used)
    kr.stubs = ['codespan_reporting SimpleFiles::{new,add} (a table; add returns the index), term::emit records its arguments, Label/Diagnostic builders by contract; terminal stream opaque']
    kr.bounds = 'one diagnostic with a primary label and 0..2 secondary labels, each label in any of 3 project files (symbolic choice), through cli::handle_diagnostics with output enabled'
    kr.exhaustive = True
    kr.outside = ['layout of the text codespan prints; several diagnostics in one batch; files not known to the project']

@replay_factory('terminal_labels')
def _replay_terminal_labels(names):
    def rp(ctx):
        # a function block declared in one file, invoked with an undefined input in another: primary label at the call, secondary at the declaration
        decl = 'FUNCTION_BLOCK Tally\nVAR_INPUT\n  inc : BOOL;\nEND_VAR\nEND_FUNCTION_BLOCK\n'
        use = '(* padding so that offsets differ *)\nPROGRAM main\nVAR\n  t : Tally;\nEND_VAR\n  t(nosuch := TRUE);\nEND_PROGRAM\n'
        same = len(names) < 2 or names[0] == names[1]
        files = {'main.st': (decl + use) if same else use}
        if not same: files['tally.st'] = decl
        rc, out, err_ = ctx.ironplcc(['check'], {k: v.encode() for k, v in files.items()})
        text = re.sub(r'\x1b\[[0-9;]*m', '', err_)
        # the secondary label "Function block declaration" must be drawn in the section of the file that declares Tally
        section = None; where = None
        for line in text.split('\n'):
            m = re.search(r'┌─ (\S+?):(\d+):(\d+)', line)
            if m: section = m.group(1)
            if 'Function block declaration' in line and not line.startswith('error'): where = section
        want = 'main.st' if same else 'tally.st'
        bad = where is None or not where.endswith(want)
        return bad, {'files': sorted(files), 'declaration_label_drawn_in': where, 'expected_in': want, 'stderr': text[-600:]}
    return rp

# ---------------------------------------------------------------------------------------------- K3 identifier spans carried by the parsed library
@replay_factory('id_spans')
def _replay_id_spans(src):
    def rp(ctx):
        r = ctx.replay({'cmd': 'parse', 'source': src})
        if 'panic' in r: return True, r
        if not r.get('ok'): return None, {'note': 'source rejected'}
        # Debug of Id prints only the spelling; spans are observable through semantic diagnostics: use an undeclared-variable diagnostic when the source has statements
        a = ctx.replay({'cmd': 'analyze', 'sources': [src]})
        bad = False; seen = []
        for d in a.get('diagnostics', []):
            text = src.encode()[d['start']:d['end']].decode('utf-8', 'replace'); seen.append((d['code'], d['start'], d['end'], text))
            if d['code'] == 'P0015' and not re.fullmatch(r'nm\d+q', text): bad = True
        return bad, {'diagnostics': seen[:6]}
    return rp

@kernel('K3 parser.identifier_spans')
def k3(ctx, kr):
    from . import C01 as K01, C10 as K10
    import itertools, json
    K01._CTX = ctx
    TPL = K01._all_templates(); names = list(TPL)
    kr.bounds = ('%d source templates with symbolic shape selectors and unique identifiers (as C01-K6): for every identifier node of the library returned by parse_program, '
                 'span.start..span.end is exactly the occurrence of that identifier in the source and the file id is the file parsed' % len(names))
    jobs = []
    for n in sorted(names, key=lambda n: -len(list(itertools.product(*[range(d) for d in K10._shapes(TPL[n])])))):
        dims = K10._shapes(TPL[n]); first = dims[0] if dims else 1
        for v in range(first): jobs.append((n, None) if first == 1 else (n, [K10._prefix_for(first, v)]))
    shapes = {n: {} for n in names}
    for part in par_map(K01._k6_job, jobs):
        shapes[part.tname].update(part.span_shapes); part.findings = []; part.validate = []; merge_part(kr, part)
    for n in names:
        sh = shapes[n]
        for lab, rep, members in K10._cubes(TPL[n], sh):
            st_, what, src, extra = sh[rep]
            kr.findings.append(Finding('C05/K3/%s/%s' % (n, lab), '%s (%d shape%s of template %s; e.g. %r)' % (what, len(members), 's' if len(members) > 1 else '', n, src[-160:]),
                                       {'source': src, 'wrong_spans': json.loads(extra) if extra else None}, replay=REPLAYS['id_spans'](src)))
        oks = [c for c, r in sh.items() if r[0] == 'ok']
        if oks and len(kr.validate) < 4 and n in ('nested_statements', 'call_arguments', 'if_statement', 'case_statement'): kr.validate.append(('id_spans', (sh[sorted(oks)[-1]][2],)))
    P = ctx.program()
    kr.functions = fn_paths(P, getattr(kr, '_enc', set()))[:120] + ['ironplc-parser::<TokenType as Logos>::lex (lifted)']
    kr.exhaustive = True
    kr.outside = ['spans of nodes other than identifiers (statements, literals, declarations); constructs not in the templates']

# ---------------------------------------------------------------------------------------------- K7 labels of the duplicate-name rules point at the instances they name
DUP_RULES = {
    'enumeration_values_unique': dict(mod='rule_enumeration_values_unique', k=4, text='TYPE\n  clr : (nm0, nm1, nm2, nm3);\nEND_TYPE\n'),
    'struct_element_unique_names': dict(mod='rule_decl_struct_element_unique_names', k=4, text='TYPE\n  st : STRUCT\n    nm0 : INT;\n    nm1 : INT;\n    nm2 : INT;\n    nm3 : INT;\n  END_STRUCT;\nEND_TYPE\n'),
}

def _k7_job(job):
    rname, = job
    import itertools
    from . import C02 as K02, topo_common as TC
    from mirsym import models
    ctx = _CTX; part = Part(); spec = DUP_RULES[rname]
    P = ctx.program()
    lib0 = K02.resolve_concrete(ctx, spec['text'])
    key = P.find_fn('ironplc-analyzer', spec['mod'] + '::apply')
    pos = [(spec['text'].index('nm%d' % i), spec['text'].index('nm%d' % i) + 3) for i in range(spec['k'])]
    alpha = ['a', 'b']
    M = Machine(P, max_steps=50_000_000); sym = {}
    def entry(M):
        lib = deep_clone(lib0)
        ids = {n: models.str_term(M, Str(n)) for n in alpha}; mapping = {}
        for i in range(spec['k']):
            v = M.fresh_bv('name_%d' % i, 32); M.assume(z3.Or([v == ids[n] for n in alpha])); sym[i] = (v, ids)
            mapping['nm%d' % i] = (lambda v: (lambda orig: TC.ident_sym(v, orig)))(v)
        return M.call_fn(key, [Ref(Cell(LC.subst_names(lib, mapping)))])
    def on_path(M, pr):
        part.paths += 1
        if pr.inconclusive: part.inconc(pr.inconclusive); return
        part.nontrivial += 1
        if pr.panic: return                      # panics of rules are C04's business
        labels = []
        if pr.result.disc == 1:
            for d in pr.result.f[0].items:
                d = M.deref(d); prim = d.f[2]; secs = d.f[4].items
                labels.append(((simp(prim.f[0].f[0]), simp(prim.f[0].f[1])), [(simp(x.f[0].f[0]), simp(x.f[0].f[1])) for x in secs]))
        s = z3.Solver(); s.add(*pr.pc)
        for names in itertools.product(alpha, repeat=spec['k']):
            s.push()
            for i, nm in enumerate(names):
                v, ids = sym[i]; s.add(v == ids[nm])
            r = s.check(); part.queries += 1
            s.pop()
            if r != z3.sat: continue
            first = {}
            for i, nm in enumerate(names): first.setdefault(nm, i)
            src = spec['text']
            for i, nm in enumerate(names): src = src.replace('nm%d' % i, nm + ' ' * 2, 1)       # same length: offsets stay put
            bad = None
            for prim, secs in labels:
                if rname == 'struct_element_unique_names':
                    # this rule labels the structure's name first ("Structure"), then the first and the repeated use of the element name
                    tn = (src.index('st :'), src.index('st :') + 2)
                    if prim != tn: bad = 'the primary label %s is not the name of the structure %s' % (prim, tn); break
                    if len(secs) != 2: bad = '%d secondary labels instead of first use + repeated use' % len(secs); break
                    prim, secs = secs[0], secs[1:]
                pi = pos.index(prim) if prim in pos else None
                if pi is None: bad = 'the label %s of the first instance covers no instance of a value' % (prim,); break
                for sc in secs:
                    si = pos.index(sc) if sc in pos else None
                    if si is None or names[si] != names[pi]: bad = 'the labels %s and %s do not name the same value' % (prim, sc); break
                    if first[names[pi]] != pi: bad = 'the label "first instance" is at instance %d of `%s`, its first instance is number %d' % (pi, names[pi], first[names[pi]]); break
                    if si <= pi: bad = 'the label "duplicate" (instance %d) does not come after the first instance (%d)' % (si, pi); break
                if bad: break
            if bad:
                part.add('C05/K7/%s/label-elsewhere' % rname, 'rule %s on values %s: %s' % (rname, list(names), bad), {'values': list(names), 'source': src, 'labels': [(list(p_), [list(x) for x in s_]) for p_, s_ in labels]},
                         ('dup_labels', (src, rname)))
            elif labels and len(part.validate) < 1: part.validate.append(('dup_labels', (src, rname)))
            if len(part.samples) < 1 and labels: part.samples.append({'rule': rname, 'values': list(names), 'labels': len(labels)})
    M.explore(entry, on_path)
    part.queries += M.stats['smt']; part.encoded = set(M.encoded); part.models = set(M.models_used)
    return part

@replay_factory('dup_labels')
def _replay_dup_labels(src, rname):
    def rp(ctx):
        r = ctx.replay({'cmd': 'analyze', 'sources': [src]})
        if 'panic' in r: return None, r
        data = src.encode(); bad = False; seen = []
        words = [(m.start(), m.end(), m.group(0)) for m in re.finditer(r'\b[ab]\b', src)]
        for d in r.get('diagnostics', []):
            if d['code'] not in ('P0003', 'P0005'): continue
            ptxt = data[d['start']:d['end']].decode(); secs = [(x['start'], x['end'], data[x['start']:x['end']].decode()) for x in d.get('secondary', [])]
            seen.append((d['code'], d['start'], ptxt, secs))
            firsts = {}
            for a, b, w in words: firsts.setdefault(w, a)
            pstart = d['start']
            if d['code'] == 'P0003':
                if ptxt != 'st' or len(secs) != 2: bad = True; continue
                (pstart, _, ptxt), secs = secs[0], secs[1:]
            if ptxt not in firsts or firsts[ptxt] != pstart: bad = True
            for a, b, w in secs:
                if w != ptxt or a <= pstart: bad = True
        return bad, {'source': src, 'labels': seen}
    return rp

@kernel('K7 rules.duplicate_labels_point_at_instances')
def k7(ctx, kr):
    global _CTX
    _CTX = ctx
    kr.bounds = 'rules %s on a declaration with 4 value / element names symbolic over {a, b} (every pattern of repetitions): the label of the first instance is at the first instance of the repeated name, the label of the repetition at a later instance of the same name (the structure rule labels the structure name first)' % list(DUP_RULES)
    for part in par_map(_k7_job, [(r,) for r in DUP_RULES]): merge_part(kr, part)
    P = ctx.program()
    kr.functions = fn_paths(P, getattr(kr, '_enc', set()))
    kr.exhaustive = True
    kr.outside = ['labels of the other rules; more than four names']


# ---------------------------------------------------------------------------------------------- K8 the label of a rule's diagnostic covers the construct it talks about
def _k8_job(job):
    uname, split = job
    from . import tplcommon as TP
    from .units import FAULTY
    decls, code, labs = FAULTY[uname]
    files = [''.join(d for d, f in zip(decls, split) if f == i) for i in range(max(split) + 1)]
    outs, part = TP.analyze_files(_CTX, files)
    for o in outs:
        if o == 'rejected': part.inconc('%s does not parse' % uname); continue
        kind, ds = o
        mine = [d for d in ds if d[0] in _fault_codes(code)]
        if not mine: continue                     # a missing diagnostic is C02's matter
        for (c, lab, fi) in mine:
            src = files[fi] if fi is not None and fi < len(files) else None
            if lab not in labs:
                part.add('C05/K8/%s/label-not-at-construct' % uname, 'unit %s: the primary label of %s covers %r (file %s); the construct the message is about is spelled %s' % (uname, code, lab, fi, ' or '.join(map(repr, labs))),
                         {'files': files, 'label_text': lab}, ('unit_label', (uname, list(split))))
        if len(part.samples) < 1: part.samples.append({'unit': uname, 'label_text': mine[0][1]})
    if not part.findings and len(part.validate) < 1: part.validate.append(('unit_label', (uname, list(split))))
    return part

@replay_factory('unit_label')
def _replay_unit_label(uname, split):
    def rp(ctx):
        from . import tplcommon as TP
        from .units import FAULTY
        decls, code, labs = FAULTY[uname]
        files = [''.join(d for d, f in zip(decls, split) if f == i) for i in range(max(split) + 1)]
        got = TP.real_analyze(ctx, files)
        if got in ('panic', 'rejected'): return None, {'result': got}
        mine = [g for g in got if g[0] in _fault_codes(code)]
        if not mine: return None, {'note': 'the diagnostic is not reported', 'got': got}
        return any(g[1] not in labs for g in mine), {'unit': uname, 'files': files, 'labels': [g[1] for g in mine], 'expected_one_of': labs}
    return rp

@kernel('K8 rules.label_covers_the_construct')
def k8(ctx, kr):
    global _CTX
    _CTX = ctx
    from .units import FAULTY
    kr.bounds = ('%d compilation units with exactly one fault (%s), as one file and split into two files: parse_program + stages::analyze on the MIR (every toposort tie-break); the primary label of the fault\'s diagnostic '
                 'lies inside the file it names and its text is the spelling of the construct the message talks about' % (len(FAULTY), ', '.join(FAULTY)))
    jobs = []
    for u, (decls, code, labs) in FAULTY.items():
        k = len(decls); jobs.append((u, tuple([0] * k)))
        if k > 1: jobs.append((u, tuple([0] * (k - 1) + [1])))
    for part in par_map(_k8_job, jobs): merge_part(kr, part)
    P = ctx.program()
    kr.functions = fn_paths(P, getattr(kr, '_enc', set()))[:150]
    kr.exhaustive = True
    kr.outside = ['diagnostics of other constructs; secondary labels (K6, K7)']

KERNELS = [k1, k2, k3, k5, k6, k7, k8, k9]
