"""C10 — re-rendering round-trips: echo output parses back to the same library (decided for leaf lexemes)."""
import time, json, re
import z3
from framework import kernel, Finding, fn_paths, Part, par_map, merge_part, replay_factory, REPLAYS
from mirsym.machine import *
from mirsym.mirread import Unsupported
from mirsym import models, lexlift
from . import lexcommon as LC

_CTX = None

def dyn_lexer_stubs(ctx, holder):
    """logos Lexer over whatever text `TokenType::lexer(source)` is given at run time (the rendered text): the lexer is lifted on demand"""
    LM = LC.lexmodel(ctx)
    def st_lexer(M, fr, callee, a):
        src = M.deref(a[0]); L = lexlift.Lift(LM, list(src.b)); toks = L.lex_all()
        holder['lifts'] = holder.get('lifts', 0) + 1
        return Agg('LogosLexer', [a[0], 0, 0, Opaque(toks)])
    def st_next(M, fr, callee, a):
        lx = M.deref(a[0]); pos = lx.f[2]; toks = lx.f[3].tag; N = len(toks) - 1
        if pos >= N: return none()
        kind, end = toks[pos]
        e = simp(end)
        if is_sym(e): e = M.enum_int(end, pos + 1, N)
        lx.f[1] = pos; lx.f[2] = e
        kd = simp(kind)
        iserr = (kd == lexlift.ERR) if not is_sym(kd) else M.branch(kind == lexlift.ERR)
        if iserr: return some(err(UNIT))
        if is_sym(kd):
            # the grammar dispatches on the token type: resolve it now (few candidates are feasible)
            kd = M.enum_int(kind, 0, len(LM.tokens) - 1)
        return some(ok(EnumV('TokenType', kd, [])))
    def st_span(M, fr, callee, a):
        lx = M.deref(a[0]); return Agg('Range', [lx.f[1], lx.f[2]])
    def st_slice(M, fr, callee, a):
        lx = M.deref(a[0]); src = M.deref(lx.f[0]); return Ref(Cell(Str(src.b[lx.f[1]:lx.f[2]])))
    def st_rlen(M, fr, callee, a):
        r = M.deref(a[0]); return r.f[1] - r.f[0]
    def st_tclone(M, fr, callee, a):
        v = M.deref(a[0]); return EnumV(v.name, v.disc, [])
    return {r'^<token::TokenType as logos::Logos<.*>>::lexer$': st_lexer, r'^<logos::Lexer<.*> as std::iter::Iterator>::next$': st_next,
            r'^logos::Lexer::<.*>::span$': st_span, r'^logos::Lexer::<.*>::slice$': st_slice,
            r'^<std::ops::Range<usize> as std::iter::ExactSizeIterator>::len$': st_rlen, r'^<token::TokenType as std::clone::Clone>::clone$': st_tclone}

def find_nodes(v, name, out=None, seen=None):
    if out is None: out = []; seen = set()
    if id(v) in seen: return out
    seen.add(id(v))
    if isinstance(v, (Agg, EnumV)):
        if re.sub(r'<.*', '', v.name).split('::')[-1] == name: out.append(v)
        for x in v.f: find_nodes(x, name, out, seen)
    elif isinstance(v, VecV):
        for x in v.items: find_nodes(x, name, out, seen)
    elif isinstance(v, Ref): find_nodes(v.cell.v, name, out, seen)
    return out

# leaf kinds: template, how to make the leaf symbolic, how to describe the model
def _sym_duration(M, lib, st):
    d = find_nodes(lib, 'DurationLiteral')[0]
    ns = M.fresh_bv('ns', 128); M.assume(z3.And(ns > -10 ** 10, ns < 10 ** 10)); st['ns'] = ns
    d.f[1] = Agg('time::Duration', [ns])
def _desc_duration(m, st):
    v = m.eval(st['ns'], True).as_signed_long(); return {'nanoseconds': v}, 'T#%dns' % v, _lit_duration(v)
def _lit_duration(ns):
    sign = '-' if ns < 0 else ''; ns = abs(ns)
    return 'T#%s%d.%06dms' % (sign, ns // 10 ** 6, ns % 10 ** 6) if ns % 10 ** 6 else 'T#%s%dms' % (sign, ns // 10 ** 6)

def _sym_integer(M, lib, st):
    n = find_nodes(lib, 'SignedInteger')[0]
    v = M.fresh_bv('val', 128); M.assume(z3.ULT(v, 10000)); neg = M.fresh_bool('neg'); st['v'] = v; st['neg'] = neg
    n.f[0].f[1] = v; n.f[1] = neg
def _desc_integer(m, st):
    v = m.eval(st['v'], True).as_long(); neg = z3.is_true(m.eval(st['neg'], True))
    return {'value': v, 'negative': neg}, '%s%d' % ('-' if neg else '', v), '%s%d' % ('-' if neg else '', v)

def _sym_date(M, lib, st):
    n = find_nodes(lib, 'DateLiteral')[0]
    y = M.fresh_bv('year', 32); mo = M.fresh_bv('month', 8); d = M.fresh_bv('day', 8)
    M.assume(z3.And(y >= 0, y <= 9999, z3.UGE(mo, 1), z3.ULE(mo, 12), z3.UGE(d, 1), z3.ULE(d, 28))); st['ymd'] = (y, mo, d)
    n.f[0] = Agg('time::Date', [y, mo, d])
def _desc_date(m, st):
    y, mo, d = [m.eval(x, True).as_long() for x in st['ymd']]
    return {'year': y, 'month': mo, 'day': d}, 'D#%d-%d-%d' % (y, mo, d), 'DATE#%04d-%02d-%02d' % (y, mo, d)

def _sym_tod(M, lib, st):
    n = find_nodes(lib, 'TimeOfDayLiteral')[0]
    h = M.fresh_bv('h', 8); mi = M.fresh_bv('min', 8); s_ = M.fresh_bv('s', 8); ns = 0      # the parser never produces a fraction (C09 finding), so libraries in its image have nanoseconds = 0
    M.assume(z3.And(z3.ULT(h, 24), z3.ULT(mi, 60), z3.ULT(s_, 60))); st['hms'] = (h, mi, s_, ns)
    n.f[0] = Agg('time::Time', [h, mi, s_, ns])
def _desc_tod(m, st):
    h, mi, s_, ns = [x if isinstance(x, int) else m.eval(x, True).as_long() for x in st['hms']]
    frac = ('.%09d' % ns).rstrip('0') if ns else ''
    return {'h': h, 'm': mi, 's': s_, 'nanos': ns}, 'TOD#%d:%d:%d%s' % (h, mi, s_, frac), 'TIME_OF_DAY#%02d:%02d:%02d%s' % (h, mi, s_, frac)

LEAVES = {
    'duration': dict(text='PROGRAM p\nVAR\n  x : TIME := T#5ms;\nEND_VAR\nEND_PROGRAM\n', sym=_sym_duration, desc=_desc_duration, decl='x : TIME := %s;'),
    'integer': dict(text='PROGRAM p\nVAR\n  x : INT := 5;\nEND_VAR\nEND_PROGRAM\n', sym=_sym_integer, desc=_desc_integer, decl='x : INT := %s;'),
    'date': dict(text='PROGRAM p\nVAR\n  x : DATE := DATE#2024-01-20;\nEND_VAR\nEND_PROGRAM\n', sym=_sym_date, desc=_desc_date, decl='x : DATE := %s;'),
    'time_of_day': dict(text='PROGRAM p\nVAR\n  x : TIME_OF_DAY := TIME_OF_DAY#12:30:15;\nEND_VAR\nEND_PROGRAM\n', sym=_sym_tod, desc=_desc_tod, decl='x : TIME_OF_DAY := %s;'),
}

def _k1_job(job):
    leaf, = job
    ctx = _CTX; part = Part(); spec = LEAVES[leaf]
    P = ctx.program()
    lib0, _ = LC.parse_concrete(ctx, spec['text'])
    k_render = P.find_fn('ironplc-plc2plc', 'renderer::apply')
    k_tok = P.find_fn('ironplc-parser', 'lexer::tokenize')
    k_x = P.find_fn('ironplc-parser', 'xform_tokens::insert_keyword_statement_terminators')
    k_p = P.find_fn('ironplc-parser', 'parser::parse_library')
    k_eq = P.impl_all.get(('Library', 'PartialEq', 'eq'))
    if not k_eq: part.inconc('Library::eq not found'); return part
    holder = {}; st = {}
    M = Machine(P, stubs=dyn_lexer_stubs(ctx, holder), max_steps=200_000_000)
    def entry(M):
        lib = deep_clone(lib0); st.clear()
        spec['sym'](M, lib, st)
        r = M.call_fn(k_render, [Ref(Cell(lib))])
        if r.disc != 0: return ('render-error', r)
        text = r.f[0]; st['text'] = text
        fid = Ref(Cell(Agg('FileId', [Str('f.st')])))
        tk = M.call_fn(k_tok, [Ref(Cell(Str(list(text.b)))), fid])
        if tk.f[1].items: return ('lex-error', text)
        tokens = M.call_fn(k_x, [tk.f[0], fid])
        lib2 = M.call_fn(k_p, [tokens])
        if lib2.disc != 0: return ('parse-error', text)
        same = M.call_fn(k_eq[0], [Ref(Cell(lib)), Ref(Cell(Agg('Library', [lib2.f[0]])))])
        return ('ok', same)
    def on_path(M, pr):
        part.paths += 1
        if pr.inconclusive: part.inconc(pr.inconclusive); return
        s = z3.Solver(); s.add(*pr.pc); s.set('timeout', 60000)
        def model_text(m):
            t = st.get('text')
            return bytes(x if isinstance(x, int) else m.eval(x, True).as_long() for x in t.b).decode('utf-8', 'replace') if t is not None else None
        def report(kind, what, extra=None):
            if extra is not None: s.add(extra)
            t0 = time.time(); r = s.check(); part.solver_s += time.time() - t0; part.queries += 1
            if r == z3.unknown: part.inconc('solver unknown'); return
            if r != z3.sat: return
            m = s.model(); wit, short, lit = spec['desc'](m, st)
            role = 'C10/K1/%s/%s' % (leaf, kind)
            if leaf == 'duration' and kind == 'value-changed': role += '/sub-millisecond' if wit['nanoseconds'] % 10 ** 6 else '/whole-milliseconds'
            if leaf == 'integer' and kind != 'value-changed': role += '/negative' if wit['negative'] else '/non-negative'
            if leaf == 'time_of_day' and kind == 'value-changed': role += '/fraction' if wit['nanos'] else '/whole-seconds'
            src = spec['text'].split(':=')[0].rsplit('\n', 1)[0] + '\n  ' + spec['decl'] % lit + '\nEND_VAR\nEND_PROGRAM\n'
            part.add(role, '%s literal %s: %s (rendered as %r)' % (leaf, short, what, (model_text(m) or '')[:120]), dict(wit, rendered=model_text(m), source=src), ('roundtrip', (src,)))
        part.nontrivial += 1
        if pr.panic: report('panic', 'rendering or re-parsing panics: ' + pr.panic.msg[:60]); return
        kind, val = pr.result
        if kind == 'render-error': report('render-error', 'the renderer fails'); return
        if kind == 'lex-error': report('not-reparsable', 'the rendered text is not valid lexically'); return
        if kind == 'parse-error': report('not-reparsable', 'the rendered text is rejected by the parser'); return
        report('value-changed', 'the rendered text parses to a different value', z3.Not(tobool(val)) if not isinstance(val, bool) else z3.BoolVal(not val))
        if len(part.samples) < 1: part.samples.append({'leaf': leaf, 'rendered_len': len(st['text'].b)})
    M.explore(entry, on_path, max_paths=3000)
    part.queries += M.stats['smt']; part.encoded = set(M.encoded); part.models = set(M.models_used)
    part.notes.append('%s: lexer lifted %d times on rendered text' % (leaf, holder.get('lifts', 0)))
    return part

@replay_factory('roundtrip')
def _replay_roundtrip(src):
    def rp(ctx):
        r = ctx.replay({'cmd': 'render', 'source': src})
        if 'panic' in r: return True, r
        if not r.get('ok'): return (None if r.get('stage') == 'parse' else True), r
        bad = (not r.get('reparse_ok')) or (not r.get('equal'))
        return bad, {'source': src, 'rendered': r.get('text'), 'reparse_ok': r.get('reparse_ok'), 'equal': r.get('equal'), 'diag': r.get('diag')}
    return rp

@kernel('K1 renderer.leaf_roundtrip')
def k1(ctx, kr):
    global _CTX
    _CTX = ctx
    leaves = list(LEAVES)
    kr.bounds = ('leaf literals inside `VAR x : T := <literal>; END_VAR`: duration (|ns| < 10^10, symbolic), integer (value < 10^4 and sign symbolic), date (every valid year/month/day<=28), time of day (h, m, s, nanoseconds symbolic); '
                 'render -> lexer (lifted on the rendered text) -> parser -> derived PartialEq of Library')
    for part in par_map(_k1_job, [(l,) for l in leaves]): merge_part(kr, part)
    P = ctx.program()
    kr.functions = fn_paths(P, getattr(kr, '_enc', set()))[:80] + ['ironplc-parser::<TokenType as Logos>::lex (lifted)']
    kr.stubs = LC.STUB_NOTES + ['format!/to_string of integers by contract (decimal digits, fill/width)', 'time crate by contract']
    kr.exhaustive = True
    kr.outside = ['structural round trip of declarations, statements, configurations, SFC; reals (floating point is not encoded); strings with escapes']

# ---------------------------------------------------------------------------------------------- K2 write_ws separates lexemes
@kernel('K2 renderer.write_ws_separates_lexemes')
def k2(ctx, kr):
    P = ctx.program()
    key = P.find_fn('ironplc-plc2plc', 'write_ws')
    M = Machine(P)
    st = {}
    for n in range(0, 3):
        def entry(M):
            b = [M.fresh_bv('b', 8) for _ in range(n)]; st['b'] = b
            for x in b: M.assume(z3.ULT(x, 0x80))
            ind = M.fresh_bv('indents', 64); M.assume(z3.ULT(ind, 3)); st['ind'] = M.enum_int(ind, 0, 2)
            r = Cell(Agg('LibraryRenderer', [Str(list(b)), st['ind']]))
            M.call_fn(key, [Ref(r), Ref(Cell(Str('x')))])
            return r.v.f[0]
        def on_path(M, pr):
            kr.paths += 1
            if pr.inconclusive: kr.inconc(pr.inconclusive); return
            kr.nontrivial += 1
            if pr.panic: kr.findings.append(Finding('C10/K2/panic', 'write_ws panics: ' + pr.panic.msg[:50], {}, None)); return
            out = pr.result.b; b = st['b']
            s = z3.Solver(); s.add(*pr.pc); kr.queries += 1
            # the lexeme is appended; if the buffer was non-empty and did not end in blank/newline a blank separates them; nothing of the buffer is lost
            conds = [z3.BoolVal(len(out) >= n + 1 and out[-1] == ord('x'))]
            conds += [tobv(out[i], 8) == b[i] for i in range(min(n, len(out)))]
            if n:
                sep_needed = z3.And(b[-1] != 32, b[-1] != 10)
                conds.append(z3.Implies(sep_needed, z3.BoolVal(len(out) == n + 2 and not is_sym(out[n]) and out[n] == 32)))
                conds.append(z3.Implies(b[-1] == 10, z3.BoolVal(len(out) == n + 1 + 3 * st['ind'])))
            s.add(z3.Not(z3.And(conds)))
            if s.check() == z3.sat:
                data = bytes(s.model().eval(x, True).as_long() for x in b)
                kr.findings.append(Finding('C10/K2/lexemes-fuse', 'write_ws does not separate the lexeme from buffer %r (indents %d): %r' % (data, st['ind'], out), {'buffer': list(data)}, None))
            if len(kr.samples) < 2: kr.samples.append({'buffer_len': n, 'indents': st['ind'], 'out_len': len(out)})
        M.explore(entry, on_path)
    kr.queries += M.stats['smt']
    kr.functions = fn_paths(P, M.encoded); kr.models = sorted(M.models_used)
    kr.bounds = 'buffer tail of 0..2 symbolic ASCII bytes, indent level 0..2, one lexeme'
    kr.exhaustive = True


# ---------------------------------------------------------------------------------------------- K3 structural round trip over template shapes
# template = list of segments: str | ('opt', text) | ('alt', [texts]).  A shape fixes every optional segment (present / absent) and every alternative.
def _T(*segs): return list(segs)
_FB = lambda decl, body: ['FUNCTION_BLOCK fb\nVAR\n  x : INT;\n  y : INT;\n  b : BOOL;\n'] + decl + ['END_VAR\n'] + body + ['END_FUNCTION_BLOCK\n']
TEMPLATES = {
    'subrange_type': _T('TYPE\n  r : INT(', ('alt', ['1', '-5']), '..10)', ('opt', ' := 2'), ';\nEND_TYPE\n'),
    'array_type': _T('TYPE\n  ar : ARRAY[1..2', ('opt', ', 0..3'), '] OF INT', ('opt', ' := [1, 2, 3]'), ';\nEND_TYPE\n'),
    'enum_type': _T('TYPE\n  c : (red', ('opt', ', green'), ')', ('opt', ' := red'), ';\nEND_TYPE\n'),
    'struct_type': _T('TYPE\n  s : STRUCT\n    a : INT', ('opt', ' := 1'), ';\n', ('opt', '    q : BOOL := TRUE;\n'), '  END_STRUCT;\nEND_TYPE\n'),
    'string_type': _T('TYPE\n  st : ', ('alt', ['STRING', 'WSTRING']), ('opt', '[10]'), ';\nEND_TYPE\n'),
    'located_variables': _T('PROGRAM p\nVAR\n  v AT %', ('alt', ['I', 'Q', 'M']), ('alt', ['', 'X', 'B', 'W', 'D', 'L']), ('alt', ['1', '1.2', '10.20']), ' : ', ('alt', ['BOOL', 'INT']), ';\nEND_VAR\nEND_PROGRAM\n'),
    'enum_alias_type': _T('TYPE\n  c : (red, green) := red;\n  d : ', ('alt', ['c', '(red, green)', '(green, red)']), ('alt', ['', ' := red', ' := green']), ';\nEND_TYPE\n'),
    'alias_type': _T('TYPE\n  al : ', ('alt', ['INT', 'REAL', 'other']), ('opt', ' := 1'), ';\nEND_TYPE\n'),
    'var_block': _T('FUNCTION_BLOCK fb\n', ('alt', ['VAR', 'VAR_INPUT', 'VAR_OUTPUT', 'VAR_IN_OUT', 'VAR_EXTERNAL', 'VAR_TEMP']), ('alt', ['', ' RETAIN', ' CONSTANT', ' NON_RETAIN']), '\n  x : INT', ('opt', ' := 5'), ';\nEND_VAR\nEND_FUNCTION_BLOCK\n'),
    'var_kinds': _FB([('alt', ['  v : c := red;\n', '  v : c := c#red;\n', '  v : ARRAY[1..3] OF INT;\n', '  v : ARRAY[1..2] OF INT := [1, 2];\n', '  v : INT(1..5);\n', '  v : STRING[5] := \'ab\';\n', '  v : callee;\n', '  v : callee := (in1 := TRUE);\n',
                               '  v : st := (a := 1);\n', '  v AT %IX1.0 : BOOL;\n', '  v, w : INT;\n', '  v : (r1, r2) := r1;\n', '  v : BOOL R_EDGE;\n'])], []),
    'literal_init': _FB(['  v : INT := ', ('alt', ['1', '-1', '+1', '16#FF', '2#1010', '8#17', '1.5', '-1.5', '1.0E3', 'TRUE', 'FALSE', 'T#1s', 'T#-1s', 'T#1h2m', 'D#2020-01-01', 'TOD#12:00:00', 'DT#2020-01-01-12:00:00',
                                             '\'abc\'', '"abc"', 'INT#5', 'BOOL#1', 'REAL#1.5', 'WORD#16#FF', 'TIME#5ms']), ';\n'], []),
    'assignment_expr': _FB([], ['  x := ', ('alt', ['(x + 1) * 2', 'x + 1 * 2', 'x - (y - 1)', 'NOT b', '-x', 'x <= y', 'x ** 2', 'arr[1]', 'arr[x]', 'arr[1, 2]', 's.a', 'x MOD 2', 'b AND (x > 1) OR b', 'b XOR b', 'x <> y', '1', '-1', 'TRUE', 'T#1s', '2.5']), ';\n']),
    'assignment_target': _FB([], ['  ', ('alt', ['x', 'arr[1]', 'arr[x]', 's.a', 's.t.u', 'arr[1].a']), ' := 1;\n']),
    'if_statement': _FB([], ['  IF b THEN\n    x := 1;\n', ('opt', '  ELSIF x = 2 THEN\n    x := 3;\n'), ('opt', '  ELSIF x = 4 THEN\n    x := 5;\n'), ('opt', '  ELSE\n    x := 6;\n'), '  END_IF;\n']),
    'case_statement': _FB([], ['  CASE x OF\n    ', ('alt', ['1', '1, 2', '1..3', '1, 3..5', '-1']), ':\n      y := 1;\n', ('opt', '    7:\n      y := 2;\n'), ('opt', '  ELSE\n    y := 3;\n'), '  END_CASE;\n']),
    'for_statement': _FB([], ['  FOR x := 1 TO 10', ('opt', ' BY 2'), ' DO\n    y := x;\n  END_FOR;\n']),
    'loops': _FB([], ['  ', ('alt', ['WHILE b DO\n    x := 1;\n  END_WHILE', 'REPEAT\n    x := 1;\n  UNTIL b\n  END_REPEAT', 'WHILE b DO\n    EXIT;\n  END_WHILE', 'RETURN', 'WHILE b DO\n    x := 1;\n    y := 2;\n  END_WHILE']), ';\n']),
    'fb_call': _FB([], ['  inst(', ('alt', ['', 'in1 := TRUE', 'in1 := TRUE, in2 := x', 'in1 := TRUE, out1 => b', 'out1 => b', 'NOT out1 => b', 'TRUE', 'TRUE, x']), ');\n']),
    'function_call': _FB([], ['  x := f(', ('alt', ['', '1', '1, 2', 'a := 1', 'a := 1, q := 2', 'x + 1']), ');\n']),
    'function_decl': _T('FUNCTION f : ', ('alt', ['INT', 'BOOL', 'other']), '\nVAR_INPUT\n  a : INT;\nEND_VAR\n', ('opt', 'VAR\n  t : INT;\nEND_VAR\n'), '  f := a;\nEND_FUNCTION\n'),
    'program_decl': _T('PROGRAM p\n', ('opt', 'VAR_INPUT\n  i : INT;\nEND_VAR\n'), ('opt', 'VAR\n  t : INT;\nEND_VAR\n'), ('opt', 'VAR_ACCESS\n  ac : r.p.x : INT READ_WRITE;\nEND_VAR\n'), '  t := 1;\nEND_PROGRAM\n'),
    'configuration': _T('CONFIGURATION c\n', ('opt', 'VAR_GLOBAL\n  g : INT;\nEND_VAR\n'), 'RESOURCE r ON PLC\n  TASK t(', ('opt', 'INTERVAL := T#100ms, '), 'PRIORITY := 1);\n  PROGRAM ', ('alt', ['', 'RETAIN ', 'NON_RETAIN ']), 'inst', ('opt', ' WITH t'), ' : p',
                        ('alt', ['', '(a := 1)', '(a := 1, o => g)']), ';\nEND_RESOURCE\nEND_CONFIGURATION\n'),
    'configuration_globals': _T('CONFIGURATION c\nVAR_GLOBAL', ('alt', ['', ' CONSTANT', ' RETAIN']), '\n  g', ('opt', ' AT %QX0.0'), ' : ', ('alt', ['INT', 'BOOL']), ('opt', ' := 1'), ';\nEND_VAR\nRESOURCE r ON PLC\n  TASK t(PRIORITY := 1);\n  PROGRAM inst WITH t : p;\nEND_RESOURCE\nEND_CONFIGURATION\n'),
    'edge_inputs': _T(('alt', ['FUNCTION f : INT\n', 'FUNCTION_BLOCK f\n']), 'VAR_INPUT', ('alt', ['', ' RETAIN', ' NON_RETAIN']), '\n  a : BOOL', ('alt', ['', ' R_EDGE', ' F_EDGE']), ';\n', ('opt', '  c : INT;\n'), 'END_VAR\n', ('alt', ['  f := 1;\nEND_FUNCTION\n', 'END_FUNCTION_BLOCK\n'])),
    'sfc_action_association': _T('FUNCTION_BLOCK fb\nVAR\n  done : BOOL;\n  busy : BOOL;\nEND_VAR\nINITIAL_STEP Start:\nEND_STEP\nSTEP Work:\n  act(', ('alt', ['', 'N', 'R', 'S', 'P']), ('opt', ', done'), ('opt', ', busy'),
                                 ');\nEND_STEP\nTRANSITION FROM Start TO Work\n  := TRUE;\nEND_TRANSITION\nACTION act:\n  done := TRUE;\nEND_ACTION\nEND_FUNCTION_BLOCK\n'),
    'sfc_transition': _T('FUNCTION_BLOCK fb\nVAR\n  done : BOOL;\nEND_VAR\nINITIAL_STEP Start:\nEND_STEP\nSTEP Work:\nEND_STEP\n', ('opt', 'STEP Other:\nEND_STEP\n'), 'TRANSITION ', ('opt', 'tr1 '), ('opt', '(PRIORITY := 2) '), 'FROM ', ('alt', ['Start', '(Start, Work)', '(Start, Work, Start)', '(Start,Work,Start,Work)', '(Start, Work, Start, Work, Start)']),
                         ' TO ', ('alt', ['Work', '(Work, Start)', '(Work, Start, Work, Start)']), '\n  := ', ('alt', ['TRUE', 'done', 'NOT done']), ';\nEND_TRANSITION\nEND_FUNCTION_BLOCK\n'),
}
_OPS = ['+', '-', '*', '/', 'MOD', '**', 'AND', '&', 'OR', 'XOR', '=', '<>', '<', '>', '<=', '>=']
TEMPLATES['binary_nesting_right'] = _FB([], ['  x := a ', ('alt', _OPS), ' (b ', ('alt', _OPS), ' c);\n'])
TEMPLATES['binary_nesting_left'] = _FB([], ['  x := (a ', ('alt', _OPS), ' b) ', ('alt', _OPS), ' c;\n'])
_OPS_Q = ['+', '-', '*', '**', 'AND', 'OR', 'XOR', '=', '<']
TEMPLATES['binary_nesting_right_q'] = _FB([], ['  x := a ', ('alt', _OPS_Q), ' (b ', ('alt', _OPS_Q), ' c);\n'])
TEMPLATES['binary_nesting_left_q'] = _FB([], ['  x := (a ', ('alt', _OPS_Q), ' b) ', ('alt', _OPS_Q), ' c;\n'])
K3_THOROUGH_ONLY = {'binary_nesting_right', 'binary_nesting_left'}; K3_QUICK_ONLY = {'binary_nesting_right_q', 'binary_nesting_left_q'}
TEMPLATES['unary_nesting'] = _FB([], ['  x := ', ('alt', ['-(a + b)', 'NOT (a AND b)', '-(-a)', 'NOT (NOT a)', '-a * b', '(-a) * b', '-(a * b)', 'NOT a AND b', 'NOT (a AND b) OR c', '-(a ** b)', '(-a) ** b', 'a - (-b)', 'a + (b)', '((a))']), ';\n'])
# segments of a body template may name declarations that need context; give every function block body the same context declarations
_CONTEXT = 'TYPE\n  c : (red, green) := red;\n  st : STRUCT\n    a : INT;\n  END_STRUCT;\nEND_TYPE\nFUNCTION_BLOCK callee\nVAR_INPUT\n  in1 : BOOL;\n  in2 : INT;\nEND_VAR\nVAR_OUTPUT\n  out1 : BOOL;\nEND_VAR\nEND_FUNCTION_BLOCK\n'

def _selectors(tpl):
    """the selector segments of a template: ('opt', text) and ('alt', [texts]); ('dep', k, [texts]) is not a selector, its text follows selector k"""
    return [s for s in tpl if isinstance(s, tuple) and s[0] in ('opt', 'alt')]

def _shapes(tpl):
    dims = [2 if s[0] == 'opt' else len(s[1]) for s in _selectors(tpl)]
    return dims

def _tpl_text(tpl, choice):
    out = []; k = 0
    for s in tpl:
        if isinstance(s, str): out.append(s); continue
        if s[0] == 'dep': out.append(s[2][choice[s[1]]]); continue
        c = choice[k]; k += 1
        if s[0] == 'opt': out.append(s[1] if c else '')
        else: out.append(s[1][c])
    return ''.join(out)

def _seg_label(seg, c):
    if seg[0] == 'opt': return 'with' if c else 'without'
    return re.sub(r'[^A-Za-z0-9#.<>=:*+-]+', '_', seg[1][c]).strip('_')[:24] or 'none'

def _cubes(tpl, shapes):
    """Group the failing shapes of a template into maximal cubes: a selector is replaced by `*` when, the others fixed, every value of it
    that the parser accepts fails.  Deterministic; returns [(role suffix, representative choice, member choices)]."""
    import itertools
    segs = _selectors(tpl)
    dims = _shapes(tpl)
    fail = {c for c, r in shapes.items() if r[0] == 'fail'}
    indom = {c for c, r in shapes.items() if r[0] in ('fail', 'ok', 'inconclusive')}
    out = {}
    for c in sorted(fail):
        cube = [{v} for v in c]
        for i in range(len(dims)):
            wide = list(cube); wide[i] = set(range(dims[i]))
            members = [m for m in itertools.product(*[sorted(x) for x in wide]) if m in indom]
            if members and all(m in fail for m in members): cube = wide
        members = tuple(m for m in itertools.product(*[sorted(x) for x in cube]) if m in indom)
        label = '/'.join('any' if (len(cube[i]) == dims[i] and dims[i] > 1) else _seg_label(segs[i], c[i]) for i in range(len(dims)))
        out.setdefault(label, (c, members))
    return [(lab, rep, mem) for lab, (rep, mem) in sorted(out.items())]

def _k3_job(job):
    name, prefixes = job
    ctx = _CTX; part = Part(); part.shapes = {}; part.tname = name; tpl = TEMPLATES[name]
    P = ctx.program()
    k_parse = P.find_fn('ironplc-parser', 'parse_program'); k_write = P.find_fn('ironplc-plc2plc', 'write_to_string')
    k_eq = P.impl_all.get(('Library', 'PartialEq', 'eq'))
    k_opt = [k for k in P.items if k[0] == 'ironplc-parser' and re.search(r'ParseOptions as (std::default::)?Default>::default|options::<impl at [^>]*>::default', k[1])]
    if not k_eq: part.inconc('Library::eq not found'); return part
    holder = {}; st = {}
    M = Machine(P, stubs=dyn_lexer_stubs(ctx, holder), max_steps=400_000_000)
    dims = _shapes(tpl)
    def entry(M):
        choice = []
        for i, d in enumerate(dims):
            v = M.fresh_bv('seg%d' % i, 8); M.declare_domain(v, list(range(d)))
            c = 0
            for val in range(d - 1):
                if M.branch(v == val): c = val; break
                c = val + 1
            choice.append(c)
        st['choice'] = choice
        text = _tpl_text(tpl, choice); st['src'] = text
        fid = Ref(Cell(Agg('FileId', [Str('f.st')])))
        opts = Ref(Cell(M.call_fn(k_opt[0], []) if k_opt else Agg('ParseOptions', [False])))
        r1 = M.call_fn(k_parse, [Ref(Cell(Str(text))), fid, opts])
        if r1.disc != 0: return ('not-a-program', None)
        lib = r1.f[0]
        r = M.call_fn(k_write, [Ref(Cell(lib))])
        if r.disc != 0: return ('render-error', None)
        out = r.f[0]; st['text'] = out.conc()
        r2 = M.call_fn(k_parse, [Ref(Cell(Str(list(out.b)))), fid, opts])
        if r2.disc != 0: return ('not-reparsable', None)
        same = M.call_fn(k_eq[0], [Ref(Cell(lib)), Ref(Cell(r2.f[0]))])
        return ('ok', same)
    def on_path(M, pr):
        part.paths += 1
        src = st.get('src'); choice = tuple(st.get('choice') or ())
        if pr.inconclusive: part.inconc('%s: %s' % (name, pr.inconclusive)); part.shapes[choice] = ('inconclusive', pr.inconclusive[:80], src, None); return
        if pr.panic: part.shapes[choice] = ('fail', 'parsing, rendering or re-parsing panics: %s' % pr.panic.msg[:80], src, None); part.nontrivial += 1; return
        kind, same = pr.result
        if kind == 'not-a-program': part.shapes[choice] = ('outside', None, src, None); return
        part.nontrivial += 1
        text = st.get('text')
        if kind == 'render-error': part.shapes[choice] = ('fail', 'the renderer reports an error for a library the parser produced', src, text); return
        if kind == 'not-reparsable': part.shapes[choice] = ('fail', 'the rendered text is not accepted by the parser', src, text); return
        same = simp(same)
        if same is not True: part.shapes[choice] = ('fail', 'the rendered text parses to a different library', src, text)
        else: part.shapes[choice] = ('ok', None, src, text)
        if len(part.samples) < 1: part.samples.append({'template': name, 'shape': list(choice), 'rendered_bytes': len(text or '')})
    if prefixes == 'split':
        done, pending = M.split(entry, 1)
        return [d.trace for d in done] + pending
    M.explore(entry, on_path, prefixes=prefixes)
    part.queries += M.stats['smt']; part.encoded = set(M.encoded); part.models = set(M.models_used)
    return part

@kernel('K3 renderer.template_shapes_roundtrip')
def k3(ctx, kr):
    global _CTX
    _CTX = ctx
    names = [n for n in TEMPLATES if n not in (K3_THOROUGH_ONLY if ctx.tier == 'quick' else K3_QUICK_ONLY)]
    import itertools
    nshapes = {n: len(list(itertools.product(*[range(d) for d in _shapes(TEMPLATES[n])]))) for n in names}
    kr.bounds = ('%d source templates with optional segments and alternatives (%d shapes in total; the shape selectors are symbolic, everything else concrete): parse_program -> write_to_string -> parse_program -> Library::eq, all run on the MIR of the tree; '
                 'shapes the parser rejects are outside the domain' % (len(names), sum(nshapes.values())))
    jobs = []
    for n in sorted(names, key=lambda n: -nshapes[n]):
        dims = _shapes(TEMPLATES[n])
        # one job per value of the first selector
        first = dims[0] if dims else 1
        for v in range(first):
            jobs.append((n, None) if first == 1 else (n, [_prefix_for(first, v)]))
    shapes = {n: {} for n in names}
    for part in par_map(_k3_job, jobs):
        shapes[part.tname].update(part.shapes); merge_part(kr, part)
    nfail = 0
    for n in names:
        sh = shapes[n]
        for lab, rep, members in _cubes(TEMPLATES[n], sh):
            st_, what, src, text = sh[rep]; nfail += len(members)
            kr.findings.append(Finding('C10/K3/%s/%s' % (n, lab), '%s (%d shape%s of template %s; e.g. source %r is rendered as %r)' % (what, len(members), 's' if len(members) > 1 else '', n, src[-120:], (text or '')[-120:]),
                                       {'source': src, 'rendered': text, 'shapes': [list(m) for m in members][:12]}, replay=REPLAYS['roundtrip'](src)))
        oks = [c for c, r in sh.items() if r[0] == 'ok']
        if oks and len(kr.validate) < 8: kr.validate.append(('roundtrip', (sh[sorted(oks)[0]][2],)))
    kr.notes.append('shapes: %d round-trip, %d fail, %d outside the parser\'s domain' % (sum(1 for n in names for r in shapes[n].values() if r[0] == 'ok'), nfail, sum(1 for n in names for r in shapes[n].values() if r[0] == 'outside')))
    P = ctx.program()
    kr.functions = fn_paths(P, getattr(kr, '_enc', set()))[:120] + ['ironplc-parser::<TokenType as Logos>::lex (lifted)']
    kr.stubs = LC.STUB_NOTES + ['concrete f64 values evaluated natively (floating point is not encoded symbolically)']
    kr.exhaustive = True
    kr.outside = ['constructs and combinations not in the templates; identifiers and literal values other than those written in the templates (leaf values: K1)']

def _prefix_for(d, v):
    """decision trace selecting value v of a selector with d values: branch(v == 0) false, ..., branch(v == val) true  (choose index 0 = condition true)"""
    return [1] * v + ([0] if v < d - 1 else [])


# ---------------------------------------------------------------------------------------------- K4 literal *texts* round trip (parse -> render -> parse), spelling symbolic
_D = ('d', None)          # one symbolic decimal digit
def _H(lo='0', hi='f'): return ('x', None)
LITERAL_TEXTS = {
    # name: (declaration prefix, literal pieces, suffix).  pieces: str | ('d',) decimal digit | ('x',) hex digit | ('b',) binary digit | ('o',) octal digit | ('c', quote) printable character other than quote and $ | ('e',) one of $ a N L 4 1
    'time_of_day_fraction': ('  x : TIME_OF_DAY := ', ['TOD#12:30:15.', ('d',), ('d',), ('d',)], ';\n'),
    'time_of_day_fields': ('  x : TIME_OF_DAY := ', ['TIME_OF_DAY#', ('d',), ('d',), ':', ('d',), ('d',), ':', ('d',), ('d',)], ';\n'),
    'date_and_time_fraction': ('  x : DATE_AND_TIME := ', ['DT#2020-01-01-12:30:15.', ('d',), ('d',)], ';\n'),
    'date_fields': ('  x : DATE := ', ['D#20', ('d',), ('d',), '-', ('d',), ('d',), '-', ('d',), ('d',)], ';\n'),
    'duration_seconds_fraction': ('  x : TIME := ', ['T#', ('d',), '.', ('d',), 's'], ';\n'),
    'duration_ms': ('  x : TIME := ', ['TIME#', ('d',), ('d',), 'ms'], ';\n'),
    'duration_seconds_fraction_long': ('  x : TIME := ', ['T#', ('d',), ('d',), '.', ('d',), 's'], ';\n'),
    'duration_ms_long': ('  x : TIME := ', ['TIME#', ('d',), ('d',), ('d',), 'ms'], ';\n'),
    'duration_minutes_fraction': ('  x : TIME := ', ['T#', ('d',), '.', ('d',), 'm'], ';\n'),
    'integer_underscore': ('  x : DINT := ', [('d',), '_', ('d',), ('d',)], ';\n'),
    'hex_integer': ('  x : DINT := ', ['16#', ('x',), ('x',)], ';\n'),
    'binary_integer': ('  x : DINT := ', ['2#', ('b',), ('b',), ('b',)], ';\n'),
    'octal_integer': ('  x : DINT := ', ['8#', ('o',), ('o',)], ';\n'),
    'single_byte_string': ("  x : STRING := ", ["'", ('c', "'"), ('c', "'"), "'"], ';\n'),
    'single_byte_string_escapes': ("  x : STRING := ", ["'", ('e',), ('e',), ('e',), ('e',), "'"], ';\n'),
    'double_byte_string_escapes': ('  x : WSTRING := ', ['"', ('e',), ('e',), ('e',), ('e',), '"'], ';\n'),
    'double_byte_string': ('  x : WSTRING := ', ['"', ('c', '"'), ('c', '"'), '"'], ';\n'),
    'string_with_length': ("  x : STRING[", [('d',), ('d',)], "] := 'ab';\n"),
    'subrange_variable': ('  x : INT(', [('d',), '..', '1', ('d',)], ');\n'),
}

def _k4_job(job):
    lname, = job
    ctx = _CTX; part = Part(); pre, pieces, post = LITERAL_TEXTS[lname]
    P = ctx.program()
    k_parse = P.find_fn('ironplc-parser', 'parse_program'); k_write = P.find_fn('ironplc-plc2plc', 'write_to_string')
    k_eq = P.impl_all.get(('Library', 'PartialEq', 'eq'))
    k_opt = [k for k in P.items if k[0] == 'ironplc-parser' and re.search(r'ParseOptions as (std::default::)?Default>::default|options::<impl at [^>]*>::default', k[1])]
    if not k_eq: part.inconc('Library::eq not found'); return part
    head = 'PROGRAM p\nVAR\n'; tail = 'END_VAR\nEND_PROGRAM\n'
    holder = {}; st = {}
    M = Machine(P, stubs=dyn_lexer_stubs(ctx, holder), max_steps=400_000_000)
    def entry(M):
        lit = []; st.clear()
        for i, pc in enumerate(pieces):
            if isinstance(pc, str): lit += list(pc.encode()); continue
            b = M.fresh_bv('l%d' % i, 8)
            if pc[0] == 'd': M.assume(z3.And(z3.UGE(b, 48), z3.ULE(b, 57)))
            elif pc[0] == 'b': M.assume(z3.Or(b == 48, b == 49))
            elif pc[0] == 'o': M.assume(z3.And(z3.UGE(b, 48), z3.ULE(b, 55)))
            elif pc[0] == 'x': M.assume(z3.Or(z3.And(z3.UGE(b, 48), z3.ULE(b, 57)), z3.And(z3.UGE(b, 65), z3.ULE(b, 70))))
            elif pc[0] == 'c': M.assume(z3.And(z3.UGE(b, 0x20), z3.ULE(b, 0x7E), b != ord(pc[1]), b != 0x24))
            elif pc[0] == 'e': M.assume(z3.Or([b == ord(ch) for ch in '$aNL41']))        # the characters escape sequences are made of
            lit.append(b)
        st['lit'] = lit
        text = list((head + pre).encode()) + lit + list((post + tail).encode())
        fid = Ref(Cell(Agg('FileId', [Str('f.st')])))
        opts = Ref(Cell(M.call_fn(k_opt[0], []) if k_opt else Agg('ParseOptions', [False])))
        r1 = M.call_fn(k_parse, [Ref(Cell(Str(text))), fid, opts])
        if r1.disc != 0: return ('not-a-program', None)
        lib = r1.f[0]
        r = M.call_fn(k_write, [Ref(Cell(lib))])
        if r.disc != 0: return ('render-error', None)
        out = r.f[0]; st['text'] = out
        r2 = M.call_fn(k_parse, [Ref(Cell(Str(list(out.b)))), fid, opts])
        if r2.disc != 0: return ('not-reparsable', None)
        same = M.call_fn(k_eq[0], [Ref(Cell(lib)), Ref(Cell(r2.f[0]))])
        return ('ok', same)
    def on_path(M, pr):
        part.paths += 1
        if pr.inconclusive: part.inconc('%s: %s' % (lname, pr.inconclusive)); return
        s = z3.Solver(); s.add(*pr.pc); s.set('timeout', 60000)
        def lit_of(m): return bytes(x if isinstance(x, int) else m.eval(x, True).as_long() for x in st['lit']).decode('utf-8', 'replace')
        def rendered(m):
            t = st.get('text')
            return bytes(x if isinstance(x, int) else m.eval(x, True).as_long() for x in t.b).decode('utf-8', 'replace') if t is not None else None
        def report(kind, what, extra=None):
            import framework
            s.push()
            t0 = time.time(); r, m, eng = framework.check_arith(list(pr.pc) + ([extra] if extra is not None else [])); part.solver_s += time.time() - t0; part.queries += 1
            if eng not in part.notes: part.notes.append(eng)
            if r == z3.unknown: part.inconc('solver unknown')
            if r == z3.sat:
                L = lit_of(m); src = head + pre + L + post + tail
                part.add('C10/K4/%s/%s' % (lname, kind), '%s literal %s: %s (rendered as %r)' % (lname.replace('_', ' '), L, what, (rendered(m) or '')[-60:]), {'literal': L, 'source': src, 'rendered': rendered(m)}, ('roundtrip', (src,)))
            s.pop()
        if pr.panic: part.nontrivial += 1; report('panic', 'parsing, rendering or re-parsing panics: ' + pr.panic.msg[:60]); return
        kind, same = pr.result
        if kind == 'not-a-program': return              # literal spellings the parser rejects are outside the domain of the round trip
        part.nontrivial += 1
        if kind == 'render-error': report('render-error', 'the renderer fails'); return
        if kind == 'not-reparsable': report('not-reparsable', 'the rendered text is rejected by the parser'); return
        report('value-changed', 'the rendered text parses to a different library', z3.Not(tobool(same)) if not isinstance(same, bool) else z3.BoolVal(not same))
        if len(part.validate) < 1 and s.check() == z3.sat:
            part.validate.append(('roundtrip', (head + pre + lit_of(s.model()) + post + tail,)))
        if len(part.samples) < 1: part.samples.append({'literal': lname})
    M.explore(entry, on_path, max_paths=4000)
    part.queries += M.stats['smt']; part.encoded = set(M.encoded); part.models = set(M.models_used)
    return part

@kernel('K4 renderer.literal_text_roundtrip')
def k4(ctx, kr):
    global _CTX
    _CTX = ctx
    kr.bounds = ('literal spellings with symbolic digits / characters inside `VAR x : T := <literal>; END_VAR` (%s): parse_program -> write_to_string -> parse_program -> Library::eq on the MIR, the lexer lifted on the symbolic source and on the symbolic rendered text; '
                 'spellings the parser rejects are outside the domain' % ', '.join(l for l in LITERAL_TEXTS if ctx.tier != 'quick' or not (l.endswith('_long') or l == 'duration_minutes_fraction')))
    THOROUGH_ONLY = {'duration_seconds_fraction_long', 'duration_ms_long', 'duration_minutes_fraction'}
    fams = [l for l in LITERAL_TEXTS if ctx.tier != 'quick' or l not in THOROUGH_ONLY]
    for part in par_map(_k4_job, [(l,) for l in fams]): merge_part(kr, part)
    P = ctx.program()
    kr.functions = fn_paths(P, getattr(kr, '_enc', set()))[:120] + ['ironplc-parser::<TokenType as Logos>::lex (lifted)']
    kr.stubs = LC.STUB_NOTES
    kr.exhaustive = True
    kr.outside = ['literal spellings other than the listed families; reals (floating point is not encoded)']

KERNELS = [k1, k2, k3, k4]
