"""C10 — re-rendering round-trips: echo output parses back to the same library (decided for leaf lexemes)."""
import time, json, re
import z3
from framework import kernel, Finding, fn_paths, Part, par_map, merge_part, replay_factory, REPLAYS
from mirsym.machine import *
from mirsym.mirread import Unsupported
from mirsym import models, lexlift
from . import lexcommon as LC

_CTX = None

def dyn_lexer_stubs(ctx, holder):
    """logos Lexer over whatever text `TokenType::lexer(source)` is given at run time (the rendered text): the lexer is lifted on demand"""
    LM = LC.lexmodel(ctx)
    def st_lexer(M, fr, callee, a):
        src = M.deref(a[0]); L = lexlift.Lift(LM, list(src.b)); toks = L.lex_all()
        holder['lifts'] = holder.get('lifts', 0) + 1
        return Agg('LogosLexer', [a[0], 0, 0, Opaque(toks)])
    def st_next(M, fr, callee, a):
        lx = M.deref(a[0]); pos = lx.f[2]; toks = lx.f[3].tag; N = len(toks) - 1
        if pos >= N: return none()
        kind, end = toks[pos]
        e = simp(end)
        if is_sym(e): e = M.enum_int(end, pos + 1, N)
        lx.f[1] = pos; lx.f[2] = e
        kd = simp(kind)
        iserr = (kd == lexlift.ERR) if not is_sym(kd) else M.branch(kind == lexlift.ERR)
        if iserr: return some(err(UNIT))
        if is_sym(kd):
            # the grammar dispatches on the token type: resolve it now (few candidates are feasible)
            kd = M.enum_int(kind, 0, len(LM.tokens) - 1)
        return some(ok(EnumV('TokenType', kd, [])))
    def st_span(M, fr, callee, a):
        lx = M.deref(a[0]); return Agg('Range', [lx.f[1], lx.f[2]])
    def st_slice(M, fr, callee, a):
        lx = M.deref(a[0]); src = M.deref(lx.f[0]); return Ref(Cell(Str(src.b[lx.f[1]:lx.f[2]])))
    def st_rlen(M, fr, callee, a):
        r = M.deref(a[0]); return r.f[1] - r.f[0]
    def st_tclone(M, fr, callee, a):
        v = M.deref(a[0]); return EnumV(v.name, v.disc, [])
    return {r'^<token::TokenType as logos::Logos<.*>>::lexer$': st_lexer, r'^<logos::Lexer<.*> as std::iter::Iterator>::next$': st_next,
            r'^logos::Lexer::<.*>::span$': st_span, r'^logos::Lexer::<.*>::slice$': st_slice,
            r'^<std::ops::Range<usize> as std::iter::ExactSizeIterator>::len$': st_rlen, r'^<token::TokenType as std::clone::Clone>::clone$': st_tclone}

def find_nodes(v, name, out=None, seen=None):
    if out is None: out = []; seen = set()
    if id(v) in seen: return out
    seen.add(id(v))
    if isinstance(v, (Agg, EnumV)):
        if re.sub(r'<.*', '', v.name).split('::')[-1] == name: out.append(v)
        for x in v.f: find_nodes(x, name, out, seen)
    elif isinstance(v, VecV):
        for x in v.items: find_nodes(x, name, out, seen)
    elif isinstance(v, Ref): find_nodes(v.cell.v, name, out, seen)
    return out

# leaf kinds: template, how to make the leaf symbolic, how to describe the model
def _sym_duration(M, lib, st):
    d = find_nodes(lib, 'DurationLiteral')[0]
    ns = M.fresh_bv('ns', 128); M.assume(z3.And(ns > -10 ** 10, ns < 10 ** 10)); st['ns'] = ns
    d.f[1] = Agg('time::Duration', [ns])
def _desc_duration(m, st):
    v = m.eval(st['ns'], True).as_signed_long(); return {'nanoseconds': v}, 'T#%dns' % v, _lit_duration(v)
def _lit_duration(ns):
    sign = '-' if ns < 0 else ''; ns = abs(ns)
    return 'T#%s%d.%06dms' % (sign, ns // 10 ** 6, ns % 10 ** 6) if ns % 10 ** 6 else 'T#%s%dms' % (sign, ns // 10 ** 6)

def _sym_integer(M, lib, st):
    n = find_nodes(lib, 'SignedInteger')[0]
    v = M.fresh_bv('val', 128); M.assume(z3.ULT(v, 10000)); neg = M.fresh_bool('neg'); st['v'] = v; st['neg'] = neg
    n.f[0].f[1] = v; n.f[1] = neg
def _desc_integer(m, st):
    v = m.eval(st['v'], True).as_long(); neg = z3.is_true(m.eval(st['neg'], True))
    return {'value': v, 'negative': neg}, '%s%d' % ('-' if neg else '', v), '%s%d' % ('-' if neg else '', v)

def _sym_date(M, lib, st):
    n = find_nodes(lib, 'DateLiteral')[0]
    y = M.fresh_bv('year', 32); mo = M.fresh_bv('month', 8); d = M.fresh_bv('day', 8)
    M.assume(z3.And(y >= 0, y <= 9999, z3.UGE(mo, 1), z3.ULE(mo, 12), z3.UGE(d, 1), z3.ULE(d, 28))); st['ymd'] = (y, mo, d)
    n.f[0] = Agg('time::Date', [y, mo, d])
def _desc_date(m, st):
    y, mo, d = [m.eval(x, True).as_long() for x in st['ymd']]
    return {'year': y, 'month': mo, 'day': d}, 'D#%d-%d-%d' % (y, mo, d), 'DATE#%04d-%02d-%02d' % (y, mo, d)

def _sym_tod(M, lib, st):
    n = find_nodes(lib, 'TimeOfDayLiteral')[0]
    h = M.fresh_bv('h', 8); mi = M.fresh_bv('min', 8); s_ = M.fresh_bv('s', 8); ns = 0      # the parser never produces a fraction (C09 finding), so libraries in its image have nanoseconds = 0
    M.assume(z3.And(z3.ULT(h, 24), z3.ULT(mi, 60), z3.ULT(s_, 60))); st['hms'] = (h, mi, s_, ns)
    n.f[0] = Agg('time::Time', [h, mi, s_, ns])
def _desc_tod(m, st):
    h, mi, s_, ns = [x if isinstance(x, int) else m.eval(x, True).as_long() for x in st['hms']]
    frac = ('.%09d' % ns).rstrip('0') if ns else ''
    return {'h': h, 'm': mi, 's': s_, 'nanos': ns}, 'TOD#%d:%d:%d%s' % (h, mi, s_, frac), 'TIME_OF_DAY#%02d:%02d:%02d%s' % (h, mi, s_, frac)

LEAVES = {
    'duration': dict(text='PROGRAM p\nVAR\n  x : TIME := T#5ms;\nEND_VAR\nEND_PROGRAM\n', sym=_sym_duration, desc=_desc_duration, decl='x : TIME := %s;'),
    'integer': dict(text='PROGRAM p\nVAR\n  x : INT := 5;\nEND_VAR\nEND_PROGRAM\n', sym=_sym_integer, desc=_desc_integer, decl='x : INT := %s;'),
    'date': dict(text='PROGRAM p\nVAR\n  x : DATE := DATE#2024-01-20;\nEND_VAR\nEND_PROGRAM\n', sym=_sym_date, desc=_desc_date, decl='x : DATE := %s;'),
    'time_of_day': dict(text='PROGRAM p\nVAR\n  x : TIME_OF_DAY := TIME_OF_DAY#12:30:15;\nEND_VAR\nEND_PROGRAM\n', sym=_sym_tod, desc=_desc_tod, decl='x : TIME_OF_DAY := %s;'),
}

def _k1_job(job):
    leaf, = job
    ctx = _CTX; part = Part(); spec = LEAVES[leaf]
    P = ctx.program()
    lib0, _ = LC.parse_concrete(ctx, spec['text'])
    k_render = P.find_fn('ironplc-plc2plc', 'renderer::apply')
    k_tok = P.find_fn('ironplc-parser', 'lexer::tokenize')
    k_x = P.find_fn('ironplc-parser', 'xform_tokens::insert_keyword_statement_terminators')
    k_p = P.find_fn('ironplc-parser', 'parser::parse_library')
    k_eq = P.impl_all.get(('Library', 'PartialEq', 'eq'))
    if not k_eq: part.inconc('Library::eq not found'); return part
    holder = {}; st = {}
    M = Machine(P, stubs=dyn_lexer_stubs(ctx, holder), max_steps=200_000_000)
    def entry(M):
        lib = deep_clone(lib0); st.clear()
        spec['sym'](M, lib, st)
        r = M.call_fn(k_render, [Ref(Cell(lib))])
        if r.disc != 0: return ('render-error', r)
        text = r.f[0]; st['text'] = text
        fid = Ref(Cell(Agg('FileId', [Str('f.st')])))
        tk = M.call_fn(k_tok, [Ref(Cell(Str(list(text.b)))), fid])
        if tk.f[1].items: return ('lex-error', text)
        tokens = M.call_fn(k_x, [tk.f[0], fid])
        lib2 = M.call_fn(k_p, [tokens])
        if lib2.disc != 0: return ('parse-error', text)
        same = M.call_fn(k_eq[0], [Ref(Cell(lib)), Ref(Cell(Agg('Library', [lib2.f[0]])))])
        return ('ok', same)
    def on_path(M, pr):
        part.paths += 1
        if pr.inconclusive: part.inconc(pr.inconclusive); return
        s = z3.Solver(); s.add(*pr.pc); s.set('timeout', 60000)
        def model_text(m):
            t = st.get('text')
            return bytes(x if isinstance(x, int) else m.eval(x, True).as_long() for x in t.b).decode('utf-8', 'replace') if t is not None else None
        def report(kind, what, extra=None):
            if extra is not None: s.add(extra)
            t0 = time.time(); r = s.check(); part.solver_s += time.time() - t0; part.queries += 1
            if r == z3.unknown: part.inconc('solver unknown'); return
            if r != z3.sat: return
            m = s.model(); wit, short, lit = spec['desc'](m, st)
            role = 'C10/K1/%s/%s' % (leaf, kind)
            if leaf == 'duration' and kind == 'value-changed': role += '/sub-millisecond' if wit['nanoseconds'] % 10 ** 6 else '/whole-milliseconds'
            if leaf == 'integer' and kind != 'value-changed': role += '/negative' if wit['negative'] else '/non-negative'
            if leaf == 'time_of_day' and kind == 'value-changed': role += '/fraction' if wit['nanos'] else '/whole-seconds'
            src = spec['text'].split(':=')[0].rsplit('\n', 1)[0] + '\n  ' + spec['decl'] % lit + '\nEND_VAR\nEND_PROGRAM\n'
            part.add(role, '%s literal %s: %s (rendered as %r)' % (leaf, short, what, (model_text(m) or '')[:120]), dict(wit, rendered=model_text(m), source=src), ('roundtrip', (src,)))
        part.nontrivial += 1
        if pr.panic: report('panic', 'rendering or re-parsing panics: ' + pr.panic.msg[:60]); return
        kind, val = pr.result
        if kind == 'render-error': report('render-error', 'the renderer fails'); return
        if kind == 'lex-error': report('not-reparsable', 'the rendered text is not valid lexically'); return
        if kind == 'parse-error': report('not-reparsable', 'the rendered text is rejected by the parser'); return
        report('value-changed', 'the rendered text parses to a different value', z3.Not(tobool(val)) if not isinstance(val, bool) else z3.BoolVal(not val))
        if len(part.samples) < 1: part.samples.append({'leaf': leaf, 'rendered_len': len(st['text'].b)})
    M.explore(entry, on_path, max_paths=3000)
    part.queries += M.stats['smt']; part.encoded = set(M.encoded); part.models = set(M.models_used)
    part.notes.append('%s: lexer lifted %d times on rendered text' % (leaf, holder.get('lifts', 0)))
    return part

@replay_factory('roundtrip')
def _replay_roundtrip(src):
    def rp(ctx):
        r = ctx.replay({'cmd': 'render', 'source': src})
        if 'panic' in r: return True, r
        if not r.get('ok'): return (None if r.get('stage') == 'parse' else True), r
        bad = (not r.get('reparse_ok')) or (not r.get('equal'))
        return bad, {'source': src, 'rendered': r.get('text'), 'reparse_ok': r.get('reparse_ok'), 'equal': r.get('equal'), 'diag': r.get('diag')}
    return rp

@kernel('K1 renderer.leaf_roundtrip')
def k1(ctx, kr):
    global _CTX
    _CTX = ctx
    leaves = list(LEAVES)
    kr.bounds = ('leaf literals inside `VAR x : T := <literal>; END_VAR`: duration (|ns| < 10^10, symbolic), integer (value < 10^4 and sign symbolic), date (every valid year/month/day<=28), time of day (h, m, s, nanoseconds symbolic); '
                 'render -> lexer (lifted on the rendered text) -> parser -> derived PartialEq of Library')
    for part in par_map(_k1_job, [(l,) for l in leaves]): merge_part(kr, part)
    P = ctx.program()
    kr.functions = fn_paths(P, getattr(kr, '_enc', set()))[:80] + ['ironplc-parser::<TokenType as Logos>::lex (lifted)']
    kr.stubs = LC.STUB_NOTES + ['format!/to_string of integers by contract (decimal digits, fill/width)', 'time crate by contract']
    kr.exhaustive = True
    kr.outside = ['structural round trip of declarations, statements, configurations, SFC; reals (floating point is not encoded); strings with escapes']

# ---------------------------------------------------------------------------------------------- K2 write_ws separates lexemes
@kernel('K2 renderer.write_ws_separates_lexemes')
def k2(ctx, kr):
    P = ctx.program()
    key = P.find_fn('ironplc-plc2plc', 'write_ws')
    M = Machine(P)
    st = {}
    for n in range(0, 3):
        def entry(M):
            b = [M.fresh_bv('b', 8) for _ in range(n)]; st['b'] = b
            for x in b: M.assume(z3.ULT(x, 0x80))
            ind = M.fresh_bv('indents', 64); M.assume(z3.ULT(ind, 3)); st['ind'] = M.enum_int(ind, 0, 2)
            r = Cell(Agg('LibraryRenderer', [Str(list(b)), st['ind']]))
            M.call_fn(key, [Ref(r), Ref(Cell(Str('x')))])
            return r.v.f[0]
        def on_path(M, pr):
            kr.paths += 1
            if pr.inconclusive: kr.inconc(pr.inconclusive); return
            kr.nontrivial += 1
            if pr.panic: kr.findings.append(Finding('C10/K2/panic', 'write_ws panics: ' + pr.panic.msg[:50], {}, None)); return
            out = pr.result.b; b = st['b']
            s = z3.Solver(); s.add(*pr.pc); kr.queries += 1
            # the lexeme is appended; if the buffer was non-empty and did not end in blank/newline a blank separates them; nothing of the buffer is lost
            conds = [z3.BoolVal(len(out) >= n + 1 and out[-1] == ord('x'))]
            conds += [tobv(out[i], 8) == b[i] for i in range(min(n, len(out)))]
            if n:
                sep_needed = z3.And(b[-1] != 32, b[-1] != 10)
                conds.append(z3.Implies(sep_needed, z3.BoolVal(len(out) == n + 2 and not is_sym(out[n]) and out[n] == 32)))
                conds.append(z3.Implies(b[-1] == 10, z3.BoolVal(len(out) == n + 1 + 3 * st['ind'])))
            s.add(z3.Not(z3.And(conds)))
            if s.check() == z3.sat:
                data = bytes(s.model().eval(x, True).as_long() for x in b)
                kr.findings.append(Finding('C10/K2/lexemes-fuse', 'write_ws does not separate the lexeme from buffer %r (indents %d): %r' % (data, st['ind'], out), {'buffer': list(data)}, None))
            if len(kr.samples) < 2: kr.samples.append({'buffer_len': n, 'indents': st['ind'], 'out_len': len(out)})
        M.explore(entry, on_path)
    kr.queries += M.stats['smt']
    kr.functions = fn_paths(P, M.encoded); kr.models = sorted(M.models_used)
    kr.bounds = 'buffer tail of 0..2 symbolic ASCII bytes, indent level 0..2, one lexeme'
    kr.exhaustive = True

KERNELS = [k1, k2]
