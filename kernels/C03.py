"""C03 — no error is masked: a defect anywhere in the compilation set makes check fail."""
import time, json, itertools, re
import z3
from framework import kernel, Finding, fn_paths, Part, par_map, merge_part, replay_factory, REPLAYS
from mirsym.machine import *
from mirsym.mirread import Unsupported
from mirsym import models
from . import lexcommon as LC, topo_common as TC

def _fault_codes(code): return (code,) if isinstance(code, str) else tuple(code)

_CTX = None
GOOD = 'PROGRAM p%d\nVAR\n  x : INT;\nEND_VAR\n  x := 1;\nEND_PROGRAM\n'
BAD_SYNTAX = 'PROGRAM q%d\nVAR\n  x : INT\nEND_VAR\nEND_PROGRAM\n'
BAD_SEM = 'PROGRAM r%d\nVAR\n  x : INT;\nEND_VAR\n  y := 1;\nEND_PROGRAM\n'

def diag(tag): return Agg('Diagnostic', [Str(tag), Str('desc'), Agg('Label', [Agg('Location', [0, 0]), Agg('FileId', [Str('')]), Str('')]), VecV(), VecV()])

def project_machine(ctx, N, events):
    """FileBackedProject::semantic with parse_program and analyze replaced by nondeterministic stubs (contract: analyze of an empty set is Err)"""
    P = ctx.program()
    sem = P.impl_all.get(('FileBackedProject', 'Project', 'semantic'))
    if not sem: raise Unsupported('FileBackedProject::semantic not found')
    key = sem[0]
    st = {}
    def stub_parse(M, fr, callee, a):
        data = M.deref(a[0]).conc(); i = int(data)
        okb = st['parse_ok'][i]
        events.append(('parse', i))
        # the library a file parses to is an uninterpreted value of its text: two files may hold equal declarations
        if M.branch(okb): return ok(Agg('Library', [VecV([SymStr(st['content'][i])])]))
        return err(diag('parse%d' % i))
    def stub_analyze(M, fr, callee, a):
        libs = M.deref(a[0]); n = len(libs.items)
        events.append(('analyze', n))
        if n == 0: return err(VecV([diag('P0030')]))
        if M.branch(st['an_ok']): return ok(UNIT)
        return err(VecV([diag('sem')]))
    M = Machine(P, stubs={r'^ironplc_parser::parse_program$': stub_parse, r'^ironplc_analyzer::stages::analyze$': stub_analyze})
    def entry(M):
        events.clear()
        st['parse_ok'] = [M.fresh_bool('parse_ok') for _ in range(N)]
        st['an_ok'] = M.fresh_bool('analyze_ok')
        st['content'] = [M.fresh_bv('content%d' % i, 32) for i in range(N)]
        from . import lspcommon as LSP
        srcs = VecV([Agg('()', [Agg('FileId', [Str('f%d' % i)]), LSP.new_source(M, P, 'f%d' % i, str(i))]) for i in range(N)])
        proj = Cell(Agg('FileBackedProject', [srcs]))
        return M.call_fn(key, [Ref(proj)])
    return M, entry, st

def _codes(M, res):
    out = []
    if res.disc == 1:
        for d in res.f[0].items:
            d = M.deref(d); c = M.deref(d.f[0]); out.append(c.conc() if isinstance(c, Str) else '?')
    return out

def _k1_job(job):
    N, = job
    ctx = _CTX; part = Part(); events = []
    M, entry, st = project_machine(ctx, N, events)
    seen = {}
    def on_path(M, pr):
        part.paths += 1
        if pr.inconclusive: part.inconc(pr.inconclusive); return
        s = z3.Solver(); s.add(*pr.pc)
        t = time.time(); r = s.check(); part.solver_s += time.time() - t; part.queries += 1
        if r != z3.sat: return
        m = s.model(); part.nontrivial += 1
        pok = [z3.is_true(m.eval(b, True)) for b in st['parse_ok']]; aok = z3.is_true(m.eval(st['an_ok'], True))
        wit = {'files': N, 'parse_ok': pok, 'analyze_ok': aok}
        if pr.panic:
            part.add('C03/K1/panic', 'FileBackedProject::semantic panics: %s' % pr.panic.msg, wit, None); return
        codes = _codes(M, pr.result); is_err = pr.result.disc == 1
        bad_files = [i for i in range(N) if not pok[i]]
        some_parsed = any(pok)
        if bad_files and not is_err:
            part.add('C03/K1/parse-error-masked-when-analysis-succeeds', 'a file that fails to parse is ignored when the remaining files analyse successfully: semantic() returns Ok',
                     wit, ('project', (['good' if p else 'bad_syntax' for p in pok],)))
        elif bad_files and any(('parse%d' % i) not in codes for i in bad_files):
            part.add('C03/K1/parse-diagnostic-dropped', 'semantic() fails but omits the diagnostic of a file that failed to parse (%s)' % codes, wit, ('project', (['good' if p else 'bad_syntax' for p in pok], True)))
        if some_parsed and not aok and (not is_err or 'sem' not in codes):
            part.add('C03/K1/semantic-error-masked', 'analysis diagnostics are not propagated by semantic()', wit, ('project', (['bad_sem' if i == 0 else 'good' for i in range(N)],)))
        seen_by_analysis = [e[1] for e in events if e[0] == 'analyze']
        if seen_by_analysis and seen_by_analysis[-1] != sum(pok):
            same = [(i, j) for i in range(N) for j in range(i + 1, N) if pok[i] and pok[j] and m.eval(st['content'][i], True).as_long() == m.eval(st['content'][j], True).as_long()]
            part.add('C03/K1/library-dropped-before-analysis', '%d files parsed but the analysis is given %d libraries (files with equal declarations: %s): declarations of a whole file are never analysed' % (sum(pok), seen_by_analysis[-1], same),
                     dict(wit, equal_files=same), ('project_copies', (N,)))
        if not bad_files and aok and is_err:
            part.add('C03/K1/spurious-error', 'semantic() fails although every file parsed and analysis succeeded (%s)' % codes, wit, ('project', (['good'] * N,)))
        # C06-K1: the verdict is a function of the outcomes, not of the hash iteration order
        keyv = (tuple(pok), aok if some_parsed else None)
        if keyv in seen and seen[keyv] != (is_err, sorted(codes)):
            part.add('C06/K1/hash-order-dependence', 'result of semantic() depends on the iteration order of the source map: %s vs %s' % (seen[keyv], (is_err, sorted(codes))), wit, None)
        seen.setdefault(keyv, (is_err, sorted(codes)))
        if not part.findings and len(part.validate) < 2:
            kinds = ['bad_syntax' if not p else 'good' for p in pok]
            if not aok and 'good' in kinds: kinds[kinds.index('good')] = 'bad_sem'
            part.validate.append(('project', (kinds,)))
        if len(part.samples) < 2: part.samples.append({'outcomes': wit, 'result': 'Err%s' % codes if is_err else 'Ok', 'events': list(events)[:6]})
    M.explore(entry, on_path)
    part.queries += M.stats['smt']; part.encoded = set(M.encoded); part.models = set(M.models_used)
    return part

@replay_factory('project')
def _replay_project(kinds, each_bad_file=False):
    def rp(ctx):
        srcs = [{'good': GOOD, 'bad_syntax': BAD_SYNTAX, 'bad_sem': BAD_SEM}[k] % i for i, k in enumerate(kinds)]
        r = ctx.replay({'cmd': 'check', 'sources': srcs})
        if 'panic' in r: return True, r
        expect_fail = any(k != 'good' for k in kinds)
        if not expect_fail and not r['ok']: return True, {'kinds': kinds, 'project_semantic_ok': False, 'codes': [d['code'] for d in r.get('diagnostics', [])]}
        if each_bad_file:
            named = {d.get('file') for d in r.get('diagnostics', [])}
            missing = ['f%d.st' % i for i, k in enumerate(kinds) if k == 'bad_syntax' and ('f%d.st' % i) not in named]
            if missing: return True, {'kinds': kinds, 'files_without_their_diagnostic': missing, 'diagnostics': [(d['code'], d.get('file')) for d in r.get('diagnostics', [])]}
        files = {('f%d.st' % i): s for i, s in enumerate(srcs)}
        rc, out, errt = ctx.ironplcc(['check'], files)
        return (r['ok'] and expect_fail) or (rc == 0 and expect_fail), {'kinds': kinds, 'project_semantic_ok': r['ok'], 'cli_exit': rc, 'cli_stdout': out[:80], 'codes': [d['code'] for d in r.get('diagnostics', [])]}
    return rp

@replay_factory('project_copies')
def _replay_project_copies(n):
    def rp(ctx):
        # the same declarations in two files (second copy re-formatted): the duplicate names must be diagnosed
        a = GOOD % 0; b = a.replace('\n', '\n\n').replace('PROGRAM', 'program')
        files = {'f0.st': a, 'f1.st': b}
        for i in range(2, n): files['f%d.st' % i] = GOOD % i
        rc, out, errt = ctx.ironplcc(['check'], files)
        return rc == 0, {'files': sorted(files), 'cli_exit': rc, 'cli_stdout': out[:80], 'codes': sorted(set(re.findall(r'error\[(P\d{4})\]', errt)))}
    return rp

@kernel('K1 project.semantic_merge')
def k1(ctx, kr):
    global _CTX
    _CTX = ctx
    NMAX = 3 if ctx.tier == 'quick' else 4
    kr.bounds = 'compilation sets of 1..%d files; per file parse outcome symbolic (Ok / Err), analysis outcome symbolic, every iteration order of the source HashMap' % NMAX
    for part in par_map(_k1_job, [(n,) for n in range(NMAX, 0, -1)]): merge_part(kr, part)
    P = ctx.program()
    kr.functions = fn_paths(P, getattr(kr, '_enc', set()))
    kr.stubs = ['ironplc_parser::parse_program -> arbitrary Ok(Library_i) / Err(diagnostic_i)', 'ironplc_analyzer::stages::analyze -> Err(P0030) on an empty set, otherwise arbitrary Ok / Err([sem])']
    kr.assumptions = ['HashMap iteration order is an arbitrary permutation (fresh hash seed per run)']
    kr.exhaustive = True
    kr.outside = ['more than %d files; what analyze() itself does with the libraries (C02/C03-K3/K4)' % NMAX]


# ---------------------------------------------------------------------------------------------- K3 toposort re-assembly keeps every declaration
DECL = {
    'enum': 'TYPE\n  %(n)s : (X%(i)d, Y%(i)d) := X%(i)d;\nEND_TYPE\n',
    'subrange': 'TYPE\n  %(n)s : INT (1..%(k)d);\nEND_TYPE\n',
    'struct': 'TYPE\n  %(n)s : STRUCT\n    m%(i)d : INT;\n  END_STRUCT;\nEND_TYPE\n',
    'array': 'TYPE\n  %(n)s : ARRAY [1..%(k)d] OF INT;\nEND_TYPE\n',
    'simple': 'TYPE\n  %(n)s : INT := %(k)d;\nEND_TYPE\n',
    'string': 'TYPE\n  %(n)s : STRING[%(k)d];\nEND_TYPE\n',
    'fb': 'FUNCTION_BLOCK %(n)s\nVAR\n  v%(i)d : INT;\nEND_VAR\nEND_FUNCTION_BLOCK\n',
    'function': 'FUNCTION %(n)s : INT\nVAR_INPUT\n  v%(i)d : INT;\nEND_VAR\n  v%(i)d := 1;\nEND_FUNCTION\n',
    'program': 'PROGRAM %(n)s\nVAR\n  v%(i)d : INT;\nEND_VAR\nEND_PROGRAM\n',
}
MARK = {'enum': 'x%d', 'subrange': None, 'struct': 'm%d', 'array': None, 'simple': None, 'string': None, 'fb': 'v%d', 'function': 'v%d', 'program': 'v%d'}
CLASS = {'enum': 'type', 'subrange': 'type', 'struct': 'type', 'array': 'type', 'simple': 'postfix-type', 'string': 'postfix-type', 'fb': 'pou', 'function': 'pou', 'program': 'pou'}

def _decl_text(kinds, names):
    return ''.join(DECL[k] % {'n': names[i], 'i': i, 'k': i + 2} for i, k in enumerate(kinds))

def _k3_job(job):
    kinds, = job
    ctx = _CTX; part = Part()
    P = ctx.program()
    K = len(kinds)
    lib0, text = TC.build(ctx, [_decl_text(kinds, ['nm%d' % i for i in range(K)])])
    key = P.find_fn('ironplc-analyzer', 'xform_toposort_declarations::apply')
    M = Machine(P, max_steps=50_000_000)
    sym = {}
    ALPHA = ['a', 'b', 'c'][:max(2, K)]
    def entry(M):
        lib = deep_clone(lib0)
        ids = {n: models.str_term(M, Str(n)) for n in ALPHA}
        mapping = {}
        for i in range(K):
            v = M.fresh_bv('name_%d' % i, 32); M.assume(z3.Or([v == ids[n] for n in ALPHA])); sym[i] = (v, ids)
            mapping['nm%d' % i] = (lambda v: (lambda orig: TC.ident_sym(v, orig)))(v)
        return M.call_fn(key, [LC.subst_names(lib, mapping)])
    def on_path(M, pr):
        part.paths += 1
        if pr.inconclusive: part.inconc(pr.inconclusive); return
        s = z3.Solver(); s.add(*pr.pc)
        t = time.time(); r = s.check(); part.solver_s += time.time() - t; part.queries += 1
        if r != z3.sat: return
        m = s.model(); part.nontrivial += 1
        names = []
        for i in range(K):
            v, ids = sym[i]; val = m.eval(v, True).as_long()
            names.append([n for n in ALPHA if ids[n].as_long() == val][0])
        src = _decl_text(kinds, names)
        dup = len(set(names)) < K
        classes = '+'.join(sorted(CLASS[k] for k in kinds))
        if pr.panic:
            part.add('C03/K3/panic/%s' % '+'.join(kinds), 'toposort apply panics: %s' % pr.panic.msg, {'source': src}, ('dupdecl', (src, dup))); return
        res = pr.result
        if res.disc == 1: return          # a diagnostic is raised: nothing is masked at this stage
        n_out = len(res.f[0].f[0].items)
        if n_out != K:
            role = 'C03/K3/declaration-dropped/%s/%s' % ('same-name' if dup else 'distinct-names', classes)
            part.add(role, 'toposort re-assembly returns %d of %d declarations (%s named %s): a declaration is silently dropped before any rule sees it' % (n_out, K, '+'.join(kinds), names),
                     {'kinds': list(kinds), 'names': names, 'source': src}, ('dupdecl', (src, dup)))
        elif not dup and len(part.validate) < 1: part.validate.append(('dupdecl', (src, dup)))
        if len(part.samples) < 1: part.samples.append({'kinds': list(kinds), 'names': names, 'declarations_out': n_out})
    M.explore(entry, on_path)
    part.queries += M.stats['smt']; part.encoded = set(M.encoded); part.models = set(M.models_used)
    return part

@replay_factory('dupdecl')
def _replay_dupdecl(src, dup):
    def rp(ctx):
        r = ctx.replay({'cmd': 'analyze', 'sources': [src]})
        if 'panic' in r: return True, r
        if 'parse_error' in r: return None, r
        # a unit with two declarations of one name must be diagnosed; a unit that loses a declaration silently analyses OK
        return bool(r.get('ok')) and dup, {'source': src, 'analyze_ok': r.get('ok'), 'codes': [d['code'] for d in r.get('diagnostics', [])]}
    return rp

@kernel('K3 toposort.reassembly_keeps_declarations')
def k3(ctx, kr):
    global _CTX
    _CTX = ctx
    kinds = ['enum', 'struct', 'simple', 'fb', 'function', 'program'] if ctx.tier == 'quick' else list(DECL)
    jobs = [((a, b),) for a in kinds for b in kinds]
    if ctx.tier == 'thorough': jobs += [((a, b, c),) for a in ('enum', 'struct', 'fb', 'program') for b in ('enum', 'fb', 'simple') for c in ('struct', 'function')]
    kr.bounds = 'every ordered pair of declarations over the kinds %s with names symbolic over a 2-letter alphabet (equal or distinct)%s' % (kinds, '; thorough: selected triples' if ctx.tier == 'thorough' else '')
    for part in par_map(_k3_job, jobs): merge_part(kr, part)
    P = ctx.program()
    kr.functions = fn_paths(P, getattr(kr, '_enc', set()))
    kr.assumptions = ['petgraph toposort by contract; HashMap as association list over the interpreted Id equality']
    kr.exhaustive = True
    kr.outside = ['more than %d declarations; StructureInitialization / late-bound alias declarations' % (3 if ctx.tier == 'thorough' else 2)]


# ---------------------------------------------------------------------------------------------- K4 two declarations with one name are diagnosed by resolve_types
def _k4_job(job):
    kinds = job[0]; split = len(job) > 1 and job[1]
    ctx = _CTX; part = Part()
    P = ctx.program()
    K = len(kinds)
    lib0 = None
    if split:
        # two files, one declaration each, equal in everything but (possibly) the name
        libs0 = [TC.build(ctx, [DECL[k] % {'n': 'nm%d' % i, 'i': 0, 'k': 2}])[0] for i, k in enumerate(kinds)]
    else:
        lib0, text = TC.build(ctx, [_decl_text(kinds, ['nm%d' % i for i in range(K)])])
    key = P.find_fn('ironplc-analyzer', 'stages::resolve_types')
    M = Machine(P, max_steps=100_000_000); M.toposort_deterministic = True
    sym = {}; ALPHA = ['a', 'b']
    def entry(M):
        lib = deep_clone(lib0) if not split else None
        ids = {n: models.str_term(M, Str(n)) for n in ALPHA}
        mapping = {}
        for i in range(K):
            v = M.fresh_bv('name_%d' % i, 32); M.assume(z3.Or([v == ids[n] for n in ALPHA])); sym[i] = (v, ids)
            mapping['nm%d' % i] = (lambda v: (lambda orig: TC.ident_sym(v, orig)))(v)
        if split: return M.call_fn(key, [Ref(Cell(VecV([Ref(Cell(LC.subst_names(deep_clone(l), mapping))) for l in libs0])))])
        lib = LC.subst_names(lib, mapping)
        return M.call_fn(key, [Ref(Cell(VecV([Ref(Cell(lib))])))])
    def on_path(M, pr):
        part.paths += 1
        if pr.inconclusive: part.inconc(pr.inconclusive); return
        s = z3.Solver(); s.add(*pr.pc); part.nontrivial += 1
        same = sym[0][0] == sym[1][0]
        is_err = (pr.result.disc == 1) if not pr.panic else None
        codes = _codes(M, pr.result) if is_err else []
        # equal names must be diagnosed (by any code); look for an assignment consistent with the path where they are equal and the result is Ok
        s.add(same if (pr.panic or not is_err) else z3.BoolVal(False))
        t = time.time(); r = s.check(); part.solver_s += time.time() - t; part.queries += 1
        if r == z3.sat:
            m = s.model(); names = []
            for i in range(K):
                v, ids = sym[i]; val = m.eval(v, True).as_long(); names.append([n for n in ALPHA if ids[n].as_long() == val][0])
            src = _decl_text(kinds, names); classes = '+'.join(sorted(CLASS[k] for k in kinds))
            if split: src = [DECL[k] % {'n': names[i], 'i': 0, 'k': 2} for i, k in enumerate(kinds)]
            tag = '/two-equal-files' if split else ''
            if pr.panic: part.add('C03/K4/panic/' + '+'.join(kinds) + tag, 'resolve_types panics: ' + pr.panic.msg[:60], {'source': src}, ('samename', (src,)))
            else: part.add('C03/K4/same-name-not-diagnosed/%s%s' % ('+'.join(sorted(kinds)), tag), 'a %s and a %s declared with one name (%s)%s pass type resolution without any diagnostic' % (kinds[0], kinds[1], names[0], ', each in a file of its own and otherwise equal,' if split else ''), {'kinds': list(kinds), 'source': src}, ('samename', (src,)))
        if len(part.samples) < 1: part.samples.append({'kinds': list(kinds), 'result': 'Err%s' % codes if is_err else 'Ok'})
    M.explore(entry, on_path)
    part.queries += M.stats['smt']; part.encoded = set(M.encoded); part.models = set(M.models_used)
    return part

@replay_factory('samename')
def _replay_samename(src):
    def rp(ctx):
        r = ctx.replay({'cmd': 'analyze', 'sources': [src] if isinstance(src, str) else list(src)})
        if 'panic' in r: return True, r
        if 'parse_error' in r: return None, r
        return bool(r.get('ok')), {'source': src, 'analyze_ok': r.get('ok'), 'codes': [d['code'] for d in r.get('diagnostics', [])]}
    return rp

@kernel('K4 resolve_types.same_name_diagnosed')
def k4(ctx, kr):
    global _CTX
    _CTX = ctx
    pairs = [('enum', 'fb'), ('struct', 'fb'), ('fb', 'enum'), ('enum', 'function'), ('enum', 'program'), ('fb', 'function'), ('fb', 'fb'), ('enum', 'struct'), ('simple', 'enum'), ('simple', 'fb')]
    kr.bounds = 'pairs of declarations %s with names symbolic over a 2-letter alphabet, through the real stages::resolve_types (all four transforms)' % pairs
    twins = [('fb', 'fb'), ('enum', 'enum'), ('struct', 'struct'), ('function', 'function'), ('program', 'program'), ('simple', 'simple')]
    kr.bounds += '; and two files holding one declaration each, equal but for the symbolic name: ' + str(twins)
    for part in par_map(_k4_job, [(p_,) for p_ in pairs] + [(p_, True) for p_ in twins]): merge_part(kr, part)
    P = ctx.program()
    kr.functions = fn_paths(P, getattr(kr, '_enc', set()))[:80]
    kr.assumptions = ['petgraph toposort / Dfs by contract (deterministic order: the verdict does not depend on it, C06-K2)']
    kr.exhaustive = True

# ---------------------------------------------------------------------------------------------- K5 a valid declaration elsewhere in the unit never hides a rule finding
@kernel('K5 rules.finding_not_masked_by_other_declarations')
def k5(ctx, kr):
    """the C02 rule templates that hold two independent declarations (two POUs, two configurations), in both orders: whenever the documented rule
    requires a diagnostic for one of them, the rule reports it whatever the other declaration contains (names symbolic)"""
    from . import C02 as K02
    K02._CTX = ctx
    rules = [r for r in K02.RULES if K02.RULES[r].get('swap')]
    kr.bounds = 'rule templates with two independent declarations ' + str(rules) + ', identifiers symbolic over the template alphabet, both orders of the two declarations: a required diagnostic is never missing'
    jobs = [(r, sw) for r in rules for sw in (False, True)]
    for (r, sw), part in zip(jobs, par_map(K02._rule_job, jobs)):
        spec = K02.RULES[r]
        fs = []
        for names, got in part.verdicts.items():
            want = spec['ref'](list(names))
            if want and got != 'panic' and not (set(got) & set(want)) and not fs:
                src = K02._subst_text(spec['text'], list(names))
                fs.append({'role': 'C03/K5/' + r + '/masked', 'what': 'rule ' + r + ' with names ' + str(list(names)) + (' (declarations exchanged)' if sw else '') + ' reports ' + (str(list(got)) if got else 'nothing') + ' although ' + str(sorted(want)) + ' is required: a finding in one declaration is hidden by the other',
                           'witness': {'names': list(names), 'source': src}, 'replay': ('rule', (src, sorted(want), r))})
        part.findings = fs; part.validate = part.validate[:1]
        merge_part(kr, part)
    P = ctx.program()
    kr.functions = fn_paths(P, getattr(kr, '_enc', set()))
    kr.exhaustive = True
    kr.outside = ['rules and templates without two independent declarations']


# ---------------------------------------------------------------------------------------------- K6 a fault is never hidden by the company it keeps
def _k6_job(job):
    uname, cname, order, split = job
    from . import tplcommon as TP
    from .units import FAULTY, COMPANIONS
    decls, code, labs = FAULTY[uname]
    unit = ''.join(decls); comp = COMPANIONS[cname]
    seq = [unit, comp] if order == 0 else [comp, unit]
    files = [''.join(seq)] if not split else seq
    outs, part = TP.analyze_files(_CTX, files)
    for o in outs:
        if o == 'rejected': part.inconc('%s + %s does not parse' % (uname, cname)); continue
        kind, ds = o
        if not any(d[0] in _fault_codes(code) for d in ds):
            part.add('C03/K6/%s/masked-by-%s' % (uname, cname), 'the fault of unit %s (%s) is not reported when the valid declaration(s) %r %s it%s: analysis returns %s' % (uname, code, cname, 'follow' if order == 0 else 'precede',
                     ' in a second file' if split else '', [d[0] for d in ds] or 'success'), {'files': files}, ('unit_masked', (uname, cname)))
        if len(part.samples) < 1: part.samples.append({'unit': uname, 'companion': cname, 'codes': [d[0] for d in ds]})
    if not part.findings and len(part.validate) < 1: part.validate.append(('unit_masked', (uname, cname)))
    return part

@replay_factory('unit_masked')
def _replay_unit_masked(uname, cname):
    def rp(ctx):
        from . import tplcommon as TP
        from .units import FAULTY, COMPANIONS
        decls, code, labs = FAULTY[uname]
        unit = ''.join(decls); comp = COMPANIONS[cname]
        bad = []
        for files in ([unit + comp], [comp + unit], [unit, comp], [comp, unit]):
            got = TP.real_analyze(ctx, files)
            if got == 'panic': return True, {'files': files, 'result': 'panic'}
            if got == 'rejected': return None, {'files': files, 'result': 'rejected'}
            if not any(g[0] in _fault_codes(code) for g in got): bad.append({'files': files, 'codes': [g[0] for g in got]})
        return bool(bad), {'unit': uname, 'companion': cname, 'fault_code': code, 'not_reported_in': bad[:2]}
    return rp

@kernel('K6 analyze.fault_not_masked_by_companions')
def k6(ctx, kr):
    global _CTX
    _CTX = ctx
    from .units import FAULTY, COMPANIONS, CURABLE
    units = [u for u in FAULTY if u not in CURABLE]
    kr.bounds = ('%d single-fault units (%s) x %d valid companion declarations (%s), the companion before or after the unit, in the same file or in a second file: parse_program + stages::analyze on the MIR, every toposort tie-break; '
                 'the fault\'s problem code is still reported' % (len(units), ', '.join(units), len(COMPANIONS), ', '.join(COMPANIONS)))
    comps = list(COMPANIONS) if ctx.tier != 'quick' else ['function_block', 'configuration']
    jobs = [(u, c, o, sp) for u in units for c in comps for o in (0, 1) for sp in (False, True)]
    for part in par_map(_k6_job, jobs): merge_part(kr, part)
    P = ctx.program()
    kr.functions = fn_paths(P, getattr(kr, '_enc', set()))[:150]
    kr.exhaustive = True
    kr.outside = ['faults that a companion may legitimately cure (undeclared type / enumeration / instance / task); more than one companion; hash order of the project map (K1)']


# ---------------------------------------------------------------------------------------------- K2 a lexical error anywhere makes parse_program fail
def _k2_job(job):
    where, nb = job
    from . import C10 as K10, lexcommon as LC
    from mirsym import lexlift
    ctx = _CTX; part = Part()
    P = ctx.program()
    pre, post = {'in_declarations': ('PROGRAM p\nVAR\n  x : INT;\n', '\nEND_VAR\n  x := 1;\nEND_PROGRAM\n'), 'in_body': ('PROGRAM p\nVAR\n  x : INT;\nEND_VAR\n  x := 1;', '\nEND_PROGRAM\n'),
                 'after_the_program': ('PROGRAM p\nVAR\n  x : INT;\nEND_VAR\n  x := 1;\nEND_PROGRAM\n', '\n')}[where]
    k_parse = P.find_fn('ironplc-parser', 'parse_program')
    k_opt = [k for k in P.items if k[0] == 'ironplc-parser' and re.search(r'ParseOptions as (std::default::)?Default>::default|options::<impl at [^>]*>::default', k[1])]
    holder = {}; st = {}
    M = Machine(P, stubs=K10.dyn_lexer_stubs(ctx, holder), max_steps=400_000_000)
    LM = LC.lexmodel(ctx)
    u = [z3.BitVec('u%d' % i, 8) for i in range(nb)]
    valid, _ = LC.utf8_valid(u)
    allb = list(pre.encode()) + u + list(post.encode()); N = len(allb)
    # the lexer of the same tree, lifted on the same text: is some token of the stream an error token?
    L = lexlift.Lift(LM, allb); toks = L.lex_all()
    reach = LC.stream(toks, N)
    has_err = z3.Or([z3.And(reach[e], toks[e][0] == lexlift.ERR) for e in range(N)])
    M.base_constraints = [valid]
    def entry(M):
        fid = Ref(Cell(Agg('FileId', [Str('f.st')])))
        opts = Ref(Cell(M.call_fn(k_opt[0], []) if k_opt else Agg('ParseOptions', [False])))
        return M.call_fn(k_parse, [Ref(Cell(Str(list(allb)))), fid, opts])
    def on_path(M, pr):
        part.paths += 1
        if pr.inconclusive: part.inconc('%s: %s' % (where, pr.inconclusive)); return
        part.nontrivial += 1
        s = z3.Solver(); s.add(valid, *pr.pc)
        def wit(role, what, cond):
            s.push(); s.add(cond); part.queries += 1
            if s.check() == z3.sat:
                m = s.model(); data = bytes(x if isinstance(x, int) else m.eval(x, True).as_long() for x in allb)
                part.add(role, '%s (text %r)' % (what, data.decode('utf-8', 'replace')[len(pre) - 8:len(pre) + nb + 8]), {'source': data.decode('utf-8', 'replace')}, ('lexical_error_fails', (data.decode('utf-8', 'replace'),)))
            s.pop()
        if pr.panic: wit('C03/K2/%s/panic' % where, 'parse_program panics: ' + pr.panic.msg[:50], z3.BoolVal(True)); return
        if pr.result.disc == 0: wit('C03/K2/%s/lexical-error-accepted' % where, 'the text holds a character sequence that is no token, yet parse_program returns a library', has_err)
        elif len(part.validate) < 1:
            s.push(); s.add(has_err)
            if s.check() == z3.sat:
                m = s.model(); part.validate.append(('lexical_error_fails', (bytes(x if isinstance(x, int) else m.eval(x, True).as_long() for x in allb).decode('utf-8', 'replace'),)))
            s.pop()
        if len(part.samples) < 1: part.samples.append({'where': where, 'bytes': nb, 'result': 'Ok' if pr.result.disc == 0 else 'Err'})
    M.explore(entry, on_path, max_paths=6000)
    part.queries += M.stats['smt']; part.encoded = set(M.encoded); part.models = set(M.models_used)
    return part

@replay_factory('lexical_error_fails')
def _replay_lexical_error_fails(src):
    def rp(ctx):
        t = ctx.replay({'cmd': 'tokenize', 'source': src})
        if 'panic' in t: return True, t
        if not t['diagnostics']: return None, {'note': 'the real lexer reports no error for this text', 'source': src[-80:]}
        r = ctx.replay({'cmd': 'check', 'sources': [src]})
        if 'panic' in r: return True, r
        return bool(r.get('ok')), {'source': src[-120:], 'lexical_diagnostics': len(t['diagnostics']), 'check_ok': r.get('ok'), 'codes': [d['code'] for d in r.get('diagnostics', [])]}
    return rp

@kernel('K2 parser.lexical_error_fails_the_file')
def k2(ctx, kr):
    global _CTX
    _CTX = ctx
    NB = (1,) if ctx.tier == 'quick' else (1, 2)
    kr.bounds = ('a valid program with %s symbolic bytes of valid UTF-8 inserted in the declarations, in the body or after the program: whenever the lexer of the same tree (lifted from its MIR) yields an error token for the text, '
                 'parse_program (preprocess, tokenize, terminator insertion, peg parser; from the MIR) returns Err' % (list(NB),))
    jobs = [(w, nb) for w in ('in_declarations', 'in_body', 'after_the_program') for nb in (1, 2)]       # three bytes after the program exhaust the path budget (6000 paths after 68 minutes): outside the claim
    if ctx.tier == 'quick': jobs = [(w, 1) for w in ('in_declarations', 'in_body', 'after_the_program')]
    for part in par_map(_k2_job, jobs): merge_part(kr, part)
    P = ctx.program()
    kr.functions = fn_paths(P, getattr(kr, '_enc', set()))[:100] + ['ironplc-parser::<TokenType as Logos>::lex (lifted)']
    kr.exhaustive = True
    kr.outside = ['longer insertions; several errors in one file']


# ---------------------------------------------------------------------------------------------- K7 no file named on the command line is dropped before it is checked
@kernel('K7 cli.no_argument_dropped')
def k7(ctx, kr):
    """a file that never reaches the project cannot make the check fail: same kernel as C13-K6 (cli::create_project with the real enumerate_files and project)"""
    from . import C13 as K13
    K13._k6_run(ctx, kr, 'C03/K7')

# ---------------------------------------------------------------------------------------------- K8 a file whose text is replaced is parsed again
@kernel('K8 project.replaced_text_is_reparsed')
def k8(ctx, kr):
    """the language server keeps one project and replaces the text of a file (FileBackedProject::change_text_document): after text 0 was checked and text 1 took its place,
    checking reports what text 1 deserves - in particular a text 1 that does not parse fails the check although text 0 did parse (no cached library survives its text)"""
    events = []
    M, entry0, st = project_machine(ctx, 2, events)
    P = ctx.program()
    sem = P.impl_all.get(('FileBackedProject', 'Project', 'semantic')); chg = P.impl_all.get(('FileBackedProject', 'Project', 'change_text_document'))
    if not sem or not chg: kr.inconc('FileBackedProject::{semantic, change_text_document} not found'); return
    def entry(M):
        events.clear()
        st['parse_ok'] = [M.fresh_bool('parse_ok_text%d' % i) for i in range(2)]; st['an_ok'] = M.fresh_bool('analyze_ok')
        st['content'] = [M.fresh_bv('content%d' % i, 32) for i in range(2)]
        proj = Cell(Agg('FileBackedProject', [VecV([])])); fid = Ref(Cell(Agg('FileId', [Str('f0')])))
        M.call_fn(chg[0], [Ref(proj), fid, Str('0')]); st['first'] = M.call_fn(sem[0], [Ref(proj)])
        M.call_fn(chg[0], [Ref(proj), fid, Str('1')]); return M.call_fn(sem[0], [Ref(proj)])
    def on_path(M, pr):
        kr.paths += 1
        if pr.inconclusive: kr.inconc(pr.inconclusive); return
        kr.nontrivial += 1
        s = z3.Solver(); s.add(*pr.pc); s.check(); m = s.model(); kr.queries += 1
        pok = [z3.is_true(m.eval(b, True)) for b in st['parse_ok']]; aok = z3.is_true(m.eval(st['an_ok'], True))
        wit = {'first_text_parses': pok[0], 'second_text_parses': pok[1], 'analysis_ok': aok}
        rep = ('project_replace', (pok[0], pok[1]))
        if pr.panic: kr.findings.append(Finding('C03/K8/panic', 'checking after a replaced text panics: ' + pr.panic.msg[:60], wit, replay=REPLAYS[rep[0]](*rep[1]))); return
        codes = _codes(M, pr.result); is_err = pr.result.disc == 1
        role = None
        if not pok[1] and (not is_err or 'parse1' not in codes): role, what = 'C03/K8/parse-error-of-the-new-text-lost', 'the new text of the file does not parse, but the check %s' % ('succeeds' if not is_err else 'reports only %s' % codes)
        elif pok[1] and 'parse0' in codes: role, what = 'C03/K8/diagnostic-of-the-old-text-kept', 'the new text parses, but the check still reports the parse error of the text it replaced'
        elif pok[1] and aok and is_err: role, what = 'C03/K8/spurious-error', 'the new text parses and analyses, but the check fails with %s' % codes
        if role and not any(f.role == role for f in kr.findings): kr.findings.append(Finding(role, what + ' (first text %s)' % ('parsed' if pok[0] else 'did not parse'), wit, replay=REPLAYS[rep[0]](*rep[1])))
        elif not role and len(kr.validate) < 2: kr.validate.append(rep)
        if len(kr.samples) < 4: kr.samples.append({'outcomes': wit, 'second_check': 'Err%s' % codes if is_err else 'Ok'})
    M.explore(entry, on_path)
    kr.queries += M.stats['smt']
    kr.functions = fn_paths(P, M.encoded); kr.models = sorted(M.models_used)
    kr.stubs = ['ironplc_parser::parse_program -> Ok / Err as an uninterpreted function of the text', 'ironplc_analyzer::stages::analyze -> Err(P0030) on an empty set, otherwise arbitrary Ok / Err']
    kr.bounds = 'one file, two successive texts with symbolic parse outcomes, a check after each: FileBackedProject::change_text_document and ::semantic with the real Source'
    kr.exhaustive = True

@replay_factory('project_replace')
def _replay_project_replace(first_ok, second_ok):
    def rp(ctx):
        import lspclient
        good = GOOD % 0; bad = BAD_SYNTAX % 0
        s = lspclient.LspSession(ctx.ironplcc_path()); uri = 'file:///tmp/verif_c03_replace.st'
        try:
            s.initialize()
            s.did_open(uri, good if first_ok else bad, 1); s.diagnostics_for(uri, version=1, timeout=10)
            s.did_change(uri, [good if second_ok else bad], 2); d = s.diagnostics_for(uri, version=2, timeout=10)
        finally:
            s.close()
        if d is None: return True, {'note': 'no diagnostics published for the replaced text'}
        n = len(d['params']['diagnostics'])
        return (n == 0) != second_ok, {'first_text_parses': first_ok, 'second_text_parses': second_ok, 'diagnostics_after_the_replacement': n}
    return rp

KERNELS = [k1, k8, k3, k4, k5, k6, k2, k7]
