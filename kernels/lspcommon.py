"""Shared modelling of the LSP server environment (lsp_server / crossbeam / serde by contract) for C11, C12, C15."""
import re
import z3
from mirsym.machine import *
from mirsym.mirread import Unsupported
from mirsym import models

REQ_METHODS = {'Shutdown': 'shutdown', 'SemanticTokensFullRequest': 'textDocument/semanticTokens/full'}
NOTIF_METHODS = {'Exit': 'exit', 'DidOpenTextDocument': 'textDocument/didOpen', 'DidChangeTextDocument': 'textDocument/didChange'}
MORE_NOTIF_METHODS = {'Cancel': '$/cancelRequest', 'DidCloseTextDocument': 'textDocument/didClose', 'DidSaveTextDocument': 'textDocument/didSave', 'Initialized': 'initialized'}

def new_source(M, P, fid, data):
    """a Source value built by the real `Source::new(data, &file_id)` of the current tree (whatever fields the struct has)"""
    keys = [k for k in P.items if k[0] == 'ironplcc' and re.fullmatch(r'source::<impl at [^>]*>::new', k[1]) and P.items[k].ret.endswith('Source')]
    if len(keys) != 1: raise Unsupported('Source::new: %d candidates' % len(keys))
    d = data if isinstance(data, Str) else Str(data)
    f = fid if not isinstance(fid, str) else Agg('FileId', [Str(fid)])
    return M.call_fn(keys[0], [d, Ref(Cell(f))])

def mkstruct(P, _struct_name, **kw):
    name = _struct_name
    fs = [f for f, _ in P.structs.get(name, [])]
    if not fs: raise Unsupported('layout of %s unknown' % name)
    for k in kw:
        if k not in fs: raise Unsupported('%s has no field %s (has %s)' % (name, k, fs))
    return Agg(name, [kw.get(f, Opaque(('unset', name, f))) for f in fs])

def method_of(assoc):
    """'ASSOC:Shutdown:METHOD' -> the type name"""
    return assoc.split(':')[1]

class Env:
    """records what the server sends; provides the stubs"""
    def __init__(self, P, M=None):
        self.P = P; self.sent = []; self.calls = []
        self.params = {}           # type name -> params value to hand out when extract succeeds
        self.json_ok = {}          # type name -> bool term: params deserialise
    def stubs(self):
        P = self.P
        def st_send(M, fr, callee, a):
            self.sent.append(a[1]); return ok(UNIT)
        def st_new_ok(M, fr, callee, a): return Agg('Response', [a[0], some(a[1]), none()])
        def st_new_err(M, fr, callee, a): return Agg('Response', [a[0], none(), some(Agg('ResponseError', list(a[1:])))])
        def st_notif_new(M, fr, callee, a): return Agg('Notification', [a[0], a[1]])
        def st_extract(M, fr, callee, a):
            # lsp_server::{Request,Notification}::extract(self, method): MethodMismatch(self) iff self.method != method;
            # otherwise Ok(params) or JsonError when the params do not deserialise
            msg = a[0]; want = M.deref(a[1])
            isreq = 'Request::extract' in callee
            meth = msg.f[1] if isreq else msg.f[0]
            same = models.str_eq(M, meth, want)
            if not M.branch(same): return err(EnumV('ExtractError', 0, [msg]))
            tname = method_of(want.conc()) if isinstance(want, Str) and want.conc().startswith('ASSOC:') else None
            okb = self.json_ok.get(tname)
            if okb is None: okb = self.json_ok[tname] = M.fresh_bool('json_ok_' + str(tname))
            if M.branch(okb):
                p = self.params.get(tname, UNIT)
                p = p() if callable(p) else p
                return ok(Agg('()', [msg.f[0], p])) if isreq else ok(p)
            return err(EnumV('ExtractError', 1, [meth, Opaque('serde_json::Error')]))
        def st_url_part(M, fr, callee, a):
            # url::Url accessors over the textual URL (scheme = text before the first ':')
            u = M.deref(a[0]); t = M.deref(u.f[0]).conc(); part = callee.rsplit('::', 1)[1]
            if t is None: raise Unsupported('symbolic URL text')
            if part == 'scheme': return Ref(Cell(Str(t.split(':', 1)[0])))
            if part == 'as_str': return Ref(Cell(Str(t)))
            rest = t.split(':', 1)[1]
            return Ref(Cell(Str(re.sub(r'^//[^/]*', '', rest))))
        # lsp_server::ReqQueue by contract: `incoming.pending` is the set of request ids registered and not yet completed / cancelled
        def rq(M, v):
            while isinstance(v, Ref): v = M.deref(v)
            return v
        def id_eq(M, x, y):
            x = rq(M, x); y = rq(M, y)
            a_, b_ = x.f[0], y.f[0]
            if isinstance(a_, (Str, SymStr)) != isinstance(b_, (Str, SymStr)): return False
            if isinstance(a_, (Str, SymStr)): return M.branch(models.str_eq(M, a_, b_))
            return M.branch(v_eq(a_, b_))
        def st_rq_default(M, fr, callee, a): return Agg('ReqQueue', [Agg('Incoming', [VecV()]), Agg('Outgoing', [VecV()])])
        def st_in_register(M, fr, callee, a): rq(M, a[0]).f[0].items.append(Agg('()', [deep_clone(rq(M, a[1])), a[2]])); return UNIT
        def _take(M, inc, rid):
            for k, e in enumerate(inc.f[0].items):
                if id_eq(M, e.f[0], rid): return inc.f[0].items.pop(k)
            return None
        def st_in_complete(M, fr, callee, a):
            e = _take(M, rq(M, a[0]), a[1]); return some(e.f[1]) if e is not None else none()
        def st_in_cancel(M, fr, callee, a):
            e = _take(M, rq(M, a[0]), a[1])
            if e is None: return none()
            return some(Agg('Response', [deep_clone(rq(M, a[1])), none(), some(Agg('ResponseError', [-32800, Str('canceled by client'), none()]))]))
        def st_in_is_completed(M, fr, callee, a):
            inc = rq(M, a[0])
            for e in inc.f[0].items:
                if id_eq(M, e.f[0], a[1]): return False
            return True
        def st_rid_from(M, fr, callee, a): return Agg('RequestId', [a[0]])
        return {
            r'^<lsp_server::ReqQueue<.*> as std::default::Default>::default$': st_rq_default,
            r'^lsp_server::(req_queue::)?Incoming::<.*>::register$': st_in_register, r'^lsp_server::(req_queue::)?Incoming::<.*>::complete$': st_in_complete,
            r'^lsp_server::(req_queue::)?Incoming::<.*>::cancel$': st_in_cancel, r'^lsp_server::(req_queue::)?Incoming::<.*>::is_completed$': st_in_is_completed,
            r'^<lsp_server::RequestId as std::convert::From<(i32|std::string::String)>>::from$': st_rid_from,
            r'^<(i32|std::string::String) as std::convert::Into<lsp_server::RequestId>>::into$': st_rid_from,
            r'^crossbeam_channel::Sender::<.*>::send$': st_send,
            r'^lsp_server::Response::new_ok': st_new_ok,
            r'^lsp_server::Response::new_err': st_new_err,
            r'^lsp_server::Notification::new': st_notif_new,
            r'^lsp_server::Request::new': lambda M, fr, c, a: mkstruct(P, 'Request', id=a[0], method=a[1], params=a[2]),
            r'^lsp_server::(Request|Notification)::extract': st_extract,
            r'^<lsp_server::(RequestId|Notification|Request) as std::clone::Clone>::clone$': lambda M, fr, c, a: deep_clone(M.deref(a[0])),
            r'^<lsp_types::Url as std::clone::Clone>::clone$': lambda M, fr, c, a: deep_clone(M.deref(a[0])),
            r'^lsp_types::Url::(scheme|as_str|path)$': st_url_part,
        }

def sym_method(M, name, known_types):
    """a method string that is one of the known METHOD constants or some other text (5 symbolic printable ASCII bytes, so that
    prefix / character tests the server makes on unknown method names are decided by the solver)"""
    v = M.fresh_bv(name, 32); M.declare_domain(v, list(range(len(known_types) + 1)))
    ids = {t: z3.BitVecVal(i, 32) for i, t in enumerate(known_types)}
    for i, t in enumerate(known_types):
        if M.branch(v == i):
            s = Str('ASSOC:%s:METHOD' % t); return s, v, ids
    bs = []
    for k in range(5):
        b = M.fresh_bv('%s_byte%d' % (name, k), 8); M.assume(z3.And(z3.UGE(b, 0x21), z3.ULE(b, 0x7E))); bs.append(b)
    return Str(bs), v, ids
