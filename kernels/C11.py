"""C11 — LSP diagnostics depend only on current document contents and equal `check`."""
import time, json, re, itertools
import z3
from framework import kernel, Finding, fn_paths, Part, par_map, merge_part, replay_factory
from mirsym.machine import *
from mirsym.mirread import Unsupported
from mirsym import models
from . import lspcommon as LSP

CR = ['ironplcc', 'ironplc-dsl', 'ironplc-parser', 'ironplc-analyzer']
URIS = ['file:///a.st', 'file:///b.st']
TEXTS = ['T1', 'T2', 'T3']

def diag(tag, file):
    return Agg('Diagnostic', [Str(tag), Str('desc'), Agg('Label', [Agg('Location', [0, 0]), Agg('FileId', [Str(file)]), Str('')]), VecV(), VecV()])

class World:
    """stubs that make parse/analyze uninterpreted functions of the text / of the set of parsed texts"""
    def __init__(self, P, M_holder):
        self.P = P; self.parse_ok = {}; self.an_ok = {}; self.env = LSP.Env(P); self.changes = []
    def stubs(self):
        def st_parse(M, fr, callee, a):
            data = M.deref(a[0]).conc(); fid = M.deref(M.deref(a[1]).f[0]).conc()
            b = self.parse_ok.get(data)
            if b is None: b = self.parse_ok[data] = M.fresh_bool('parse_ok_' + data)
            if M.branch(b): return ok(Agg('Library', [VecV([Str('lib:%s:%s' % (fid, data))])]))
            return err(diag('parse:%s:%s' % (fid, data), fid))
        def st_analyze(M, fr, callee, a):
            libs = M.deref(a[0]); tags = tuple(sorted(M.deref(x).f[0].items[0].conc() for x in libs.items))
            if not tags: return err(VecV([diag('P0030', '')]))
            b = self.an_ok.get(tags)
            if b is None: b = self.an_ok[tags] = M.fresh_bool('an_ok')
            if M.branch(b): return ok(UNIT)
            # a semantic diagnostic that names every file of the set (primary = first, secondaries = the rest)
            files = [t.split(':')[1] for t in tags]
            d = diag('sem:' + '|'.join(tags), files[0]); d.f[4] = VecV([Agg('Label', [Agg('Location', [0, 0]), Agg('FileId', [Str(f)]), Str('')]) for f in files[1:]])
            return err(VecV([d]))
        def st_to_path(M, fr, callee, a):
            u = M.deref(a[0]); s = M.deref(u.f[0]).conc()
            return ok(Str(s[len('file://'):])) if s.startswith('file:///') else err(UNIT)
        def st_from_path(M, fr, callee, a): return Agg('FileId', [Str(list(M.deref(a[0]).b))])
        def st_mapdiag(M, fr, callee, a): return a[0]
        st = self.env.stubs()
        st.update({r'^ironplc_parser::parse_program$': st_parse, r'^ironplc_analyzer::stages::analyze$': st_analyze,
                   r'^lsp_types::Url::to_file_path$': st_to_path, r'FileId::from_path': st_from_path, r'^lsp_project::map_diagnostic$': st_mapdiag})
        return st

def _project_value(P, docs, M=None):
    srcs = VecV([Agg('()', [Agg('FileId', [Str(u[len('file://'):])]), LSP.new_source(M, P, u[len('file://'):], t)]) for u, t in docs.items()])
    return Ref(Cell(Agg('project::FileBackedProject', [srcs])))

def _new_server(M, P, docs):
    """LspServer { sender, project: LspProject::new(Box<FileBackedProject holding docs>) } built by the real constructor, so that
    every field the tree's LspProject has is initialised the way the tree initialises it"""
    k_new = [k for k in P.items if k[0] == 'ironplcc' and re.fullmatch(r'lsp_project::<impl at [^>]*>::new', k[1])]
    if len(k_new) != 1: raise Unsupported('LspProject::new: %d candidates' % len(k_new))
    proj = M.call_fn(k_new[0], [_project_value(P, docs, M)])
    # the server value comes from the tree's own constructor, so that every field the tree declares is initialised the way the tree does it
    k_srv = [k for k in P.items if k[0] == 'ironplcc' and re.fullmatch(r'lsp::<impl at [^>]*>::new', k[1])]
    if len(k_srv) != 1: raise Unsupported('LspServer::new: %d candidates' % len(k_srv))
    return Ref(Cell(M.call_fn(k_srv[0], [Ref(Cell(Opaque('sender'))), proj])))

def _wrapped(M, P, server):
    fs = [f for f, _ in P.structs.get('LspProject', [])]; sf = [f for f, _ in P.structs.get('LspServer', [])]
    return M.deref(M.deref(server).f[sf.index('project')].f[fs.index('wrapped')])

def _notif(P, kind, uri, version, texts):
    if kind == 'open':
        params = LSP.mkstruct(P, 'DidOpenTextDocumentParams', text_document=LSP.mkstruct(P, 'TextDocumentItem', uri=Agg('Url', [Str(uri)]), language_id=Str('st'), version=version, text=Str(texts[0])))
        name = 'DidOpenTextDocument'
    else:
        params = LSP.mkstruct(P, 'DidChangeTextDocumentParams', text_document=LSP.mkstruct(P, 'VersionedTextDocumentIdentifier', uri=Agg('Url', [Str(uri)]), version=version),
                              content_changes=VecV([LSP.mkstruct(P, 'TextDocumentContentChangeEvent', range=none(), range_length=none(), text=Str(t)) for t in texts]))
        name = 'DidChangeTextDocument'
    return name, params

def _k3_job(job):
    """history: list of (kind, uri index, texts) ; the last notification is the one asserted"""
    hist, = job
    ctx = _CTX; part = Part()
    P = ctx.program(CR)
    key = P.find_fn('ironplcc', 'handle_notification')
    W = World(P, None); st_v = {}
    M = Machine(P, stubs=W.stubs())
    def entry(M):
        W.parse_ok.clear(); W.an_ok.clear(); W.env.sent.clear()
        def play(history, versions=None):
            server = _new_server(M, P, {}); outs = []
            for n, (kind, ui, texts) in enumerate(history):
                W.env.json_ok.clear(); W.env.sent.clear()
                name, params = _notif(P, kind, URIS[ui], versions[n] if versions else 10 + n, texts)
                W.env.params = {name: params}
                W.env.json_ok = {name: True, 'Exit': True}
                notif = LSP.mkstruct(P, 'Notification', method=Str('ASSOC:%s:METHOD' % name), params=Opaque('json'))
                M.call_fn(key, [server, Ref(Cell(notif))])
                outs.append(list(W.env.sent))
            return server, outs
        # the version numbers are the client's: any 32-bit integers, in any order (a client restarts them when it re-opens a document)
        vers = [M.fresh_bv('version%d' % n, 32) for n in range(len(hist))]; st_v['vers'] = vers
        server, outs = play(hist, vers)
        # reference run on the same path (same uninterpreted parse/analysis outcomes): a fresh server that is only ever told the current contents
        cur = {}
        for k, u, t in hist:
            if t: cur[u] = t[-1]
        lu = hist[-1][1]; fresh = None
        if lu in cur:
            fh = [('open', u, [t]) for u, t in cur.items() if u != lu] + [('open', lu, [cur[lu]])]
            fresh = play(fh)[1][-1]
        return server, outs, fresh
    def on_path(M, pr):
        part.paths += 1
        if pr.inconclusive: part.inconc(pr.inconclusive); return
        part.nontrivial += 1
        hdesc = [(k, URIS[u], t) for k, u, t in hist]
        wit = {'history': hdesc}
        if pr.panic:
            last = hist[-1]
            role = 'C11/K3/panic/didChange-without-content-changes' if (last[0] == 'change' and len(last[2]) == 0) else 'C11/K3/panic'
            part.add(role, 'the server panics while handling %s: %s' % (hdesc[-1], pr.panic.msg[:70]), wit, ('lsp_history', (hdesc,))); return
        server, outs, fresh = pr.result
        # reference: current contents after the whole history (every change event carries the full text; they apply in order)
        cur = {}
        for k, u, t in hist:
            if t: cur[URIS[u]] = t[-1]
        kind, ui, texts = hist[-1]; uri = URIS[ui]; version = st_v['vers'][-1]
        sv = z3.Solver(); sv.add(*pr.pc); sv.check(); mv = sv.model()
        vvals = [mv.eval(v, True).as_signed_long() for v in st_v['vers']]
        hdesc = [(k, u, t, vv) for (k, u, t), vv in zip(hdesc, vvals)]; wit = {'history': hdesc}
        pubs = [M.deref(x) for x in outs[-1]]
        pubs = [x.f[0] for x in pubs if isinstance(x, EnumV) and x.name == 'Message' and x.disc == 2]
        if len(pubs) != 1:
            part.add('C11/K3/publish-count', '%d publishDiagnostics notifications for one %s' % (len(pubs), kind), wit, ('lsp_history', (hdesc,))); return
        pp = pubs[0].f[1]
        got_uri = M.deref(pp.f[0].f[0]).conc(); got_ver = pp.f[2]
        ver_ok = isinstance(got_ver, EnumV) and got_ver.disc == 1
        if ver_ok:
            d_ = simp(tobv(got_ver.f[0], 32) != version)
            if d_ is True: ver_ok = False
            elif d_ is not False:
                sv.push(); sv.add(d_)
                if sv.check() == z3.sat:
                    ver_ok = False; mv = sv.model(); vvals = [mv.eval(v, True).as_signed_long() for v in st_v['vers']]
                    hdesc = [(h[0], h[1], h[2], vv) for h, vv in zip(hdesc, vvals)]; wit = {'history': hdesc}
                sv.pop()
        if got_uri != uri or not ver_ok:
            part.add('C11/K3/publish-uri-or-version', 'publishDiagnostics carries uri %s / version %r instead of %s / the version of the notification (history with versions %s)' % (got_uri, got_ver, uri, hdesc), wit, ('lsp_history', (hdesc,)))
        # the project must hold exactly the current contents
        proj = _wrapped(M, P, server)
        held = {('file://' + M.deref(e.f[0].f[0]).conc()): M.deref(e.f[1].f[1]).conc() for e in proj.f[0].items}
        if held != cur:
            part.add('C11/K1/stale-contents/%s' % _hrole(hist), 'after the history %s the server holds %s but the current contents are %s' % (hdesc, held, cur), wit, ('lsp_history', (hdesc,)))
        # published diagnostics are those of the current contents
        tags = [M.deref(M.deref(d).f[0]).conc() for d in pp.f[1].items]
        path = uri[len('file://'):]
        for t in tags:
            if t.startswith('parse:'):
                _, f, data = t.split(':', 2)
                if cur.get('file://' + f) != data: part.add('C11/K2/stale-diagnostics/%s' % _hrole(hist), 'published diagnostic %s refers to text that is no longer current (%s)' % (t, cur), wit, ('lsp_history', (hdesc,)))
            if t.startswith('sem:'):
                for lt in t[4:].split('|'):
                    _, f, data = lt.split(':', 2)
                    if cur.get('file://' + f) != data: part.add('C11/K2/stale-diagnostics/%s' % _hrole(hist), 'published diagnostic %s was computed from text that is no longer current (%s)' % (t, cur), wit, ('lsp_history', (hdesc,)))
        if fresh is not None:
            fp = [M.deref(x) for x in fresh]; fp = [x.f[0] for x in fp if isinstance(x, EnumV) and x.name == 'Message' and x.disc == 2]
            ftags = [M.deref(M.deref(d).f[0]).conc() for d in fp[0].f[1].f[1].items] if len(fp) == 1 else None
            if ftags is None or sorted(ftags) != sorted(tags):
                part.add('C11/K2/differs-from-fresh-server/%s' % _hrole(hist), 'after the history %s the diagnostics published for %s are %s, but a server that is only told the current contents %s publishes %s' % (hdesc, uri, tags, cur, ftags),
                         wit, ('lsp_history', (hdesc,)))
        if not part.findings and len(part.validate) < 1 and len(hist) == 2: part.validate.append(('lsp_history', (hdesc,)))
        if len(part.samples) < 1: part.samples.append({'history': hdesc, 'published': tags, 'held': held})
    M.explore(entry, on_path)
    part.queries += M.stats['smt']; part.encoded = set(M.encoded); part.models = set(M.models_used)
    return part

def _hrole(hist):
    if any(k == 'change' and len(t) > 1 for k, u, t in hist): return 'didChange-with-several-content-changes'
    return '-'.join('%s%s%d' % (k, 'AB'[u], len(t)) for k, u, t in hist)

_CTX = None

@replay_factory('lsp_history')
def _replay_history(hdesc):
    GOODT = 'PROGRAM p%d\nVAR\n  x : INT;\nEND_VAR\n  x := 1;\nEND_PROGRAM\n'
    BADT = 'PROGRAM q%d\nVAR\n  x : INT;\nEND_VAR\n  y%d := 1;\nEND_PROGRAM\n'
    # second realisation: the diagnostics of a.st depend on what b.st holds (the function block type it uses is declared by b.st's T1 only),
    # so a server that answers from an earlier analysis of a.st is told apart from a fresh one
    USER = 'PROGRAM p0\nVAR\n  f : Shared;\n  x : INT;\nEND_VAR\n  f();\n  %s := 1;\nEND_PROGRAM\n'
    DECL = 'FUNCTION_BLOCK Shared\nVAR\n  n : INT;\nEND_VAR\n  n := 1;\nEND_FUNCTION_BLOCK\n'
    def text(uri, t, variant):
        i = URIS.index(uri) if uri in URIS else 0
        if variant == 1:
            if i == 0: return USER % {'T1': 'x', 'T2': 'y2', 'T3': 'y3'}[t]
            if t == 'T1': return DECL
        return {'T1': GOODT % i, 'T2': BADT % (i, 2), 'T3': BADT % (i, 3)}[t]
    def rp(ctx):
        import lspclient
        def run(history, variant):
            s = lspclient.LspSession(ctx.ironplcc_path()); last = None
            try:
                s.initialize()
                for n, h in enumerate(history):
                    k, uri, ts = h[0], h[1], h[2]; ver = h[3] if len(h) > 3 else 10 + n
                    u = uri.replace('file:///', 'file:///tmp/verif_c11_')
                    if k == 'open': s.did_open(u, text(uri, ts[0], variant), ver)
                    else: s.did_change(u, [text(uri, t, variant) for t in ts], ver)
                    last = s.diagnostics_for(u, version=ver, timeout=5)
            finally:
                s.close()
            return last
        cur = {}
        for h in hdesc:
            if h[2]: cur[h[1]] = h[2][-1]
        last_uri = hdesc[-1][1]
        fresh_hist = [('open', u, [t]) for u, t in cur.items() if u != last_uri] + ([('open', last_uri, [cur[last_uri]])] if last_uri in cur else [])
        det = None
        for variant in (0, 1):
            got = run(hdesc, variant)
            want = run(fresh_hist, variant) if fresh_hist else None
            if got is None: return True, {'note': 'no publishDiagnostics for the last notification (server died or did not answer)', 'history': hdesc}
            g = sorted((d.get('code'), d['range']['start']['line'], d['range']['start']['character']) for d in got['params']['diagnostics'])
            w = sorted((d.get('code'), d['range']['start']['line'], d['range']['start']['character']) for d in (want['params']['diagnostics'] if want else []))
            det = {'history': hdesc, 'texts': ['independent programs', 'a.st uses a function block that only T1 of b.st declares'][variant], 'published': g, 'fresh_server_publishes': w}
            if g != w: return True, det
        return False, det
    return rp

@kernel('K3 lsp.notification_histories')
def k3(ctx, kr):
    global _CTX
    _CTX = ctx
    steps = [('open', 0, ['T1']), ('open', 0, ['T2']), ('open', 1, ['T1']), ('change', 0, ['T2']), ('change', 0, ['T1', 'T2']), ('change', 1, ['T3']), ('change', 0, [])]
    hists = [[s] for s in steps] + [[a, b] for a in steps[:5] for b in steps]
    if ctx.tier == 'thorough': hists += [[a, b, c] for a in steps[:4] for b in steps[:6] for c in steps]
    else: hists += [[a, b, c] for a in (steps[0], steps[1]) for b in (steps[2], steps[5]) for c in (steps[0], steps[1], steps[3], steps[4], steps[6])]
    kr.bounds = 'every notification history of length 1..2%s over 2 URIs x 3 texts (didOpen, didChange with 0, 1 or 2 full-text changes); parse and analysis outcomes are uninterpreted functions of the texts; reference = a fresh server told only the current contents, on the same path' % (' and 3' if ctx.tier == 'thorough' else ' and 20 histories of length 3 (open A; touch B; touch A again)')
    for part in par_map(_k3_job, [(h,) for h in hists]): merge_part(kr, part)
    P = ctx.program(CR)
    kr.functions = fn_paths(P, getattr(kr, '_enc', set()))
    kr.stubs = ['parse_program = uninterpreted function of the text', 'analyze = uninterpreted function of the set of parsed texts', 'Url::to_file_path / FileId::from_path as string identity', 'map_diagnostic = identity (position mapping: C05-K5)',
                'Notification::extract by contract; Sender::send records']
    kr.exhaustive = True
    kr.outside = ['JSON framing, URI<->path conversion, codespan; equality with `ironplcc check` follows from both calling FileBackedProject::semantic (same function in the MIR call graph)']

# ---------------------------------------------------------------------------------------------- K4 the published start position is the one `check` prints
@kernel('K4 lsp.start_position_as_check')
def k4(ctx, kr):
    """`ironplcc check` prints line:column of a label through codespan (line = number of line breaks before the offset, column = characters since the last one);
    the language server computes the published range in lsp_project::map_label.  Same kernel as C05-K5: map_label on every document of <= 4 symbolic bytes and every span,
    against that line/character reference."""
    from . import C05 as K05
    K05.k5(ctx, kr)
    for f in kr.findings: f.role = f.role.replace('C05/K5/', 'C11/K4/')
    kr.outside = list(kr.outside) + ['codespan\'s own line/column computation (the reference is its documented convention)']

# ---------------------------------------------------------------------------------------------- K5 a document opened from the workspace folder replaces the copy loaded from disk
@kernel('K5 lsp.opened_document_replaces_workspace_copy')
def k5(ctx, kr):
    P = ctx.program(CR)
    k_init = [k for k in P.items if k[0] == 'ironplcc' and re.fullmatch(r'lsp_project::<impl at [^>]*>::initialize', k[1])]
    k_change = [k for k in P.items if k[0] == 'ironplcc' and re.fullmatch(r'lsp_project::<impl at [^>]*>::change_text_document', k[1])]
    k_new = [k for k in P.items if k[0] == 'ironplcc' and re.fullmatch(r'lsp_project::<impl at [^>]*>::new', k[1])]
    if len(k_init) != 1 or len(k_change) != 1 or len(k_new) != 1: kr.inconc('LspProject::{new, initialize, change_text_document}: %d/%d/%d candidates' % (len(k_new), len(k_init), len(k_change))); return
    WS = '/ws/link'            # the folder as the client names it; it may be a symbolic link to /real/dir
    st = {}
    def text_of(M, v):
        while isinstance(v, Ref): v = M.deref(v)
        if isinstance(v, Agg) and v.name.split('::')[-1] in ('DirEntry', 'FileId', 'Url'): v = v.f[0]
        while isinstance(v, Ref): v = M.deref(v)
        return v.conc() if isinstance(v, Str) else None
    def st_canon(M, fr, c, a):
        # std::fs::canonicalize resolves symbolic links: for a linked folder the result is another path
        p_ = text_of(M, a[0]); st['canon_calls'] += 1
        if M.branch(st['is_link']): return ok(Str(p_.replace(WS, '/real/dir')))
        return ok(Str(p_))
    def st_read_dir(M, fr, c, a):
        d = text_of(M, a[0]); return ok(IterV([ok(Agg('DirEntry', [Str(d + '/a.st')])), ok(Agg('DirEntry', [Str(d + '/b.st')]))]))
    def st_try_from(M, fr, c, a):
        fid = M.deref(a[0]); return ok(LSP.new_source(M, P, deep_clone(fid), 'text on disk'))
    def st_to_path(M, fr, c, a):
        t = text_of(M, a[0]); return ok(Str(t[len('file://'):])) if t and t.startswith('file:///') else err(UNIT)
    def st_fid(M_, fr, c, a):
        v = M_.deref(a[0]); v = v.f[0] if isinstance(v, Agg) else v
        while isinstance(v, Ref): v = M_.deref(v)
        return Agg('FileId', [Str(list(v.b))])
    stubs = {r'^std::fs::canonicalize(::<.*>)?$': st_canon, r'^std::fs::read_dir(::<.*>)?$': st_read_dir, r'^std::fs::DirEntry::path$': lambda M, fr, c, a: M.deref(a[0]).f[0],
             r'^source::Source::try_from_file_id$': st_try_from, r'^lsp_types::Url::to_file_path$': st_to_path, r'FileId::from_path$|FileId::from_dir_entry$': st_fid,
             r'^<std::path::PathBuf as std::ops::Deref>::deref$|^std::path::PathBuf::as_path$|^std::path::Path::to_path_buf$|^<std::path::PathBuf as std::convert::AsRef<std::path::Path>>::as_ref$': lambda M, fr, c, a: a[0],
             r'^std::path::Path::display$': lambda M, fr, c, a: Str('path')}
    M = Machine(P, stubs=stubs, max_steps=20_000_000)
    def entry(M):
        st['is_link'] = M.fresh_bool('workspace_folder_is_a_symbolic_link'); st['canon_calls'] = 0
        proj = M.call_fn(k_new[0], [_project_value(P, {}, M)])
        pr_ = Ref(Cell(proj))
        folder = LSP.mkstruct(P, 'WorkspaceFolder', **{'uri': Agg('Url', [Str('file://' + WS)]), 'name': Str('ws')})
        M.call_fn(k_init[0], [pr_, Ref(Cell(folder))])
        M.call_fn(k_change[0], [pr_, Ref(Cell(Agg('Url', [Str('file://' + WS + '/a.st')]))), Str('text in the editor')])
        return proj
    def on_path(M, pr):
        kr.paths += 1
        if pr.inconclusive: kr.inconc(pr.inconclusive); return
        kr.nontrivial += 1
        s = z3.Solver(); s.add(*pr.pc); s.check(); link = z3.is_true(s.model().eval(st['is_link'], True)); kr.queries += 1
        rep = ('lsp_workspace_link', (link,))
        if pr.panic: _add(kr, 'C11/K5/panic', 'panic: ' + pr.panic.msg[:60], {'folder_is_link': link}, rep); return
        proj = pr.result
        wrapped = proj.f[0]
        while isinstance(wrapped, Ref): wrapped = M.deref(wrapped)
        srcs = wrapped.f[0]
        docs = []
        for e in (srcs.items if isinstance(srcs, VecV) else []):
            k_ = text_of(M, e.f[0]); v_ = e.f[1]
            while isinstance(v_, Ref): v_ = M.deref(v_)
            data = v_.f[1].conc() if isinstance(v_, Agg) and isinstance(v_.f[1], Str) else '?'
            docs.append((k_, data))
        a_docs = [d for d in docs if d[0] and d[0].endswith('/a.st')]
        if len(a_docs) != 1 or a_docs[0][1] != 'text in the editor':
            _add(kr, 'C11/K5/stale-copy-kept%s' % ('/linked-folder' if link else ''), 'workspace folder %s%s, then didOpen of %s/a.st: the project holds %s; the document must be there once, with the editor\'s text' % (
                 WS, ' (a symbolic link)' if link else '', WS, docs), {'folder_is_link': link, 'documents': docs}, rep)
        elif len(kr.validate) < 2: kr.validate.append(rep)
        if len(kr.samples) < 2: kr.samples.append({'folder_is_link': link, 'documents': docs})
    M.explore(entry, on_path)
    kr.queries += M.stats['smt']
    kr.functions = fn_paths(P, M.encoded); kr.models = sorted(M.models_used)
    kr.stubs = ['std::fs::read_dir lists a.st and b.st under the path it is given; std::fs::canonicalize resolves the folder to another path when the folder is a symbolic link (symbolic choice); Source::try_from_file_id reads "text on disk"; Url::to_file_path / FileId::from_path textual']
    kr.bounds = 'initialize with one workspace folder (plain directory or symbolic link), then didOpen of a file in it with another text: the project holds that document once, with the text from the editor'
    kr.exhaustive = True

def _add(kr, role, what, wit, replay):
    if any(f.role == role for f in kr.findings): return
    from framework import REPLAYS
    kr.findings.append(Finding(role, what, wit, replay=REPLAYS[replay[0]](*replay[1]) if replay else None))

@replay_factory('lsp_workspace_link')
def _replay_workspace_link(link):
    def rp(ctx):
        import lspclient, tempfile, os
        d = tempfile.mkdtemp(dir=ctx.tmp); real = os.path.join(d, 'real'); os.mkdir(real)
        text = 'TYPE\n  level : (info, critical) := info;\nEND_TYPE\n'
        open(os.path.join(real, 'a.st'), 'w').write(text)
        ws = real
        if link:
            ws = os.path.join(d, 'link'); os.symlink(real, ws)
        s = lspclient.LspSession(ctx.ironplcc_path())
        try:
            s.initialize(root=ws); uri = 'file://' + ws + '/a.st'
            s.did_open(uri, text, 1); m = s.diagnostics_for(uri, timeout=10)
        finally:
            s.close()
        if m is None: return True, {'note': 'no publishDiagnostics'}
        codes = [x.get('code') for x in m['params']['diagnostics']]
        # the same declarations held twice (disk copy + editor copy) are reported as duplicated names
        return bool(codes), {'workspace_folder_is_link': link, 'diagnostics_for_a_valid_document': codes}
    return rp

KERNELS = [k3, k4, k5]
