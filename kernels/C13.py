"""C13 — command-line contract: exit status, OK line and diagnostics always agree."""
import time, json, re
import z3
from framework import kernel, Finding, fn_paths, Part, par_map, merge_part, replay_factory, REPLAYS
from mirsym.machine import *
from mirsym.mirread import Unsupported
from mirsym import models

CR = ['ironplcc', 'ironplc-dsl', 'ironplc-parser', 'ironplc-analyzer', 'ironplc-plc2plc']

def _add(kr, role, what, wit, replay):
    if any(f.role == role for f in kr.findings): return
    kr.findings.append(Finding(role, what, wit, replay=REPLAYS[replay[0]](*replay[1]) if replay else None))

def diag(tag): return Agg('Diagnostic', [Str(tag), Str('desc'), Agg('Label', [Agg('Location', [0, 0]), Agg('FileId', [Str('')]), Str('')]), VecV(), VecV()])

GOOD = 'PROGRAM p%d\nVAR\n  x : INT;\nEND_VAR\n  x := 1;\nEND_PROGRAM\n'
BAD_SEM = 'PROGRAM r%d\nVAR\n  x : INT;\nEND_VAR\n  y := 1;\nEND_PROGRAM\n'

# ---------------------------------------------------------------------------------------------- K1 check(): OK <=> Ok <=> no diagnostics
@kernel('K1 cli.check_contract')
def k1(ctx, kr):
    P = ctx.program(CR)
    key = P.find_fn('ironplcc', 'cli::check')
    ev = []; st = {}
    def st_create(M, fr, callee, a):
        if M.branch(st['create_ok']): return ok(Agg('project::FileBackedProject', [VecV()]))
        ev.append(('diagnostics', 1)); return err(Str('Error'))
    def st_sem(M, fr, callee, a):
        if M.branch(st['sem_ok']): return ok(UNIT)
        return err(VecV([diag('sem')] * st['ndiag']))
    def st_handle(M, fr, callee, a): ev.append(('diagnostics', len(M.deref(a[0]).items))); return UNIT
    def st_print(M, fr, callee, a): ev.append(('print',)); return UNIT
    M = Machine(P, stubs={r'^cli::create_project$': st_create, r'project::Project>::semantic$': st_sem, r'^cli::handle_diagnostics$': st_handle, r'^std::io::_print$': st_print})
    def entry(M):
        ev.clear()
        st['create_ok'] = M.fresh_bool('create_ok'); st['sem_ok'] = M.fresh_bool('sem_ok')
        st['ndiag'] = 1 if M.branch(M.fresh_bool('one_diag')) else 2
        return M.call_fn(key, [Ref(Cell(VecV([Str('a.st')]))), False])
    def on_path(M, pr):
        kr.paths += 1
        if pr.inconclusive: kr.inconc(pr.inconclusive); return
        kr.nontrivial += 1
        s = z3.Solver(); s.add(*pr.pc); s.check(); m = s.model(); kr.queries += 1
        cok = z3.is_true(m.eval(st['create_ok'], True)); sok = z3.is_true(m.eval(st['sem_ok'], True))
        wit = {'create_project_ok': cok, 'semantic_ok': sok}
        if pr.panic: _add(kr, 'C13/K1/panic', 'cli::check panics: ' + pr.panic.msg[:60], wit, None); return
        is_ok = pr.result.disc == 0
        prints = sum(1 for e in ev if e[0] == 'print'); ndiag = sum(e[1] for e in ev if e[0] == 'diagnostics')
        expect_ok = cok and sok
        if is_ok != expect_ok or (prints == 1) != expect_ok or (not expect_ok and ndiag == 0) or (expect_ok and ndiag):
            _add(kr, 'C13/K1/contract/%s' % ('ok' if expect_ok else ('sem-error' if cok else 'create-error')),
                 'check(): result %s, OK printed %d times, %d diagnostics emitted, although create_project %s and semantic() %s' % ('Ok' if is_ok else 'Err', prints, ndiag, 'succeeded' if cok else 'failed', 'succeeded' if sok else 'failed'),
                 wit, ('cli_check', (['good' if sok else 'bad_sem'],)))
        elif cok and len(kr.validate) < 2: kr.validate.append(('cli_check', (['good' if sok else 'bad_sem'],)))
        if len(kr.samples) < 3: kr.samples.append({'outcomes': wit, 'result': 'Ok' if is_ok else 'Err', 'ok_lines': prints, 'diagnostics': ndiag})
    M.explore(entry, on_path)
    kr.queries += M.stats['smt']
    kr.functions = fn_paths(P, M.encoded); kr.models = sorted(M.models_used)
    kr.stubs = ['create_project -> Ok(project) / Err after emitting a diagnostic (its own contract: K3)', 'Project::semantic -> Ok / Err(1..2 diagnostics)', 'handle_diagnostics and std::io::_print recorded as events']
    kr.bounds = 'all outcome combinations of create_project and semantic()'
    kr.exhaustive = True

@replay_factory('cli_check')
def _replay_cli_check(kinds):
    def rp(ctx):
        files = {('f%d.st' % i): ({'good': GOOD, 'bad_sem': BAD_SEM, 'bad_syntax': BAD}[k] % i) for i, k in enumerate(kinds)}
        rc, out, err_ = ctx.ironplcc(['check'], files)
        expect_ok = all(k == 'good' for k in kinds)
        coded = bool(re.search(r'error\[P\d{4}\]', err_ + out))
        bad = (rc == 0) != expect_ok or (('OK' in out.split()) != expect_ok) or (not expect_ok and not coded)
        return bad, {'kinds': kinds, 'exit': rc, 'stdout': out[:100], 'coded_diagnostic': coded}
    return rp

# ---------------------------------------------------------------------------------------------- K3 create_project: any failing path / file fails the command
@kernel('K3 cli.create_project_propagates_errors')
def k3(ctx, kr):
    P = ctx.program(CR)
    key = P.find_fn('ironplcc', 'cli::create_project')
    NP = 3
    ev = []; st = {}
    def st_enum(M, fr, callee, a):
        p = M.deref(a[0]).conc(); i = int(p[1:])
        if M.branch(st['enum_ok'][i]): return ok(VecV([Str('%s/f0' % p), Str('%s/f1' % p)] if st['is_dir'][i] else [Str(p)]))
        return err(VecV([diag('P0023')]))
    def st_push(M, fr, callee, a):
        fid = M.deref(a[1]); name = M.deref(fid.f[0]).conc(); ev.append(('push', name))
        b = st['push_ok'].get(name)
        if b is None: b = st['push_ok'][name] = M.fresh_bool('push_ok')
        if M.branch(b): return ok(UNIT)
        return err(diag('P0026'))
    def st_handle(M, fr, callee, a): ev.append(('diagnostics', len(M.deref(a[0]).items))); return UNIT
    M = Machine(P, stubs={r'^cli::enumerate_files$': st_enum, r'^project::FileBackedProject::push$': st_push, r'^cli::handle_diagnostics$': st_handle,
                          r'FileId::from_path': lambda M_, fr, c, a: Agg('FileId', [Str(list(M_.deref(a[0]).b))])})
    for n in range(1, NP + 1):
        def entry(M):
            ev.clear(); st['push_ok'] = {}
            st['enum_ok'] = [M.fresh_bool('enum_ok') for _ in range(n)]
            st['is_dir'] = [i == 1 for i in range(n)]
            return M.call_fn(key, [Ref(Cell(VecV([Str('p%d' % i) for i in range(n)]))), False])
        def on_path(M, pr):
            kr.paths += 1
            if pr.inconclusive: kr.inconc(pr.inconclusive); return
            kr.nontrivial += 1
            s = z3.Solver(); s.add(*pr.pc); s.check(); m = s.model(); kr.queries += 1
            eok = [z3.is_true(m.eval(b, True)) for b in st['enum_ok']]
            pok = {k: z3.is_true(m.eval(b, True)) for k, b in st['push_ok'].items()}
            wit = {'paths': n, 'enumerate_ok': eok, 'push_ok': pok}
            if pr.panic: _add(kr, 'C13/K3/panic', 'create_project panics: ' + pr.panic.msg[:60], wit, None); return
            is_ok = pr.result.disc == 0
            ndiag = sum(e[1] for e in ev if e[0] == 'diagnostics')
            pushes = [e[1] for e in ev if e[0] == 'push']
            if not all(eok):
                if is_ok: _add(kr, 'C13/K3/enumeration-error-forgotten', 'a path that cannot be enumerated (outcomes per argument %s) does not make the command fail' % eok, wit, ('cli_missing', (eok,)))
                elif ndiag == 0: _add(kr, 'C13/K3/enumeration-error-silent', 'a failing path produces no diagnostic', wit, None)
                return
            want = []
            for i in range(n): want += ['p%d/f0' % i, 'p%d/f1' % i] if st['is_dir'][i] else ['p%d' % i]
            if pushes != want: _add(kr, 'C13/K3/files-not-pushed', 'files handed to the project %s differ from the enumerated files %s' % (pushes, want), wit, None)
            if is_ok != all(pok.values()): _add(kr, 'C13/K3/read-error-forgotten', 'create_project returns %s although the file read outcomes are %s' % ('Ok' if is_ok else 'Err', pok), wit, None)
            if not all(pok.values()) and ndiag == 0: _add(kr, 'C13/K3/read-error-silent', 'a file that cannot be read produces no diagnostic', wit, None)
            if all(pok.values()) and len(kr.validate) < 4: kr.validate.append(('cli_missing', ([True] * n,)))
            if len(kr.samples) < 3: kr.samples.append({'outcomes': wit, 'result': 'Ok' if is_ok else 'Err', 'pushed': pushes})
        M.explore(entry, on_path)
    kr.queries += M.stats['smt']
    kr.functions = fn_paths(P, M.encoded); kr.models = sorted(M.models_used)
    kr.stubs = ['enumerate_files -> Ok(the file itself | the two entries of a directory) / Err', 'FileBackedProject::push -> Ok / Err per file', 'handle_diagnostics recorded']
    kr.bounds = '1..3 path arguments (the second one a directory), every combination of enumeration and read outcomes'
    kr.exhaustive = True

@replay_factory('cli_missing')
def _replay_cli_missing(eok):
    def rp(ctx):
        import tempfile, os, subprocess
        d = tempfile.mkdtemp(dir=ctx.tmp); args = []
        for i, okk in enumerate(eok):
            p = os.path.join(d, 'f%d.st' % i)
            if okk: open(p, 'w').write(GOOD % i)
            args.append(p)
        r = subprocess.run([ctx.ironplcc_path(), 'check'] + args, capture_output=True, text=True, timeout=60)
        expect_ok = all(eok)
        return ((r.returncode == 0) != expect_ok) or (('OK' in r.stdout.split()) != expect_ok), {'args_exist': eok, 'exit': r.returncode, 'stdout': r.stdout[:80], 'stderr': r.stderr[:200]}
    return rp

# ---------------------------------------------------------------------------------------------- K2 tokenize(): Ok <=> every file tokenizes
@kernel('K2 cli.tokenize_contract')
def k2(ctx, kr):
    P = ctx.program(CR)
    key = P.find_fn('ironplcc', 'cli::tokenize')
    ev = []; st = {}
    NS = 2
    def st_create(M, fr, callee, a):
        from . import lspcommon as LSP_
        srcs = VecV([Agg('()', [Agg('FileId', [Str('f%d' % i)]), LSP_.new_source(M, P, 'f%d' % i, str(i))]) for i in range(NS)])
        return ok(Agg('project::FileBackedProject', [srcs]))
    def st_tok(M, fr, callee, a):
        i = int(M.deref(a[0]).conc())
        nd = 0 if M.branch(st['tok_ok'][i]) else 1
        return Agg('()', [VecV([]), VecV([diag('P0031')] * nd)])
    def st_handle(M, fr, callee, a): ev.append(('diagnostics', len(M.deref(a[0]).items))); return UNIT
    def st_print(M, fr, callee, a): ev.append(('print',)); return UNIT
    M = Machine(P, stubs={r'^cli::create_project$': st_create, r'^ironplc_parser::tokenize_program$': st_tok, r'^cli::handle_diagnostics$': st_handle, r'^std::io::_print$': st_print,
                          r'^<std::string::String as std::ops::Add<&str>>::add$': lambda M_, fr, c, a: a[0]})
    def entry(M):
        ev.clear(); st['tok_ok'] = [M.fresh_bool('tok_ok') for _ in range(NS)]
        return M.call_fn(key, [Ref(Cell(VecV([Str('a.st')]))), False])
    def on_path(M, pr):
        kr.paths += 1
        if pr.inconclusive: kr.inconc(pr.inconclusive); return
        kr.nontrivial += 1
        s = z3.Solver(); s.add(*pr.pc); s.check(); m = s.model(); kr.queries += 1
        tok = [z3.is_true(m.eval(b, True)) for b in st['tok_ok']]
        if pr.panic: _add(kr, 'C13/K2/panic', 'cli::tokenize panics: ' + pr.panic.msg[:60], {'tokenize_ok': tok}, None); return
        is_ok = pr.result.disc == 0; ndiag = sum(e[1] for e in ev if e[0] == 'diagnostics')
        # reachable outcomes depend on the iteration order; the contract is on what was examined: Ok <=> no examined file had errors, and an error is always reported
        if is_ok and not all(tok): _add(kr, 'C13/K2/tokenize-error-forgotten', 'tokenize returns Ok although a file has lexical errors (%s; the model file yields no tokens, only errors)' % tok, {'tokenize_ok': tok}, ('cli_tokenize', (tok,)))
        if not is_ok and ndiag == 0: _add(kr, 'C13/K2/tokenize-error-silent', 'tokenize fails without a diagnostic', {'tokenize_ok': tok}, ('cli_tokenize', (tok,)))
        if not is_ok and all(tok): _add(kr, 'C13/K2/spurious-failure', 'tokenize fails although every file tokenizes', {'tokenize_ok': tok}, ('cli_tokenize', (tok,)))
        if len(kr.validate) < 2: kr.validate.append(('cli_tokenize', (tok,)))
        if len(kr.samples) < 3: kr.samples.append({'tokenize_ok': tok, 'result': 'Ok' if is_ok else 'Err', 'diagnostics': ndiag})
    M.explore(entry, on_path)
    kr.queries += M.stats['smt']
    kr.functions = fn_paths(P, M.encoded); kr.models = sorted(M.models_used)
    kr.stubs = ['create_project -> project with 2 sources', 'tokenize_program -> no tokens + 0/1 diagnostics', 'String + &str concatenation opaque', 'HashMap iteration order nondeterministic']
    kr.bounds = '2 sources, every combination of lexical outcomes and iteration orders'
    kr.exhaustive = True


@replay_factory('cli_tokenize')
def _replay_cli_tokenize(tok):
    def rp(ctx):
        # a file with lexical errors and no token at all (as in the model), and one with tokens around the error
        bad = False; seen = []
        for badtext in ('@', 'x := @ 1;\n'):
            files = {('f%d.st' % i): (GOOD % i if okk else badtext) for i, okk in enumerate(tok)}
            rc, out, err_ = ctx.ironplcc(['tokenize'], files)
            expect_ok = all(tok); coded = bool(re.search(r'error\[P\d{4}\]', err_ + out))
            seen.append({'bad_file_text': badtext, 'exit': rc, 'coded_diagnostic': coded, 'stdout_tail': out[-60:]})
            if (rc == 0) != expect_ok or (not expect_ok and not coded): bad = True
        return bad, {'tokenize_ok': tok, 'runs': seen}
    return rp

# ---------------------------------------------------------------------------------------------- K2b echo(): Ok <=> every file parses
@kernel('K2b cli.echo_contract')
def k2b(ctx, kr):
    P = ctx.program(CR)
    key = P.find_fn('ironplcc', 'cli::echo')
    ev = []; st = {}
    NS = 2
    def st_create(M, fr, callee, a):
        from . import lspcommon as LSP_
        srcs = VecV([Agg('()', [Agg('FileId', [Str('f%d' % i)]), LSP_.new_source(M, P, 'f%d' % i, str(i))]) for i in range(NS)])
        return ok(Agg('project::FileBackedProject', [srcs]))
    def st_parse(M, fr, callee, a):
        i = int(M.deref(a[0]).conc())
        if M.branch(st['parse_ok'][i]): return ok(Agg('Library', [VecV([])]))
        return err(diag('P0002'))
    def st_write(M, fr, callee, a):
        if M.branch(st['render_ok']): return ok(Str('text'))
        return err(VecV([diag('P9999')]))
    def st_handle(M, fr, callee, a): ev.append(('diagnostics', len(M.deref(a[0]).items))); return UNIT
    def st_print(M, fr, callee, a): ev.append(('print',)); return UNIT
    M = Machine(P, stubs={r'^cli::create_project$': st_create, r'^ironplc_parser::parse_program$': st_parse, r'^ironplc_plc2plc::write_to_string$': st_write,
                          r'^cli::handle_diagnostics$': st_handle, r'^std::io::_print$': st_print})
    def entry(M):
        ev.clear(); st['parse_ok'] = [M.fresh_bool('parse_ok') for _ in range(NS)]; st['render_ok'] = M.fresh_bool('render_ok')
        return M.call_fn(key, [Ref(Cell(VecV([Str('a.st')]))), False])
    def on_path(M, pr):
        kr.paths += 1
        if pr.inconclusive: kr.inconc(pr.inconclusive); return
        kr.nontrivial += 1
        s = z3.Solver(); s.add(*pr.pc); s.check(); m = s.model(); kr.queries += 1
        pok = [z3.is_true(m.eval(b, True)) for b in st['parse_ok']]; rok = z3.is_true(m.eval(st['render_ok'], True))
        wit = {'parse_ok': pok, 'render_ok': rok}
        if pr.panic: _add(kr, 'C13/K2b/panic', 'cli::echo panics: ' + pr.panic.msg[:60], wit, None); return
        is_ok = pr.result.disc == 0; ndiag = sum(e[1] for e in ev if e[0] == 'diagnostics')
        if is_ok and not all(pok):
            _add(kr, 'C13/K2b/parse-error-forgotten', 'echo returns Ok (exit 0) although a file does not parse (parse outcomes %s)' % pok, wit, ('cli_echo', (['good' if p_ else 'bad_syntax' for p_ in pok],)))
        if not is_ok and ndiag == 0: _add(kr, 'C13/K2b/error-silent', 'echo fails without a diagnostic', wit, None)
        if not is_ok and all(pok) and rok: _add(kr, 'C13/K2b/spurious-failure', 'echo fails although every file parses and renders', wit, ('cli_echo', (['good'] * NS,)))
        elif is_ok and all(pok) and len(kr.validate) < 6: kr.validate.append(('cli_echo', (['good'] * NS,)))
        if len(kr.samples) < 3: kr.samples.append({'outcomes': wit, 'result': 'Ok' if is_ok else 'Err', 'diagnostics': ndiag})
    M.explore(entry, on_path)
    kr.queries += M.stats['smt']
    kr.functions = fn_paths(P, M.encoded); kr.models = sorted(M.models_used)
    kr.stubs = ['create_project -> project with 2 sources', 'parse_program -> Ok / Err per file', 'write_to_string -> Ok / Err', 'handle_diagnostics / _print recorded', 'HashMap iteration order nondeterministic']
    kr.bounds = '2 sources, every combination of parse outcomes, render outcome and iteration order'
    kr.exhaustive = True

@replay_factory('cli_echo')
def _replay_cli_echo(kinds):
    BAD = 'PROGRAM q%d\nVAR\n  x : INT\nEND_VAR\nEND_PROGRAM\n'
    def rp(ctx):
        files = {('f%d.st' % i): ({'good': GOOD, 'bad_syntax': BAD}[k] % i) for i, k in enumerate(kinds)}
        rc, out, err_ = ctx.ironplcc(['echo'], files)
        expect_ok = all(k == 'good' for k in kinds)
        return (rc == 0) != expect_ok, {'kinds': kinds, 'exit': rc, 'stderr': err_[:120]}
    return rp

# ---------------------------------------------------------------------------------------------- K4 a directory argument stands for the files in it
@kernel('K4 cli.directory_is_its_file_list')
def k4(ctx, kr):
    P = ctx.program(CR)
    key = P.find_fn('ironplcc', 'cli::enumerate_files')
    NAMES = ['a.st', 'B.ST', 'c.iec', 'notes.txt', 'noext', '.hidden']
    st = {}
    def st_canon(M, fr, c, a):
        if M.branch(st['canon_ok']): return ok(Str('/abs/' + M.deref(a[0]).conc()))
        return err(Opaque('io::Error'))
    def st_meta(M, fr, c, a):
        if M.branch(st['meta_ok']): return ok(Agg('Metadata', [st['kind']]))
        return err(Opaque('io::Error'))
    def st_kind(M, fr, c, a):
        want = {'is_dir': 0, 'is_file': 1, 'is_symlink': 2}[c.rsplit('::', 1)[1]]
        return M.deref(a[0]).f[0] == want
    def st_read_dir(M, fr, c, a):
        if not M.branch(st['readdir_ok']): return err(Opaque('io::Error'))
        base = M.deref(a[0]).conc(); out = []
        for nm, okb in st['entries']:
            out.append(ok(Agg('DirEntry', [Str(base + '/' + nm)])) if M.branch(okb) else err(Opaque('io::Error')))
        return ok(IterV(out))
    # what a directory entry is: a regular file, a symbolic link to a regular file, a sub-directory, or a symbolic link to a directory.  DirEntry::file_type / DirEntry::metadata /
    # fs::symlink_metadata do not follow links; Path::is_file / is_dir / fs::metadata do.
    def entry_kind(M, v):
        while isinstance(v, Ref): v = M.deref(v)
        if isinstance(v, Agg) and v.name == 'DirEntry': v = v.f[0]
        p = v.conc() if isinstance(v, Str) else None
        nm = p.rsplit('/', 1)[-1] if p else None
        return st['kinds'].get(nm)
    def st_ftype(M, fr, c, a):
        k = entry_kind(M, a[0])
        if k is None: return NotImplemented
        follow = not re.search(r'DirEntry::(file_type|metadata)$|symlink_metadata', c)
        return ok(Agg('Metadata', [{'file': 1, 'link': 1 if follow else 2, 'dir': 0, 'dirlink': 0 if follow else 2}[k]]))
    def st_pathis(M, fr, c, a):
        k = entry_kind(M, a[0])
        if k is None: return NotImplemented
        what = c.rsplit('::', 1)[1]
        return {'is_file': k in ('file', 'link'), 'is_dir': k in ('dir', 'dirlink'), 'is_symlink': k in ('link', 'dirlink'), 'exists': True}[what]
    def st_meta2(M, fr, c, a):
        r = st_ftype(M, fr, c, a)
        return st_meta(M, fr, c, a) if r is NotImplemented else r
    stubs = {r'^std::fs::canonicalize(::<.*>)?$': st_canon, r'^std::fs::metadata(::<.*>)?$': st_meta2, r'^std::fs::symlink_metadata(::<.*>)?$': st_meta2, r'^std::fs::(Metadata|FileType)::(is_dir|is_file|is_symlink)$': st_kind,
             r'^std::fs::DirEntry::(file_type|metadata)$': st_ftype, r'^std::fs::Metadata::file_type$': lambda M, fr, c, a: M.deref(a[0]), r'^std::path::Path::(is_file|is_dir|is_symlink|exists)$': st_pathis,
             r'^<std::path::PathBuf as std::ops::Deref>::deref$|^std::path::PathBuf::as_path$': lambda M, fr, c, a: a[0],
             r'^std::fs::read_dir(::<.*>)?$': st_read_dir, r'^std::fs::DirEntry::path$': lambda M, fr, c, a: M.deref(a[0]).f[0],
             r'^cli::diagnostic$': lambda M, fr, c, a: VecV([Agg('Diagnostic', [Str('problem')])]),
             r'^<std::io::Error as std::string::ToString>::to_string$': lambda M, fr, c, a: Str('io error'), r'^std::path::Path::display$': lambda M, fr, c, a: Str('path')}
    M = Machine(P, stubs=stubs)
    for n in (1, 2):            # three entries x six names x three kinds x readable-or-not exceeds the path budget; the claim is stated for two
        def entry(M):
            st['canon_ok'] = M.fresh_bool('canonicalize_ok'); st['meta_ok'] = M.fresh_bool('metadata_ok'); st['readdir_ok'] = M.fresh_bool('read_dir_ok')
            k = M.fresh_bv('kind', 8); M.declare_domain(k, [0, 1, 2, 3])
            st['kind'] = 0 if M.branch(k == 0) else (1 if M.branch(k == 1) else (2 if M.branch(k == 2) else 3))
            ents = []
            for i in range(n):
                sel = M.fresh_bv('name%d' % i, 8); M.declare_domain(sel, list(range(len(NAMES))))
                j = 0
                for v in range(len(NAMES) - 1):
                    if M.branch(sel == v): j = v; break
                    j = v + 1
                ents.append((NAMES[j] if i == 0 else '%d%s' % (i, NAMES[j]), M.fresh_bool('entry_ok%d' % i)))
            st['entries'] = ents; st['kinds'] = {}
            for i, (nm, okb) in enumerate(ents):
                kv = M.fresh_bv('entry_kind%d' % i, 8); M.declare_domain(kv, [0, 1, 2, 3])
                st['kinds'][nm] = 'file' if M.branch(kv == 0) else ('link' if M.branch(kv == 1) else ('dir' if M.branch(kv == 2) else 'dirlink'))
            return M.call_fn(key, [Ref(Cell(Str('dir')))])
        def on_path(M, pr):
            kr.paths += 1
            if pr.inconclusive: kr.inconc(pr.inconclusive); return
            kr.nontrivial += 1
            s = z3.Solver(); s.add(*pr.pc); s.check(); m = s.model(); kr.queries += 1
            tv = lambda b: z3.is_true(m.eval(b, True))
            if st['kind'] != 0 or not tv(st['canon_ok']) or not tv(st['meta_ok']) or not tv(st['readdir_ok']): return       # not a readable directory: covered by K3 (errors propagate)
            names = [nm for nm, okb in st['entries']]
            kinds = st['kinds']
            # the files in the directory: regular files and links to regular files (what `check dir/*` hands over one by one); sub-directories are not files of the directory
            readable = [nm for nm, okb in st['entries'] if tv(okb) and kinds[nm] not in ('dir', 'dirlink')]
            wit = {'directory_entries': ['%s (%s)' % (nm, kinds[nm]) for nm in names], 'files': readable}
            if pr.panic: _add(kr, 'C13/K4/panic', 'enumerate_files panics: ' + pr.panic.msg[:60], wit, None); return
            res = pr.result
            got = [M.deref(x).conc().rsplit('/', 1)[-1] for x in res.f[0].items] if res.disc == 0 else None
            if got != readable:
                missing = [x for x in readable if got is None or x not in got]
                extra = [x for x in (got or []) if x not in readable]
                if missing:
                    role = 'C13/K4/directory-differs-from-file-list/' + ('link-' if any(kinds[x] == 'link' for x in missing) else '') + ('-'.join(sorted({re.sub(r'^\d', '', x).rsplit('.', 1)[-1] if '.' in re.sub(r'^\d', '', x)[1:] else 'noext' for x in missing})) or 'other')
                    _add(kr, role, 'a directory holding %s is expanded to %s: the files %s are never checked' % (wit['directory_entries'], got, missing), wit, ('cli_directory', (missing[:1] or readable[:1], [kinds[x] for x in (missing[:1] or readable[:1])])))
                else:
                    _add(kr, 'C13/K4/sub-directory-handed-to-the-project', 'a directory holding %s is expanded to %s: %s is not a file of the directory (checking the list of its files succeeds or fails on the files alone)' % (wit['directory_entries'], got, extra), wit,
                         ('cli_directory', (['good_file.st'] + extra[:1], ['file', kinds.get(extra[0], 'dir') if extra else 'dir'])))
            elif len(kr.validate) < 2 and any(not x.endswith('.st') for x in readable): kr.validate.append(('cli_directory', ([x for x in readable if not x.endswith('.st')][:1], ['file'])))
            if len(kr.samples) < 2: kr.samples.append({'entries': names, 'expanded_to': got})
        M.explore(entry, on_path, max_paths=20000)
    kr.queries += M.stats['smt']
    kr.functions = fn_paths(P, M.encoded); kr.models = sorted(M.models_used)
    kr.stubs = ['std::fs::{canonicalize, metadata, read_dir} and DirEntry::path as nondeterministic environment (Ok/Err per call, entry names symbolic over %s)' % NAMES, 'Path::extension / OsStr::to_str by documented contract']
    kr.bounds = 'one directory argument with 1..2 entries, each entry name a symbolic choice out of %d names (extensions st / ST / iec / txt / none / dot-file), each entry a regular file, a symbolic link to a file, a sub-directory or a symbolic link to a directory, each entry readable or not' % len(NAMES)
    kr.exhaustive = True
    kr.outside = ['what is inside a sub-directory; dangling links']

@replay_factory('cli_directory')
def _replay_cli_directory(names, kinds=None):
    def rp(ctx):
        import tempfile, os, subprocess
        d = tempfile.mkdtemp(dir=ctx.tmp); bad = 'PROGRAM r\nVAR\n  x : INT;\nEND_VAR\n  y := 1;\nEND_PROGRAM\n'; good = 'PROGRAM g\nEND_PROGRAM\n'
        other = tempfile.mkdtemp(dir=ctx.tmp)
        for i, nm in enumerate(names):
            k = (kinds or [])[i] if i < len(kinds or []) else 'file'
            nm = re.sub(r'^\d', '', nm) if nm[0].isdigit() else nm
            if k == 'dir':
                os.mkdir(os.path.join(d, nm)); open(os.path.join(d, nm, 'inner.st'), 'w').write(good)
            elif k == 'dirlink':
                os.mkdir(os.path.join(other, nm)); open(os.path.join(other, nm, 'inner.st'), 'w').write(good); os.symlink(os.path.join(other, nm), os.path.join(d, nm))
            elif k == 'link':
                open(os.path.join(other, nm), 'w').write(bad); os.symlink(os.path.join(other, nm), os.path.join(d, nm))
            else: open(os.path.join(d, nm), 'w').write(good if ('dir' in (kinds or []) or 'dirlink' in (kinds or [])) else bad)
        # the files in the directory: regular files and links to them
        files = sorted(f for f in os.listdir(d) if os.path.isfile(os.path.join(d, f)))
        r_dir = subprocess.run([ctx.ironplcc_path(), 'check', d], capture_output=True, text=True)
        r_files = subprocess.run([ctx.ironplcc_path(), 'check'] + [os.path.join(d, f) for f in files], capture_output=True, text=True)
        key = lambda r: (r.returncode != 0, 'OK' in r.stdout.split(), sorted(set(re.findall(r'error\[(P\d{4})\]', r.stderr))))
        return key(r_dir) != key(r_files), {'directory_holds': files, 'check_directory': key(r_dir), 'check_files': key(r_files)}
    return rp


# ---------------------------------------------------------------------------------------------- K5 every diagnostic handed to the terminal renderer is printed with its code
@kernel('K5 cli.every_diagnostic_is_printed')
def k5(ctx, kr):
    from . import lspcommon as LSP
    P = ctx.program(['ironplcc', 'ironplc-dsl', 'ironplc-parser', 'ironplc-analyzer'])
    key = P.find_fn('ironplcc', 'cli::handle_diagnostics')
    FILES = ['/p/a.st', '/p/b.st']; OTHER = ['', '/p/not-in-project.st']          # FileId::default() and a file the project does not hold
    printed = []; attempts = []; st = {}
    def st_files_new(M, fr, c, a): return Agg('SimpleFiles', [VecV()])
    def st_files_add(M, fr, c, a):
        f = M.deref(a[0]); f.f[0].items.append(Agg('()', [a[1], a[2]])); return len(f.f[0].items) - 1
    def st_emit(M, fr, c, a):
        # codespan_reporting::term::emit: Err(Error::FileMissing) — and nothing is written — when a label names a file id the `files` table does not hold
        files = M.deref(a[2]); cd = M.deref(a[3]); n = len(files.f[0].items)
        attempts.append(cd)
        for l in cd.f[3].items:
            idx = simp(l.f[1])
            if not isinstance(idx, int) or idx >= n: return err(Agg('codespan_reporting::files::Error', []))
        printed.append(cd); return ok(UNIT)
    def st_label_new(M, fr, c, a): return Agg('CodeSpanLabel', [a[0], a[1], a[2], Str('')])
    def st_label_msg(M, fr, c, a): a[0].f[3] = a[1]; return a[0]
    def st_diag_new(M, fr, c, a): return Agg('CodeSpanDiagnostic', [a[0], none(), Str(''), VecV()])
    def st_with(M, fr, c, a):
        d = a[0]; what = re.search(r'::(with_(?:code|message|labels))', c).group(1)
        if what == 'with_code': d.f[1] = some(a[1])
        elif what == 'with_message': d.f[2] = a[1]
        elif what == 'with_labels': d.f[3] = a[1]
        return d
    stubs = {r'^codespan_reporting::files::SimpleFiles::<.*>::new$': st_files_new, r'^codespan_reporting::files::SimpleFiles::<.*>::add(::<.*>)?$': st_files_add,
             r'^codespan_reporting::term::emit': st_emit, r'^codespan_reporting::diagnostic::Label::<.*>::new(::<.*>)?$': st_label_new,
             r'^codespan_reporting::diagnostic::Label::<.*>::with_message': st_label_msg, r'^codespan_reporting::diagnostic::Diagnostic::<.*>::new(::<.*>)?$': st_diag_new,
             r'^codespan_reporting::diagnostic::Diagnostic::<.*>::with_(code|message|labels)': st_with,
             r'^codespan_reporting::term::termcolor::StandardStream::(stderr|lock)$|^termcolor::StandardStream::(stderr|lock)$': lambda M, fr, c, a: Opaque('stream'),
             r'^<codespan_reporting::term::Config as std::default::Default>::default$': lambda M, fr, c, a: Opaque('config'),
             r'^<.*StandardStreamLock.* as std::ops::Drop>::drop$|^std::ptr::drop_in_place': lambda M, fr, c, a: UNIT,
             r'^log::__private_api::log|^log::__private_api': lambda M, fr, c, a: UNIT}
    M = Machine(P, stubs=stubs)
    def label(file, lo, hi, msg): return LSP.mkstruct(P, 'Label', location=Agg('Location', [lo, hi]), file_id=Agg('FileId', [Str(file)]), message=Str(msg))
    ALL = FILES + OTHER
    for ndiag in (1, 2):
        for nproj in (0, 2):
            def entry(M):
                printed.clear(); attempts.clear(); sel = []
                for j in range(ndiag):
                    v = M.fresh_bv('file%d' % j, 8); M.declare_domain(v, list(range(len(ALL))))
                    k = 0
                    for val in range(len(ALL) - 1):
                        if M.branch(v == val): k = val; break
                        k = val + 1
                    sel.append(k)
                st['sel'] = sel
                srcs = VecV([Agg('()', [Agg('FileId', [Str(f)]), LSP.new_source(M, P, f, 'text of %s ' % f * 4)]) for f in FILES[:nproj]])
                project = Ref(Cell(Agg('project::FileBackedProject', [srcs])))
                ds = [LSP.mkstruct(P, 'Diagnostic', code=Str('P00%02d' % (30 + j)), description=Str('desc'), primary=label(ALL[k], 0, 0, 'label'), described=VecV(), secondary=VecV()) for j, k in enumerate(sel)]
                return M.call_fn(key, [Ref(Cell(VecV(ds))), some(project), False])
            def on_path(M, pr):
                kr.paths += 1
                if pr.inconclusive: kr.inconc(pr.inconclusive); return
                kr.nontrivial += 1
                sel = st['sel']; names = [ALL[k] for k in sel]
                known = [n in FILES[:nproj] for n in names]
                shape = '%d-files/%s' % (nproj, '+'.join('in-project' if k else ('default-file-id' if n == '' else 'unknown-file') for n, k in zip(names, known)))
                def add(role, what, rep):
                    if not any(f.role == role for f in kr.findings): kr.findings.append(Finding(role, what, {'diagnostic_files': names, 'project_files': FILES[:nproj]}, replay=rep))
                rep = REPLAYS['check_empty_set']() if (nproj == 0 or not all(known)) else None
                if pr.panic: add('C13/K5/panic/' + shape, 'rendering panics: ' + pr.panic.msg[:60], rep); return
                def code_of(d):
                    if d.f[1].disc != 1: return None
                    v = d.f[1].f[0]
                    while isinstance(v, Ref): v = M.deref(v)
                    return v.conc() if isinstance(v, Str) else None
                codes = [code_of(d) for d in printed]
                want = ['P00%02d' % (30 + j) for j in range(ndiag)]
                missing = [j for j, w in enumerate(want) if w not in codes]
                for j in missing:
                    kind = 'in-project' if known[j] else ('default-file-id' if names[j] == '' else 'unknown-file')
                    add('C13/K5/diagnostic-not-printed/label-file-%s' % kind, 'handle_diagnostics is given %d diagnostic(s) %s (project holds %d files; label files %s) and prints %s: the diagnostic whose label names %s is lost' % (
                        ndiag, want, nproj, names, codes or 'nothing', 'a project file' if known[j] else ('the default file id' if names[j] == '' else 'a file the project does not hold')), rep if not known[j] else None)
                if missing: pass
                elif len(kr.validate) < 1 and rep is not None: kr.validate.append(('check_empty_set', ()))
                if len(kr.samples) < 2: kr.samples.append({'diagnostics': want, 'printed': codes, 'label_files': names})
            M.explore(entry, on_path)
    kr.queries += M.stats['smt']
    kr.functions = fn_paths(P, M.encoded); kr.models = sorted(M.models_used)
    kr.stubs = ['codespan_reporting SimpleFiles::{new,add} as a table; term::emit by contract: Err(FileMissing), nothing written, when a label names a file id the table does not hold; builders by contract; terminal stream and log macros opaque']
    kr.bounds = '1..2 diagnostics whose primary label names (symbolic choice) a project file, the default file id or a file the project does not hold; project of 0 or 2 files; cli::handle_diagnostics with output enabled: every diagnostic is printed with its code'
    kr.exhaustive = True
    kr.outside = ['what codespan prints for a diagnostic it accepts']

@replay_factory('check_empty_set')
def _replay_check_empty_set():
    def rp(ctx):
        import tempfile, os, subprocess
        # `check` on a set without content: analysis answers P0030, whose label carries the default file id
        d = tempfile.mkdtemp(dir=ctx.tmp)
        r = subprocess.run([ctx.ironplcc_path(), 'check', d], capture_output=True, timeout=60)
        err_ = re.sub(r'\x1b\[[0-9;]*m', '', r.stderr.decode(errors='replace')); out = r.stdout.decode(errors='replace')
        coded = re.search(r'P\d{4}', err_) is not None
        bad = (r.returncode != 0 and not coded) or (r.returncode == 0 and 'OK' not in out)
        return bad, {'command': 'ironplcc check <empty directory>', 'exit': r.returncode, 'stdout': out[-200:], 'stderr': err_[-300:]}
    return rp


# ---------------------------------------------------------------------------------------------- K6 the project built from the command line holds every file of every argument
def _k6_run(ctx, kr, role_prefix):
    P = ctx.program(CR)
    key = P.find_fn('ironplcc', 'cli::create_project')
    # a small file system: two files and a directory with two source files and a text file
    FS = {'one.st': 'file', 'two.st': 'file', 'One.st': 'file', 'dir': 'dir', 'dir/a.st': 'file', 'dir/b.iec': 'file', 'dir/A.st': 'file'}       # names that differ only in letter case are different files
    ARGS = ['one.st', 'dir', 'two.st', 'One.st']
    st = {}
    def pth(M, v):
        while isinstance(v, Ref): v = M.deref(v)
        if isinstance(v, Agg) and v.name == 'DirEntry': v = v.f[0]
        if isinstance(v, Agg) and v.name.split('::')[-1] == 'FileId': v = v.f[0]
        s_ = v.conc() if isinstance(v, Str) else None
        return s_[len('/abs/'):] if s_ and s_.startswith('/abs/') else s_
    def st_canon(M, fr, c, a): return ok(Str('/abs/' + pth(M, a[0])))
    def st_meta(M, fr, c, a):
        k = FS.get(pth(M, a[0]))
        return ok(Agg('Metadata', [{'dir': 0, 'file': 1}[k]])) if k else err(Opaque('io::Error'))
    def st_kind(M, fr, c, a): return M.deref(a[0]).f[0] == {'is_dir': 0, 'is_file': 1, 'is_symlink': 2}[c.rsplit('::', 1)[1]]
    def st_pathis(M, fr, c, a):
        k = FS.get(pth(M, a[0])); what = c.rsplit('::', 1)[1]
        return {'is_file': k == 'file', 'is_dir': k == 'dir', 'is_symlink': False, 'exists': k is not None}[what]
    def st_read_dir(M, fr, c, a):
        d = pth(M, a[0])
        if FS.get(d) != 'dir': return err(Opaque('io::Error'))
        return ok(IterV([ok(Agg('DirEntry', [Str('/abs/' + p_)])) for p_ in FS if p_.startswith(d + '/')]))
    def st_try_from(M, fr, c, a):
        fid = M.deref(a[0]); p_ = pth(M, fid)
        st['loaded'].append(p_)
        if FS.get(p_) != 'file': return err(Agg('Diagnostic', [Str('P0026'), Str('unreadable ' + str(p_))]))
        return ok(LSP.new_source(M, P, deep_clone(fid), 'text of ' + p_))
    from . import lspcommon as LSP
    stubs = {r'^std::fs::canonicalize(::<.*>)?$': st_canon, r'^std::fs::metadata(::<.*>)?$': st_meta, r'^std::fs::(Metadata|FileType)::(is_dir|is_file|is_symlink)$': st_kind,
             r'^std::fs::DirEntry::(file_type|metadata)$': st_meta, r'^std::fs::Metadata::file_type$': lambda M, fr, c, a: M.deref(a[0]), r'^std::path::Path::(is_file|is_dir|is_symlink|exists)$': st_pathis,
             r'^<std::path::PathBuf as std::ops::Deref>::deref$|^std::path::PathBuf::as_path$': lambda M, fr, c, a: a[0],
             r'^std::fs::read_dir(::<.*>)?$': st_read_dir, r'^std::fs::DirEntry::path$': lambda M, fr, c, a: M.deref(a[0]).f[0],
             r'^source::Source::try_from_file_id$': st_try_from, r'^cli::handle_diagnostics$': lambda M, fr, c, a: UNIT,
             r'FileId::from_path$|FileId::from_dir_entry$': lambda M_, fr, c, a: Agg('FileId', [Str(list((M_.deref(a[0]).f[0] if isinstance(M_.deref(a[0]), Agg) else M_.deref(a[0])).b))]),
             r'^cli::diagnostic$': lambda M, fr, c, a: VecV([Agg('Diagnostic', [Str('problem'), Str('d')])]),
             r'^<std::io::Error as std::string::ToString>::to_string$': lambda M, fr, c, a: Str('io error'), r'^std::path::Path::display$': lambda M, fr, c, a: Str('path')}
    M = Machine(P, stubs=stubs, max_steps=20_000_000)
    import itertools
    ORDERS = [o for n in (1, 2, 3) for o in itertools.permutations(range(len(ARGS)), n)]
    def entry(M):
        v = M.fresh_bv('arguments', 8); M.declare_domain(v, list(range(len(ORDERS)))); oi = len(ORDERS) - 1
        for k in range(len(ORDERS) - 1):
            if M.branch(v == k): oi = k; break
        st['args'] = [ARGS[i] for i in ORDERS[oi]]; st['loaded'] = []
        return M.call_fn(key, [Ref(Cell(VecV([Str(x) for x in st['args']]))), True])
    def on_path(M, pr):
        kr.paths += 1
        if pr.inconclusive: kr.inconc(pr.inconclusive); return
        kr.nontrivial += 1
        args = st['args']; wit = {'arguments': args}
        want = set()
        for x in args: want |= ({x} if FS[x] == 'file' else {p_ for p_ in FS if p_.startswith(x + '/')})
        rep = ('cli_arguments', (args,))
        if pr.panic: _add(kr, role_prefix + '/panic', 'create_project panics: ' + pr.panic.msg[:60], wit, rep); return
        res = pr.result
        if res.disc != 0: _add(kr, role_prefix + '/readable-set-refused', 'create_project fails for the readable paths %s' % args, wit, rep); return
        proj = res.f[0]; srcs = proj.f[0]
        have = set()
        for e in (srcs.items if isinstance(srcs, VecV) else []):
            k_ = e.f[0] if isinstance(e, Agg) else e
            have.add(pth(M, k_) or repr(k_)[:80])
        if have != want:
            lost = sorted(want - have); extra = sorted(have - want)
            _add(kr, role_prefix + ('/file-dropped' if lost else '/unexpected-file'), 'ironplcc check %s: the project holds %s; the files named by the arguments are %s (dropped: %s)' % (' '.join(args), sorted(have), sorted(want), lost), wit, rep)
        elif len(kr.validate) < 2 and len(args) > 1 and 'dir' in args: kr.validate.append(rep)
        if len(kr.samples) < 3: kr.samples.append({'arguments': args, 'project_files': sorted(have)})
    M.explore(entry, on_path)
    kr.queries += M.stats['smt']
    kr.functions = fn_paths(P, M.encoded); kr.models = sorted(M.models_used)
    kr.stubs = ['a fixed small file system (two files, one directory with two sources) behind std::fs::{canonicalize, metadata, read_dir}, Path::is_*; Source::try_from_file_id reads from it; handle_diagnostics ignored']
    kr.bounds = 'every sequence of 1..3 distinct arguments out of {one.st, dir, two.st, One.st} (symbolic choice; dir holds a.st, A.st, b.iec): cli::create_project with the real enumerate_files and the real FileBackedProject: the project holds exactly the files the arguments name'
    kr.exhaustive = True
    kr.outside = ['unreadable paths (K3); what a directory expands to (K4)']

@kernel('K6 cli.project_holds_every_argument')
def k6(ctx, kr): _k6_run(ctx, kr, 'C13/K6')

@replay_factory('cli_arguments')
def _replay_cli_arguments(args):
    def rp(ctx):
        import tempfile, os, subprocess
        d = tempfile.mkdtemp(dir=ctx.tmp); good = 'PROGRAM unit%d\nVAR\n  x : INT;\nEND_VAR\n  x := 1;\nEND_PROGRAM\n'
        os.mkdir(os.path.join(d, 'dir'))
        names = {}
        for i, f in enumerate(['one.st', 'two.st', 'dir/a.st', 'dir/b.iec', 'One.st', 'dir/A.st']): open(os.path.join(d, f), 'w').write(good % i); names[f] = 'unit%d' % i
        # `echo` renders every file of the project: the program names in its output are the files that were loaded
        want = set()
        for a in args: want |= ({names[a]} if a != 'dir' else {names['dir/a.st'], names['dir/b.iec'], names['dir/A.st']})
        r = subprocess.run([ctx.ironplcc_path(), 'echo'] + [os.path.join(d, a) for a in args], capture_output=True, text=True)
        got = set(re.findall(r'PROGRAM (unit\d)', r.stdout))
        return got != want, {'arguments': args, 'programs_rendered': sorted(got), 'programs_in_the_named_files': sorted(want), 'exit': r.returncode}
    return rp

# ---------------------------------------------------------------------------------------------- K7 a failing analysis hands over at least one diagnostic
@kernel('K7 project.failure_carries_a_diagnostic')
def k7(ctx, kr):
    """K1 takes `semantic() -> Err(1..2 diagnostics)` as the contract of the project; this is that contract on the real FileBackedProject::semantic:
    for 0..2 files with symbolic parse and analysis outcomes, an Err always carries at least one diagnostic (otherwise `check` fails without a coded message)"""
    from . import C03 as K03
    for N in (0, 1, 2):
        events = []
        M, entry, st = K03.project_machine(ctx, N, events)
        def on_path(M, pr, N=N):
            kr.paths += 1
            if pr.inconclusive: kr.inconc(pr.inconclusive); return
            kr.nontrivial += 1
            s = z3.Solver(); s.add(*pr.pc); s.check(); m = s.model(); kr.queries += 1
            pok = [z3.is_true(m.eval(b, True)) for b in st['parse_ok']]; aok = z3.is_true(m.eval(st['an_ok'], True))
            wit = {'files': N, 'parse_ok': pok, 'analyze_ok': aok}
            rep = ('check_empty_set', ()) if N == 0 else ('cli_check', (['good' if p else 'bad_syntax' for p in pok],))
            if pr.panic: _add(kr, 'C13/K7/panic/%d-files' % N, 'FileBackedProject::semantic panics: ' + pr.panic.msg[:60], wit, rep); return
            if pr.result.disc == 1 and len(pr.result.f[0].items) == 0:
                _add(kr, 'C13/K7/failure-without-diagnostic/%d-files' % N, 'semantic() of a project of %d files (parse outcomes %s) answers Err with an empty list: `check` exits non-zero and prints no coded diagnostic' % (N, pok), wit, rep)
            elif N == 0 and pr.result.disc == 0:
                _add(kr, 'C13/K7/empty-set-accepted', 'semantic() of a project without files answers Ok', wit, rep)
            elif len(kr.validate) < 2 and N == 0: kr.validate.append(rep)
            if len(kr.samples) < 4: kr.samples.append({'outcomes': wit, 'result': 'Err(%d diagnostics)' % len(pr.result.f[0].items) if pr.result.disc == 1 else 'Ok'})
        M.explore(entry, on_path)
        kr.queries += M.stats['smt']; kr._enc = getattr(kr, '_enc', set()) | set(M.encoded)
    P = ctx.program()
    kr.functions = fn_paths(P, kr._enc)
    kr.stubs = ['ironplc_parser::parse_program -> arbitrary Ok(Library_i) / Err(diagnostic_i)', 'ironplc_analyzer::stages::analyze -> Err(P0030) on an empty set (its documented answer; C03-K4 checks it on the real analyze), otherwise arbitrary Ok / Err([sem])']
    kr.bounds = 'projects of 0..2 files, every combination of parse and analysis outcomes, every iteration order'
    kr.exhaustive = True

KERNELS = [k1, k2, k2b, k3, k4, k5, k6, k7]
