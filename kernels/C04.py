"""C04 — total and terminating: no input crashes lex, parse, analyse or render (decidable part: panic freedom of kernels)."""
import re
from framework import kernel, Finding
from . import kanicommon as KC

UNITS = {'dur_days_no_panic': ('days', 'd'), 'dur_hours_no_panic': ('hours', 'h'), 'dur_minutes_no_panic': ('minutes', 'm'),
         'dur_seconds_no_panic': ('seconds', 's'), 'dur_milliseconds_no_panic': ('milliseconds', 'ms')}

def _panic_kind(fc):
    if 'multiply with overflow' in fc['desc']: return 'mul-overflow'
    if 'add with overflow' in fc['desc']: return 'add-overflow'
    if 'expect_failed' in fc['func'] or 'unwrap_failed' in fc['func']: return 'time-duration-range'
    return re.sub(r'[^a-z0-9]+', '-', fc['desc'].lower())[:40]

@kernel('K2 kani.duration_constructors_no_panic')
def k2(ctx, kr):
    kr.bounds = 'all FixedPoint values (whole: u64, femptos < 10^15) for DurationLiteral::{days,hours,minutes,seconds,milliseconds}; all (ms: FixedPoint, sec: u64) for milliseconds(ms).plus(seconds(sec)); default unwinding assertions on'
    def mk(h, e, fc, vals):
        if h == 'dur_plus_no_panic':
            if vals is None or len(vals) < 3: return Finding('C04/K2/plus/overflow', 'DurationLiteral::plus panics (overflow when adding durations)', {'harness': h}, replay=None)
            lit = 'T#%ds_%sms' % (vals[2], KC.fp_literal(vals[0], vals[1]))
            def rp(ctx):
                r2 = ctx.replay({'cmd': 'check', 'sources': [KC.program_with_time(lit)]})
                return ('panic' in r2), {'check_of_program': r2, 'literal': lit}
            return Finding('C04/K2/plus/overflow', 'DurationLiteral::plus panics when the sum of the unit parts overflows time::Duration (literal %s)' % lit,
                           {'ms': [str(vals[0]), str(vals[1])], 'sec': str(vals[2]), 'literal': lit, 'note': 'chained duration literals do not lex (the unit letter fuses with the following digits into one identifier), so no caller can reach plus()'}, replay=None, unreachable=True)
        unit, suffix = UNITS[h]
        role = 'C04/K2/%s/%s' % (unit, _panic_kind(fc))
        if vals is None or len(vals) < 2: return Finding(role, 'DurationLiteral::%s panics: %s in %s' % (unit, fc['desc'], fc['func']), {'harness': h}, replay=None)
        lit = 'T#%s%s' % (KC.fp_literal(vals[0], vals[1]), suffix)
        def rp(ctx):
            r1 = ctx.replay({'cmd': 'duration', 'unit': unit, 'whole': str(vals[0]), 'femptos': str(vals[1])})
            r2 = ctx.replay({'cmd': 'check', 'sources': [KC.program_with_time(lit)]})
            return ('panic' in r1) and ('panic' in r2), {'direct_call': r1, 'check_of_program': r2, 'literal': lit}
        return Finding(role, 'DurationLiteral::%s panics (%s) for the literal %s' % (unit, fc['desc'] if 'placeholder' not in fc['desc'] else 'time::Duration range check', lit),
                       {'whole': str(vals[0]), 'femptos': str(vals[1]), 'literal': lit}, replay=rp)
    KC.apply(kr, list(UNITS) + ['dur_plus_no_panic'], mk)
    kr.outside = ['panic freedom of code outside ironplc-dsl numeric kernels is decided by the mirsym kernels of this property']
    kr.exhaustive = True


# ---------------------------------------------------------------------------------------------- K3 FixedPoint::parse never panics (long fractions)
import time
import z3
from framework import fn_paths, Part, par_map, merge_part, replay_factory
from mirsym.machine import *

_CTX = None
def _k3_job(job):
    nw, nf = job[:2]; nus = job[2] if len(job) > 2 else 0
    ctx = _CTX; part = Part()
    P = ctx.program()
    key = [k for k in P.items if k[0] == 'ironplc-dsl' and re.fullmatch(r'common::<impl at [^>]*>::parse', k[1]) and 'FixedPoint' in P.items[k].header]
    if len(key) != 1: part.inconc('FixedPoint::parse: %d candidates' % len(key)); return part
    M = Machine(P, max_steps=50_000_000); st = {}
    def entry(M):
        def digits(name, n):
            out = []
            for i in range(n):
                b = M.fresh_bv('%s%d' % (name, i), 8); M.assume(z3.And(z3.UGE(b, 48), z3.ULE(b, 57))); out.append(b)
            return out
        st['w'] = digits('w', nw); st['f'] = digits('f', nf)
        # the lexer hands over digits and underscores: up to two underscores at symbolic positions of the fraction (never first)
        for k in range(nus):
            pv = M.fresh_bv('underscore%d' % k, 8); dom = list(range(1, nf)); M.declare_domain(pv, dom); pos = dom[-1]
            for v in dom[:-1]:
                if M.branch(pv == v): pos = v; break
            st['f'][pos] = 95
        return M.call_fn(key[0], [Ref(Cell(Str(st['w'] + [46] + st['f'])))])
    def on_path(M, pr):
        part.paths += 1
        if pr.inconclusive: part.inconc(pr.inconclusive); return
        part.nontrivial += 1
        if pr.panic:
            s = z3.Solver(); s.add(*pr.pc); t1 = time.time(); r = s.check(); part.solver_s += time.time() - t1; part.queries += 1
            if r == z3.sat:
                m = s.model(); L = ''.join(chr(m.eval(x, True).as_long()) for x in st['w']) + '.' + ''.join(chr(x if isinstance(x, int) else m.eval(x, True).as_long()) for x in st['f'])
                part.add('C04/K3/fixed-point-parse/%s' % re.sub(r'[^a-z]+', '-', pr.panic.msg.lower())[:40], 'FixedPoint::parse panics on %s: %s' % (L, pr.panic.msg[:60]), {'text': L}, ('fixed_point_panic', (L,)))
        if len(part.samples) < 1: part.samples.append({'whole_digits': nw, 'fraction_digits': nf, 'outcome': 'panic' if pr.panic else ('Ok' if pr.result.disc == 0 else 'Err')})
    M.explore(entry, on_path)
    part.queries += M.stats['smt']; part.encoded = set(M.encoded); part.models = set(M.models_used)
    return part

@replay_factory('fixed_point_panic')
def _replay_fp_panic(L):
    def rp(ctx):
        r = ctx.replay({'cmd': 'check', 'sources': [KC.program_with_time('T#%ss' % L)]})
        return 'panic' in r, {'literal': 'T#%ss' % L, 'result': {k: v for k, v in r.items() if k != 'diagnostics'}}
    return rp

@kernel('K3 dsl.fixed_point_parse_no_panic')
def k3(ctx, kr):
    global _CTX
    _CTX = ctx
    jobs = [(1, n) for n in (1, 8, 15, 16, 17)] + [(20, 2), (21, 2)] + [(1, n, 1) for n in (3, 15, 16, 17)] + [(1, n, 2) for n in (16, 17, 18)]
    kr.bounds = 'texts W.F of symbolic digits with (|W|,|F|) in %s (around the 15-digit precision limit and the u64 limit); a third number is the count of underscores placed at symbolic positions of the fraction' % jobs
    for part in par_map(_k3_job, jobs): merge_part(kr, part)
    P = ctx.program()
    kr.functions = fn_paths(P, getattr(kr, '_enc', set()))
    kr.exhaustive = True

# ---------------------------------------------------------------------------------------------- K4 direct addresses: AddressAssignment::try_from never panics
def _k4_job(job):
    n, dots = job            # dots: 'any' = every tail character is a digit or a dot; 'first' = one dot after the first digit, digits elsewhere; 'none' = digits only
    ctx = _CTX; part = Part()
    P = ctx.program()
    key = P.impl_all.get(('AddressAssignment', 'TryFrom<str>', 'try_from')) or P.impl_all.get(('AddressAssignment', 'TryFrom<&str>', 'try_from'))
    if not key: part.inconc('AddressAssignment::try_from not found'); return part
    M = Machine(P); st = {}
    def entry(M):
        loc = M.fresh_bv('loc', 8); M.assume(z3.Or([loc == ord(c) for c in 'IQMiqm']))
        size = M.fresh_bv('size', 8); M.assume(z3.Or([size == ord(c) for c in 'XBWDLxbwdl'] + [z3.And(z3.UGE(size, 48), z3.ULE(size, 57))]))
        tail = []
        for i in range(n):
            if dots == 'first' and i == 1: tail.append(46); continue
            b = M.fresh_bv('t%d' % i, 8)
            M.assume(z3.Or(z3.And(z3.UGE(b, 48), z3.ULE(b, 57)), b == 46) if dots == 'any' else z3.And(z3.UGE(b, 48), z3.ULE(b, 57))); tail.append(b)
        st['bytes'] = [37, loc, size] + tail
        return M.call_fn(key[0], [Ref(Cell(Str(list(st['bytes']))))])
    def on_path(M, pr):
        part.paths += 1
        if pr.inconclusive: part.inconc(pr.inconclusive); return
        part.nontrivial += 1
        if not pr.panic:
            if len(part.samples) < 1: part.samples.append({'text_bytes': n + 3, 'result': 'Ok' if pr.result.disc == 0 else 'Err'})
            return
        s = z3.Solver(); s.add(*pr.pc); part.queries += 1
        # prefer a witness the lexer hands to this function as one DirectAddress token: digits only, no leading / trailing / double dot
        s.push()
        bs = st['bytes']
        s.add(z3.And(z3.UGE(bs[-1], 48), z3.ULE(bs[-1], 57)))
        for x, y in zip(bs[3:], bs[4:]): s.add(z3.Not(z3.And(x == 46, y == 46)))
        r = s.check()
        if r != z3.sat: s.pop(); r = s.check()
        if r != z3.sat: return
        text = bytes(x if isinstance(x, int) else s.model().eval(x, True).as_long() for x in bs).decode()
        kind = re.sub(r'[^a-z]+', '-', pr.panic.msg.lower())[:50].strip('-')
        part.add('C04/K4/direct-address/' + kind, 'AddressAssignment::try_from panics on %r: %s' % (text, pr.panic.msg[:80]), {'text': text}, ('direct_address', (text,)))
    M.explore(entry, on_path, max_paths=4000)
    part.queries += M.stats['smt']; part.encoded = set(M.encoded); part.models = set(M.models_used)
    return part

@replay_factory('direct_address')
def _replay_direct_address(text):
    def rp(ctx):
        src = 'PROGRAM p\nVAR\n  v AT %s : BOOL;\nEND_VAR\nEND_PROGRAM\n' % text
        r = ctx.replay({'cmd': 'parse', 'source': src})
        return 'panic' in r, {'source': src, 'result': {k: str(v)[:200] for k, v in r.items() if k != 'debug'}}
    return rp

@kernel('K4 dsl.direct_address_no_panic')
def k4(ctx, kr):
    global _CTX
    _CTX = ctx
    ns = [1, 2, 3, 4] if ctx.tier == 'quick' else [1, 2, 3, 4, 5, 6]
    jobs = [(n, 'any') for n in ns] + [(n, d) for n in (10, 11, 12) for d in ('none', 'first')]      # long enough for a component that does not fit u32 (10 digits)
    kr.bounds = ('texts %%<I|Q|M><X|B|W|D|L|digit><tail>, any letter case: tails of %s symbolic characters over digits and ".", and tails of 10..12 symbolic digits (all digits, or one dot after the first digit: components around the range of u32); '
                 'regex::Regex by contract with the patterns read from the MIR' % ns)
    for part in par_map(_k4_job, sorted(jobs, reverse=True)): merge_part(kr, part)
    P = ctx.program()
    kr.functions = fn_paths(P, getattr(kr, '_enc', set()))
    kr.assumptions = ['regex::Regex::{new,captures} and Captures indexing by contract (leftmost-first backtracking matcher over ASCII subjects; indexing a group that did not participate panics)', 'lazy_static Lazy::get = evaluate the initialiser']
    kr.exhaustive = True
    kr.outside = ['non-ASCII subjects (the regex crate is Unicode-aware); longer addresses']

# ---------------------------------------------------------------------------------------------- K5 building the syntax error never panics, whatever the offending token's text
def _k5_job(job):
    tlen, = job
    from . import lexcommon as LC
    ctx = _CTX; part = Part()
    P = ctx.program(['ironplc-parser', 'ironplc-dsl', 'peg-runtime'])
    TT = P.enums['TokenType']
    key = P.find_fn('ironplc-parser', 'parser::parse_library')
    M = Machine(P, max_steps=50_000_000, stubs={r'^<token::TokenType as std::clone::Clone>::clone$': lambda M_, fr, c, a: EnumV('TokenType', M_.deref(a[0]).disc, [])}); st = {}
    NSYM = 6
    def entry(M):
        tt = M.fresh_bv('tt', 64); M.declare_domain(tt, list(range(len(TT)))); st['tt'] = tt
        bs = [M.fresh_bv('b%d' % i, 8) for i in range(NSYM)]
        valid, _ = LC.utf8_valid(bs); M.assume(valid)
        for b in bs: M.assume(z3.And(b != 10, b != 13))
        st['bs'] = bs
        text = [ord('a')] * (tlen - NSYM) + bs
        tok = Agg('Token', [EnumV('TokenType', tt, []), Agg('SourceSpan', [0, tlen, Agg('FileId', [Str('f.st')])]), 0, 0, Str(text)])
        return M.call_fn(key, [VecV([tok])])
    def on_path(M, pr):
        part.paths += 1
        if pr.inconclusive: part.inconc(pr.inconclusive); return
        part.nontrivial += 1
        if not pr.panic:
            if len(part.samples) < 1: part.samples.append({'token_text_bytes': tlen, 'result': 'Ok' if pr.result.disc == 0 else 'Err'})
            return
        s = z3.Solver(); s.add(*pr.pc); part.queries += 1
        if s.check() != z3.sat: return
        m = s.model(); kind = TT[m.eval(st['tt'], True).as_long()]
        data = bytes([ord('a')] * (tlen - NSYM) + [m.eval(b, True).as_long() for b in st['bs']])
        part.add('C04/K5/syntax-error-panic/' + re.sub(r'[^a-z]+', '-', pr.panic.msg.lower())[:40].strip('-'), 'parse_library panics while reporting an unexpected %s token of %d bytes: %s' % (kind, tlen, pr.panic.msg[:80]),
                 {'token_type': kind, 'token_text': data.decode('utf-8', 'replace')}, ('long_token', (data.decode('utf-8'),)))
    M.explore(entry, on_path, max_paths=4000)
    part.queries += M.stats['smt']; part.encoded = set(M.encoded); part.models = set(M.models_used)
    return part

@replay_factory('long_token')
def _replay_long_token(text):
    def rp(ctx):
        # the text as a string literal where no expression may follow: the parser reports it as the unexpected token
        src = "PROGRAM p\nVAR\n  x : INT;\nEND_VAR\n  x := 1 '%s';\nEND_PROGRAM\n" % text.replace("'", ' ')
        r = ctx.replay({'cmd': 'parse', 'source': src})
        return 'panic' in r, {'source': src, 'result': {k: str(v)[:160] for k, v in r.items() if k != 'debug'}}
    return rp

@kernel('K5 parser.syntax_error_message_no_panic')
def k5(ctx, kr):
    global _CTX
    _CTX = ctx
    lens = [8, 40, 41, 42, 43, 44, 45, 46] if ctx.tier == 'quick' else list(range(6, 72))
    kr.bounds = 'parse_library on one token of any of the %d token types whose text has %s bytes: the last 6 bytes symbolic valid UTF-8 (1-4 byte characters at every alignment), the rest ASCII' % (134, lens)
    for part in par_map(_k5_job, [(n,) for n in lens]): merge_part(kr, part)
    P = ctx.program()
    kr.functions = fn_paths(P, getattr(kr, '_enc', set()))[:60]
    kr.exhaustive = True
    kr.outside = ['token texts of other lengths; several tokens; the same for lexical errors (C14-K2)']

# ---------------------------------------------------------------------------------------------- K6 the whole front end on template shapes: a result, never a panic
BIG = ['10', '170141183460469231731687303715884105727', '170141183460469231731687303715884105728', '340282366920938463463374607431768211455', '340282366920938463463374607431768211456']
C04_TEMPLATES = {
    'task_interval_kinds': ['CONFIGURATION c\nRESOURCE r ON PLC\n  TASK t(INTERVAL := ', ('alt', ['T#1s', '5', '1.5', 'TRUE', "'a'", 'x', 'TOD#12:00:00', 'INT#5']), ', PRIORITY := ', ('alt', ['1', '0', '4294967295', '4294967296']), ');\n  PROGRAM i WITH t : p;\nEND_RESOURCE\nEND_CONFIGURATION\n'],
    'subrange_limits': ['TYPE\n  r : INT(', ('alt', ['1', '-1', '-170141183460469231731687303715884105728', '-170141183460469231731687303715884105729']), '..', ('alt', BIG), ')', ('opt', ' := 2'), ';\nEND_TYPE\n'],
    'array_bounds': ['TYPE\n  ar : ARRAY[', ('alt', ['1', '-1', '0']), '..', ('alt', BIG), ('opt', ', 3..2'), '] OF INT;\nEND_TYPE\n'],
    'simple_types': ['TYPE\n  s : ', ('alt', ['INT', 'REAL', 'BOOL', 'TIME', 'STRING', 'other']), ('opt', ' := 5'), ';\n', ('opt', '  e : (a, b) := c;\n'), ('opt', '  st : STRING[0];\n'), ('opt', '  w : WSTRING[4294967296];\n'), 'END_TYPE\n'],
    'struct_init': ['TYPE\n  s : STRUCT\n    a : INT;\n    n : s2;\n  END_STRUCT;\n  s2 : STRUCT\n    b : INT;\n  END_STRUCT;\nEND_TYPE\nFUNCTION_BLOCK fb\nVAR\n  v : s := (', ('alt', ['a := 1', 'a := 1, n := (b := 2)', 'zz := 1', 'a := 1, a := 2']), ');\n', ('opt', '  w : s2 := (b := 1);\n'), 'END_VAR\nEND_FUNCTION_BLOCK\n'],
    'enum_defaults': ['TYPE\n  e : (a, b)', ('alt', ['', ' := a', ' := c', ' := e#a', ' := x#a']), ';\n  f : e', ('alt', ['', ' := b', ' := c']), ';\nEND_TYPE\nFUNCTION_BLOCK fb\nVAR\n  v : f', ('alt', ['', ' := a', ' := zz']), ';\nEND_VAR\nEND_FUNCTION_BLOCK\n'],
}

def _all_k6_templates():
    from . import C10 as K10
    from .c02_templates import VERDICT_TEMPLATES
    return dict(dict(K10.TEMPLATES, **{'rules_' + k: v['tpl'] for k, v in VERDICT_TEMPLATES.items()}), **C04_TEMPLATES)

def _k6_job(job):
    name, prefixes = job
    from . import C10 as K10
    ctx = _CTX; part = Part()
    tpl = _all_k6_templates()[name]
    P = ctx.program()
    k_parse = P.find_fn('ironplc-parser', 'parse_program'); k_an = P.find_fn('ironplc-analyzer', 'stages::analyze'); k_write = P.find_fn('ironplc-plc2plc', 'write_to_string')
    k_opt = [k for k in P.items if k[0] == 'ironplc-parser' and re.search(r'ParseOptions as (std::default::)?Default>::default|options::<impl at [^>]*>::default', k[1])]
    holder = {}; st = {}
    M = Machine(P, stubs=K10.dyn_lexer_stubs(ctx, holder), max_steps=800_000_000)
    M.toposort_deterministic = True
    dims = K10._shapes(tpl)
    def entry(M):
        choice = []
        for i, d in enumerate(dims):
            v = M.fresh_bv('seg%d' % i, 8); M.declare_domain(v, list(range(d)))
            c = 0
            for val in range(d - 1):
                if M.branch(v == val): c = val; break
                c = val + 1
            choice.append(c)
        st['choice'] = choice; st['stage'] = 'parse'
        text = K10._tpl_text(tpl, choice); st['src'] = text
        fid = Ref(Cell(Agg('FileId', [Str('f.st')])))
        opts = Ref(Cell(M.call_fn(k_opt[0], []) if k_opt else Agg('ParseOptions', [False])))
        r = M.call_fn(k_parse, [Ref(Cell(Str(text))), fid, opts])
        if r.disc != 0: return 'rejected'
        st['stage'] = 'analyze'
        a = M.call_fn(k_an, [Ref(Cell(VecV([Ref(Cell(r.f[0]))])))])
        st['stage'] = 'render'
        w = M.call_fn(k_write, [Ref(Cell(r.f[0]))])
        return 'ok' if a.disc == 0 else 'diagnosed'
    def on_path(M, pr):
        part.paths += 1
        src = st.get('src'); choice = st.get('choice')
        if pr.inconclusive: part.inconc('%s: %s' % (name, pr.inconclusive)); return
        part.nontrivial += 1
        if pr.panic:
            where = st.get('stage'); msg = re.sub(r'[^a-z]+', '-', pr.panic.msg.lower())[:44].strip('-')
            part.add('C04/K6/%s/%s/%s' % (name, where, msg), '%s panics (template %s, shape %s): %s' % ({'parse': 'parse_program', 'analyze': 'analyze', 'render': 'write_to_string'}.get(where, where), name, choice, pr.panic.msg[:80]),
                     {'source': src, 'stage': where}, ('frontend_panic', (src,)))
        elif len(part.validate) < 1: part.validate.append(('frontend_panic', (src,)))
        if len(part.samples) < 1: part.samples.append({'template': name, 'shape': choice, 'outcome': pr.result if not pr.panic else 'panic'})
    M.explore(entry, on_path, prefixes=prefixes)
    part.queries += M.stats['smt']; part.encoded = set(M.encoded); part.models = set(M.models_used)
    return part

@replay_factory('frontend_panic')
def _replay_frontend_panic(src):
    def rp(ctx):
        r = ctx.replay({'cmd': 'analyze', 'sources': [src]})
        if 'panic' not in r:
            r2 = ctx.replay({'cmd': 'render', 'source': src})
            if 'panic' in r2: r = r2
        return 'panic' in r, {'source': src[-300:], 'result': {k: str(v)[:200] for k, v in r.items() if k not in ('debug',)}}
    return rp

@kernel('K6 frontend.no_panic_on_template_shapes')
def k6(ctx, kr):
    global _CTX
    _CTX = ctx
    from . import C10 as K10
    import itertools
    ALL = _all_k6_templates()
    TPL = ALL if ctx.tier == 'thorough' else dict(C04_TEMPLATES, **{k: ALL[k] for k in ('alias_type', 'var_kinds', 'literal_init', 'fb_call', 'function_call', 'case_statement', 'configuration_globals', 'rules_symvar_contexts', 'rules_const_rules', 'rules_enum_value')})
    names = list(TPL)
    n = sum(len(list(itertools.product(*[range(d) for d in K10._shapes(TPL[t])]))) for t in names)
    kr.bounds = ('parse_program, stages::analyze and write_to_string on %d shapes of %d source templates (limits around 2^127 and 2^128, non-duration task intervals, priorities around 2^32, undeclared names in initialisers, empty and huge string lengths, '
                 'plus round-trip templates of C10 and rule templates of C02): every shape yields a library, diagnostics or rendered text, never a panic' % (n, len(names)))
    jobs = []
    for t in sorted(names, key=lambda t: -len(list(itertools.product(*[range(d) for d in K10._shapes(TPL[t])])))):
        dims = K10._shapes(TPL[t]); first = dims[0] if dims else 1
        for v in range(first): jobs.append((t, None) if first == 1 else (t, [K10._prefix_for(first, v)]))
    for part in par_map(_k6_job, jobs): merge_part(kr, part)
    P = ctx.program()
    kr.functions = fn_paths(P, getattr(kr, '_enc', set()))[:150]
    kr.exhaustive = True
    kr.outside = ['programs other than the template shapes; stack depth on deeply nested input']


# ---------------------------------------------------------------------------------------------- K7 the preprocessor terminates (bounded unwinding derived from the input)
START_KEY = '(*@KEY@:DESCRIPTION*)'; END_KEY = '(*@KEY@:END_DESCRIPTION*)'
_PIECES = [START_KEY, END_KEY, 'x', '\n', '(* c *)']

def _k7_job(job):
    k, first = job
    ctx = _CTX; part = Part()
    P = ctx.program(['ironplc-parser', 'ironplc-dsl'])
    key = P.find_fn('ironplc-parser', 'preprocessor::preprocess')
    # unwinding bound: every iteration of a scan over the text must consume at least one byte, and the blanking loop runs once per byte;
    # the pinned code needs about 11 interpreter steps per input byte (std string scans are contract models), the budget is 2000 per byte
    maxlen = k * len(END_KEY)
    M = Machine(P, max_steps=2_000 * maxlen)
    st = {}
    def entry(M):
        choice = [first]
        for i in range(1, k):
            v = M.fresh_bv('piece%d' % i, 8); M.declare_domain(v, list(range(len(_PIECES))))
            c = 0
            for val in range(len(_PIECES) - 1):
                if M.branch(v == val): c = val; break
                c = val + 1
            choice.append(c)
        text = ''.join(_PIECES[c] for c in choice); st['src'] = text; st['steps0'] = M.steps
        if any('does-not-terminate' in f['role'] for f in part.findings): return Str(text)      # one witness per job is enough; do not burn the budget again
        r = M.call_fn(key, [Ref(Cell(Str(text)))])
        st['steps'] = M.steps - st['steps0']
        return r
    def on_path(M, pr):
        part.paths += 1; src = st.get('src')
        if pr.inconclusive:
            if 'step budget' in pr.inconclusive:
                part.add('C04/K7/preprocess/does-not-terminate', 'preprocessing does not finish within the unwinding bound (%d interpreter steps for %d bytes) on %r' % (M.max_steps, len(src), src), {'source': src}, ('frontend_hang', (src,)))
            else: part.inconc(pr.inconclusive)
            return
        part.nontrivial += 1
        if pr.panic: part.add('C04/K7/preprocess/panic', 'preprocessing panics on %r: %s' % (src, pr.panic.msg[:60]), {'source': src}, ('frontend_panic', (src,))); return
        out = pr.result
        if isinstance(out, Str) and len(out.b) != len(src.encode()): part.notes.append('length changed for %r' % src)
        part.maxsteps = max(getattr(part, 'maxsteps', 0), st.get('steps', 0) // max(1, len(src)))
        if len(part.samples) < 1: part.samples.append({'source': src, 'steps': st.get('steps')})
        if len(part.validate) < 1 and START_KEY in src: part.validate.append(('frontend_hang', (src,)))
    M.explore(entry, on_path)
    part.queries += M.stats['smt']; part.encoded = set(M.encoded); part.models = set(M.models_used)
    part.notes.append('max interpreter steps per input byte: %d' % getattr(part, 'maxsteps', 0))
    return part

@replay_factory('frontend_hang')
def _replay_frontend_hang(src):
    def rp(ctx):
        import subprocess
        try:
            r = ctx.replay({'cmd': 'tokenize', 'source': src}, timeout=10)
        except subprocess.TimeoutExpired:
            return True, {'source': src[-300:], 'result': 'tokenize_program did not return within 10 s'}
        return ('panic' in r), {'source': src[-300:], 'result': 'returned' if 'panic' not in r else r}
    return rp

@kernel('K7 preprocessor.terminates')
def k7(ctx, kr):
    global _CTX
    _CTX = ctx
    k = 4 if ctx.tier == 'quick' else 6
    kr.bounds = ('preprocess() on every text made of %d pieces, each a symbolic choice out of {DESCRIPTION key, END_DESCRIPTION key, a letter, a line break, an ordinary comment}: returns within the unwinding bound '
                 '(2000 interpreter steps per input byte; the pinned code needs about 11), never panics' % k)
    for part in par_map(_k7_job, [(k, f) for f in range(len(_PIECES))] + [(kk, f) for kk in range(1, k) for f in range(len(_PIECES))]): merge_part(kr, part)
    P = ctx.program(['ironplc-parser', 'ironplc-dsl'])
    kr.functions = fn_paths(P, getattr(kr, '_enc', set()))
    kr.exhaustive = True
    kr.outside = ['texts with more pieces; other pieces (partial keys)']

# ---------------------------------------------------------------------------------------------- K8 nesting up to depth 12: lex, parse, analyse and render return
NEST_KINDS = ['IF', 'CASE', 'FOR', 'WHILE', 'REPEAT', 'mixed', 'parentheses', 'subscripts', 'call_arguments']
def _nested_program(kind, depth, pou='FUNCTION_BLOCK'):
    ind = lambda k: '  ' * (k + 1)
    def open_(k, i):
        return {'IF': '%sIF x > %d THEN\n' % (ind(i), i), 'CASE': '%sCASE x OF\n%s  %d:\n' % (ind(i), ind(i), i + 1), 'FOR': '%sFOR x := 1 TO %d DO\n' % (ind(i), i + 2), 'WHILE': '%sWHILE x < %d DO\n' % (ind(i), i + 1), 'REPEAT': '%sREPEAT\n' % ind(i)}[k]
    def close_(k, i):
        return {'IF': '%sEND_IF;\n' % ind(i), 'CASE': '%sEND_CASE;\n' % ind(i), 'FOR': '%sEND_FOR;\n' % ind(i), 'WHILE': '%sEND_WHILE;\n' % ind(i), 'REPEAT': '%sUNTIL x > %d\n%sEND_REPEAT;\n' % (ind(i), i, ind(i))}[k]
    head = '%s p%s\nVAR\n  x : INT;\n  arr : ARRAY[1..9] OF INT;\nEND_VAR\n' % (pou, ' : INT' if pou == 'FUNCTION' else '')
    tail = 'END_%s\n' % pou
    if kind == 'parentheses': body = '  x := ' + '(' * depth + 'x' + ' + 1)' * depth + ';\n'
    elif kind == 'subscripts': body = '  x := ' + 'arr[' * depth + 'x' + ']' * depth + ';\n'
    elif kind == 'call_arguments': body = '  x := ' + 'f(' * depth + 'x' + ')' * depth + ';\n'
    else:
        order = ['IF', 'CASE', 'FOR', 'WHILE', 'REPEAT']
        ks = [order[i % 5] if kind == 'mixed' else kind for i in range(depth)]
        body = ''.join(open_(k, i) for i, k in enumerate(ks)) + ind(depth) + 'x := 1;\n' + ''.join(close_(k, i) for i, k in reversed(list(enumerate(ks))))
    return head + body + tail

def _k8_job(job):
    kind, pou, depths = job
    from . import C10 as K10
    ctx = _CTX; part = Part()
    P = ctx.program()
    k_parse = P.find_fn('ironplc-parser', 'parse_program'); k_an = P.find_fn('ironplc-analyzer', 'stages::analyze'); k_write = P.find_fn('ironplc-plc2plc', 'write_to_string')
    k_opt = [k for k in P.items if k[0] == 'ironplc-parser' and re.search(r'ParseOptions as (std::default::)?Default>::default|options::<impl at [^>]*>::default', k[1])]
    holder = {}; st = {}
    M = Machine(P, stubs=K10.dyn_lexer_stubs(ctx, holder), max_steps=2_000_000_000)
    M.toposort_deterministic = True
    def entry(M):
        v = M.fresh_bv('depth', 8); M.declare_domain(v, list(depths))
        d = depths[-1]
        for val in depths[:-1]:
            if M.branch(v == val): d = val; break
        st['depth'] = d; st['stage'] = 'parse'
        text = _nested_program(kind, d, pou); st['src'] = text
        fid = Ref(Cell(Agg('FileId', [Str('f.st')])))
        opts = Ref(Cell(M.call_fn(k_opt[0], []) if k_opt else Agg('ParseOptions', [False])))
        r = M.call_fn(k_parse, [Ref(Cell(Str(text))), fid, opts])
        if r.disc != 0: return 'rejected'
        st['stage'] = 'analyze'
        a = M.call_fn(k_an, [Ref(Cell(VecV([Ref(Cell(r.f[0]))])))])
        st['stage'] = 'render'
        w = M.call_fn(k_write, [Ref(Cell(r.f[0]))])
        return 'ok'
    def on_path(M, pr):
        part.paths += 1
        src = st.get('src'); d = st.get('depth')
        if pr.inconclusive:
            if 'step budget' in pr.inconclusive: part.add('C04/K8/%s/does-not-finish' % kind, '%s nesting of depth %d in a %s: the front end does not finish within the unwinding bound' % (kind, d, pou), {'source': src}, ('frontend_hang', (src,)))
            else: part.inconc('%s depth %s: %s' % (kind, d, pr.inconclusive))
            return
        part.nontrivial += 1
        if pr.panic:
            where = st.get('stage')
            part.add('C04/K8/%s/%s-panic' % (kind, where), '%s nesting of depth %d in a %s: %s panics: %s' % (kind, d, pou, {'parse': 'parse_program', 'analyze': 'analyze', 'render': 'write_to_string'}.get(where, where), pr.panic.msg[:70]),
                     {'source': src, 'depth': d}, ('frontend_panic', (src,)))
        elif pr.result == 'rejected' and kind in ('IF', 'CASE', 'FOR', 'WHILE', 'REPEAT', 'mixed', 'parentheses'): part.inconc('%s depth %d does not parse' % (kind, d))
        elif len(part.validate) < 1 and d == depths[-1]: part.validate.append(('frontend_panic', (src,)))
        if len(part.samples) < 1: part.samples.append({'kind': kind, 'depth': d, 'outcome': pr.result if not pr.panic else 'panic'})
    M.explore(entry, on_path)
    part.queries += M.stats['smt']; part.encoded = set(M.encoded); part.models = set(M.models_used)
    return part

@kernel('K8 frontend.nesting_to_depth_12')
def k8(ctx, kr):
    global _CTX
    _CTX = ctx
    depths = [1, 4, 8, 9, 12] if ctx.tier == 'quick' else list(range(1, 13))
    kr.bounds = ('statement nesting (IF, CASE, FOR, WHILE, REPEAT, and the five in alternation), parentheses, array subscripts and call arguments nested to the depths %s (symbolic selector), inside a FUNCTION_BLOCK and a PROGRAM: '
                 'parse_program, stages::analyze and write_to_string from the MIR return a value (library, diagnostics or text): no panic, and within the step budget' % depths)
    jobs = [(k, pou, depths) for k in NEST_KINDS for pou in (('FUNCTION_BLOCK', 'PROGRAM') if k in ('CASE', 'mixed', 'IF') else ('FUNCTION_BLOCK',))]
    for part in par_map(_k8_job, jobs): merge_part(kr, part)
    P = ctx.program()
    kr.functions = fn_paths(P, getattr(kr, '_enc', set()))[:150]
    kr.exhaustive = True
    kr.outside = ['nesting deeper than 12; real stack depth of the native build (the interpreter has its own stack); wall-clock time of the native build']

# ---------------------------------------------------------------------------------------------- K9 long lexemes made of multi-byte characters: no byte-indexed cut can land on a character boundary in every alignment
LONG_KINDS = {
    'unterminated_comment': lambda body: 'PROGRAM p\nEND_PROGRAM\n(*' + body,
    'unterminated_string': lambda body: "PROGRAM p\nVAR\n  s : STRING := '" + body,
    'comment': lambda body: '(*' + body + '*)\nPROGRAM p\nEND_PROGRAM\n',
    'string_literal': lambda body: "PROGRAM p\nVAR\n  s : STRING := '" + body + "';\nEND_VAR\nEND_PROGRAM\n",
    'invalid_characters': lambda body: 'PROGRAM p\nEND_PROGRAM\n' + body,
    'syntax_error_at_long_string': lambda body: "PROGRAM p\n  '" + body + "'\nEND_PROGRAM\n",
    'syntax_error_at_long_comment_free_text': lambda body: 'PROGRAM p\nVAR\n  x : INT;\nEND_VAR\n  x := 1 (*' + body + '*) 2;\nEND_PROGRAM\n',
}
def _k9_job(job):
    kind, nchars = job
    from . import C10 as K10
    ctx = _CTX; part = Part()
    P = ctx.program()
    k_parse = P.find_fn('ironplc-parser', 'parse_program'); k_an = P.find_fn('ironplc-analyzer', 'stages::analyze')
    k_opt = [k for k in P.items if k[0] == 'ironplc-parser' and re.search(r'ParseOptions as (std::default::)?Default>::default|options::<impl at [^>]*>::default', k[1])]
    st = {}
    M = Machine(P, stubs=K10.dyn_lexer_stubs(ctx, {}), max_steps=2_000_000_000)
    M.toposort_deterministic = True
    CH = ['é', '€', '\U0001F600']
    def entry(M):
        c = M.fresh_bv('char', 8); M.declare_domain(c, [0, 1, 2]); ci = 0 if M.branch(c == 0) else (1 if M.branch(c == 1) else 2)
        sh = M.fresh_bv('shift', 8); M.declare_domain(sh, [0, 1, 2, 3]); shift = 0
        for v in range(3):
            if M.branch(sh == v): shift = v; break
            shift = v + 1
        # `shift` ASCII letters first: over the shifts every byte offset inside the lexeme is inside a character for some alignment
        body = 'a' * shift + CH[ci] * nchars
        text = LONG_KINDS[kind](body); st['src'] = text; st['what'] = (CH[ci], shift); st['stage'] = 'parse'
        fid = Ref(Cell(Agg('FileId', [Str('f.st')])))
        opts = Ref(Cell(M.call_fn(k_opt[0], []) if k_opt else Agg('ParseOptions', [False])))
        r = M.call_fn(k_parse, [Ref(Cell(Str(text))), fid, opts])
        if r.disc != 0: return 'rejected'
        st['stage'] = 'analyze'
        M.call_fn(k_an, [Ref(Cell(VecV([Ref(Cell(r.f[0]))])))])
        return 'ok'
    def on_path(M, pr):
        part.paths += 1
        src = st.get('src')
        if pr.inconclusive: part.inconc('%s: %s' % (kind, pr.inconclusive)); return
        part.nontrivial += 1
        if pr.panic:
            ch, shift = st['what']
            part.add('C04/K9/%s/panic' % kind, '%s of %d characters U+%04X after %d ASCII letters: %s panics: %s' % (kind.replace('_', ' '), nchars, ord(ch), shift, 'parse_program' if st['stage'] == 'parse' else 'analyze', pr.panic.msg[:70]),
                     {'kind': kind, 'character': 'U+%04X' % ord(ch), 'characters': nchars, 'shift': shift}, ('frontend_panic', (src,)))
        elif len(part.validate) < 1: part.validate.append(('frontend_panic', (src,)))
        if len(part.samples) < 1: part.samples.append({'kind': kind, 'bytes': len(src.encode()), 'outcome': pr.result if not pr.panic else 'panic'})
    M.explore(entry, on_path)
    part.queries += M.stats['smt']; part.encoded = set(M.encoded); part.models = set(M.models_used)
    return part

@kernel('K9 frontend.long_non_ascii_lexemes')
def k9(ctx, kr):
    global _CTX
    _CTX = ctx
    n = 300 if ctx.tier == 'quick' else 1400
    kr.bounds = ('lexemes of %d multi-byte characters (U+00E9, U+20AC, U+1F600; preceded by 0..3 ASCII letters so that every byte offset up to %d falls inside a character in some alignment) as unterminated comment, unterminated string, '
                 'comment, string literal, run of invalid characters, and as the offending token of a syntax error: parse_program and stages::analyze from the MIR return a result, no panic' % (n, 2 * n))
    for part in par_map(_k9_job, [(k, n) for k in LONG_KINDS]): merge_part(kr, part)
    P = ctx.program()
    kr.functions = fn_paths(P, getattr(kr, '_enc', set()))[:150]
    kr.exhaustive = True
    kr.outside = ['longer lexemes (a cut beyond byte %d is not exercised)' % (2 * n)]

KERNELS = [k2, k3, k4, k5, k6, k7, k8, k9]
