"""C04 — total and terminating: no input crashes lex, parse, analyse or render (decidable part: panic freedom of kernels)."""
import re
from framework import kernel, Finding
from . import kanicommon as KC

UNITS = {'dur_days_no_panic': ('days', 'd'), 'dur_hours_no_panic': ('hours', 'h'), 'dur_minutes_no_panic': ('minutes', 'm'),
         'dur_seconds_no_panic': ('seconds', 's'), 'dur_milliseconds_no_panic': ('milliseconds', 'ms')}

def _panic_kind(fc):
    if 'multiply with overflow' in fc['desc']: return 'mul-overflow'
    if 'add with overflow' in fc['desc']: return 'add-overflow'
    if 'expect_failed' in fc['func'] or 'unwrap_failed' in fc['func']: return 'time-duration-range'
    return re.sub(r'[^a-z0-9]+', '-', fc['desc'].lower())[:40]

@kernel('K2 kani.duration_constructors_no_panic')
def k2(ctx, kr):
    kr.bounds = 'all FixedPoint values (whole: u64, femptos < 10^15) for DurationLiteral::{days,hours,minutes,seconds,milliseconds}; all (ms: FixedPoint, sec: u64) for milliseconds(ms).plus(seconds(sec)); default unwinding assertions on'
    def mk(h, e, fc, vals):
        if h == 'dur_plus_no_panic':
            if vals is None or len(vals) < 3: return Finding('C04/K2/plus/overflow', 'DurationLiteral::plus panics (overflow when adding durations)', {'harness': h}, replay=None)
            lit = 'T#%ds_%sms' % (vals[2], KC.fp_literal(vals[0], vals[1]))
            def rp(ctx):
                r2 = ctx.replay({'cmd': 'check', 'sources': [KC.program_with_time(lit)]})
                return ('panic' in r2), {'check_of_program': r2, 'literal': lit}
            return Finding('C04/K2/plus/overflow', 'DurationLiteral::plus panics when the sum of the unit parts overflows time::Duration (literal %s)' % lit,
                           {'ms': [str(vals[0]), str(vals[1])], 'sec': str(vals[2]), 'literal': lit, 'note': 'chained duration literals do not lex (the unit letter fuses with the following digits into one identifier), so no caller can reach plus()'}, replay=None, unreachable=True)
        unit, suffix = UNITS[h]
        role = 'C04/K2/%s/%s' % (unit, _panic_kind(fc))
        if vals is None or len(vals) < 2: return Finding(role, 'DurationLiteral::%s panics: %s in %s' % (unit, fc['desc'], fc['func']), {'harness': h}, replay=None)
        lit = 'T#%s%s' % (KC.fp_literal(vals[0], vals[1]), suffix)
        def rp(ctx):
            r1 = ctx.replay({'cmd': 'duration', 'unit': unit, 'whole': str(vals[0]), 'femptos': str(vals[1])})
            r2 = ctx.replay({'cmd': 'check', 'sources': [KC.program_with_time(lit)]})
            return ('panic' in r1) and ('panic' in r2), {'direct_call': r1, 'check_of_program': r2, 'literal': lit}
        return Finding(role, 'DurationLiteral::%s panics (%s) for the literal %s' % (unit, fc['desc'] if 'placeholder' not in fc['desc'] else 'time::Duration range check', lit),
                       {'whole': str(vals[0]), 'femptos': str(vals[1]), 'literal': lit}, replay=rp)
    KC.apply(kr, list(UNITS) + ['dur_plus_no_panic'], mk)
    kr.outside = ['panic freedom of code outside ironplc-dsl numeric kernels is decided by the mirsym kernels of this property']
    kr.exhaustive = True

KERNELS = [k2]
