"""Shared helpers for the kernels that use the lifted lexer (C05, C08, C09, C14, C15)."""
import re, os, time
import z3
from mirsym import lexlift, dump
from mirsym.mirread import Unsupported

_CACHE = {}

def lexmodel(ctx):
    P = ctx.program()
    k = ('lm', id(P))
    if k not in _CACHE: _CACHE[k] = lexlift.LexModel(P)
    return _CACHE[k]

def lift(ctx, N, prefix='b'):
    """lift the lexer over N fully symbolic bytes (cached per N)"""
    LM = lexmodel(ctx)
    k = ('lift', id(LM), N, prefix)
    if k not in _CACHE:
        b = [z3.BitVec('%s%d' % (prefix, i), 8) for i in range(N)]
        L = lexlift.Lift(LM, b); toks = L.lex_all()
        _CACHE[k] = (b, L, toks)
    return _CACHE[k]

def token_rs_words():
    """(spelling, variant, ignore_case) for every #[token("...")] literal in the current token.rs"""
    src = open(os.path.join(dump.COMPILER, 'parser', 'src', 'token.rs')).read()
    out = []
    pending = []
    for line in src.split('\n'):
        s = line.strip()
        m = re.match(r'#\[token\("((?:[^"\\]|\\.)*)"(.*)\)\]$', s)
        if m:
            pending.append((m.group(1).replace('\\"', '"').replace('\\\\', '\\'), 'ignore(case)' in m.group(2))); continue
        if s.startswith('#[') or s.startswith('//') or not s: continue
        m = re.match(r'([A-Z][A-Za-z0-9]*),?$', s)
        if m:
            for sp, ic in pending: out.append((sp, m.group(1), ic))
        pending = []
    return out

# reserved words of IEC 61131-3 (2nd ed.) that the ironplc grammar refers to; used as the reference so that a keyword
# silently dropped or re-spelled in token.rs is still queried
IEC_KEYWORDS = '''ACTION END_ACTION ARRAY OF AT CASE ELSE END_CASE CONFIGURATION END_CONFIGURATION CONSTANT EN ENO EXIT FALSE F_EDGE FOR TO BY DO END_FOR
FUNCTION END_FUNCTION FUNCTION_BLOCK END_FUNCTION_BLOCK IF THEN ELSIF END_IF INITIAL_STEP END_STEP NOT MOD AND XOR OR PROGRAM WITH END_PROGRAM R_EDGE
READ_ONLY READ_WRITE REPEAT UNTIL END_REPEAT RESOURCE ON END_RESOURCE RETAIN NON_RETAIN RETURN STEP STRUCT END_STRUCT TASK TRANSITION FROM END_TRANSITION TRUE
TYPE END_TYPE VAR END_VAR VAR_INPUT VAR_OUTPUT VAR_IN_OUT VAR_TEMP VAR_EXTERNAL VAR_ACCESS VAR_CONFIG VAR_GLOBAL WHILE END_WHILE
BOOL SINT INT DINT LINT USINT UINT UDINT ULINT REAL LREAL TIME DATE TIME_OF_DAY TOD DATE_AND_TIME DT STRING WSTRING BYTE WORD DWORD LWORD'''.split()

# one representative spelling per token type, for lifting token-type witnesses to source text
def sample_lexemes():
    words = token_rs_words()
    s = {}
    for sp, var, ic in words: s.setdefault(var, sp)
    s.update({'Newline': '\n', 'Whitespace': ' ', 'Comment': '(* c *)', 'Identifier': 'x', 'Digits': '1', 'HexDigits': '16#1', 'OctDigits': '8#1',
              'BinDigits': '2#1', 'FloatingPoint': '1.0e1', 'FixedPoint': '1.5', 'SingleByteString': "'s'", 'DoubleByteString': '"s"',
              'DirectAddress': '%IX1', 'DirectAddressIncomplete': '%I*'})
    return s

def stream(toks, N, lo=0, hi=None):
    """reach[e]: a token of the stream that starts lexing at `lo` begins at offset e (symbolic token boundaries)"""
    hi = N if hi is None else hi
    reach = [z3.BoolVal(False)] * (N + 2); reach[lo] = z3.BoolVal(True)
    for e in range(lo, hi):
        t, end = toks[e]
        for e2 in range(e + 1, N + 1):
            reach[e2] = z3.Or(reach[e2], z3.And(reach[e], end == e2))
    return reach

def utf8_valid(b):
    """constraint: byte list b is valid UTF-8 (ends on a char boundary)"""
    n = len(b); cs = []
    # state machine over positions: need[i] = number of continuation bytes still expected before b[i]
    # encode with explicit lead/continuation classification per position
    lead1 = [z3.ULT(x, 0x80) for x in b]
    cont = [z3.And(z3.UGE(x, 0x80), z3.ULT(x, 0xC0)) for x in b]
    lead2 = [z3.And(z3.UGE(x, 0xC2), z3.ULT(x, 0xE0)) for x in b]
    lead3 = [z3.And(z3.UGE(x, 0xE0), z3.ULT(x, 0xF0)) for x in b]
    lead4 = [z3.And(z3.UGE(x, 0xF0), z3.ULT(x, 0xF5)) for x in b]
    st = [z3.BoolVal(False)] * (n + 1); st[0] = z3.BoolVal(True)    # st[i]: a character starts at i
    for i in range(n):
        st[i + 1] = z3.Or(st[i + 1], z3.And(st[i], lead1[i]))
        if i + 2 <= n: st[i + 2] = z3.Or(st[i + 2], z3.And(st[i], lead2[i], cont[i + 1]))
        if i + 3 <= n:
            ok3 = z3.And(cont[i + 1], cont[i + 2],
                         z3.Implies(b[i] == 0xE0, z3.UGE(b[i + 1], 0xA0)), z3.Implies(b[i] == 0xED, z3.ULT(b[i + 1], 0xA0)))
            st[i + 3] = z3.Or(st[i + 3], z3.And(st[i], lead3[i], ok3))
        if i + 4 <= n:
            ok4 = z3.And(cont[i + 1], cont[i + 2], cont[i + 3],
                         z3.Implies(b[i] == 0xF0, z3.UGE(b[i + 1], 0x90)), z3.Implies(b[i] == 0xF4, z3.ULT(b[i + 1], 0x90)))
            st[i + 4] = z3.Or(st[i + 4], z3.And(st[i], lead4[i], ok4))
    return st[n], st

def model_bytes(m, b):
    return bytes(m.eval(x, True).as_long() for x in b)

def check(s, kr):
    t = time.time(); r = s.check(); kr.solver_s += time.time() - t; kr.queries += 1
    return r


# ------------------------------------------------------------------ real `lexer::tokenize` over the lifted lexer
from mirsym.machine import Machine, Agg, EnumV, VecV, Str, Ref, Cell, UNIT, some, none, ok, err, simp, is_sym

def tokenize_machine(ctx, N, bytes_=None, extra_stubs=None):
    """Machine + entry for `lexer::tokenize(source, file_id)` where `source` is N symbolic bytes of valid UTF-8 and the
    logos Lexer (next/span/slice) is supplied by the lexer lifted from the MIR of the same tree."""
    P = ctx.program()
    LM = lexmodel(ctx)
    if bytes_ is None:
        b, L, toks = lift(ctx, N)
    else:
        b = list(bytes_); L = lexlift.Lift(LM, b); toks = L.lex_all()
    key = P.find_fn('ironplc-parser', 'lexer::tokenize')
    def st_lexer(M, fr, callee, a): return Agg('LogosLexer', [a[0], 0, 0])
    def st_next(M, fr, callee, a):
        lx = M.deref(a[0]); pos = lx.f[2]
        if pos >= N: return none()
        kind, end = toks[pos]
        e = simp(end)
        if is_sym(e): e = M.enum_int(end, pos + 1, N)
        lx.f[1] = pos; lx.f[2] = e
        kd = simp(kind)
        iserr = (kd == lexlift.ERR) if not is_sym(kd) else M.branch(kind == lexlift.ERR)
        if iserr: return some(err(UNIT))
        if not is_sym(kd) and kd == lexlift.END: raise Unsupported('lexer model returned END before the end of input')
        return some(ok(EnumV('TokenType', kd, [])))
    def st_span(M, fr, callee, a):
        lx = M.deref(a[0]); return Agg('Range', [lx.f[1], lx.f[2]])
    def st_slice(M, fr, callee, a):
        lx = M.deref(a[0]); src = M.deref(lx.f[0]); return Ref(Cell(Str(src.b[lx.f[1]:lx.f[2]])))
    def st_rlen(M, fr, callee, a):
        r = M.deref(a[0]); return r.f[1] - r.f[0]
    def st_tclone(M, fr, callee, a):
        v = M.deref(a[0]); return EnumV(v.name, v.disc, [])
    stubs = {
        r'^<token::TokenType as logos::Logos<.*>>::lexer$': st_lexer,
        r'^<logos::Lexer<.*> as std::iter::Iterator>::next$': st_next,
        r'^logos::Lexer::<.*>::span$': st_span,
        r'^logos::Lexer::<.*>::slice$': st_slice,
        r'^<std::ops::Range<usize> as std::iter::ExactSizeIterator>::len$': st_rlen,
        r'^<token::TokenType as std::clone::Clone>::clone$': st_tclone,
    }
    if extra_stubs: stubs.update(extra_stubs)
    M = Machine(P, stubs=stubs)
    if all(isinstance(x, int) for x in b): M.base_constraints = []
    else:
        valid, _ = utf8_valid([x if not isinstance(x, int) else z3.BitVecVal(x, 8) for x in b]); M.base_constraints = [valid]
    def entry(M):
        src = Ref(Cell(Str(list(b))))
        return M.call_fn(key, [src, Ref(Cell(Agg('FileId', [Str('f.st')])))])
    return M, entry, b, L, toks, LM

STUB_NOTES = ['logos::Lexer::{next,span,slice} supplied by the lifted lexer model (MIR of the generated state machine)',
              '<TokenType as Clone>::clone = identity (derived Clone of a fieldless enum)', 'format!/fmt::Arguments opaque']


# ------------------------------------------------------------------ concrete parse through the interpreter (AST builder + translator validation)
def parse_concrete(ctx, text, file_id='f.st'):
    """Run the real front end (lifted lexer -> lexer::tokenize -> xform_tokens -> peg parse_library -> xform_assign_file_id)
    on concrete source text inside the interpreter and return the Library value (an Agg tree). Raises Unsupported on failure."""
    P = ctx.program()
    data = text.encode()
    M, entry, b, L, toks, LM = tokenize_machine(ctx, len(data), bytes_=list(data))
    k_x = P.find_fn('ironplc-parser', 'xform_tokens::insert_keyword_statement_terminators')
    k_p = P.find_fn('ironplc-parser', 'parser::parse_library')
    k_f = P.find_fn('ironplc-parser', 'xform_assign_file_id::apply')
    def run(M):
        fid = Ref(Cell(Agg('FileId', [Str(file_id)])))
        r = M.call_fn(M.prog.find_fn('ironplc-parser', 'lexer::tokenize'), [Ref(Cell(Str(list(data)))), fid])
        if r.f[1].items: raise Unsupported('lexical error in builder text')
        tokens = M.call_fn(k_x, [r.f[0], fid])
        lib = M.call_fn(k_p, [tokens])
        if lib.disc != 0: raise Unsupported('builder text does not parse: %r' % (lib,))
        out = M.call_fn(k_f, [Agg('Library', [lib.f[0]]), fid])
        if out.disc != 0: raise Unsupported('file id assignment failed')
        return out.f[0]
    res = M.explore(run)
    if len(res) != 1 or res[0].inconclusive or res[0].panic:
        raise Unsupported('concrete parse failed: %s' % (res[0].inconclusive or res[0].panic if res else 'no path'))
    return res[0].result, M

def subst_names(v, mapping):
    """replace identifier spellings in an AST value: mapping lower-case name -> replacement value factory(orig Str) -> value"""
    from mirsym.machine import Agg as _A, EnumV as _E, VecV as _V, Ref as _R, Str as _S
    if isinstance(v, _S):
        c = v.conc()
        if c is not None and c.lower() in mapping: return mapping[c.lower()](v)
        return v
    if isinstance(v, _A) and v.name.split('::')[-1] == 'Id' and len(v.f) == 3 and isinstance(v.f[1], _S):
        # an identifier has two views: the spelling as written (f0) and the lower-cased spelling (f1) that equality and hashing use
        c = v.f[1].conc()
        if c is not None and c in mapping:
            r = mapping[c](v.f[0])
            v.f[0] = r; v.f[1] = r.lower if getattr(r, 'lower', None) is not None else r
        return v
    if isinstance(v, (_A, _E)): v.f = [subst_names(x, mapping) for x in v.f]; return v
    if isinstance(v, _V): v.items = [subst_names(x, mapping) for x in v.items]; return v
    if isinstance(v, _R):
        if not v.path: v.cell.v = subst_names(v.cell.v, mapping)
        return v
    return v
