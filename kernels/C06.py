"""C06 — result is independent of declaration order, file partition, file order and run."""
import time, json, itertools, re
import z3
from framework import kernel, Finding, fn_paths, Part, par_map, merge_part, replay_factory
from mirsym.machine import *
from mirsym.mirread import Unsupported
from mirsym import models
from . import lexcommon as LC, topo_common as TC
from . import C03 as K03, C07 as K07

_CTX = None

# ---------------------------------------------------------------------------------------------- K1 hash-order independence of the project
@kernel('K1 project.hash_order_independence')
def k1(ctx, kr):
    K03._CTX = ctx
    NMAX = 3 if ctx.tier == 'quick' else 4
    kr.bounds = 'compilation sets of 1..%d files, every iteration order of the source HashMap (nondeterministic permutation), parse/analysis outcomes symbolic' % NMAX
    for part in par_map(K03._k1_job, [(n,) for n in range(NMAX, 0, -1)]):
        part.findings = [f for f in part.findings if f['role'].startswith('C06/')]
        merge_part(kr, part)
    P = ctx.program()
    kr.functions = fn_paths(P, getattr(kr, '_enc', set()))
    kr.stubs = ['parse_program / analyze as order-insensitive nondeterministic stubs (their own order-independence: K2/K3)']
    kr.exhaustive = True

# ---------------------------------------------------------------------------------------------- K2/K3 toposort normalisation under permutation and partition
def _texts(real, K):
    return {'fb': TC.source_fb, 'alias': TC.source_alias}[real](K)

def _k23_job(job):
    """real, K, perm (order of the declarations in the text), split (None = one library; else tuple of file index per position)"""
    real, K, perm, split = job
    cased = real == 'alias_cased'; casebits = {}
    if cased: real = 'alias'
    ctx = _CTX; part = Part()
    P = ctx.program()
    names = K07._names(real, K)
    texts = _texts(real, K)
    lib0, text = TC.build(ctx, texts, order=perm)
    k_apply = P.find_fn('ironplc-analyzer', 'xform_toposort_declarations::apply')
    k_resolve = P.find_fn('ironplc-analyzer', 'stages::resolve_types')
    seen_lib = {}
    def later(M, fr, callee, a):
        seen_lib.setdefault('first', a[0]); return ok(a[0])
    stubs = {r'xform_resolve_late_bound_data_decl::apply$': later, r'xform_resolve_late_bound_expr_kind::apply$': later, r'xform_resolve_late_bound_type_initializer::apply$': later}
    M = Machine(P, stubs=stubs if split is not None else None, max_steps=50_000_000)
    sym = {}
    def entry(M):
        seen_lib.clear()
        lib = deep_clone(lib0)
        ids = {n: models.str_term(M, Str(n)) for n in names + ['int']}
        mapping = {}; sym.clear()
        if real == 'fb':
            for i in range(K):
                for j in range(K):
                    e = M.fresh_bool('e_%d_%d' % (i, j)); sym[(i, j)] = e
                    mapping['t%d_%d' % (i, j)] = (lambda t: (lambda orig: TC.ident_sym(t, orig)))(z3.If(e, ids[names[j]], ids['int']))
        else:
            upper = {n: models.str_term(M, Str(n.upper())) for n in names} if cased else None
            for i in range(K):
                b = M.fresh_bv('base_%d' % i, 8); M.assume(z3.ULE(b, K)); sym[i] = b
                t = ids['int']
                for j in range(K): t = z3.If(b == j, ids[names[j]], t)
                if cased:
                    # the reference may be spelled in upper case: another spelling of the same name
                    cb = M.fresh_bool('upper_%d' % i); casebits[i] = cb
                    tw = t
                    for j in range(K): tw = z3.If(z3.And(cb, b == j), upper[names[j]], tw)
                    mapping['b%d' % i] = (lambda tw, t: (lambda orig: TC.ident_sym(tw, orig, t)))(tw, t)
                else:
                    mapping['b%d' % i] = (lambda t: (lambda orig: TC.ident_sym(t, orig)))(t)
        lib = LC.subst_names(lib, mapping)
        if split is None: return M.call_fn(k_apply, [lib])
        nfiles = max(split) + 1
        libs = [Agg('Library', [VecV([e for pos, e in enumerate(lib.f[0].items) if split[pos] == f])]) for f in range(nfiles)]
        srcs = Ref(Cell(VecV([Ref(Cell(l)) for l in libs])))
        return M.call_fn(k_resolve, [srcs])
    def on_path(M, pr):
        part.paths += 1
        if pr.inconclusive: part.inconc(pr.inconclusive); return
        s = z3.Solver(); s.add(*pr.pc)
        part.nontrivial += 1
        def edge(i, j): return sym[(i, j)] if real == 'fb' else (sym[i] == j)
        reach = [[edge(i, j) for j in range(K)] for i in range(K)]
        for k_ in range(K):
            reach = [[z3.Or(reach[i][j], z3.And(reach[i][k_], reach[k_][j])) for j in range(K)] for i in range(K)]
        ref_cyc = z3.Or([reach[i][i] for i in range(K)])
        if not pr.panic:
            res0 = pr.result; code0 = None
            if res0.disc == 1:
                d0 = res0.f[0].items[0]; c0 = M.deref(d0.f[0]); code0 = c0.conc() if isinstance(c0, Str) else None
            got0 = res0.disc == 1 and code0 is not None and ('RecursiveCycle' in code0 or code0 == 'P0010')
            # prefer an input (consistent with this path) on which the verdict is wrong; inputs the code never compared are free
            s.push(); s.add(ref_cyc != z3.BoolVal(got0))
            t = time.time(); r = s.check(); part.solver_s += time.time() - t; part.queries += 1
            if r != z3.sat:
                s.pop(); t = time.time(); r = s.check(); part.solver_s += time.time() - t; part.queries += 1
                if r != z3.sat: return
                m = s.model()
            else:
                m = s.model(); s.pop()
        else:
            if s.check() != z3.sat: return
            m = s.model()
        if real == 'fb': edges = sorted((i, j) for (i, j), e in sym.items() if z3.is_true(m.eval(e, True)))
        else: edges = [(i, m.eval(b, True).as_long()) for i, b in sym.items() if m.eval(b, True).as_long() < K]
        cyc = TC.reach_cyclic(K, edges)
        ups = {i for i, cb in casebits.items() if z3.is_true(m.eval(cb, True))}
        decls = [d for d in _decls(real, K, edges, ups)]
        order = [decls[i] for i in perm]
        files = [''.join(order[pos] for pos in range(K) if (split[pos] if split else 0) == f) for f in range((max(split) + 1) if split else 1)]
        tag = '%s/perm%s%s' % (real + ('-respelled' if ups else ''), ''.join(map(str, perm)), ('/files' + ''.join(map(str, split))) if split else '')
        wit = {'realisation': real, 'edges': edges, 'files': files}
        if pr.panic:
            part.add('C06/K2/panic/' + tag, 'panic: ' + pr.panic.msg, wit, ('order', (files, cyc))); return
        res = pr.result
        got_err = res.disc == 1
        code = None
        if got_err:
            d = res.f[0].items[0]; c = M.deref(d.f[0]); code = c.conc() if isinstance(c, Str) else None
        is_rec = got_err and code is not None and ('RecursiveCycle' in code or code == 'P0010')
        if is_rec != cyc:
            part.add('C06/K2/verdict-depends-on-order/' + tag, 'declaration order %s%s changes the recursion verdict for %s graph %s: %s expected, got %s' %
                     (list(perm), (' split over files %s' % (list(split),)) if split else '', real, edges, 'P0010' if cyc else 'no P0010', code or 'Ok'), wit, ('order', (files, cyc)))
        elif not got_err and real == 'alias':
            lib = seen_lib.get('first') if split is not None else res.f[0]
            if lib is not None:
                pos = {}
                for idx, e in enumerate(lib.f[0].items):
                    txt = repr(e)
                    for n in names:
                        if "Str('%s')" % n in txt.split('SymStr')[0][:200] or ("'%s'" % n) in txt[:160]: pos.setdefault(n, idx)
                for (i, j) in edges:
                    if names[i] in pos and names[j] in pos and pos[names[j]] > pos[names[i]]:
                        part.add('C06/K3/base-after-alias/' + tag, 'after normalisation the alias %s precedes its base type %s (order %s, files %s): later resolution depends on the input order' %
                                 (names[i], names[j], list(perm), list(split) if split else None), wit, ('order', (files, cyc)))
        if not part.findings and len(part.validate) < 1: part.validate.append(('order', (files, cyc)))
        if len(part.samples) < 1: part.samples.append({'case': tag, 'edges': edges, 'verdict': code or 'Ok'})
    M.explore(entry, on_path)
    part.queries += M.stats['smt']; part.encoded = set(M.encoded); part.models = set(M.models_used)
    return part

def _decls(real, K, edges, ups=()):
    names = K07._names(real, K); E = set(edges)
    if real == 'fb':
        return ['FUNCTION_BLOCK fb%d\nVAR\n%sEND_VAR\nEND_FUNCTION_BLOCK\n' % (i, ''.join('  v%d_%d : %s;\n' % (i, j, names[j] if (i, j) in E else 'INT') for j in range(K))) for i in range(K)]
    d = dict(edges)
    return ['TYPE\n  al%d : %s;\nEND_TYPE\n' % (i, (names[d[i]].upper() if i in ups else names[d[i]]) if i in d else 'INT') for i in range(K)]

@replay_factory('order')
def _replay_order(files, cyc):
    def rp(ctx):
        r = ctx.replay({'cmd': 'analyze', 'sources': files})
        merged = ctx.replay({'cmd': 'analyze', 'sources': [''.join(files)]})
        if 'panic' in r: return True, r
        codes = sorted(d['code'] for d in r.get('diagnostics', [])); mcodes = sorted(d['code'] for d in merged.get('diagnostics', []))
        # order/partition dependence: the same declarations as one unit give a different verdict, or the recursion verdict is wrong
        bad = (('P0010' in codes) != cyc) or (codes != mcodes and bool(r.get('ok')) != bool(merged.get('ok')))
        det = {'files': files, 'codes': codes, 'codes_single_file': mcodes, 'reference_cyclic': cyc}
        if not bad:
            # ... or another order of the same declarations gives a different verdict
            decls = [d for d in re.split(r'(?<=END_FUNCTION_BLOCK\n)|(?<=END_TYPE\n)', ''.join(files)) if d.strip()]
            if 1 < len(decls) <= 4:
                seen = {}
                for p in itertools.permutations(decls):
                    rr = ctx.replay({'cmd': 'analyze', 'sources': [''.join(p)]})
                    seen[''.join(p)] = tuple(sorted(set(d['code'] for d in rr.get('diagnostics', []))))
                if len(set(seen.values())) > 1: bad = True; det['verdicts_over_orders'] = sorted(map(list, set(seen.values())))
        return bad, det
    return rp

@kernel('K2 toposort.order_independence')
def k2(ctx, kr):
    global _CTX
    _CTX = ctx
    jobs = []
    K = 2 if ctx.tier == 'quick' else 3
    for real in ('fb', 'alias'):
        for perm in itertools.permutations(range(K)): jobs.append((real, K, perm, None))
    if ctx.tier == 'quick':
        for perm in itertools.permutations(range(3)): jobs.append(('alias', 3, perm, None))
    # alias references optionally spelled in upper case (a declaration `al1` referenced as `AL1`)
    for perm in itertools.permutations(range(3)): jobs.append(('alias_cased', 3, perm, None))
    kr.bounds = 'every permutation of the declarations of every function-block graph on %d nodes and every alias graph on %d nodes (reference edges symbolic; also with every alias reference optionally spelled in upper case); toposort tie-breaks nondeterministic' % (K, 3)
    for part in par_map(_k23_job, jobs): merge_part(kr, part)
    P = ctx.program()
    kr.functions = fn_paths(P, getattr(kr, '_enc', set()))
    kr.assumptions = ['petgraph toposort returns any order consistent with the edges (all tie-breaks explored)']
    kr.exhaustive = True

@kernel('K3 stages.partition_independence')
def k3(ctx, kr):
    global _CTX
    _CTX = ctx
    jobs = []
    for real in ('fb', 'alias'):
        for perm in itertools.permutations(range(2)):
            jobs.append((real, 2, perm, (0, 1)))
    if ctx.tier == 'thorough':
        for perm in itertools.permutations(range(3)):
            for split in ((0, 0, 1), (0, 1, 1), (0, 1, 2)): jobs.append(('alias', 3, perm, split))
    kr.bounds = 'stages::resolve_types on 2 declarations split over 2 files in both orders (thorough: 3 declarations over 2-3 files), reference edges symbolic; the three later transforms are identity stubs that record their input'
    for part in par_map(_k23_job, jobs): merge_part(kr, part)
    P = ctx.program()
    kr.functions = fn_paths(P, getattr(kr, '_enc', set()))
    kr.stubs = ['xform_resolve_late_bound_{data_decl,expr_kind,type_initializer}::apply = identity (record input)']
    kr.exhaustive = True

# ---------------------------------------------------------------------------------------------- K4 rule verdicts under exchange of independent declarations
from . import C02 as K02

@replay_factory('decl_order')
def _replay_decl_order(src, rname):
    def rp(ctx):
        decls = [d for d in re.split(r'(?<=END_FUNCTION_BLOCK\n)|(?<=END_TYPE\n)|(?<=END_PROGRAM\n)|(?<=END_CONFIGURATION\n)', src) if d.strip()]
        seen = {}
        for perm in itertools.permutations(decls):
            r = ctx.replay({'cmd': 'analyze', 'sources': [''.join(perm)]})
            if 'panic' in r: return True, r
            seen[''.join(perm)] = tuple(sorted(set(d['code'] for d in r.get('diagnostics', []))))
        # and one declaration per file, in every file order
        for perm in itertools.permutations(decls):
            r = ctx.replay({'cmd': 'analyze', 'sources': list(perm)})
            seen['|'.join(perm)] = tuple(sorted(set(d['code'] for d in r.get('diagnostics', []))))
        vals = set(seen.values())
        return len(vals) > 1, {'distinct_results': sorted(map(list, vals)), 'example_source': src}
    return rp

@kernel('K4 rules.declaration_order_independence')
def k4(ctx, kr):
    K02._CTX = ctx
    rules = [r for r in K02.RULES if K02.RULES[r].get('swap')]
    kr.bounds = 'rules %s on their C02 templates (identifiers symbolic over the template alphabet), with the two mutually independent POUs of the template in either order: the verdict must not depend on the order' % rules
    parts = par_map(K02._rule_job, [(r, sw) for r in rules for sw in (False, True)])
    by = {}
    for (r, sw), part in zip([(r, sw) for r in rules for sw in (False, True)], parts):
        part.findings = []; part.validate = []
        merge_part(kr, part); by[(r, sw)] = part.verdicts
    for r in rules:
        a, b = by[(r, False)], by[(r, True)]
        for names in sorted(set(a) | set(b)):
            if names in a and names in b and a[names] != b[names]:
                src = K02._subst_text(K02.RULES[r]['text'], list(names))
                kr.findings.append(Finding('C06/K4/%s/order-dependent' % r, 'rule %s with names %s reports %s for one order of the independent declarations and %s for the other' % (r, list(names), list(a[names]) or 'nothing', list(b[names]) or 'nothing'),
                                           {'names': list(names), 'source': src}, replay=_replay_decl_order(src, r)))
                break
        if len(kr.validate) < 2 and a:
            names = sorted(a)[0]; kr.validate.append(('decl_order', (K02._subst_text(K02.RULES[r]['text'], list(names)), r)))
        if len(kr.samples) < 3 and a: kr.samples.append({'rule': r, 'name_assignments_compared': len(set(a) & set(b))})
    P = ctx.program()
    kr.functions = fn_paths(P, getattr(kr, '_enc', set()))
    kr.exhaustive = True
    kr.outside = ['rules and templates without two independent POUs; more than one exchange']


# ---------------------------------------------------------------------------------------------- K5 whole analysis: verdict, code and location under every order, partition and tie-break
_E = 'TYPE\n  level : (info, critical) := info;\nEND_TYPE\n'
UNITS = {
    # name: list of top-level declarations (each a complete text); single-fault units have exactly one violated rule
    'struct_with_enum_default': [_E, 'TYPE\n  rec : STRUCT\n    lvl : level := critical;\n    n : INT;\n  END_STRUCT;\nEND_TYPE\n'],
    'struct_with_bad_enum_default': [_E, 'TYPE\n  rec : STRUCT\n    lvl : level := warning;\n  END_STRUCT;\nEND_TYPE\n'],
    'fb_var_with_enum_default': [_E, 'FUNCTION_BLOCK logger\nVAR_INPUT\n  lvl : level := critical;\nEND_VAR\nEND_FUNCTION_BLOCK\n'],
    'fb_var_with_bad_enum_default': [_E, 'FUNCTION_BLOCK logger\nVAR_INPUT\n  lvl : level := warning;\nEND_VAR\nEND_FUNCTION_BLOCK\n'],
    'enum_alias_chain': [_E, 'TYPE\n  lvl2 : level;\nEND_TYPE\n', 'FUNCTION_BLOCK logger\nVAR\n  v : lvl2 := critical;\nEND_VAR\nEND_FUNCTION_BLOCK\n'],
    'fb_call': ['FUNCTION_BLOCK callee\nVAR_INPUT\n  in1 : BOOL;\nEND_VAR\nEND_FUNCTION_BLOCK\n', 'FUNCTION_BLOCK caller\nVAR\n  inst : callee;\nEND_VAR\n  inst(in1 := TRUE);\nEND_FUNCTION_BLOCK\n',
                'PROGRAM main\nVAR\n  c : caller;\nEND_VAR\n  c();\nEND_PROGRAM\n'],
    'fb_call_bad_input': ['FUNCTION_BLOCK callee\nVAR_INPUT\n  in1 : BOOL;\nEND_VAR\nEND_FUNCTION_BLOCK\n', 'FUNCTION_BLOCK caller\nVAR\n  inst : callee;\nEND_VAR\n  inst(zz := TRUE);\nEND_FUNCTION_BLOCK\n'],
    'struct_and_alias': ['TYPE\n  point : STRUCT\n    x : INT;\n    y : INT;\n  END_STRUCT;\nEND_TYPE\n', 'TYPE\n  pt : point;\nEND_TYPE\n', 'FUNCTION_BLOCK fb\nVAR\n  p : pt;\nEND_VAR\nEND_FUNCTION_BLOCK\n'],
    'configuration': ['CONFIGURATION cfg\n  VAR_GLOBAL CONSTANT\n    g : INT := 1;\n  END_VAR\n  RESOURCE res ON PLC\n    TASK tsk(INTERVAL := T#100ms, PRIORITY := 1);\n    PROGRAM inst WITH tsk : prog;\n  END_RESOURCE\nEND_CONFIGURATION\n',
                      'PROGRAM prog\nVAR_EXTERNAL CONSTANT\n  g : INT;\nEND_VAR\nEND_PROGRAM\n'],
    'configuration_external_not_constant': ['CONFIGURATION cfg\n  VAR_GLOBAL CONSTANT\n    g : INT := 1;\n  END_VAR\n  RESOURCE res ON PLC\n    TASK tsk(INTERVAL := T#100ms, PRIORITY := 1);\n    PROGRAM inst WITH tsk : prog;\n  END_RESOURCE\nEND_CONFIGURATION\n',
                      'PROGRAM prog\nVAR_EXTERNAL\n  g : INT;\nEND_VAR\nEND_PROGRAM\n'],
    'two_configurations_external_not_constant': ['CONFIGURATION cfga\n  VAR_GLOBAL CONSTANT\n    g : INT := 1;\n  END_VAR\n  RESOURCE ra ON PLC\n    TASK ta(INTERVAL := T#100ms, PRIORITY := 1);\n    PROGRAM ia WITH ta : prog;\n  END_RESOURCE\nEND_CONFIGURATION\n',
                      'CONFIGURATION cfgb\n  VAR_GLOBAL\n    h : INT := 2;\n  END_VAR\n  RESOURCE rb ON PLC\n    TASK tb(INTERVAL := T#100ms, PRIORITY := 1);\n    PROGRAM ib WITH tb : prog;\n  END_RESOURCE\nEND_CONFIGURATION\n',
                      'PROGRAM prog\nVAR_EXTERNAL\n  g : INT;\nEND_VAR\nEND_PROGRAM\n'],
    'subrange_user': ['TYPE\n  rng : INT(1..10);\nEND_TYPE\n', 'FUNCTION_BLOCK fb\nVAR\n  r : rng;\nEND_VAR\nEND_FUNCTION_BLOCK\n'],
    'duplicate_struct_element': ['TYPE\n  rec : STRUCT\n    a : INT;\n    a : BOOL;\n  END_STRUCT;\nEND_TYPE\n', _E],
    'undeclared_variable': ['FUNCTION_BLOCK one\nVAR\n  a : INT;\nEND_VAR\n  a := 1;\nEND_FUNCTION_BLOCK\n', 'FUNCTION_BLOCK two\nVAR\n  b : INT;\nEND_VAR\n  a := 2;\nEND_FUNCTION_BLOCK\n'],
    'recursive_fb': ['FUNCTION_BLOCK a\nVAR\n  x : b;\nEND_VAR\nEND_FUNCTION_BLOCK\n', 'FUNCTION_BLOCK b\nVAR\n  y : a;\nEND_VAR\nEND_FUNCTION_BLOCK\n'],
    'function_and_caller': ['FUNCTION twice : INT\nVAR_INPUT\n  v : INT;\nEND_VAR\n  twice := v * 2;\nEND_FUNCTION\n', 'PROGRAM main\nVAR\n  r : INT;\nEND_VAR\n  r := twice(v := 2);\nEND_PROGRAM\n'],
    'array_of_named_type': [_E, 'TYPE\n  levels : ARRAY[1..3] OF level;\nEND_TYPE\n', 'FUNCTION_BLOCK fb\nVAR\n  l : levels;\nEND_VAR\nEND_FUNCTION_BLOCK\n'],
}
# a reference cycle has no single location: any declaration on the cycle may carry the label, so only verdict and code are compared there
CODE_ONLY_UNITS = {'recursive_fb'}
QUICK_UNITS = ['struct_with_enum_default', 'struct_with_bad_enum_default', 'fb_var_with_bad_enum_default', 'enum_alias_chain', 'fb_call_bad_input', 'configuration_external_not_constant', 'undeclared_variable', 'struct_and_alias']

def _splits(k):
    """file index per position: one file, or two files split after position i"""
    return [tuple([0] * k)] + [tuple([0] * i + [1] * (k - i)) for i in range(1, k)]

def _k5_job(job):
    uname, perm, split = job
    from . import C10 as K10, tplcommon as TP, C02 as K02
    ctx = _CTX; part = Part(); part.verdicts = {}; part.uname = uname
    decls = UNITS[uname]
    P = ctx.program()
    k_parse = P.find_fn('ironplc-parser', 'parse_program'); k_an = P.find_fn('ironplc-analyzer', 'stages::analyze')
    k_opt = TP.parse_opts(P)
    holder = {}; st = {}
    M = Machine(P, stubs=K10.dyn_lexer_stubs(ctx, holder), max_steps=800_000_000)      # toposort tie-breaks stay nondeterministic: every order petgraph may return is a path
    files = [''.join(decls[perm[pos]] for pos in range(len(perm)) if split[pos] == f) for f in range(max(split) + 1)]
    def entry(M):
        libs = []
        for i, text in enumerate(files):
            fid = Ref(Cell(Agg('FileId', [Str('f%d.st' % i)])))
            opts = Ref(Cell(M.call_fn(k_opt[0], []) if k_opt else Agg('ParseOptions', [False])))
            r = M.call_fn(k_parse, [Ref(Cell(Str(text))), fid, opts])
            if r.disc != 0: return ('rejected', None)
            libs.append(Ref(Cell(r.f[0])))
        a = M.call_fn(k_an, [Ref(Cell(VecV(libs)))])
        if a.disc == 0: return ('ok', ())
        out = []
        for d in a.f[0].items:
            d = M.deref(d) if isinstance(d, Ref) else d
            c = M.deref(d.f[0]); code = K02._code_of(P, re.sub(r'^code:', '', c.conc() if isinstance(c, Str) else '?'))
            lb = _find_label(M, d) if uname not in CODE_ONLY_UNITS else None
            lab = None
            if lb is not None:
                loc = M.deref(lb.f[0]) if isinstance(lb.f[0], Ref) else lb.f[0]
                a0, a1 = simp(loc.f[0]), simp(loc.f[1]); fname = None
                stack = [lb.f[1]]
                while stack:
                    x = stack.pop()
                    if isinstance(x, Ref): x = M.deref(x)
                    if isinstance(x, Str): fname = x.conc(); break
                    if isinstance(x, (Agg, EnumV)): stack.extend(x.f)
                src = files[int(fname[1:-3])] if fname and re.fullmatch(r'f\d+\.st', fname) else None
                lab = src.encode()[a0:a1].decode('utf-8', 'replace') if (src is not None and isinstance(a0, int) and isinstance(a1, int)) else '?'
            out.append((code, lab))
        return ('diagnosed', tuple(sorted(out, key=str)))
    def on_path(M, pr):
        part.paths += 1
        if pr.inconclusive: part.inconc('%s: %s' % (uname, pr.inconclusive)); return
        if pr.panic: part.inconc('%s: panic (C04): %s' % (uname, pr.panic.msg[:60])); return
        part.nontrivial += 1
        kind, v = pr.result
        if kind == 'rejected': part.inconc('%s: a declaration of the unit does not parse' % uname); return
        part.verdicts.setdefault(v, (perm, split, files))
    M.explore(entry, on_path)
    part.queries += M.stats['smt']; part.encoded = set(M.encoded); part.models = set(M.models_used)
    return part

def _find_label(M, d):
    """the primary label of a Diagnostic: the first Label aggregate in field order"""
    stack = [d]
    while stack:
        v = stack.pop()
        if isinstance(v, Agg) and re.sub(r'<.*', '', v.name).split('::')[-1] == 'Label': return v
        if isinstance(v, (Agg, EnumV)): stack.extend(reversed(v.f))
        elif isinstance(v, VecV): stack.extend(reversed(v.items))
        elif isinstance(v, Ref): stack.append(M.get(v.cell, v.path))
    return None

@replay_factory('order_units')
def _replay_order_units(uname):
    def rp(ctx):
        decls = UNITS[uname]; k = len(decls); seen = {}
        cmds = []; keys = []
        for perm in itertools.permutations(range(k)):
            for split in _splits(k):
                files = [''.join(decls[perm[pos]] for pos in range(k) if split[pos] == f) for f in range(max(split) + 1)]
                for fo in ([files, files[::-1]] if len(files) > 1 else [files]):
                    cmds.append({'cmd': 'analyze', 'sources': fo}); keys.append((perm, split, fo))
        res = ctx.replay(cmds)
        for (perm, split, fo), r in zip(keys, res):
            if 'panic' in r: v = 'panic'
            elif 'parse_error' in r: return None, {'note': 'unit does not parse', 'r': r}
            else:
                v = []
                for d in r.get('diagnostics', []):
                    src = fo[int(d['file'][1:-3])] if re.fullmatch(r'f\d+\.st', d['file']) else ''
                    v.append((d['code'], src.encode()[d['start']:d['end']].decode('utf-8', 'replace') if uname not in CODE_ONLY_UNITS else None))
                v = tuple(sorted(v))
            seen.setdefault(v, (perm, split))
        return len(seen) > 1, {'unit': uname, 'distinct_results': [{'result': str(v)[:200], 'first_seen_with_order': list(o[0]), 'files': list(o[1])} for v, o in list(seen.items())[:4]]}
    return rp

@kernel('K5 analyze.result_independent_of_order_and_partition')
def k5(ctx, kr):
    global _CTX
    _CTX = ctx
    names = list(UNITS)
    kr.bounds = ('compilation units %s (2-3 top-level declarations each, valid units and units with exactly one fault): parse_program + stages::analyze on the MIR for every order of the declarations, every split of the sequence into one or two files, '
                 'and every order petgraph::toposort may return for unrelated declarations (nondeterministic tie-break): the set of (problem code, text under the primary label) is the same on every path' % names)
    jobs = []
    for u in names:
        k = len(UNITS[u])
        for perm in itertools.permutations(range(k)):
            for split in _splits(k): jobs.append((u, perm, split))
    verd = {u: {} for u in names}
    for part in par_map(_k5_job, jobs):
        for v, w in part.verdicts.items(): verd[part.uname].setdefault(v, w)
        merge_part(kr, part)
    for u in names:
        if len(verd[u]) > 1:
            items = list(verd[u].items())
            kr.findings.append(Finding('C06/K5/%s/result-depends-on-order-or-partition' % u,
                'unit %s: %d different results, e.g. %s with declaration order %s in files %s, but %s with order %s in files %s' % (u, len(items), list(items[0][0])[:2] or 'success', list(items[0][1][0]), list(items[0][1][1]),
                    list(items[1][0])[:2] or 'success', list(items[1][1][0]), list(items[1][1][1])), {'unit': u, 'results': [str(i[0])[:200] for i in items[:4]]}, replay=_replay_order_units(u)))
        elif len(kr.validate) < 2: kr.validate.append(('order_units', (u,)))
        if len(kr.samples) < 3 and verd[u]: kr.samples.append({'unit': u, 'result': str(list(verd[u])[0])[:160]})
    P = ctx.program()
    kr.functions = fn_paths(P, getattr(kr, '_enc', set()))[:150]
    kr.exhaustive = True
    kr.outside = ['units with more than three declarations or more than two files; hash order of the project map (K1)']

KERNELS = [k1, k2, k3, k4, k5]
