"""C01 — parsing is faithful: the library returned denotes exactly the source program."""
import re, time, itertools, json
import z3
from framework import kernel, Finding, fn_paths, Part, par_map, merge_part, replay_factory
from mirsym.machine import *
from mirsym.mirread import Unsupported
import rustdebug

_CTX = None
CRATES = ['ironplc-parser', 'ironplc-dsl', 'peg-runtime']

OPS = ['Or', 'Xor', 'And', 'Equal', 'NotEqual', 'Less', 'Greater', 'LessEqual', 'GreaterEqual', 'Plus', 'Minus', 'Star', 'Div', 'Mod', 'Power']
# IEC 61131-3 Annex B.3.1: OR < XOR < AND < (=, <>) < (<, >, <=, >=) < (+, -) < (*, /, MOD) < ** < unary ; all binary levels left-associative
LEVEL = {'Or': 0, 'Xor': 1, 'And': 2, 'Equal': 3, 'NotEqual': 3, 'Less': 4, 'Greater': 4, 'LessEqual': 4, 'GreaterEqual': 4, 'Plus': 5, 'Minus': 5,
         'Star': 6, 'Div': 6, 'Mod': 6, 'Power': 7}
TOK2OP = {'Or': 'Or', 'Xor': 'Xor', 'And': 'And', 'Equal': 'Eq', 'NotEqual': 'Ne', 'Less': 'Lt', 'Greater': 'Gt', 'LessEqual': 'LtEq', 'GreaterEqual': 'GtEq',
          'Plus': 'Add', 'Minus': 'Sub', 'Star': 'Mul', 'Div': 'Div', 'Mod': 'Mod', 'Power': 'Pow'}
LEXEME = {'Or': 'OR', 'Xor': 'XOR', 'And': 'AND', 'Equal': '=', 'NotEqual': '<>', 'Less': '<', 'Greater': '>', 'LessEqual': '<=', 'GreaterEqual': '>=',
          'Plus': '+', 'Minus': '-', 'Star': '*', 'Div': '/', 'Mod': 'MOD', 'Power': '**', 'Not': 'NOT'}
REPS = ['Or', 'Xor', 'And', 'Equal', 'Less', 'Plus', 'Star', 'Power']

def ref_tree(operands, ops):
    """reference: lowest level splits last (left-assoc => the rightmost operator of the lowest level is the root)"""
    def parse(lo, hi):
        if lo == hi: return operands[lo]
        best = None
        for i in range(lo, hi):
            if best is None or LEVEL[ops[i]] <= LEVEL[ops[best]]: best = i
        return (TOK2OP[ops[best]], parse(lo, best), parse(best + 1, hi))
    return parse(0, len(operands) - 1)

def tok(P, tt, text, i):
    TT = P.enums['TokenType']
    dd = tt if (is_sym(tt) or isinstance(tt, int)) else TT.index(tt)
    return Agg('Token', [EnumV('TokenType', dd, []), Agg('SourceSpan', [i, i + 1, Agg('FileId', [Str('')])]), 0, i, Str(text)])

def shape(M, P, e):
    EK = P.enums['ExprKind']; kind = EK[e.disc]
    if kind in ('Compare', 'BinaryOp'):
        node = M.deref(e.f[0]); ops = P.enums['CompareOp' if kind == 'Compare' else 'Operator']
        return (ops[node.f[0].disc], shape(M, P, node.f[1]), shape(M, P, node.f[2]))
    if kind == 'UnaryOp':
        node = M.deref(e.f[0]); return (P.enums['UnaryOp'][node.f[0].disc], shape(M, P, node.f[1]))
    if kind == 'Expression': return shape(M, P, M.deref(e.f[0]))     # explicit parenthesis node: grouping only
    if kind == 'LateBound': return M.deref(e.f[0].f[0].f[0]).conc()
    return kind

def shape_debug(v):
    """same shape from the Debug output of the real parser"""
    k = v['_']
    if k in ('Compare', 'BinaryOp'):
        n = v['0']; return (n['op']['_'], shape_debug(n['left']), shape_debug(n['right']))
    if k == 'UnaryOp': n = v['0']; return (n['op']['_'], shape_debug(n['term']))
    if k == 'Expression': return shape_debug(v['0'])
    if k == 'LateBound': return v['0']['value']['_'] if 'value' in v['0'] else v['0'].get('name', {}).get('_', '?')
    return k

def layouts(k, variant):
    """token skeleton: list of items ('id', name) | ('op', index) | ('tok', TokenType, text) | ('unary',)"""
    names = 'abcde'
    if variant in ('plain', 'ws'):
        sk = []
        for i in range(k + 1):
            sk.append(('id', names[i]))
            if i < k: sk.append(('op', i))
        if variant == 'ws':
            out = []
            for j, it in enumerate(sk):
                if j: out.append(('tok', 'Whitespace', ' '))
                out.append(it)
            sk = out
        return sk
    if variant == 'paren-right': return [('id', 'a'), ('op', 0), ('tok', 'LeftParen', '('), ('id', 'b'), ('op', 1), ('id', 'c'), ('tok', 'RightParen', ')')]
    if variant == 'paren-left': return [('tok', 'LeftParen', '('), ('id', 'a'), ('op', 0), ('id', 'b'), ('tok', 'RightParen', ')'), ('op', 1), ('id', 'c')]
    if variant == 'unary-first': return [('unary',), ('id', 'a'), ('op', 0), ('id', 'b')]
    if variant == 'unary-second': return [('id', 'a'), ('op', 0), ('unary',), ('id', 'b')]
    raise ValueError(variant)

def expected(variant, ops, unary):
    U = {'Minus': 'Neg', 'Not': 'Not'}
    if variant in ('plain', 'ws'): return ref_tree(list('abcde'[:len(ops) + 1]), ops)
    if variant == 'paren-right': return (TOK2OP[ops[0]], 'a', (TOK2OP[ops[1]], 'b', 'c'))
    if variant == 'paren-left': return (TOK2OP[ops[1]], (TOK2OP[ops[0]], 'a', 'b'), 'c')
    if variant == 'unary-first': return (TOK2OP[ops[0]], (U[unary], 'a'), 'b')
    if variant == 'unary-second': return (TOK2OP[ops[0]], 'a', (U[unary], 'b'))

def source_of(variant, ops, unary):
    parts = []
    for it in layouts(len(ops), variant):
        if it[0] == 'id': parts.append(it[1])
        elif it[0] == 'op': parts.append(LEXEME[ops[it[1]]])
        elif it[0] == 'tok': parts.append(it[2])
        elif it[0] == 'unary': parts.append(LEXEME[unary])
    return ' '.join(p for p in parts if p.strip())

def _k1_job(job):
    k, variant, first, opset = job
    ctx = _CTX; part = Part()
    P = ctx.program(CRATES)
    TT = P.enums['TokenType']
    key = P.find_fn('ironplc-parser', 'parser::plc_parser::expression')
    M = Machine(P, max_steps=20_000_000)
    sym = {}
    def entry(M):
        ops = []
        for i in range(k):
            if i == 0 and first is not None: ops.append(TT.index(first))
            else:
                o = M.fresh_bv('op', 64); M.assume(z3.Or([o == TT.index(x) for x in opset])); ops.append(o)
        un = None
        toks = []; pos = 0
        for it in layouts(k, variant):
            if it[0] == 'id': toks.append(tok(P, 'Identifier', it[1], pos))
            elif it[0] == 'op': toks.append(tok(P, ops[it[1]], '', pos))
            elif it[0] == 'tok': toks.append(tok(P, it[1], it[2], pos))
            elif it[0] == 'unary':
                un = M.fresh_bv('un', 64); M.assume(z3.Or(un == TT.index('Minus'), un == TT.index('Not'))); toks.append(tok(P, un, '', pos))
            pos += 1
        sym['ops'] = ops; sym['un'] = un
        inp = Ref(Cell(Agg('SliceByRef', [Ref(Cell(VecV(toks)))])))
        return M.call_fn(key, [inp])
    def on_path(M, pr):
        part.paths += 1
        if pr.inconclusive: part.inconc(pr.inconclusive); return
        s = z3.Solver(); s.add(*pr.pc)
        for o in sym['ops']:
            if not isinstance(o, int): s.add(z3.Or([o == TT.index(x) for x in opset]))
        if sym['un'] is not None: s.add(z3.Or(sym['un'] == TT.index('Minus'), sym['un'] == TT.index('Not')))
        part.nontrivial += 1
        free = [o for o in sym['ops'] if not isinstance(o, int)] + ([sym['un']] if sym['un'] is not None else [])
        from framework import all_models
        t = time.time(); models = all_models(s, free, limit=300); part.solver_s += time.time() - t; part.queries += 1 + (len(models) if models else 300)
        if models is None: part.inconc('a path leaves more than 300 operator assignments undetermined'); return
        got = None
        if not pr.panic and pr.result.disc == 0: got = shape(M, P, pr.result.f[0])
        for vals in models:
            vm = {id(t_): v for t_, v in zip(free, vals)}
            opsn = [TT[o] if isinstance(o, int) else TT[vm[id(o)].as_long()] for o in sym['ops']]
            unary = TT[vm[id(sym['un'])].as_long()] if sym['un'] is not None else None
            exp = expected(variant, opsn, unary)
            src = source_of(variant, opsn, unary)
            role = 'C01/K1/%s/%s' % (variant, '_'.join(opsn + ([unary] if unary else [])))
            if pr.panic:
                part.add(role + '/panic', 'expression parser panics on `%s`: %s' % (src, pr.panic.msg), {'expr': src}, ('expr', (src, json.dumps(exp)))); continue
            if pr.result.disc != 0:
                part.add(role, 'well-formed expression `%s` is rejected' % src, {'expr': src, 'expected': exp}, ('expr', (src, json.dumps(exp)))); continue
            if got != exp and json.loads(json.dumps(got)) != json.loads(json.dumps(exp)):
                part.add(role, 'expression `%s` parses to %s, Annex B.3.1 requires %s' % (src, got, exp), {'expr': src, 'got': got, 'expected': exp}, ('expr', (src, json.dumps(exp))))
            elif len(part.validate) < 2: part.validate.append(('expr', (src, json.dumps(exp))))
            if len(part.samples) < 1: part.samples.append({'expr': src, 'tree': got})
    M.explore(entry, on_path)
    part.queries += M.stats['smt']; part.encoded = set(M.encoded); part.models = set(M.models_used)
    return part

@replay_factory('expr')
def _replay_expr(src, exp_json):
    def rp(ctx):
        exp = json.loads(exp_json)
        text = 'FUNCTION f : INT\nVAR_INPUT a, b, c, d, e : INT; END_VAR\nf := %s;\nEND_FUNCTION\n' % src
        r = ctx.replay({'cmd': 'parse', 'source': text})
        if 'panic' in r: return True, r
        if not r.get('ok'): return True, {'source': text, 'rejected': r.get('diag')}
        d = rustdebug.parse(r['debug'])
        asg = [a for a in rustdebug.find_all(d, 'Assignment') if 'value' in a]
        got = json.loads(json.dumps(shape_debug(asg[0]['value'])))
        return got != exp, {'source': text, 'parsed': got, 'expected': exp}
    return rp

@kernel('K1 parser.expression_precedence')
def k1(ctx, kr):
    global _CTX
    _CTX = ctx
    jobs = []
    for f in OPS: jobs.append((2, 'plain', f, OPS))                     # k=2, all 15x15 operator pairs
    for f in REPS: jobs.append((3, 'plain', f, REPS))                   # k=3, one representative per level: 8^3
    for f in OPS: jobs.append((1, 'ws', f, OPS))
    for f in REPS: jobs.append((2, 'paren-right', f, REPS)); jobs.append((2, 'paren-left', f, REPS))
    for f in OPS: jobs.append((1, 'unary-first', f, OPS)); jobs.append((1, 'unary-second', f, OPS))
    if ctx.tier == 'thorough':
        for f in OPS: jobs.append((3, 'plain', f, OPS))                 # 15^3
        for f in REPS: jobs.append((4, 'plain', f, REPS))               # 8^4
        for f in OPS: jobs.append((2, 'ws', f, OPS))
    kr.bounds = ('token sequences x0 op1 x1 .. opk xk with every op_i a symbolic token type: k=2 over all 15 binary operators, k=3 over one representative per precedence level%s; '
                 'plus whitespace tokens between all tokens (k=1), one parenthesised operand pair (k=2), a unary -/NOT on either operand (k=1)' %
                 ('; thorough: k=3 over all operators, k=4 over representatives, whitespace k=2' if ctx.tier == 'thorough' else ''))
    jobs.sort(key=lambda j: -(len(j[3]) ** (j[0] - 1)))
    for part in par_map(_k1_job, jobs): merge_part(kr, part)
    P = ctx.program(CRATES)
    kr.functions = fn_paths(P, getattr(kr, '_enc', set()))
    kr.exhaustive = True
    kr.assumptions = ['operands are identifiers (LateBound variables); literal operands and function calls are outside this kernel']
    kr.outside = ['expressions with more operators than the bound; the representative-per-level restriction at k>=3 is a stated bound, not a symmetry argument']


# ---------------------------------------------------------------------------------------------- K4 variable-block class x qualifier through the real rules
BLOCK_CLASS = {'Var': 'Var', 'VarInput': 'Input', 'VarOutput': 'Output', 'VarInOut': 'InOut', 'VarExternal': 'External', 'VarTemp': 'VarTemp', 'VarGlobal': 'Global', 'VarAccess': 'Access'}
QUAL = {'Constant': 'Constant', 'Retain': 'Retain', 'NonRetain': 'NonRetain', 'Whitespace': 'Unspecified'}
QLEX = {'Constant': 'CONSTANT', 'Retain': 'RETAIN', 'NonRetain': 'NON_RETAIN', 'Whitespace': ''}
BLEX = {'Var': 'VAR', 'VarInput': 'VAR_INPUT', 'VarOutput': 'VAR_OUTPUT', 'VarInOut': 'VAR_IN_OUT', 'VarExternal': 'VAR_EXTERNAL', 'VarTemp': 'VAR_TEMP', 'VarGlobal': 'VAR_GLOBAL', 'VarAccess': 'VAR_ACCESS'}
# combinations IEC 61131-3 (tables 16/33) allows inside a function block and the grammar implements: these must parse
MUST_PARSE = {('Var', 'Whitespace'), ('Var', 'Constant'), ('Var', 'Retain'), ('Var', 'NonRetain'), ('VarInput', 'Whitespace'), ('VarInput', 'Retain'), ('VarInput', 'NonRetain'),
              ('VarOutput', 'Whitespace'), ('VarOutput', 'Retain'), ('VarOutput', 'NonRetain'), ('VarInOut', 'Whitespace'), ('VarExternal', 'Whitespace'), ('VarExternal', 'Constant')}

def _k4_source(block, qual, edge):
    return 'FUNCTION_BLOCK fb\n%s %s\n  a : INT;\n%sEND_VAR\nEND_FUNCTION_BLOCK\n' % (BLEX[block], QLEX[qual], '  b : BOOL R_EDGE;\n' if edge else '')

def _k4_job(job):
    edge, = job
    from . import lexcommon as LC
    ctx = _CTX; part = Part()
    P = ctx.program()
    TT = P.enums['TokenType']
    text = _k4_source('VarInput', 'Retain', edge)
    data = text.encode()
    M0, entry0, b, L, toks, LM = LC.tokenize_machine(ctx, len(data), bytes_=list(data))
    k_tok = P.find_fn('ironplc-parser', 'lexer::tokenize'); k_p = P.find_fn('ironplc-parser', 'parser::parse_library')
    res0 = M0.explore(lambda M: M.call_fn(k_tok, [Ref(Cell(Str(list(data)))), Ref(Cell(Agg('FileId', [Str('f.st')])))]))
    if len(res0) != 1 or res0[0].inconclusive or res0[0].panic: part.inconc('tokenizing the template failed: %s' % (res0[0].inconclusive if res0 else '')); return part
    tokens0 = res0[0].result.f[0]
    ib = [i for i, t in enumerate(tokens0.items) if TT[t.f[0].disc] == 'VarInput'][0]
    iq = [i for i, t in enumerate(tokens0.items) if TT[t.f[0].disc] == 'Retain'][0]
    blocks = list(BLOCK_CLASS) if not edge else ['VarInput']
    sym = {}
    M = Machine(P, max_steps=100_000_000)
    def entry(M):
        tokens = deep_clone(tokens0)
        tb = M.fresh_bv('block', 64); M.assume(z3.Or([tb == TT.index(x) for x in blocks]))
        tq = M.fresh_bv('qual', 64); M.assume(z3.Or([tq == TT.index(x) for x in QUAL]))
        tokens.items[ib].f[0] = EnumV('TokenType', tb, []); tokens.items[iq].f[0] = EnumV('TokenType', tq, [])
        sym['b'] = tb; sym['q'] = tq
        return M.call_fn(k_p, [tokens])
    def on_path(M, pr):
        part.paths += 1
        if pr.inconclusive: part.inconc(pr.inconclusive); return
        s = z3.Solver(); s.add(*pr.pc)
        t0 = time.time(); r = s.check(); part.solver_s += time.time() - t0; part.queries += 1
        if r != z3.sat: return
        m = s.model(); part.nontrivial += 1
        block = TT[m.eval(sym['b'], True).as_long()]; qual = TT[m.eval(sym['q'], True).as_long()]
        src = _k4_source(block, qual, edge)
        role = 'C01/K4/%s/%s%s' % (block, qual if qual != 'Whitespace' else 'none', '/edge' if edge else '')
        want = {'class': BLOCK_CLASS[block], 'qualifier': QUAL[qual]}
        rep = ('varblock', (src, json.dumps(want), edge))
        if pr.panic: part.add(role + '/panic', 'parser panics on `%s %s`: %s' % (BLEX[block], QLEX[qual], pr.panic.msg[:60]), {'source': src}, rep); return
        res = pr.result
        if res.disc != 0:
            if (block, qual) in MUST_PARSE and (not edge or block == 'VarInput'):
                part.add(role, 'the well-formed block `%s %s ... END_VAR` is rejected' % (BLEX[block], QLEX[qual]), {'source': src}, rep)
            return
        fbs = [e for e in res.f[0].items]
        fb = fbs[0].f[0]
        VT = P.enums['VariableType']; DQ = P.enums['DeclarationQualifier']
        got = [(M.deref(v.f[0].f[0].f[0]).conc(), VT[v.f[1].disc], DQ[v.f[2].disc]) for v in fb.f[1].items]
        got_edge = [(M.deref(v.f[0].f[0]).conc(), DQ[v.f[2].disc]) for v in fb.f[2].items]
        exp = [('a', want['class'], want['qualifier'])]; exp_edge = [('b', want['qualifier'])] if edge else []
        if got != exp or got_edge != exp_edge:
            part.add(role, '`%s %s a : INT;%s END_VAR` parses to variables %s edge variables %s; written: class %s, qualifier %s' % (BLEX[block], QLEX[qual], ' b : BOOL R_EDGE;' if edge else '', got, got_edge, want['class'], want['qualifier']),
                     {'source': src, 'got': got, 'got_edge': got_edge, 'expected': want}, rep)
        elif len(part.validate) < 2: part.validate.append(rep)
        if len(part.samples) < 2: part.samples.append({'block': block, 'qualifier': qual, 'variables': got, 'edge_variables': got_edge})
    M.explore(entry, on_path)
    part.queries += M.stats['smt']; part.encoded = set(M.encoded); part.models = set(M.models_used)
    return part

@replay_factory('varblock')
def _replay_varblock(src, want_json, edge):
    def rp(ctx):
        want = json.loads(want_json)
        r = ctx.replay({'cmd': 'parse', 'source': src})
        if 'panic' in r: return True, r
        if not r.get('ok'): return True, {'source': src, 'rejected': r.get('diag')}
        d = rustdebug.parse(r['debug'])
        vds = rustdebug.find_all(d, 'VarDecl'); eds = rustdebug.find_all(d, 'EdgeVarDecl')
        got = [(v['var_type']['_'], v['qualifier']['_']) for v in vds]; gote = [e['qualifier']['_'] for e in eds]
        bad = got != [(want['class'], want['qualifier'])] or gote != ([want['qualifier']] if edge else [])
        return bad, {'source': src, 'var_decls': got, 'edge_qualifiers': gote, 'written': want}
    return rp

@kernel('K4 parser.var_block_class_and_qualifier')
def k4(ctx, kr):
    global _CTX
    _CTX = ctx
    kr.bounds = 'FUNCTION_BLOCK with one VAR block whose block keyword (8 VAR* token types) and qualifier token (CONSTANT / RETAIN / NON_RETAIN / absent) are symbolic token types; one ordinary variable, and (second family) an additional edge-triggered input'
    for part in par_map(_k4_job, [(False,), (True,)]): merge_part(kr, part)
    P = ctx.program()
    kr.functions = fn_paths(P, getattr(kr, '_enc', set()))[:80]
    kr.exhaustive = True
    kr.assumptions = ['oracle: IEC 61131-3 tables 16/33 — the declared variable carries the class of its block and the qualifier written; combinations outside the grammar may be rejected']
    kr.outside = ['PROGRAM / FUNCTION / CONFIGURATION blocks; initialiser kinds; several blocks per POU']


# ---------------------------------------------------------------------------------------------- K5 statement sequences: nothing dropped, duplicated or reordered
SEQ_ALPHA = ['Identifier', 'Assignment', 'Digits', 'Semicolon']

def _seq_reference(types, TT):
    """IEC 61131-3 B.3.2: statement_list ::= statement ';' {statement ';'}, statement ::= NIL | variable ':=' expression.
    Over the alphabet {Identifier, ':=', Digits, ';'} a token sequence is a statement list iff it is a non-empty sequence of segments
    `;` (empty statement) or `Identifier := (Identifier | Digits) ;`.  Returns (valid formula, [formula: a statement starts at position i])."""
    I, A, D, S = [TT.index(x) for x in SEQ_ALPHA]
    L = len(types)
    st = [z3.BoolVal(True), z3.BoolVal(False), z3.BoolVal(False), z3.BoolVal(False)]      # one-hot DFA state: 0 segment start, 1 after Id, 2 after Id :=, 3 after the expression
    dead = z3.BoolVal(False); starts = []
    for i in range(L):
        t = types[i]
        starts.append(z3.And(st[0], t == I))
        n0 = z3.Or(z3.And(st[0], t == S), z3.And(st[3], t == S))
        n1 = z3.And(st[0], t == I); n2 = z3.And(st[1], t == A); n3 = z3.And(st[2], z3.Or(t == D, t == I))
        dead = z3.Or(dead, z3.Not(z3.Or(n0, n1, n2, n3)))
        st = [n0, n1, n2, n3]
    return z3.And(z3.Not(dead), st[0]), starts

def _seq_source(names):
    lex = {'Identifier': None, 'Assignment': ':=', 'Digits': None, 'Semicolon': ';'}
    return ' '.join(('v%d' % i) if n == 'Identifier' else (str(i + 1) if n == 'Digits' else lex[n]) for i, n in enumerate(names))

def _k5_job(job):
    L, prefixes = job
    ctx = _CTX; part = Part()
    P = ctx.program(CRATES)
    TT = P.enums['TokenType']
    key = P.find_fn('ironplc-parser', 'parser::plc_parser::statement_list')
    M = Machine(P, max_steps=50_000_000)
    sym = {}
    def dom(t): return z3.Or([t == TT.index(x) for x in SEQ_ALPHA])
    def entry(M):
        types = []
        for i in range(L):
            t = M.fresh_bv('tt', 64); M.declare_domain(t, [TT.index(x) for x in SEQ_ALPHA]); types.append(t)
        sym['t'] = types
        toks = [tok(P, t, 'v%d' % i, i) for i, t in enumerate(types)]
        for i, tk in enumerate(toks): tk.f[4] = SymTokText(i)
        return M.call_fn(key, [Ref(Cell(Agg('SliceByRef', [Ref(Cell(VecV(toks)))])))])
    def names_of(m): return [TT[m.eval(t, True).as_long()] for t in sym['t']]
    def on_path(M, pr):
        part.paths += 1
        if pr.inconclusive: part.inconc(pr.inconclusive); return
        types = sym['t']
        s = z3.Solver(); s.add(*pr.pc); s.add(*[dom(t) for t in types])
        valid, starts = _seq_reference(types, TT)
        part.nontrivial += 1
        def wit(role, what, cond, got=None):
            s.push(); s.add(cond)
            t0 = time.time(); r = s.check(); part.solver_s += time.time() - t0; part.queries += 1
            if r == z3.sat:
                names = names_of(s.model()); src = _seq_source(names)
                part.add(role, '%s: `%s`%s' % (what, src, (' parses to statements assigning %s' % got) if got is not None else ''), {'statements': src, 'token_types': names}, ('stmt_seq', (src,)))
            elif r == z3.unknown: part.inconc('solver unknown')
            s.pop()
            return r == z3.sat
        if pr.panic: wit('C01/K5/panic', 'the statement list parser panics (%s)' % pr.panic.msg[:50], z3.BoolVal(True)); return
        res = pr.result
        if res.disc != 0:
            wit('C01/K5/valid-rejected', 'a well-formed statement list is rejected', valid); return
        got = []
        for stv in res.f[0].items:
            pos = _first_pos(M, stv)
            got.append(pos)
        if wit('C01/K5/invalid-accepted', 'a token sequence that is not a statement list is accepted', z3.Not(valid), got): return
        if None in got: part.inconc('statement without a recognisable target'); return
        if got != sorted(got) or len(set(got)) != len(got):
            wit('C01/K5/statements-reordered', 'the statements come back reordered or duplicated (source positions %s)' % got, z3.BoolVal(True), ['v%d' % g for g in got]); return
        wit('C01/K5/statements-dropped-or-invented', 'the statements returned are not the statements written',
            z3.Or([starts[i] != z3.BoolVal(i in got) for i in range(L)]), ['v%d' % g for g in got])
        if len(part.validate) < 1 and got:
            if s.check() == z3.sat: part.validate.append(('stmt_seq', (_seq_source(names_of(s.model())),)))
        if len(part.samples) < 1 and got: part.samples.append({'tokens': L, 'statement_targets_at': got})
    if prefixes == 'split':
        done, pending = M.split(entry, 14)
        return [d.trace for d in done] + pending
    M.explore(entry, on_path, prefixes=prefixes)
    part.queries += M.stats['smt']; part.encoded = set(M.encoded); part.models = set(M.models_used)
    return part

def SymTokText(i):
    # every token carries a text that identifies its position: identifiers v<i>, digits <i+1>; the text of other token types is never read
    t = Str('v%d' % i); return t

def _first_pos(M, v):
    """source position of the first identifier spelled v<i> inside a statement value"""
    stack = [v]
    while stack:
        x = stack.pop()
        if isinstance(x, Str):
            c = x.conc()
            if c and re.fullmatch(r'v\d+', c): return int(c[1:])
        elif isinstance(x, (Agg, EnumV)): stack.extend(reversed(x.f))
        elif isinstance(x, VecV): stack.extend(reversed(x.items))
        elif isinstance(x, Ref): stack.append(M.get(x.cell, x.path))
    return None

@replay_factory('stmt_seq')
def _replay_stmt_seq(src):
    def rp(ctx):
        names = sorted(set(re.findall(r'v\d+', src)))
        text = 'PROGRAM p\nVAR\n%sEND_VAR\n%s\nEND_PROGRAM\n' % (''.join('  %s : INT;\n' % n for n in names) or '  unused : INT;\n', src)
        r = ctx.replay({'cmd': 'parse', 'source': text})
        if 'panic' in r: return True, r
        # reference on the concrete token sequence
        toks = src.split(); want = []; okk = bool(toks); i = 0
        while i < len(toks) and okk:
            if toks[i] == ';': i += 1; continue
            if i + 3 < len(toks) + 0 and re.fullmatch(r'v\d+', toks[i]) and toks[i + 1] == ':=' and re.fullmatch(r'v\d+|\d+', toks[i + 2]) and toks[i + 3] == ';': want.append(toks[i]); i += 4
            else: okk = False
        if not r.get('ok'): return okk, {'source': text, 'rejected': r.get('diag'), 'reference_valid': okk}
        got = re.findall(r'Assignment\(Assignment \{ target: Symbolic\(Named\(NamedVariable \{ name: (v\d+)', r['debug'])
        return (not okk) or got != want, {'source': text, 'parsed_targets': got, 'written_targets': want, 'reference_valid': okk}
    return rp

def _k5b(ctx, kr, P):
    """flatten_statements on every list of <= 5 items, each `Empty` or `Statements` of 1..3 statements, no two runs adjacent (kinds and lengths symbolic):
    the result is the concatenation of the runs in order"""
    key = P.find_fn('ironplc-parser', 'parser::flatten_statements')
    SOE = P.enums['StatementsOrEmpty']; iS = SOE.index('Statements')
    M = Machine(P); st = {}
    for n in range(1, 5 if ctx.tier == 'quick' else 6):
        def entry(M):
            items = []; exp = []; shape = []
            for i in range(n):
                d = M.fresh_bv('kind%d' % i, 64); M.declare_domain(d, list(range(len(SOE))))
                ln = M.fresh_bv('len%d' % i, 8); M.assume(z3.ULE(ln, 3))
                k = M.enum_int(ln, 0, 3)
                # lists the grammar can produce (statements_or_empty()+ with a greedy semisep): a run is non-empty and two runs are never adjacent
                M.assume(z3.Implies(d == iS, ln != 0))
                if exp: M.assume(z3.Not(z3.And(d == iS, exp[-1][0] == iS)))
                run = [Str('s%d_%d' % (i, j)) for j in range(k)]
                items.append(EnumV('StatementsOrEmpty', d, [VecV(list(run))])); exp.append((d, run)); shape.append(k)
            st['exp'] = exp; st['shape'] = shape
            return M.call_fn(key, [VecV(items)])
        def on_path(M, pr):
            kr.paths += 1
            if pr.inconclusive: kr.inconc(pr.inconclusive); return
            kr.nontrivial += 1
            s = z3.Solver(); s.add(*pr.pc); kr.queries += 1
            if s.check() != z3.sat: return
            m = s.model()
            kinds = [SOE[m.eval(d, True).as_long()] for d, _ in st['exp']]
            want = [x.conc() for (d, run), kd in zip(st['exp'], kinds) if kd == 'Statements' for x in run]
            desc = ' '.join('[%d statements]' % k if kd == 'Statements' else ';' for kd, k in zip(kinds, st['shape']))
            src = ' '.join(' '.join('v%d := %d ;' % (10 * i + j, j) for j in range(k)) if kd == 'Statements' else ';' for i, (kd, k) in enumerate(zip(kinds, st['shape'])))
            if pr.panic:
                kr.findings.append(Finding('C01/K5/flatten-panic', 'flatten_statements panics on %s' % desc, {'runs': desc}, None)); return
            got = [x.conc() for x in pr.result.items]
            if got != want and not any(f.role == 'C01/K5/flatten-order' for f in kr.findings):
                from framework import REPLAYS
                kr.findings.append(Finding('C01/K5/flatten-order', 'the statement runs %s are flattened to %s instead of %s' % (desc, got, want), {'runs': desc, 'statements': src}, replay=REPLAYS['stmt_seq'](src) if all(kd == 'Empty' or k > 0 for kd, k in zip(kinds, st['shape'])) else None))
        M.explore(entry, on_path)
    kr.queries += M.stats['smt']; kr._enc = getattr(kr, '_enc', set()) | set(M.encoded)

@kernel('K5 parser.statement_sequence')
def k5(ctx, kr):
    global _CTX
    _CTX = ctx
    LMAX = 8 if ctx.tier == 'quick' else 13
    kr.bounds = 'statement_list over every token sequence of length 1..%d whose token types are symbolic over {Identifier, :=, Digits, ;}: accepted iff a statement list (empty statements allowed), and the statements returned are exactly the assignments written, in order; flatten_statements on every list of <= 4 [thorough: 5] items the grammar can produce (runs of 1..3 statements, never adjacent, and empty statements)' % LMAX
    jobs = [(L, None) for L in range(min(LMAX, 9), 0, -1)]
    big = [L for L in range(10, LMAX + 1)]
    for L, pref in zip(big, par_map(_k5_job, [(L, 'split') for L in big])):
        chunk = max(1, len(pref) // 12)
        jobs = [(L, pref[i:i + chunk]) for i in range(0, len(pref), chunk)] + jobs
    for part in par_map(_k5_job, jobs): merge_part(kr, part)
    P = ctx.program(CRATES)
    _k5b(ctx, kr, P)
    kr.functions = fn_paths(P, getattr(kr, '_enc', set()))
    kr.exhaustive = True
    kr.assumptions = ['reference: IEC 61131-3 B.3.2 statement_list with NIL statements, as a DFA over the token types unrolled into a formula']
    kr.outside = ['nested statement lists (IF/CASE/FOR bodies), other statement kinds, longer sequences']

# ---------------------------------------------------------------------------------------------- K6 every name written comes back once, in source order
# Shapes of source templates (shared with C10-K3) with every identifier occurrence made unique: the sequence of names in the library returned
# by parse_program (depth-first, fields in declaration order) must be the sequence of name tokens of the source.
KEEP_WORDS = {'interval', 'priority', 'n', 'r', 's', 'l', 'd', 'p', 'sd', 'ds', 'sl', 'p0', 'p1', 'read_write', 'read_only', 't', 'e'}
TYPE_TOKENS = None

def _name_tokens(ctx, text):
    """(kind, text) of the tokens that denote names: identifiers and elementary type keywords (which the parser turns into type names)"""
    from mirsym import lexlift
    from . import lexcommon as LC
    LM = LC.lexmodel(ctx)
    data = text.encode()
    return [(k, data[a:b].decode()) for k, a, b in lexlift.lex_concrete(LM, data)]

ELEMENTARY = {'Bool', 'Sint', 'Int', 'Dint', 'Lint', 'Usint', 'Uint', 'Udint', 'Ulint', 'Real', 'Lreal', 'Time', 'Date', 'TimeOfDay', 'Tod', 'DateAndTime', 'Dt', 'String', 'WString', 'Byte', 'Word', 'Dword', 'Lword'}

def _uniquify(ctx, text):
    """rename every identifier occurrence to a unique name (the parser does not care whether a name is declared); returns (text, expected name sequence)"""
    toks = _name_tokens(ctx, text)
    out = []; expect = []; k = 0
    for i, (kind, tx) in enumerate(toks):
        nxt = toks[i + 1][0] if i + 1 < len(toks) else None
        if kind == 'Identifier' and not (tx.isupper() and tx.lower() in KEEP_WORDS) and nxt != 'Hash':
            k += 1; nm = 'nm%dq' % k; out.append(nm); expect.append(nm)
        else:
            out.append(tx)
            if kind in ELEMENTARY and nxt != 'Hash': expect.append(tx)
            elif kind == 'Identifier' and nxt == 'Hash' and tx.lower() not in ('t', 'd'): expect.append(tx)      # type name of a typed literal / enumeration value
    return ''.join(out), expect

def _ids_in_order(M, v, out, spans=None):
    if isinstance(v, Agg) and v.name.split('::')[-1] == 'Id' and len(v.f) == 3 and isinstance(v.f[0], Str):
        out.append(v.f[0].conc())
        if spans is not None:
            sp = v.f[2]; spans.append((v.f[0].conc(), simp(sp.f[0]), simp(sp.f[1]), sp.f[2].f[0].conc() if isinstance(sp.f[2], Agg) and sp.f[2].f and isinstance(sp.f[2].f[0], Str) else None))
        return
    if isinstance(v, (Agg, EnumV)):
        order = FIELD_ORDER.get(v.name.split('::')[-1]) if isinstance(v, Agg) else None
        for x in ([v.f[i] for i in order] if order and len(order) == len(v.f) else v.f): _ids_in_order(M, x, out, spans)
    elif isinstance(v, VecV):
        for x in v.items: _ids_in_order(M, x, out, spans)
    elif isinstance(v, Ref): _ids_in_order(M, M.get(v.cell, v.path), out, spans)

# structs of ironplc_dsl whose fields are not declared in the order their parts are written (read from dsl/src/textual.rs: `Repeat { until, body }` is written `REPEAT body UNTIL until`)
FIELD_ORDER = {'Repeat': [1, 0]}

def _fbt(decl, body): return ['FUNCTION_BLOCK fb\nVAR\n  x : INT;\n'] + decl + ['END_VAR\n'] + body + ['END_FUNCTION_BLOCK\n']
# templates used by K6 only (C10-K3 keeps its own list so that its known findings stay put)
EXTRA_TEMPLATES = {
    'case_many_selectors': _fbt([], ['  CASE sel OF\n    1', ('opt', ', 2'), ('opt', ', 3..5'), ':\n      a := b;\n', ('opt', '    6:\n      c := d;\n      e := f;\n'), ('opt', '    7, 8:\n      g := h;\n'), ('opt', '  ELSE\n    i := j;\n    k := l;\n'), '  END_CASE;\n']),
    'nested_statements': _fbt([], ['  IF c1 THEN\n    FOR i := lo TO hi', ('opt', ' BY st'), ' DO\n      WHILE c2 DO\n        a := b;\n', ('opt', '        c := d;\n'), '      END_WHILE;\n', ('opt', '      e := f;\n'), '    END_FOR;\n',
                                    ('opt', '  ELSIF c3 THEN\n    REPEAT\n      g := h;\n    UNTIL c4\n    END_REPEAT;\n'), ('opt', '  ELSE\n    k := l;\n'), '  END_IF;\n', ('opt', '  m := n;\n')]),
    'call_arguments': _fbt([], ['  r := fn(', ('alt', ['a1', 'a1, a2', 'a1, a2, a3', 'p1 := a1', 'p1 := a1, p2 := a2', 'p1 := a1, p2 := a2, p3 := a3']), ');\n  inst(', ('alt', ['', 'q1 := b1', 'q1 := b1, q2 := b2', 'q1 := b1, o1 => c1', 'q1 := b1, o1 => c1, o2 => c2', 'o1 => c1, q1 := b1']), ');\n']),
    'expressions_names': _fbt([], ['  r := ', ('alt', ['a + b * c - d', '(a + b) * (c - d)', 'a AND b OR c XOR d', 'NOT a AND b', '-a + b', 'a < b = c', 'f1(a, b) + f2(c)', 'arr[i, j] + st.fld.sub', 'arr[i][j]', 'a ** b ** c', 'a MOD b / c']), ';\n']),
    'variable_lists': ['FUNCTION_BLOCK fb\n', ('alt', ['VAR', 'VAR_INPUT', 'VAR_OUTPUT', 'VAR_IN_OUT', 'VAR_EXTERNAL', 'VAR_TEMP']), '\n  v1 : ty1;\n', ('opt', '  v4 : ty2;\n'), 'END_VAR\n', ('opt', 'VAR\n  v5 : ty3;\n  v6 : ty4;\nEND_VAR\n'), 'END_FUNCTION_BLOCK\n'],
    'initialisers': _fbt([('alt', ['  v : sty := (e1 := k1);\n', '  v : sty := (e1 := k1, e2 := k2);\n', '  v : sty := (e1 := k1, e2 := k2, e3 := k3);\n', '  v : ARRAY[1..3] OF ety := [k1, k2, k3];\n', '  v : fbty := (i1 := k1, i2 := k2);\n', '  v : ety := k1;\n', '  v : ety := ety#k1;\n', '  v AT %IX1.2 : ety;\n'])], []),
    'struct_and_enum_types': ['TYPE\n  sty : STRUCT\n    e1 : t1;\n', ('opt', '    e2 : t2;\n'), ('opt', '    e3 : ARRAY[1..2] OF t3;\n'), '  END_STRUCT;\n', ('opt', '  ety : (k1, k2, k3) := k2;\n'), ('opt', '  aty : bty;\n'), ('opt', '  arty : ARRAY[0..1] OF cty;\n'), 'END_TYPE\n'],
    'sfc_elements': ['FUNCTION_BLOCK fb\nVAR\n  x : BOOL;\nEND_VAR\nINITIAL_STEP s0:\n', ('opt', '  act1(N);\n'), 'END_STEP\nSTEP s1:\n', ('alt', ['', '  act2(S, ind1);\n', '  act2(S, ind1);\n  act3(R, ind2, ind3);\n']), 'END_STEP\n',
                     'TRANSITION ', ('opt', 'tr1 '), 'FROM ', ('alt', ['s0', '(s0, s1)']), ' TO ', ('alt', ['s1', '(s1, s0)']), '\n  := cond1;\nEND_TRANSITION\nTRANSITION FROM s1 TO s0\n  := cond2;\nEND_TRANSITION\n',
                     'ACTION act1:\n  a := b;\n  c := d;\nEND_ACTION\nEND_FUNCTION_BLOCK\n'],
    'configuration_elements': ['CONFIGURATION cfg\n', ('opt', 'VAR_GLOBAL\n  g1 : gt1;\n  g2 : gt2;\nEND_VAR\n'), 'RESOURCE res ON plc\n', ('opt', '  VAR_GLOBAL\n    g3 : gt3;\n  END_VAR\n'), '  TASK tk1(INTERVAL := T#100ms, PRIORITY := 1);\n', ('opt', '  TASK tk2(PRIORITY := 2);\n'),
                               '  PROGRAM pi1 WITH tk1 : pt1', ('alt', ['', '(ia := va)', '(ia := va, ob => vb)']), ';\n', ('opt', '  PROGRAM pi2 : pt2;\n'), 'END_RESOURCE\nEND_CONFIGURATION\n'],
    'pou_kinds': [('alt', ['FUNCTION f1 : rt\nVAR_INPUT\n  a : t1;\nEND_VAR\n  f1 := a;\nEND_FUNCTION\n', 'FUNCTION_BLOCK b1\nVAR\n  a : t1;\nEND_VAR\n  a := c;\nEND_FUNCTION_BLOCK\n', 'PROGRAM p1\nVAR\n  a : t1;\nEND_VAR\n  a := c;\nEND_PROGRAM\n']),
                  ('opt', 'FUNCTION_BLOCK b2\nVAR\n  d : t2;\nEND_VAR\nEND_FUNCTION_BLOCK\n'), ('opt', 'TYPE\n  ty1 : (k1, k2);\nEND_TYPE\n'), ('opt', 'PROGRAM p2\nVAR\n  e : t3;\nEND_VAR\nEND_PROGRAM\n')],
}

# C10 templates not used here: edge-triggered inputs live in a list of their own (FunctionBlockDeclaration.edge_variables), so the
# depth-first order of the library is not the source order by design
K6_SKIP = {'edge_inputs', 'binary_nesting_right', 'binary_nesting_left', 'binary_nesting_right_q', 'binary_nesting_left_q'}      # the operator-nesting templates of C10 add nothing here (operands only; K1 covers operators)

def _all_templates():
    from . import C10 as K10
    d = {k: v for k, v in K10.TEMPLATES.items() if k not in K6_SKIP}; d.update(EXTRA_TEMPLATES); return d

def _k6_job(job):
    name, prefixes = job
    from . import C10 as K10
    ctx = _CTX; part = Part(); part.shapes = {}; part.span_shapes = {}; part.tname = name; tpl = _all_templates()[name]
    P = ctx.program()
    k_parse = P.find_fn('ironplc-parser', 'parse_program')
    k_opt = [k for k in P.items if k[0] == 'ironplc-parser' and re.search(r'ParseOptions as (std::default::)?Default>::default|options::<impl at [^>]*>::default', k[1])]
    holder = {}; st = {}
    M = Machine(P, stubs=K10.dyn_lexer_stubs(ctx, holder), max_steps=400_000_000)
    dims = K10._shapes(tpl)
    def entry(M):
        choice = []
        for i, d in enumerate(dims):
            v = M.fresh_bv('seg%d' % i, 8); M.declare_domain(v, list(range(d)))
            c = 0
            for val in range(d - 1):
                if M.branch(v == val): c = val; break
                c = val + 1
            choice.append(c)
        st['choice'] = choice
        text, expect = _uniquify(ctx, K10._tpl_text(tpl, choice)); st['src'] = text; st['expect'] = expect
        fid = Ref(Cell(Agg('FileId', [Str('f.st')])))
        opts = Ref(Cell(M.call_fn(k_opt[0], []) if k_opt else Agg('ParseOptions', [False])))
        r1 = M.call_fn(k_parse, [Ref(Cell(Str(text))), fid, opts])
        if r1.disc != 0: return None
        out = []; spans = []; _ids_in_order(M, r1.f[0], out, spans); st['spans'] = spans
        return out
    def on_path(M, pr):
        part.paths += 1
        src = st.get('src'); choice = tuple(st.get('choice') or ())
        if pr.inconclusive: part.inconc('%s: %s' % (name, pr.inconclusive)); part.shapes[choice] = ('inconclusive', pr.inconclusive[:80], src, None); part.span_shapes[choice] = part.shapes[choice]; return
        if pr.panic: part.shapes[choice] = ('fail', 'parse_program panics: %s' % pr.panic.msg[:80], src, None); part.span_shapes[choice] = ('inconclusive', 'panic', src, None); part.nontrivial += 1; return
        got = pr.result
        if got is None: part.shapes[choice] = ('outside', None, src, None); part.span_shapes[choice] = ('outside', None, src, None); return
        part.nontrivial += 1
        # C05-K3: the span of every (unique) identifier is exactly its occurrence in the source, in the file parsed
        wrong = []
        for nm, a, b, fid in st.get('spans', []):
            if not re.fullmatch(r'nm\d+q', nm): continue
            i = src.find(nm)
            if (a, b) != (i, i + len(nm)) or (fid is not None and fid != 'f.st'): wrong.append((nm, a, b, fid))
        part.span_shapes[choice] = ('fail', 'identifiers whose span is not their occurrence in the source (name, start, end, file): %s' % wrong[:3], src, json.dumps(wrong[:3])) if wrong else ('ok', None, src, None)
        want = st['expect']
        # only the (uniquified) identifiers are compared: elementary type keywords are represented differently from construct to construct
        got = [g for g in got if re.fullmatch(r'nm\d+q', g)]; want = [w for w in want if re.fullmatch(r'nm\d+q', w)]
        gl = [g.lower() for g in got]; wl = [w.lower() for w in want]
        if gl == wl: part.shapes[choice] = ('ok', None, src, None)
        elif sorted(gl) == sorted(wl): part.shapes[choice] = ('fail', 'the names come back in another order than written (written %s, library %s)' % (want, got), src, json.dumps({'written': want, 'library': got}))
        else:
            lost = [w for w in wl if wl.count(w) > gl.count(w)]; extra = [g for g in gl if gl.count(g) > wl.count(g)]
            part.shapes[choice] = ('fail', 'names written but not in the library: %s; names in the library but not written: %s' % (sorted(set(lost)), sorted(set(extra))), src, json.dumps({'written': want, 'library': got}))
        if len(part.samples) < 1: part.samples.append({'template': name, 'shape': list(choice), 'names': len(want)})
    M.explore(entry, on_path, prefixes=prefixes)
    part.queries += M.stats['smt']; part.encoded = set(M.encoded); part.models = set(M.models_used)
    return part

@replay_factory('name_sequence')
def _replay_name_sequence(src, want_json):
    def rp(ctx):
        want = json.loads(want_json)
        r = ctx.replay({'cmd': 'parse', 'source': src})
        if 'panic' in r: return True, r
        if not r.get('ok'): return None, {'note': 'source rejected', 'diag': str(r.get('diag'))[:200]}
        # the Debug output prints an Id as its spelling: names in order of appearance
        names = set(w.lower() for w in want)
        got = [w for w in re.findall(r'[A-Za-z_][A-Za-z0-9_]*', re.sub(r'"[^"]*"', '', r['debug'])) if w.lower() in names and (w.startswith('nm') or w.isupper())]
        got = [g for g in got if re.fullmatch(r'nm\d+q', g)]
        wantu = [w for w in want if re.fullmatch(r'nm\d+q', w)]
        return got != wantu, {'source': src, 'written': wantu, 'library': got}
    return rp

@kernel('K6 parser.names_in_source_order')
def k6(ctx, kr):
    global _CTX
    _CTX = ctx
    from . import C10 as K10
    from framework import REPLAYS
    import itertools
    TPL = _all_templates()
    names = list(TPL)
    kr.bounds = ('%d source templates (declarations, statements, calls, initialisers, configurations, SFC; 23 shared with C10-K3) with symbolic shape selectors, every identifier occurrence renamed to a unique name: '
                 'parse_program on the MIR; the depth-first sequence of names in the returned library must equal the sequence of name tokens written' % len(names))
    jobs = []
    for n in sorted(names, key=lambda n: -len(list(itertools.product(*[range(d) for d in K10._shapes(TPL[n])])))):
        dims = K10._shapes(TPL[n]); first = dims[0] if dims else 1
        for v in range(first): jobs.append((n, None) if first == 1 else (n, [K10._prefix_for(first, v)]))
    shapes = {n: {} for n in names}
    for part in par_map(_k6_job, jobs):
        shapes[part.tname].update(part.shapes); merge_part(kr, part)
    for n in names:
        sh = shapes[n]
        for lab, rep, members in K10._cubes(TPL[n], sh):
            st_, what, src, extra = sh[rep]
            want = json.dumps(json.loads(extra)['written']) if extra else '[]'
            kr.findings.append(Finding('C01/K6/%s/%s' % (n, lab), '%s (%d shape%s of template %s; e.g. %r)' % (what, len(members), 's' if len(members) > 1 else '', n, src[-160:]),
                                       {'source': src, 'shapes': [list(m) for m in members][:12]}, replay=REPLAYS['name_sequence'](src, want)))
        oks = [c for c, r in sh.items() if r[0] == 'ok']
        if oks and len(kr.validate) < 6:
            src = sh[sorted(oks)[-1]][2]; kr.validate.append(('name_sequence', (src, json.dumps(_uniquify_expect(src)))))
    kr.notes.append('shapes: %d faithful, %d not, %d outside the parser\'s domain' % (sum(1 for n in names for r in shapes[n].values() if r[0] == 'ok'), sum(1 for n in names for r in shapes[n].values() if r[0] == 'fail'), sum(1 for n in names for r in shapes[n].values() if r[0] == 'outside')))
    P = ctx.program()
    kr.functions = fn_paths(P, getattr(kr, '_enc', set()))[:120] + ['ironplc-parser::<TokenType as Logos>::lex (lifted)']
    kr.exhaustive = True
    kr.assumptions = ['oracle: an AST built by a faithful parser lists the names of a construct in the order they are written (every struct of ironplc_dsl declares its fields in source order); '
                      'only identifiers are compared (elementary type keywords and literal values are outside this kernel: C09, K4)']
    kr.outside = ['constructs and combinations not in the templates; literal values; which node kind a name ends up in']

def _uniquify_expect(src):
    return re.findall(r'nm\d+q', src)

# ---------------------------------------------------------------------------------------------- K7 the sign written on an integer literal is the sign read
@kernel('K7 parser.signed_integer_literals')
def k7(ctx, kr):
    from . import C09 as K09
    K09._CTX = ctx
    kr.bounds = 'as C09-K5: an integer literal with a symbolic sign character (+, - or none) and 2 symbolic digits as initial value, subrange bound, array bound and CASE selector, through parse_program'
    for part in par_map(K09._k5_job, [(c, 2) for c in K09.SIGNED_CTX]):
        for f in part.findings: f['role'] = f['role'].replace('C09/K5/', 'C01/K7/')
        merge_part(kr, part)
    P = ctx.program()
    kr.functions = fn_paths(P, getattr(kr, '_enc', set()))[:100] + ['ironplc-parser::<TokenType as Logos>::lex (lifted)']
    kr.exhaustive = True

# ---------------------------------------------------------------------------------------------- K8 the characters written in a string literal are the characters of the value
@kernel('K8 parser.string_literal_characters')
def k8(ctx, kr):
    from . import C09 as K09
    K09._CTX = ctx
    kr.bounds = 'as C09-K6: a character string literal of 2 symbolic characters (printable ASCII except the own delimiter and $), single and double quoted, as variable initial value, expression constant and typed constant, through parse_program'
    for part in par_map(K09._k6_job, [(c, 2, q, False) for c in K09.STRING_CTX for q in ("'", '"')]):
        for f in part.findings: f['role'] = f['role'].replace('C09/K6/', 'C01/K8/')
        merge_part(kr, part)
    P = ctx.program()
    kr.functions = fn_paths(P, getattr(kr, '_enc', set()))[:100] + ['ironplc-parser::<TokenType as Logos>::lex (lifted)']
    kr.exhaustive = True

# ---------------------------------------------------------------------------------------------- K9 what is written differently is parsed differently
def _canon(M, v, seen=None):
    """structure of a library value without positions (SourceSpan) and without the original spelling of identifiers"""
    if isinstance(v, Ref): return _canon(M, M.get(v.cell, v.path))
    if isinstance(v, Agg):
        nm = v.name.split('::')[-1].split('<')[0]
        if nm == 'SourceSpan': return None
        if nm == 'Id' and len(v.f) >= 2 and isinstance(v.f[1], Str): return ('Id', v.f[1].conc())
        return (nm,) + tuple(_canon(M, x) for x in v.f)
    if isinstance(v, EnumV): return ('E', v.name.split('::')[-1], v.disc if not is_sym(v.disc) else '?') + tuple(_canon(M, x) for x in v.f)
    if isinstance(v, VecV): return ('V',) + tuple(_canon(M, x) for x in v.items)
    if isinstance(v, Str): return ('S', v.conc())
    if isinstance(v, (int, bool, float)) or v is None: return v
    if is_sym(v): return ('sym', str(v))
    return ('?', repr(v)[:40])

# alternatives of one selector that denote the same program by the language definition (not by the implementation): a sign `+` on a literal, the
# two spellings of a type keyword, ...  (template, selector index) -> groups of alternative texts that may parse alike
SAME_MEANING = {
    ('literal_init', 0): [['1', '+1'], ['TRUE', 'BOOL#1']],
    ('enumeration_values', 0): [],
}
DISTINCT_TEMPLATES = {
    # the variable blocks of a POU stay in the order they are written in (private variables before or between the parameters)
    'pou_var_block_order': [('alt', ['FUNCTION f : INT\n', 'FUNCTION_BLOCK f\n', 'PROGRAM f\n']), ('alt', ['VAR\n  a : INT;\nEND_VAR\nVAR_INPUT\n  b : INT;\nEND_VAR\n', 'VAR_INPUT\n  b : INT;\nEND_VAR\nVAR\n  a : INT;\nEND_VAR\n', 'VAR\n  a : INT;\nEND_VAR\nVAR_INPUT\n  b : INT;\nEND_VAR\nVAR_OUTPUT\n  c : INT;\nEND_VAR\n', 'VAR_INPUT\n  b : INT;\nEND_VAR\nVAR_OUTPUT\n  c : INT;\nEND_VAR\nVAR\n  a : INT;\nEND_VAR\n', 'VAR_OUTPUT\n  c : INT;\nEND_VAR\nVAR\n  a : INT;\nEND_VAR\nVAR_INPUT\n  b : INT;\nEND_VAR\n', 'VAR_INPUT\n  b : INT;\nEND_VAR\nVAR\n  a : INT;\nEND_VAR\nVAR_OUTPUT\n  c : INT;\nEND_VAR\n', 'VAR\n  a : INT;\nEND_VAR\nVAR_OUTPUT\n  c : INT;\nEND_VAR\nVAR_INPUT\n  b : INT;\nEND_VAR\n']), '  a := 1;\n', ('dep', 0, ['END_FUNCTION\n', 'END_FUNCTION_BLOCK\n', 'END_PROGRAM\n'])],
    'sfc_action_qualifiers': ['FUNCTION_BLOCK fb\nVAR\n  done : BOOL;\n  tv : TIME;\nEND_VAR\nINITIAL_STEP Start:\nEND_STEP\nSTEP Work:\n  act(', ('alt', ['N', 'R', 'S', 'P', 'L', 'D', 'SD, T#1s', 'DS, T#1s', 'SL, T#1s', 'P1, T#1s', 'P0, T#1s', 'SD, T#2s', 'SD, tv', 'DS, tv', 'SL, tv', 'N, done', 'DS, T#1s, done', 'SD, T#1s, done']),
                              ');\nEND_STEP\nTRANSITION FROM Start TO Work\n  := done;\nEND_TRANSITION\nACTION act:\n  done := TRUE;\nEND_ACTION\nEND_FUNCTION_BLOCK\n'],
    'var_sections': ['FUNCTION_BLOCK fb\n', ('alt', ['VAR', 'VAR_INPUT', 'VAR_OUTPUT', 'VAR_IN_OUT', 'VAR_EXTERNAL', 'VAR_TEMP']), ('alt', ['', ' RETAIN', ' CONSTANT', ' NON_RETAIN']), '\n  x : ', ('alt', ['INT', 'DINT', 'BOOL', 'REAL', 'TIME', 'mytype']), ('alt', ['', ' := 1', ' := 2']), ';\nEND_VAR\nEND_FUNCTION_BLOCK\n'],
    'type_kinds': ['TYPE\n  t : ', ('alt', ['INT', 'INT := 1', 'INT(1..2)', 'INT(1..3)', 'INT(2..3)', '(a, b)', '(a, c)', '(b, a)', '(a, b) := a', '(a, b) := b', 'ARRAY[1..2] OF INT', 'ARRAY[1..3] OF INT', 'ARRAY[1..2, 1..2] OF INT', 'ARRAY[1..2] OF BOOL',
                                           'STRING', 'WSTRING', 'STRING[5]', 'STRING[6]', 'other', 'STRUCT\n    m : INT;\n  END_STRUCT', 'STRUCT\n    m : BOOL;\n  END_STRUCT', 'STRUCT\n    n : INT;\n  END_STRUCT', 'STRUCT\n    m : INT;\n    n : INT;\n  END_STRUCT']), ';\nEND_TYPE\n'],
    'statements': ['FUNCTION_BLOCK fb\nVAR\n  x : INT;\n  y : INT;\n  b : BOOL;\nEND_VAR\n  ', ('alt', ['x := y;', 'y := x;', 'x := y + 1;', 'x := y - 1;', 'IF b THEN\n    x := 1;\n  END_IF;', 'IF b THEN\n    x := 1;\n  ELSE\n    x := 1;\n  END_IF;', 'IF b THEN\n    x := 1;\n  ELSIF b THEN\n    x := 1;\n  END_IF;',
                    'WHILE b DO\n    x := 1;\n  END_WHILE;', 'REPEAT\n    x := 1;\n  UNTIL b\n  END_REPEAT;', 'FOR x := 1 TO 2 DO\n    y := 1;\n  END_FOR;', 'FOR x := 1 TO 2 BY 1 DO\n    y := 1;\n  END_FOR;', 'FOR x := 1 TO 3 DO\n    y := 1;\n  END_FOR;',
                    'CASE x OF\n    1:\n      y := 1;\n  END_CASE;', 'CASE x OF\n    2:\n      y := 1;\n  END_CASE;', 'CASE x OF\n    1, 2:\n      y := 1;\n  END_CASE;', 'CASE x OF\n    1..2:\n      y := 1;\n  END_CASE;', 'CASE x OF\n    1:\n      y := 1;\n  ELSE\n    y := 1;\n  END_CASE;',
                    'RETURN;', 'EXIT;', ';']), '\nEND_FUNCTION_BLOCK\n'],
    'literal_kinds': ['FUNCTION_BLOCK fb\nVAR\n  v : ', ('alt', ['INT := 1', 'INT := 2', 'INT := -1', 'INT := 16#1F', 'INT := 16#10', 'INT := 2#101', 'INT := 2#110', 'INT := 8#17', 'INT := 8#7', 'INT := INT#1', 'INT := DINT#1', 'REAL := 1.0', 'REAL := 1.5', 'REAL := 1.0E1', 'BOOL := TRUE', 'BOOL := FALSE',
                                                                    'TIME := T#1s', 'TIME := T#2s', 'TIME := T#1ms', 'TIME := T#1m', 'TIME := T#1h', 'TIME := T#1d', 'TIME := T#-1s', 'DATE := D#2020-01-01', 'DATE := D#2020-01-02', 'DATE := D#2020-02-01', 'DATE := D#2021-01-01',
                                                                    'TOD := TOD#01:02:03', 'TOD := TOD#01:02:04', 'TOD := TOD#01:03:03', 'TOD := TOD#02:02:03', 'DT := DT#2020-01-01-01:02:03', 'DT := DT#2020-01-02-01:02:03', "STRING := 'a'", "STRING := 'b'", "STRING := 'ab'", 'WSTRING := "a"',
                                                                    'BYTE := BYTE#1', 'WORD := WORD#1', 'BYTE := BYTE#16#FF']), ';\nEND_VAR\nEND_FUNCTION_BLOCK\n'],
    'located_and_access': ['PROGRAM p\nVAR', ('alt', ['', ' CONSTANT', ' RETAIN', ' NON_RETAIN']), '\n  x ', ('alt', ['AT %IX1', 'AT %IX2', 'AT %QX1', 'AT %MX1', 'AT %IW1', 'AT %IB1', 'AT %ID1', 'AT %IL1', 'AT %IX1.2', 'AT %IX1.3', 'AT %I1']), ' : ', ('alt', ['BOOL', 'INT', 'mytype', 'othertype']), ('alt', ['', ' := 1', ' := 2']), ';\nEND_VAR\n',
                           ('opt', 'VAR_ACCESS\n  ac : r.p.x : INT READ_WRITE;\nEND_VAR\n'), ('opt', 'VAR_ACCESS\n  ac : r.p.x : INT READ_ONLY;\nEND_VAR\n'), 'END_PROGRAM\n'],
    'array_initial_values': ['FUNCTION_BLOCK fb\nVAR\n  v : ARRAY[1..4] OF INT := [', ('alt', ['1, 2', '2, 1', '2(0)', '3(0)', '2(1)', '1, 2(0)', '2(0), 1', '1', '1, 2, 3']), '];\nEND_VAR\nEND_FUNCTION_BLOCK\n'],
    'structure_initialisers': ['FUNCTION_BLOCK fb\nVAR\n  v : sty := (', ('alt', ['a := 1', 'a := 2', 'b := 1', 'a := 1, b := 2', 'a := 1, b := 3', 'a := (c := 1)', 'a := (c := 2)', 'a := red', 'a := TRUE']), ');\nEND_VAR\nEND_FUNCTION_BLOCK\n'],
    'enumeration_values': ['TYPE\n  c : (red, green);\nEND_TYPE\nFUNCTION_BLOCK fb\nVAR\n  v : c := ', ('alt', ['red', 'green', 'c#red', 'c#green', 'd#red']), ';\n  w : (', ('alt', ['p, q', 'q, p', 'p', 'p, q, r']), ')', ('alt', ['', ' := p']), ';\nEND_VAR\nEND_FUNCTION_BLOCK\n'],
    'sfc_transitions': ['FUNCTION_BLOCK fb\nVAR\n  done : BOOL;\nEND_VAR\nINITIAL_STEP Start:\nEND_STEP\nSTEP Work:\nEND_STEP\nSTEP Done:\nEND_STEP\nTRANSITION ', ('alt', ['FROM Start TO Work', 'FROM Work TO Start', 'FROM (Start, Work) TO Done', 'FROM (Work, Start) TO Done', 'FROM Start TO (Work, Done)', 'FROM (Start, Work, Done) TO Start', 'FROM (Start, Work, Done, Start) TO Start', 'FROM Done TO (Start, Work, Done)', 'FROM Done TO (Start, Work, Done, Work)',
                         'tr1 FROM Start TO Work', 'tr2 FROM Start TO Work', '(PRIORITY := 1) FROM Start TO Work', '(PRIORITY := 2) FROM Start TO Work', 'tr1 (PRIORITY := 1) FROM Start TO Work']), '\n  := ', ('alt', ['done', 'NOT done', 'TRUE']), ';\nEND_TRANSITION\nEND_FUNCTION_BLOCK\n'],
    'case_selectors': ['FUNCTION_BLOCK fb\nVAR\n  x : INT;\n  y : INT;\nEND_VAR\n  CASE x OF\n    ', ('alt', ['1', '2', '1, 2', '2, 1', '1..2', '1..3', '2..3', '1, 3..5', '1..2, 5', '-1', '-1..1']), ':\n      y := 1;\n', ('alt', ['', '    7:\n      y := 2;\n', '    7:\n      y := 3;\n', '    8:\n      y := 2;\n']), ('alt', ['', '  ELSE\n    y := 4;\n', '  ELSE\n    y := 5;\n']), '  END_CASE;\nEND_FUNCTION_BLOCK\n'],
    'access_and_program_storage': ['PROGRAM p\nVAR\n  t : INT;\nEND_VAR\nVAR_ACCESS\n  ', ('alt', ['ac : r.p.x : INT READ_WRITE', 'ac : r.p.x : INT READ_ONLY', 'ac : r.p.x : INT', 'ad : r.p.x : INT READ_WRITE', 'ac : r.p.y : INT READ_WRITE', 'ac : r.q.x : INT READ_WRITE', 'ac : r.p.x : DINT READ_WRITE']), ';\nEND_VAR\n  t := 1;\nEND_PROGRAM\n'],
    'for_and_loops': ['FUNCTION_BLOCK fb\nVAR\n  i : INT;\n  k : INT;\n  b : BOOL;\nEND_VAR\n  ', ('alt', ['FOR i := 1 TO 10 DO\n    k := 1;\n  END_FOR', 'FOR i := 2 TO 10 DO\n    k := 1;\n  END_FOR', 'FOR i := 1 TO 11 DO\n    k := 1;\n  END_FOR', 'FOR i := 1 TO 10 BY 2 DO\n    k := 1;\n  END_FOR', 'FOR i := 1 TO 10 BY 3 DO\n    k := 1;\n  END_FOR',
                       'FOR k := 1 TO 10 DO\n    k := 1;\n  END_FOR', 'WHILE b DO\n    k := 1;\n  END_WHILE', 'WHILE NOT b DO\n    k := 1;\n  END_WHILE', 'REPEAT\n    k := 1;\n  UNTIL b\n  END_REPEAT', 'REPEAT\n    k := 1;\n  UNTIL NOT b\n  END_REPEAT',
                       'IF b THEN\n    k := 1;\n  ELSIF i > 1 THEN\n    k := 2;\n  ELSIF i > 2 THEN\n    k := 3;\n  END_IF', 'IF b THEN\n    k := 1;\n  ELSIF i > 2 THEN\n    k := 3;\n  ELSIF i > 1 THEN\n    k := 2;\n  END_IF']), ';\nEND_FUNCTION_BLOCK\n'],
    'configuration_parts': ['CONFIGURATION c\nRESOURCE r ON plc\n  TASK t(', ('alt', ['INTERVAL := T#1s, PRIORITY := 1', 'INTERVAL := T#2s, PRIORITY := 1', 'INTERVAL := T#1s, PRIORITY := 2', 'PRIORITY := 1', 'SINGLE := trig, PRIORITY := 1']), ');\n  PROGRAM ',
                            ('alt', ['', 'RETAIN ', 'NON_RETAIN ']), 'i ', ('alt', ['WITH t ', '']), ': p', ('alt', ['', '(a := b)', '(a := c)', '(a => b)', '(a := b, c => d)']), ';\nEND_RESOURCE\nEND_CONFIGURATION\n'],
}

def _k9_job(job):
    name, prefixes = job
    from . import C10 as K10, tplcommon as TP
    ctx = _CTX; part = Part(); part.libs = {}; part.tname = name; tpl = _k9_templates()[name]
    P = ctx.program()
    k_parse = P.find_fn('ironplc-parser', 'parse_program'); k_opt = TP.parse_opts(P)
    st = {}
    M = Machine(P, stubs=K10.dyn_lexer_stubs(ctx, {}), max_steps=400_000_000)
    def entry(M):
        choice, texts, text = TP.choose_shape(M, tpl); st['choice'] = choice; st['src'] = text
        fid = Ref(Cell(Agg('FileId', [Str('f.st')])))
        opts = Ref(Cell(M.call_fn(k_opt[0], []) if k_opt else Agg('ParseOptions', [False])))
        r1 = M.call_fn(k_parse, [Ref(Cell(Str(text))), fid, opts])
        return None if r1.disc != 0 else _canon(M, r1.f[0])
    def on_path(M, pr):
        part.paths += 1
        if pr.inconclusive: part.inconc('%s: %s' % (name, pr.inconclusive)); return
        if pr.panic: part.inconc('%s: panic (C04) %s' % (name, pr.panic.msg[:50])); return
        if pr.result is None: return
        part.nontrivial += 1
        part.libs[st['choice']] = (pr.result, st['src'])
    M.explore(entry, on_path, prefixes=prefixes)
    part.queries += M.stats['smt']; part.encoded = set(M.encoded); part.models = set(M.models_used)
    return part

def _k9_templates():
    from . import C10 as K10
    d = dict(DISTINCT_TEMPLATES)
    for k in ('sfc_transition', 'edge_inputs', 'fb_call', 'function_call', 'assignment_expr', 'assignment_target', 'case_statement', 'literal_init', 'configuration_globals', 'string_type', 'subrange_type', 'array_type', 'enum_type', 'struct_type'):
        if k in K10.TEMPLATES: d[k] = K10.TEMPLATES[k]
    return d

WELL_FORMED = ['pou_var_block_order', 'sfc_transitions', 'statements', 'literal_kinds', 'array_initial_values', 'structure_initialisers', 'enumeration_values', 'case_selectors', 'for_and_loops', 'access_and_program_storage', 'located_and_access']

def _replay_must_parse(src):
    def rp(ctx):
        r = ctx.replay({'cmd': 'parse', 'source': src})
        if 'panic' in r: return True, r
        return not r.get('ok'), {'source': src[-300:], 'parses': r.get('ok'), 'diag': str(r.get('diag'))[:200]}
    return rp

@replay_factory('parse_distinct')
def _replay_parse_distinct(a, b):
    def rp(ctx):
        r = ctx.replay({'cmd': 'parse_eq', 'a': a, 'b': b})
        if 'panic' in r: return None, r
        if not (r.get('a_ok') and r.get('b_ok')): return None, r
        return bool(r.get('equal')), {'a': a[-200:], 'b': b[-200:], 'libraries_equal': r.get('equal')}
    return rp

@kernel('K9 parser.distinct_sources_distinct_libraries')
def k9(ctx, kr):
    global _CTX
    _CTX = ctx
    from . import C10 as K10, tplcommon as TP
    T = _k9_templates()
    kr.bounds = ('%d source templates whose alternatives denote different programs (%s): parse_program on the MIR for every shape; two shapes that differ in exactly one selector must give different libraries '
                 '(positions and the original spelling of identifiers ignored; alternatives with the same meaning by the language definition are listed in SAME_MEANING)' % (len(T), ', '.join(T)))
    libs = {n: {} for n in T}
    for part in par_map(_k9_job, TP.jobs_for(T)):
        libs[part.tname].update(part.libs); merge_part(kr, part)
    npairs = 0
    for n, tpl in T.items():
        segs = K10._selectors(tpl); L = libs[n]
        for c1, (l1, s1) in L.items():
            for i in range(len(c1)):
                for v in range(c1[i] + 1, K10._shapes(tpl)[i]):
                    c2 = c1[:i] + (v,) + c1[i + 1:]
                    if c2 not in L: continue
                    npairs += 1
                    l2, s2 = L[c2]
                    if l1 != l2: continue
                    t1 = (segs[i][1] if c1[i] else '') if segs[i][0] == 'opt' else segs[i][1][c1[i]]
                    t2 = (segs[i][1] if c2[i] else '') if segs[i][0] == 'opt' else segs[i][1][c2[i]]
                    if any(t1 in g and t2 in g for g in SAME_MEANING.get((n, i), [])): continue
                    role = 'C01/K9/%s/%s=%s' % (n, re.sub(r'[^A-Za-z0-9#.<>=:*+-]+', '_', t1).strip('_')[:20] or 'none', re.sub(r'[^A-Za-z0-9#.<>=:*+-]+', '_', t2).strip('_')[:20] or 'none')
                    if any(f.role == role for f in kr.findings): continue
                    kr.findings.append(Finding(role, 'template %s: the sources that differ only in %r vs %r parse to the same library: what was written is not what the library says' % (n, t1, t2), {'a': s1, 'b': s2}, replay=_replay_parse_distinct(s1, s2)))
    # templates whose every shape is a well-formed program of the supported subset: parsing must succeed
    for n in WELL_FORMED:
        if n not in T: continue
        tpl = T[n]; dims = K10._shapes(tpl)
        import itertools
        for c in itertools.product(*[range(d) for d in dims]):
            if c in libs[n]: continue
            src = K10._tpl_text(tpl, list(c)); lab = TP.shape_label(tpl, c)
            role = 'C01/K9/%s/rejected/%s' % (n, lab)
            if sum(1 for f in kr.findings if f.role.startswith('C01/K9/%s/rejected/' % n)) >= 3: break
            kr.findings.append(Finding(role, 'template %s, shape %s: a well-formed program is rejected by parse_program' % (n, lab), {'source': src}, replay=_replay_must_parse(src)))
    kr.notes.append('%d pairs of shapes compared; shapes the parser accepts per template: %s' % (npairs, ', '.join('%s %d/%d' % (n, len(libs[n]), __import__('kernels.tplcommon', fromlist=['x']).nshapes(T[n])) for n in T)))
    if len(kr.validate) < 1 and libs.get('statements'):
        ks = sorted(libs['statements'])[:2]
        if len(ks) == 2: kr.validate.append(('parse_distinct', (libs['statements'][ks[0]][1], libs['statements'][ks[1]][1])))
    P = ctx.program()
    kr.functions = fn_paths(P, getattr(kr, '_enc', set()))[:150] + ['ironplc-parser::<TokenType as Logos>::lex (lifted)']
    kr.exhaustive = True
    kr.outside = ['constructs and alternatives not in the templates; that the library is the *right* one (K1-K8 for names, kinds, nesting, precedence, literals)']

KERNELS = [k1, k4, k5, k6, k7, k8, k9]
