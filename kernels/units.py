"""Small compilation units shared by the whole-analysis kernels (C03-K6, C05-K8, C06-K5).

FAULTY: units that violate exactly one documented rule: (list of top-level declarations, published code, text the primary label must cover).
The label text is the spelling of the construct the diagnostic's message talks about (the undefined name, the repeated name, the offending
invocation, ...), written here from the problem descriptions in problems/resources/problem-codes.csv.
COMPANIONS: valid, self-contained declarations that share no name with any faulty unit."""

_E = 'TYPE\n  level : (info, critical) := info;\nEND_TYPE\n'
_CALLEE = 'FUNCTION_BLOCK callee\nVAR_INPUT\n  in1 : BOOL;\nEND_VAR\nVAR_OUTPUT\n  out1 : BOOL;\nEND_VAR\nEND_FUNCTION_BLOCK\n'
_PROG = 'PROGRAM prog\nVAR\n  x : INT;\nEND_VAR\nEND_PROGRAM\n'

FAULTY = {
    'struct_with_bad_enum_default': ([_E, 'TYPE\n  rec : STRUCT\n    lvl : level := warning;\n  END_STRUCT;\nEND_TYPE\n'], 'P0014', ['warning']),
    'fb_var_with_bad_enum_default': ([_E, 'FUNCTION_BLOCK logger\nVAR_INPUT\n  lvl : level := warning;\nEND_VAR\nEND_FUNCTION_BLOCK\n'], 'P0014', ['warning']),
    'fb_call_bad_input': ([_CALLEE, 'FUNCTION_BLOCK caller\nVAR\n  inst : callee;\nEND_VAR\n  inst(zz := TRUE);\nEND_FUNCTION_BLOCK\n'], 'P0007', ['inst(zz := TRUE)', 'zz', 'zz := TRUE']),
    'fb_call_mixed': ([_CALLEE, 'FUNCTION_BLOCK caller\nVAR\n  inst : callee;\nEND_VAR\n  inst(in1 := TRUE, FALSE);\nEND_FUNCTION_BLOCK\n'], 'P0006', ['inst(in1 := TRUE, FALSE)']),
    'fb_call_positional_count': ([_CALLEE, 'FUNCTION_BLOCK caller\nVAR\n  inst : callee;\nEND_VAR\n  inst(TRUE, FALSE);\nEND_FUNCTION_BLOCK\n'], 'P0008', ['inst(TRUE, FALSE)']),
    'fb_call_bad_output': ([_CALLEE, 'FUNCTION_BLOCK caller\nVAR\n  inst : callee;\n  b : BOOL;\nEND_VAR\n  inst(zz => b);\nEND_FUNCTION_BLOCK\n'], 'P0009', ['inst(zz => b)', 'zz', 'zz => b']),
    'fb_not_in_scope': ([_CALLEE, 'FUNCTION_BLOCK caller\nVAR\n  inst : callee;\nEND_VAR\n  other();\nEND_FUNCTION_BLOCK\n'], 'P0021', ['other()', 'other']),
    'task_missing': (['CONFIGURATION cfg\n  RESOURCE res ON PLC\n    TASK tsk(INTERVAL := T#100ms, PRIORITY := 1);\n    PROGRAM inst WITH nosuch : prog;\n  END_RESOURCE\nEND_CONFIGURATION\n', _PROG], 'P0011', ['nosuch']),
    'external_not_constant': (['CONFIGURATION cfg\n  VAR_GLOBAL CONSTANT\n    g : INT := 1;\n  END_VAR\n  RESOURCE res ON PLC\n    TASK tsk(INTERVAL := T#100ms, PRIORITY := 1);\n    PROGRAM inst WITH tsk : prog2;\n  END_RESOURCE\nEND_CONFIGURATION\n',
                               'PROGRAM prog2\nVAR_EXTERNAL\n  g : INT;\nEND_VAR\nEND_PROGRAM\n'], 'P0018', ['g']),
    'duplicate_struct_element': (['TYPE\n  rec : STRUCT\n    a : INT;\n    a : BOOL;\n  END_STRUCT;\nEND_TYPE\n'], 'P0003', ['rec', 'a']),
    'enum_duplicate_value': (['TYPE\n  e : (a, b, a);\nEND_TYPE\n'], 'P0005', ['a']),
    'enum_duplicate_prefixed_value': (['TYPE\n  e : (e#a, b, a);\nEND_TYPE\n'], 'P0005', ['a', 'e#a']),
    'undeclared_variable': (['FUNCTION_BLOCK one\nVAR\n  a : INT;\nEND_VAR\n  a := 1;\nEND_FUNCTION_BLOCK\n', 'FUNCTION_BLOCK two\nVAR\n  b : INT;\nEND_VAR\n  a := 2;\nEND_FUNCTION_BLOCK\n'], 'P0015', ['a']),
    'subrange_inverted': (['TYPE\n  rng : INT(10..1);\nEND_TYPE\n'], 'P0004', ['10', '10..1', 'INT(10..1)', '1']),
    'subrange_inverted_negative': (['TYPE\n  rng : INT(-1..-10);\nEND_TYPE\n'], 'P0004', ['1', '-1', '-1..-10', 'INT(-1..-10)', '10', '-10']),
    'subrange_inverted_plus': (['TYPE\n  rng : INT(+8..+4);\nEND_TYPE\n'], 'P0004', ['8', '+8', '+8..+4', 'INT(+8..+4)', '4', '+4']),
    'array_bounds_inverted': (['TYPE\n  ar : ARRAY[5..-3] OF INT;\nEND_TYPE\n'], 'P0004', ['5', '5..-3', '3', '-3']),
    'duplicate_string_type': (['TYPE\n  txt : STRING[10];\nEND_TYPE\n', 'TYPE\n  txt : STRING[20];\nEND_TYPE\n'], ('P0019', 'P0020'), ['txt']),
    'type_and_function_block_share_a_name': (['TYPE\n  thing : STRING[10];\nEND_TYPE\n', 'FUNCTION_BLOCK thing\nVAR\n  x : INT;\nEND_VAR\nEND_FUNCTION_BLOCK\n'], ('P0019', 'P0020'), ['thing']),
    'const_no_init': (['FUNCTION_BLOCK fb\nVAR CONSTANT\n  c : INT;\nEND_VAR\nEND_FUNCTION_BLOCK\n'], 'P0016', ['c', 'c : INT']),
    'stdlib_type': (['FUNCTION_BLOCK fb\nVAR\n  t : TON;\nEND_VAR\nEND_FUNCTION_BLOCK\n'], 'P0029', ['TON']),
    'duplicate_type': (['TYPE\n  e : (a, b);\nEND_TYPE\n', 'TYPE\n  e : (c, d);\nEND_TYPE\n'], ('P0019', 'P0020'), ['e']),
    'duplicate_function_block': (['FUNCTION_BLOCK fb\nEND_FUNCTION_BLOCK\n', 'FUNCTION_BLOCK fb\nVAR\n  x : INT;\nEND_VAR\nEND_FUNCTION_BLOCK\n'], ('P0019', 'P0020'), ['fb']),
    'unknown_type': (['FUNCTION_BLOCK fb\nVAR\n  v : nosuch;\nEND_VAR\nEND_FUNCTION_BLOCK\n'], 'P0022', ['nosuch']),
    'enum_not_declared': (['FUNCTION_BLOCK fb\nVAR\n  v : nosuch := a;\nEND_VAR\nEND_FUNCTION_BLOCK\n'], 'P0012', ['nosuch']),
    'recursive_alias': (['TYPE\n  ta : tb;\n  tb : ta;\nEND_TYPE\n'], 'P0010', ['ta', 'tb']),
}
# faults that another declaration can legitimately cure ("undeclared" errors) are not used for the masking kernel
CURABLE = {'unknown_type', 'enum_not_declared', 'fb_not_in_scope', 'task_missing'}

COMPANIONS = {
    'enum': 'TYPE\n  colour : (red, green) := red;\nEND_TYPE\n',
    'struct': 'TYPE\n  pair : STRUCT\n    first : INT;\n    second : INT;\n  END_STRUCT;\nEND_TYPE\n',
    'function_block': 'FUNCTION_BLOCK helper\nVAR_INPUT\n  enable : BOOL;\nEND_VAR\nVAR\n  count : INT;\nEND_VAR\n  count := count + 1;\nEND_FUNCTION_BLOCK\n',
    'function': 'FUNCTION twice : INT\nVAR_INPUT\n  val : INT;\nEND_VAR\n  twice := val * 2;\nEND_FUNCTION\n',
    'program_with_instance': 'FUNCTION_BLOCK worker\nVAR_INPUT\n  go : BOOL;\nEND_VAR\nEND_FUNCTION_BLOCK\nPROGRAM main\nVAR\n  w : worker;\nEND_VAR\n  w(go := TRUE);\nEND_PROGRAM\n',
    'configuration': 'CONFIGURATION plant\n  RESOURCE cpu ON PLC\n    TASK cyclic(INTERVAL := T#10ms, PRIORITY := 1);\n    PROGRAM run WITH cyclic : idle;\n  END_RESOURCE\nEND_CONFIGURATION\nPROGRAM idle\nVAR\n  n : INT;\nEND_VAR\nEND_PROGRAM\n',
}
