"""Shared driver for the Kani-decided kernels (engine K)."""
import time, re
import kani_run
from framework import Finding

_RES = {}
def results():
    if 'r' not in _RES:
        t = time.time(); r, out = kani_run.run(); _RES['r'] = r; _RES['out'] = out; _RES['t'] = time.time() - t
    return _RES['r'], _RES['out'], _RES['t']

def fp_literal(whole, femptos):
    s = str(whole)
    if femptos: s += '.' + ('%015d' % femptos).rstrip('0')
    return s

def program_with_time(lit):
    return 'PROGRAM p\nVAR\n  x : TIME := %s;\nEND_VAR\nEND_PROGRAM\n' % lit

def apply(kr, harnesses, make_finding):
    """copy Kani verdicts of the named harnesses into kr; make_finding(harness, entry, failed_check, witness_vals) -> Finding or None"""
    r, out, t = results()
    kr.wall_s = t
    if not r: kr.inconc('kani produced no result: %s' % out[-300:]); return
    for h in harnesses:
        e = r.get(h)
        if e is None: kr.inconc('harness %s missing from kani output' % h); continue
        kr.paths += 1; kr.queries += e['checks'] or 0; kr.solver_s += e['time'] or 0.0; kr.nontrivial += 1
        kr.functions.append('vkani::proofs::%s (kani::any inputs; %s checks; cover %s)' % (h, e['checks'], e['cover']))
        if e['status'] == 'INCONCLUSIVE': kr.inconc('kani inconclusive for %s' % h); continue
        if len(kr.samples) < 4: kr.samples.append({'harness': h, 'status': e['status'], 'checks': e['checks'], 'cover': e['cover'], 'time_s': e['time']})
        if e['status'] == 'SUCCESSFUL': continue
        for fc in e['failed']:
            ws = [w for w in e['witnesses'] if w['kind'] == 'assertion' and w['check'] == fc['desc']]
            f = make_finding(h, e, fc, ws[0]['vals'] if ws else None)
            if f is not None and not any(g.role == f.role for g in kr.findings): kr.findings.append(f)
    kr.models = ['none: Kani/CBMC executes the compiled ironplc-dsl and the real `time` crate']
    kr.assumptions = ['FixedPoint invariant femptos < 10^15 (what FixedPoint::parse produces)']
