"""Shared exploration of analyzer::xform_toposort_declarations::apply on generated declaration graphs (C03, C06, C07)."""
import time, itertools
import z3
from framework import Part
from mirsym.machine import *
from mirsym.mirread import Unsupported
from . import lexcommon as LC

CRATES = None   # all

def source_fb(K, self_loops=True):
    """K function blocks; block i declares one variable per potential edge i->j whose type name is the placeholder Tij"""
    out = []
    for i in range(K):
        vs = ''.join('  v%d_%d : T%d_%d;\n' % (i, j, i, j) for j in range(K))
        out.append('FUNCTION_BLOCK fb%d\nVAR\n%sEND_VAR\nEND_FUNCTION_BLOCK\n' % (i, vs))
    return out

def source_struct(K):
    out = []
    for i in range(K):
        es = ''.join('    e%d_%d : T%d_%d;\n' % (i, j, i, j) for j in range(K))
        out.append('TYPE\n  st%d : STRUCT\n%s  END_STRUCT;\nEND_TYPE\n' % (i, es))
    return out

def source_alias(K):
    return ['TYPE\n  al%d : B%d;\nEND_TYPE\n' % (i, i) for i in range(K)]

def build(ctx, decl_texts, order=None):
    """parse the concatenated declarations concretely through the interpreter; returns the Library value"""
    order = order if order is not None else range(len(decl_texts))
    text = ''.join(decl_texts[i] for i in order)
    lib, M = LC.parse_concrete(ctx, text)
    return lib, text

def ident_sym(term, span_from):
    """an Id whose spelling is an opaque symbolic name (lower-case == original: names range over a lower-case alphabet)"""
    s = SymStr(term); s.lower = s
    return s

def reach_cyclic(K, edges):
    reach = {i: {j for (a, j) in edges if a == i} for i in range(K)}
    for _ in range(K + 1):
        for i in range(K):
            for j in list(reach[i]): reach[i] |= reach[j]
    return any(i in reach[i] for i in range(K))
