"""Shared exploration of analyzer::xform_toposort_declarations::apply on generated declaration graphs (C03, C06, C07)."""
import time, itertools
import z3
from framework import Part
from mirsym.machine import *
from mirsym.mirread import Unsupported
from . import lexcommon as LC

CRATES = None   # all

def source_fb(K, self_loops=True, section='VAR', dup=False):
    """K function blocks; block i declares one variable per potential edge i->j whose type name is the placeholder Tij (dup: two variables per edge, the same type used twice)"""
    out = []
    for i in range(K):
        vs = ''.join('  v%d_%d : T%d_%d;\n' % (i, j, i, j) + ('  w%d_%d : T%d_%d;\n' % (i, j, i, j) if dup else '') for j in range(K))
        out.append('FUNCTION_BLOCK fb%d\n%s\n%sEND_VAR\nEND_FUNCTION_BLOCK\n' % (i, section, vs))
    return out

def source_struct(K):
    out = []
    for i in range(K):
        es = ''.join('    e%d_%d : T%d_%d;\n' % (i, j, i, j) for j in range(K))
        out.append('TYPE\n  st%d : STRUCT\n%s  END_STRUCT;\nEND_TYPE\n' % (i, es))
    return out

def source_alias(K):
    return ['TYPE\n  al%d : B%d;\nEND_TYPE\n' % (i, i) for i in range(K)]

def build(ctx, decl_texts, order=None):
    """parse the concatenated declarations concretely through the interpreter; returns the Library value"""
    order = order if order is not None else range(len(decl_texts))
    text = ''.join(decl_texts[i] for i in order)
    lib, M = LC.parse_concrete(ctx, text)
    return lib, text

def ident_sym(term, span_from, lower_term=None):
    """an Id whose spelling is an opaque symbolic name.  Without lower_term the name is its own lower-case form (lower-case alphabet);
    with lower_term the spelling as written (term) and its lower-case form (lower_term) are different strings: a re-spelling in another letter case"""
    s = SymStr(term)
    if lower_term is None: s.lower = s
    else:
        l = SymStr(lower_term); l.lower = l; s.lower = l
    return s

def reach_cyclic(K, edges):
    reach = {i: {j for (a, j) in edges if a == i} for i in range(K)}
    for _ in range(K + 1):
        for i in range(K):
            for j in list(reach[i]): reach[i] |= reach[j]
    return any(i in reach[i] for i in range(K))
