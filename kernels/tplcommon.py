"""Template shapes: a source skeleton with shape selectors ('opt' / 'alt' segments). The selectors are symbolic variables with a declared
finite domain; the code under test runs on the MIR for every feasible value combination (paths fork on the selectors)."""
import re, itertools
from mirsym.machine import *
from . import C10 as K10

def nshapes(tpl):
    n = 1
    for d in K10._shapes(tpl): n *= d
    return n

def choose_shape(M, tpl):
    """fork on the shape selectors; returns (choice tuple, selector texts, source text)"""
    dims = K10._shapes(tpl); choice = []
    for i, d in enumerate(dims):
        v = M.fresh_bv('seg%d' % i, 8); M.declare_domain(v, list(range(d)))
        c = 0
        for val in range(d - 1):
            if M.branch(v == val): c = val; break
            c = val + 1
        choice.append(c)
    segs = K10._selectors(tpl)
    texts = [(s[1] if c else '') if s[0] == 'opt' else s[1][c] for s, c in zip(segs, choice)]
    return tuple(choice), texts, K10._tpl_text(tpl, choice)

def jobs_for(templates, names=None):
    """one job per value of the first selector of every template, biggest templates first"""
    names = list(names or templates)
    jobs = []
    for t in sorted(names, key=lambda t: -nshapes(templates[t]['tpl'] if isinstance(templates[t], dict) else templates[t])):
        tpl = templates[t]['tpl'] if isinstance(templates[t], dict) else templates[t]
        dims = K10._shapes(tpl); first = dims[0] if dims else 1
        for v in range(first): jobs.append((t, None) if first == 1 else (t, [K10._prefix_for(first, v)]))
    return jobs

def shape_label(tpl, choice):
    segs = K10._selectors(tpl)
    return '/'.join(K10._seg_label(s, c) for s, c in zip(segs, choice))

def parse_opts(P):
    return [k for k in P.items if k[0] == 'ironplc-parser' and re.search(r'ParseOptions as (std::default::)?Default>::default|options::<impl at [^>]*>::default', k[1])]

def diag_codes(M, P, res, code_of):
    """problem codes of an Err(Vec<Diagnostic>) result"""
    got = set()
    for d in res.f[0].items:
        c = M.deref(M.deref(d).f[0]) if isinstance(d, Ref) else M.deref(d.f[0])
        g = c.conc() if isinstance(c, Str) else '?'
        got.add(code_of(P, re.sub(r'^code:', '', g)))
    return got
