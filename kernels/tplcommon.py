"""Template shapes: a source skeleton with shape selectors ('opt' / 'alt' segments). The selectors are symbolic variables with a declared
finite domain; the code under test runs on the MIR for every feasible value combination (paths fork on the selectors)."""
import re, itertools
from mirsym.machine import *
from . import C10 as K10

def nshapes(tpl):
    n = 1
    for d in K10._shapes(tpl): n *= d
    return n

def choose_shape(M, tpl):
    """fork on the shape selectors; returns (choice tuple, selector texts, source text)"""
    dims = K10._shapes(tpl); choice = []
    for i, d in enumerate(dims):
        v = M.fresh_bv('seg%d' % i, 8); M.declare_domain(v, list(range(d)))
        c = 0
        for val in range(d - 1):
            if M.branch(v == val): c = val; break
            c = val + 1
        choice.append(c)
    segs = K10._selectors(tpl)
    texts = [(s[1] if c else '') if s[0] == 'opt' else s[1][c] for s, c in zip(segs, choice)]
    return tuple(choice), texts, K10._tpl_text(tpl, choice)

def jobs_for(templates, names=None):
    """one job per value of the first selector of every template, biggest templates first"""
    names = list(names or templates)
    jobs = []
    for t in sorted(names, key=lambda t: -nshapes(templates[t]['tpl'] if isinstance(templates[t], dict) else templates[t])):
        tpl = templates[t]['tpl'] if isinstance(templates[t], dict) else templates[t]
        dims = K10._shapes(tpl); first = dims[0] if dims else 1
        for v in range(first): jobs.append((t, None) if first == 1 else (t, [K10._prefix_for(first, v)]))
    return jobs

def shape_label(tpl, choice):
    segs = K10._selectors(tpl)
    return '/'.join(K10._seg_label(s, c) for s, c in zip(segs, choice))

def parse_opts(P):
    return [k for k in P.items if k[0] == 'ironplc-parser' and re.search(r'ParseOptions as (std::default::)?Default>::default|options::<impl at [^>]*>::default', k[1])]

def diag_codes(M, P, res, code_of):
    """problem codes of an Err(Vec<Diagnostic>) result"""
    got = set()
    for d in res.f[0].items:
        c = M.deref(M.deref(d).f[0]) if isinstance(d, Ref) else M.deref(d.f[0])
        g = c.conc() if isinstance(c, Str) else '?'
        got.add(code_of(P, re.sub(r'^code:', '', g)))
    return got


def analyze_files(ctx, files, deterministic=False, max_paths=None):
    """parse_program on every file + stages::analyze on the MIR (toposort tie-breaks nondeterministic unless asked otherwise).
    Returns (list of outcomes, Part); an outcome is 'rejected' | ('ok', ()) | ('diagnosed', ((code, label text, file index), ...)), one per path."""
    from framework import Part
    from . import C02 as K02
    part = Part(); P = ctx.program()
    k_parse = P.find_fn('ironplc-parser', 'parse_program'); k_an = P.find_fn('ironplc-analyzer', 'stages::analyze')
    k_opt = parse_opts(P)
    holder = {}
    M = Machine(P, stubs=K10.dyn_lexer_stubs(ctx, holder), max_steps=800_000_000)
    if deterministic: M.toposort_deterministic = True
    outs = []
    def entry(M):
        libs = []
        for i, text in enumerate(files):
            fid = Ref(Cell(Agg('FileId', [Str('f%d.st' % i)])))
            opts = Ref(Cell(M.call_fn(k_opt[0], []) if k_opt else Agg('ParseOptions', [False])))
            r = M.call_fn(k_parse, [Ref(Cell(Str(text))), fid, opts])
            if r.disc != 0: return 'rejected'
            libs.append(Ref(Cell(r.f[0])))
        a = M.call_fn(k_an, [Ref(Cell(VecV(libs)))])
        if a.disc == 0: return ('ok', ())
        out = []
        for d in a.f[0].items:
            d = M.deref(d) if isinstance(d, Ref) else d
            c = M.deref(d.f[0]); code = K02._code_of(P, re.sub(r'^code:', '', c.conc() if isinstance(c, Str) else '?'))
            lb = find_label(M, d); lab = None; fidx = None
            if lb is not None:
                loc = M.deref(lb.f[0]) if isinstance(lb.f[0], Ref) else lb.f[0]
                a0, a1 = simp(loc.f[0]), simp(loc.f[1]); fname = None
                stack = [lb.f[1]]
                while stack:
                    x = stack.pop()
                    if isinstance(x, Ref): x = M.deref(x)
                    if isinstance(x, Str): fname = x.conc(); break
                    if isinstance(x, (Agg, EnumV)): stack.extend(x.f)
                fidx = int(fname[1:-3]) if fname and re.fullmatch(r'f\d+\.st', fname) else None
                src = files[fidx] if fidx is not None and fidx < len(files) else None
                if src is None or not isinstance(a0, int) or not isinstance(a1, int): lab = '?'
                elif not (0 <= a0 <= a1 <= len(src.encode())): lab = '<outside the file: %s..%s>' % (a0, a1)
                else: lab = src.encode()[a0:a1].decode('utf-8', 'replace')
            out.append((code, lab, fidx))
        return ('diagnosed', tuple(sorted(out, key=str)))
    def on_path(M, pr):
        part.paths += 1
        if pr.inconclusive: part.inconc(pr.inconclusive); return
        if pr.panic: part.inconc('panic (C04): %s' % pr.panic.msg[:60]); return
        part.nontrivial += 1
        outs.append(pr.result)
    M.explore(entry, on_path, **({'max_paths': max_paths} if max_paths else {}))
    part.queries += M.stats['smt']; part.encoded = set(M.encoded); part.models = set(M.models_used)
    return outs, part

def find_label(M, d):
    """the primary label of a Diagnostic: the first Label aggregate in field order"""
    stack = [d]
    while stack:
        v = stack.pop()
        if isinstance(v, Agg) and re.sub(r'<.*', '', v.name).split('::')[-1] == 'Label': return v
        if isinstance(v, (Agg, EnumV)): stack.extend(reversed(v.f))
        elif isinstance(v, VecV): stack.extend(reversed(v.items))
        elif isinstance(v, Ref): stack.append(M.get(v.cell, v.path))
    return None

def real_analyze(ctx, files):
    """the same through the real build: list of (code, label text, file index)"""
    r = ctx.replay({'cmd': 'analyze', 'sources': files})
    if 'panic' in r: return 'panic'
    if 'parse_error' in r: return 'rejected'
    out = []
    for d in r.get('diagnostics', []):
        fi = int(d['file'][1:-3]) if re.fullmatch(r'f\d+\.st', d['file']) else None
        src = files[fi] if fi is not None and fi < len(files) else ''
        ok_ = 0 <= d['start'] <= d['end'] <= len(src.encode())
        out.append((d['code'], src.encode()[d['start']:d['end']].decode('utf-8', 'replace') if ok_ else '<outside the file: %s..%s>' % (d['start'], d['end']), fi))
    return tuple(sorted(out, key=str))
