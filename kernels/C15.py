"""C15 — semantic tokens decode to exactly the highlighted lexemes of the document."""
import time, json, re
import z3
from framework import kernel, Finding, fn_paths, Part, par_map, merge_part, replay_factory, REPLAYS
from mirsym.machine import *
from mirsym.mirread import Unsupported
from mirsym import models
from . import lspcommon as LSP, lexcommon as LC
from . import C11 as K11

CR = ['ironplcc', 'ironplc-dsl', 'ironplc-parser', 'ironplc-analyzer']

def _tokenize_key(P):
    c = [k for k in P.items if k[0] == 'ironplcc' and re.fullmatch(r'lsp_project::<impl at [^>]*>::tokenize', k[1])]
    if len(c) != 1: raise Unsupported('LspProject::tokenize: %d candidates' % len(c))
    return c[0]

def _add(kr, role, what, wit, replay):
    if any(f.role == role for f in kr.findings): return
    kr.findings.append(Finding(role, what, wit, replay=REPLAYS[replay[0]](*replay[1]) if replay else None))

def _mk_token(P, tt, line, col, text_bytes, start):
    TT = P.enums['TokenType']
    d = tt if (is_sym(tt) or isinstance(tt, int)) else TT.index(tt)
    return Agg('Token', [EnumV('TokenType', d, []), Agg('SourceSpan', [start, start + len(text_bytes), Agg('FileId', [Str('/d.st')])]), line, col, Str(list(text_bytes))])

def _machine(P, st):
    def st_tok(M, fr, callee, a): return Agg('()', [VecV(list(st['tokens'])), VecV(list(st['diags']))])
    W = K11.World(P, None)
    stubs = W.stubs()
    stubs[r'project::Project>::tokenize$'] = st_tok
    stubs[r'^<token::TokenType as std::clone::Clone>::clone$'] = lambda M, fr, c, a: EnumV('TokenType', M.deref(a[0]).disc, [])
    return Machine(P, stubs=stubs)

def _call(M, P, key):
    proj = Agg('LspProject', [Ref(Cell(Agg('project::FileBackedProject', [VecV()])))])
    return M.call_fn(key, [Ref(Cell(proj)), Ref(Cell(Agg('Url', [Str('file:///d.st')])))])

# ---------------------------------------------------------------------------------------------- K1 relative encoding
@kernel('K1 lsp.semantic_tokens_relative_encoding')
def k1(ctx, kr):
    P = ctx.program(CR)
    key = _tokenize_key(P)
    KMAX = 3 if ctx.tier == 'quick' else 4
    st = {}
    M = _machine(P, st)
    for K in range(1, KMAX + 1):
        def entry(M):
            toks = []; st['pos'] = []
            prev = None
            for i in range(K):
                line = M.fresh_bv('line', 64); col = M.fresh_bv('col', 64); ln = 1 + (i % 2)
                M.assume(z3.And(z3.ULT(line, 1000), z3.ULT(col, 1000)))
                if prev is not None:
                    pl, pc, plen = prev
                    M.assume(z3.Or(z3.UGT(line, pl), z3.And(line == pl, z3.UGE(col, pc + plen))))
                prev = (line, col, ln)
                st['pos'].append((line, col, ln))
                toks.append(_mk_token(P, 'Identifier', line, col, [ord('x')] * ln, 0))
            st['tokens'] = toks; st['diags'] = []
            return _call(M, P, key)
        def on_path(M, pr):
            kr.paths += 1
            if pr.inconclusive: kr.inconc(pr.inconclusive); return
            kr.nontrivial += 1
            if pr.panic: _add(kr, 'C15/K1/panic', 'LspProject::tokenize panics: ' + pr.panic.msg[:60], {}, None); return
            res = pr.result
            if res.disc != 0 or len(res.f[0].items) != K:
                _add(kr, 'C15/K1/token-count', '%d identifier tokens produce %s semantic tokens' % (K, 'an error' if res.disc != 0 else len(res.f[0].items)), {'k': K},
                     ('semtok_document', (' '.join('v%d' % i for i in range(K)) + '\n', [('v%d' % i, ['variable']) for i in range(K)]))); return
            out = res.f[0].items
            # decode the LSP relative encoding
            al = None; ac = None; bad = []
            for i, t in enumerate(out):
                dl, ds, ln = tobv(t.f[0], 32), tobv(t.f[1], 32), tobv(t.f[2], 32)
                if i == 0: al, ac = dl, ds
                else:
                    ac = z3.If(dl == 0, ac + ds, ds); al = al + dl
                line, col, l = st['pos'][i]
                bad.append(z3.Or(al != z3.Extract(31, 0, line), ac != z3.Extract(31, 0, col), ln != l))
            s = z3.Solver(); s.add(*pr.pc); s.add(z3.Or(bad)); kr.queries += 1
            t0 = time.time(); r = s.check(); kr.solver_s += time.time() - t0
            if r == z3.sat:
                m = s.model(); pos = [(m.eval(a, True).as_long(), m.eval(b, True).as_long(), c) for a, b, c in st['pos']]
                _add(kr, 'C15/K1/not-relative-encoding', 'semantic tokens at (line, col, len) %s do not decode (LSP relative encoding) to these positions: deltaLine/deltaStart hold absolute values' % pos,
                     {'tokens': pos}, ('semtok_positions', (pos,)))
            elif r == z3.unknown: kr.inconc('solver unknown')
            elif K >= 2 and len(kr.validate) < 2:
                s2 = z3.Solver(); s2.add(*pr.pc); s2.add(*[z3.And(z3.ULT(a, 5), z3.ULT(b_, 30)) for a, b_, c in st['pos']])
                if s2.check() == z3.sat:
                    m2 = s2.model(); kr.validate.append(('semtok_positions', ([(m2.eval(a, True).as_long(), m2.eval(b_, True).as_long(), c) for a, b_, c in st['pos']],)))
            if len(kr.samples) < 2: kr.samples.append({'k': K, 'output_tokens': len(out)})
        M.explore(entry, on_path)
    kr.queries += M.stats['smt']
    kr.functions = fn_paths(P, M.encoded); kr.models = sorted(M.models_used)
    kr.stubs = ['wrapped Project::tokenize returns k identifier tokens with symbolic, strictly increasing, non-overlapping (line, col)']
    kr.bounds = 'k <= %d identifier tokens, line/col < 1000 symbolic' % KMAX
    kr.exhaustive = True

@replay_factory('semtok_positions')
def _replay_positions(pos):
    def rp(ctx):
        import lspclient
        # document with identifiers at the given (line, col) positions (clamped to something small and printable)
        lines = {}
        for (l, c, n) in pos: lines.setdefault(min(l, 5), []).append((min(c, 40), n))
        text = ''
        for l in range(max(lines) + 1):
            cur = 0; row = ''
            for c, n in sorted(lines.get(l, [])):
                if c < cur: c = cur + 1
                row += ' ' * (c - cur) + 'x' * n; cur = c + n
            text += row + '\n'
        want = []
        for l, row in enumerate(text.split('\n')):
            for m in re.finditer(r'x+', row): want.append((l, m.start(), len(m.group(0))))
        s = lspclient.LspSession(ctx.ironplcc_path())
        try:
            s.initialize(); uri = 'file:///tmp/verif_c15.st'
            s.did_open(uri, text, 1); s.diagnostics_for(uri, timeout=5)
            rid = s.request('textDocument/semanticTokens/full', {'textDocument': {'uri': uri}})
            r = s.wait_for(lambda x: x.get('id') == rid, timeout=5)
        finally:
            s.close()
        if r is None or r.get('result') is None: return None, {'note': 'no token result', 'text': text}
        data = r['result']['data']; got = []; al = ac = 0
        for i in range(0, len(data), 5):
            dl, ds, ln = data[i], data[i + 1], data[i + 2]
            if dl == 0: ac += ds
            else: ac = ds
            al += dl; got.append((al, ac, ln))
        return got != want, {'text': text, 'decoded': got, 'expected': want}
    return rp

@replay_factory('semtok_document')
def _replay_semtok_document(text, expect):
    """semantic tokens of a small document through the LSP binary, decoded with the legend of the initialize response.
    expect: 'error' (a document with a lexical error yields no token list) or a list of (lexeme, allowed legend names) that must all be reported, in order"""
    def rp(ctx):
        import lspclient
        s = lspclient.LspSession(ctx.ironplcc_path())
        try:
            init = s.initialize(); uri = 'file:///tmp/verif_c15d.st'
            s.did_open(uri, text, 1); s.diagnostics_for(uri, timeout=5)
            rid = s.request('textDocument/semanticTokens/full', {'textDocument': {'uri': uri}})
            r = s.wait_for(lambda x: x.get('id') == rid, timeout=5)
        finally:
            s.close()
        if r is None: return True, {'note': 'request not answered', 'text': text}
        if expect == 'error':
            bad = r.get('result') not in (None,) and bool((r.get('result') or {}).get('data'))
            return bad, {'text': text, 'result': str(r.get('result'))[:120]}
        if r.get('result') is None: return True, {'note': 'no token result for a document without lexical errors', 'text': text, 'error': str(r.get('error'))[:120]}
        legend = None
        try: legend = init['result']['capabilities']['semanticTokensProvider']['legend']['tokenTypes']
        except Exception: pass
        data = r['result']['data']; got = []; al = ac = 0; rows = text.split('\n')
        for i in range(0, len(data), 5):
            dl, ds, ln, ty = data[i], data[i + 1], data[i + 2], data[i + 3]
            if dl == 0: ac += ds
            else: ac = ds
            al += dl
            lex = rows[al][ac:ac + ln] if al < len(rows) else None
            got.append((lex, legend[ty] if legend and ty < len(legend) else ty))
        bad = False; j = 0
        for lex, allowed in expect:
            while j < len(got) and got[j][0] != lex: j += 1
            if j >= len(got):
                if None not in allowed: bad = True
                j = 0; continue
            if got[j][1] not in allowed: bad = True
            j += 1
        return bad, {'text': text, 'decoded': got[:12], 'expected': expect}
    return rp

def _advertised_legend(P):
    """the legend a client decodes token_type indices with: the SemanticTokenType constants, in order, of the array that the function building
    SemanticTokensLegend converts into `token_types` (read from the MIR text of the current tree)"""
    src = None
    for k, it in P.items.items():
        if k[0] != 'ironplcc' or it.kind != 'fn': continue
        text = '\n'.join('\n'.join(v) for v in it.blocks.values())
        if 'SemanticTokensLegend' not in text: continue
        m = re.findall(r'as std::convert::Into<std::vec::Vec<lsp_types::SemanticTokenType>>>::into\(const ([\w:]+)\)', text)
        others = re.findall(r'lsp_types::SemanticTokenType::\w+', text)
        if len(m) != 1 or others: return None
        src = m[0]
    if src is None: return None
    item = [it for k, it in P.items.items() if k[0] == 'ironplcc' and k[1] == src]
    if len(item) != 1: return None
    text = '\n'.join('\n'.join(v) for v in item[0].blocks.values())
    names = re.findall(r'= const lsp_types::SemanticTokenType::(\w+);', text)
    arr = re.search(r'_0 = \[(.*?)\];', text)
    if not names or not arr or len(arr.group(1).split(',')) != len(names): return None
    # the array lists the locals in order _1.._n, each assigned one constant in that order
    return [n.lower() for n in names]

# ---------------------------------------------------------------------------------------------- K2 legend table
@kernel('K2 lsp.semantic_token_legend')
def k2(ctx, kr):
    P = ctx.program(CR)
    key = _tokenize_key(P)
    TT = P.enums['TokenType']
    words = {}
    for sp, var, ic in LC.token_rs_words(): words.setdefault(var, sp)
    st = {}
    M = _machine(P, st)
    def entry(M):
        t = M.fresh_bv('tt', 64); M.assume(z3.ULT(t, len(TT)))
        st['t'] = t
        st['tokens'] = [_mk_token(P, t, 0, 0, [ord('x')], 0)]; st['diags'] = []
        return _call(M, P, key)
    LEG = _advertised_legend(P)
    if LEG is None: kr.inconc('the legend advertised in the server capabilities could not be read from the MIR (expected: SemanticTokensLegend.token_types = TOKEN_TYPE_LEGEND.into())'); return
    def on_path(M, pr):
        kr.paths += 1
        if pr.inconclusive: kr.inconc(pr.inconclusive); return
        s = z3.Solver(); s.add(*pr.pc); kr.queries += 1
        if s.check() != z3.sat: return
        kr.nontrivial += 1
        tname = TT[s.model().eval(st['t'], True).as_long()]
        if pr.panic: _add(kr, 'C15/K2/panic/' + tname, 'panic for token type %s' % tname, {}, None); return
        res = pr.result
        got = None
        if res.disc == 0 and res.f[0].items:
            idx = simp(res.f[0].items[0].f[3]); got = LEG[idx] if isinstance(idx, int) and idx < len(LEG) else 'index %r' % (idx,)
        sp = words.get(tname)
        # permissive oracle: only class contradictions count
        if tname in ('String', 'WString'): allowed = {'keyword', 'string', None}       # the STRING / WSTRING type keywords: the property is silent on their class
        elif tname == 'Identifier': allowed = {'variable'}
        elif tname == 'Comment': allowed = {'comment'}
        elif tname in ('Whitespace', 'Newline'): allowed = {None}
        elif tname in ('And', 'Or', 'Xor', 'Not', 'Mod'): allowed = {'operator', 'keyword', None}                   # operators spelled as words
        elif sp is not None and re.fullmatch(r'[A-Za-z_][A-Za-z_0-9]*', sp): allowed = {'keyword', 'modifier', None}                  # reserved words (absence is not a contradiction)
        elif tname in ('Equal', 'NotEqual', 'Less', 'Greater', 'LessEqual', 'GreaterEqual', 'Div', 'Star', 'Plus', 'Minus', 'Power', 'Assignment'): allowed = {'operator', None}      # operator symbols
        elif sp is not None: allowed = {'operator', 'keyword', None}                                                  # other punctuation (`..`, `=>`): the property names no class for it
        elif tname in ('SingleByteString', 'DoubleByteString'): allowed = {'string', None}
        else: allowed = {None, 'variable', 'keyword', 'operator', 'string', 'modifier'} - {'comment'}
        if got not in allowed:
            lexeme = sp if sp is not None else {'Identifier': 'abc', 'Comment': '(* c *)', 'SingleByteString': "'s'", 'DoubleByteString': '"s"', 'Digits': '12'}.get(tname)
            rep = ('semtok_document', ('x %s y\n' % lexeme, [(lexeme, [a for a in allowed])])) if lexeme else None
            _add(kr, 'C15/K2/legend/' + tname, 'token type %s (%r) is reported with legend entry %s; its lexeme class allows %s' % (tname, sp, got, sorted(map(str, allowed))), {'token_type': tname, 'legend': got}, rep)
        if len(kr.samples) < 3: kr.samples.append({'token_type': tname, 'legend': got})
    M.explore(entry, on_path)
    kr.queries += M.stats['smt']
    kr.functions = fn_paths(P, M.encoded); kr.models = sorted(M.models_used)
    kr.bounds = 'one token of every TokenType (symbolic discriminant, %d variants); the oracle is permissive and rejects only class contradictions' % len(TT)
    kr.exhaustive = True

# ---------------------------------------------------------------------------------------------- K4 lexical error => no partial list
@kernel('K4 lsp.lexical_error_gives_error_result')
def k4(ctx, kr):
    P = ctx.program(CR)
    key = _tokenize_key(P)
    st = {}
    M = _machine(P, st)
    M.stubs.append((re.compile(r'^lsp_project::map_diagnostic$'), lambda M_, fr, c, a: a[0]))
    def entry(M):
        st['tokens'] = [_mk_token(P, 'Identifier', 0, 0, [ord('x')], 0)]
        nd = 1 if M.branch(M.fresh_bool('has_lex_error')) else 0; st['nd'] = nd
        st['diags'] = [K11.diag('P0031', '/d.st')] * nd
        return _call(M, P, key)
    def on_path(M, pr):
        kr.paths += 1
        if pr.inconclusive: kr.inconc(pr.inconclusive); return
        kr.nontrivial += 1
        if pr.panic: _add(kr, 'C15/K4/panic', pr.panic.msg[:60], {}, None); return
        if (pr.result.disc == 1) != (st['nd'] == 1):
            _add(kr, 'C15/K4/partial-list', 'tokenize returns %s although the document %s a lexical error' % ('Ok' if pr.result.disc == 0 else 'Err', 'has' if st['nd'] else 'has no'), {'lexical_errors': st['nd']},
                 ('semtok_document', ('x @ y\n', 'error') if st['nd'] else ('x y\n', [('x', ['variable']), ('y', ['variable'])])))
        if len(kr.samples) < 2: kr.samples.append({'lexical_errors': st['nd'], 'result': 'Err' if pr.result.disc else 'Ok'})
    M.explore(entry, on_path)
    kr.queries += M.stats['smt']
    kr.functions = fn_paths(P, M.encoded); kr.models = sorted(M.models_used)
    kr.bounds = 'tokenizer diagnostics empty / non-empty'
    kr.exhaustive = True


# ---------------------------------------------------------------------------------------------- K5 the line/col that feed deltaLine/deltaStart are those of the lexeme (lexer accounting, shared with C05-K1)
@kernel('K5 lexer.positions_feeding_semantic_tokens')
def k5(ctx, kr):
    from . import C05 as K05
    K05._CTX = ctx
    NMAX = 4 if ctx.tier == 'quick' else 5
    kr.bounds = 'every valid UTF-8 document of 1..%d bytes: token (line, col) = line/column of the span start (what LspProject::tokenize copies into the semantic token)' % NMAX
    jobs = []
    for N in range(1, NMAX + 1):
        M, entry, b, L, toks, LM = LC.tokenize_machine(ctx, N)
        done, pending = M.split(entry, 2)
        pref = [d.trace for d in done] + pending
        chunk = max(1, len(pref) // 14 + 1)
        for i in range(0, len(pref), chunk): jobs.append((N, pref[i:i + chunk]))
    for part in par_map(K05._k1_job, jobs):
        for f in part.findings: f['role'] = f['role'].replace('C05/K1/', 'C15/K5/')
        merge_part(kr, part)
    P = ctx.program()
    kr.functions = fn_paths(P, getattr(kr, '_enc', set())) + ['ironplc-parser::<TokenType as Logos>::lex (lifted)']
    kr.stubs = LC.STUB_NOTES
    kr.exhaustive = True

# ---------------------------------------------------------------------------------------------- K6 the token stream the semantic tokens are computed from keeps every lexeme
@kernel('K6 xform_tokens.stream_keeps_every_token')
def k6(ctx, kr):
    """LspProject::tokenize highlights what tokenize_program returns, i.e. the lexer's tokens after insert_keyword_statement_terminators:
    that transformation may add empty-text semicolons but must keep every token (same kernel as C08-K2, its preservation assertion)"""
    from . import C08 as K08
    K08.k2(ctx, kr)
    for f in kr.findings: f.role = f.role.replace('C08/K2/', 'C15/K6/')
    kr.findings = [f for f in kr.findings if 'tokens-not-preserved' in f.role or 'panic' in f.role]


# ---------------------------------------------------------------------------------------------- K3 start and length are measured in one unit, and cover the lexeme
def _unit_len(bs, unit):
    if unit == 'bytes': return z3.BitVecVal(len(bs), 64)
    r = models.utf16_len(bs) if unit == 'utf16' else models.char_len(bs)
    return z3.BitVecVal(r, 64) if isinstance(r, int) else r

def _w64(x):
    x = tobv(x, 64)
    return z3.ZeroExt(64 - x.size(), x) if x.size() < 64 else x

@kernel('K3 lsp.semantic_token_units')
def k3(ctx, kr):
    P = ctx.program(CR)
    key = _tokenize_key(P)
    st = {}
    M = _machine(P, st)
    NB = 3 if ctx.tier == 'quick' else 4
    for shape in ('comment-then-identifier', 'identifier-after-string'):
        for nb in range(1, NB + 1):
            def entry(M):
                body = [M.fresh_bv('b%d' % i, 8) for i in range(nb)]
                valid, _ = LC.utf8_valid(body); M.assume(valid)
                for x in body: M.assume(z3.And(x != 10, x != 13, x != ord('*'), x != ord("'")))
                first = ([ord('('), ord('*')] + body + [ord('*'), ord(')')]) if shape.startswith('comment') else ([ord("'")] + body + [ord("'")])
                # lexer invariant (C05-K1 / C15-K5): col is the byte offset of the span start within its line
                t1 = _mk_token(P, 'Comment' if shape.startswith('comment') else 'SingleByteString', 0, 0, first, 0)
                t2 = _mk_token(P, 'Identifier', 0, len(first) + 1, [ord('x'), ord('y')], len(first) + 1)
                st['lex'] = [first, [ord('x'), ord('y')]]; st['prefix'] = [[], first + [32]]; st['body'] = body
                st['tokens'] = [t1, t2]; st['diags'] = []
                return _call(M, P, key)
            def on_path(M, pr):
                kr.paths += 1
                if pr.inconclusive: kr.inconc(pr.inconclusive); return
                kr.nontrivial += 1
                def text_of(m): return bytes(x if isinstance(x, int) else m.eval(x, True).as_long() for x in st['lex'][0]).decode('utf-8', 'replace') + ' xy\n'
                s = z3.Solver(); s.add(*pr.pc)
                if pr.panic:
                    s.check(); _add(kr, 'C15/K3/panic', 'LspProject::tokenize panics: ' + pr.panic.msg[:60], {}, ('semtok_units', (text_of(s.model()),))); return
                res = pr.result
                if res.disc != 0: kr.inconc('tokenize returned Err for a document without lexical errors'); return
                out = res.f[0].items
                # keep the tokens that are highlighted (the string token may have no legend entry)
                if len(out) not in (1, 2): kr.inconc('%d semantic tokens for 2 lexemes' % len(out)); return
                idx = [0, 1] if len(out) == 2 else [1]
                # decode
                ac = None; per_unit = []
                starts = []; lens = []
                for j, t in enumerate(out):
                    ds, ln = _w64(t.f[1]), _w64(t.f[2])
                    ac = ds if ac is None else ac + ds
                    starts.append(ac); lens.append(ln)
                for unit in ('bytes', 'utf16', 'chars'):
                    okk = []
                    for j, i in enumerate(idx):
                        okk.append(z3.And(starts[j] == _unit_len(st['prefix'][i], unit), lens[j] == _unit_len(st['lex'][i], unit)))
                    per_unit.append(z3.And(okk))
                s.add(z3.Not(z3.Or(per_unit))); kr.queries += 1
                t0 = time.time(); r = s.check(); kr.solver_s += time.time() - t0
                if r == z3.sat:
                    txt = text_of(s.model())
                    _add(kr, 'C15/K3/%s/no-consistent-unit' % shape, 'semantic tokens of %r do not cover the lexemes when start and length are read in bytes, in UTF-16 code units or in characters' % txt, {'text': txt}, ('semtok_units', (txt,)))
                elif r == z3.unknown: kr.inconc('solver unknown')
                elif len(kr.validate) < 2:
                    s2 = z3.Solver(); s2.add(*pr.pc); s2.add(z3.Or([z3.UGE(x, 0x80) for x in st['body']]))
                    if s2.check() == z3.sat: kr.validate.append(('semtok_units', (text_of(s2.model()),)))
                if len(kr.samples) < 2: kr.samples.append({'shape': shape, 'body_bytes': nb, 'semantic_tokens': len(out)})
            M.explore(entry, on_path)
    kr.queries += M.stats['smt']
    kr.functions = fn_paths(P, M.encoded); kr.models = sorted(M.models_used)
    kr.stubs = ['wrapped Project::tokenize returns a comment (or string) token with a symbolic body followed by an identifier on the same line, columns in bytes as the lexer counts them (C15-K5)']
    kr.bounds = 'a comment / string whose body is any valid UTF-8 text of 1..%d bytes (no line break), followed by an identifier on the same line: there is one unit (bytes, UTF-16 code units or characters) in which every decoded start and length covers exactly its lexeme' % NB
    kr.exhaustive = True
    kr.outside = ['which unit the client negotiated (the server does not negotiate a position encoding)']

@replay_factory('semtok_units')
def _replay_semtok_units(text):
    def rp(ctx):
        import lspclient
        s = lspclient.LspSession(ctx.ironplcc_path())
        try:
            s.initialize(); uri = 'file:///tmp/verif_c15u.st'
            s.did_open(uri, text, 1); s.diagnostics_for(uri, timeout=5)
            rid = s.request('textDocument/semanticTokens/full', {'textDocument': {'uri': uri}})
            r = s.wait_for(lambda x: x.get('id') == rid, timeout=5)
        finally:
            s.close()
        if r is None: return True, {'note': 'request not answered', 'text': text}
        if r.get('result') is None: return None, {'note': 'no token list', 'text': text}
        data = r['result']['data']; row = text.split('\n')[0]
        toks = []; ac = 0
        for i in range(0, len(data), 5):
            if data[i] != 0: break
            ac += data[i + 1]; toks.append((ac, data[i + 2]))
        lexemes = [m.group(0) for m in re.finditer(r"\(\*.*?\*\)|'[^']*'|[A-Za-z_]+", row)]
        def units(sx, unit): return len(sx.encode()) if unit == 'bytes' else (len(sx.encode('utf-16-le')) // 2 if unit == 'utf16' else len(sx))
        verdict = {}
        for unit in ('bytes', 'utf16', 'chars'):
            exp = []
            for m in re.finditer(r"\(\*.*?\*\)|'[^']*'|[A-Za-z_]+", row): exp.append((units(row[:m.start()], unit), units(m.group(0), unit)))
            verdict[unit] = all(t in exp for t in toks) and len(toks) >= 1
        return not any(verdict.values()), {'text': text, 'decoded (start, length)': toks, 'consistent_in': verdict}
    return rp

# ---------------------------------------------------------------------------------------------- K7 the tokens are computed from the document text: preprocessing keeps every position (= C05-K2)
@kernel('K7 preprocessor.positions_kept')
def k7(ctx, kr):
    """LspProject::tokenize highlights the tokens of preprocess(document): the decoded ranges lie in the document only if preprocessing keeps every byte offset and line break. Same kernel as C05-K2."""
    from . import C05 as K05
    K05.k2(ctx, kr)
    for f in kr.findings: f.role = f.role.replace('C05/K2/', 'C15/K7/')

@kernel('K8 lexer.positions_after_multi_line_lexemes')
def k8(ctx, kr):
    """the semantic tokens that follow a comment or string spanning several lines: same kernel as C05-K9"""
    from . import C05 as K05
    K05.k9(ctx, kr)
    for f in kr.findings: f.role = f.role.replace('C05/K9/', 'C15/K8/')

KERNELS = [k1, k2, k3, k4, k5, k6, k7, k8]
