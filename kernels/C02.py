"""C02 — the check verdict agrees with the documented semantic rules, in both directions."""
import time, json, itertools, re
import z3
from framework import kernel, Finding, fn_paths, Part, par_map, merge_part, replay_factory
from mirsym.machine import *
from mirsym.mirread import Unsupported
from mirsym import models
from . import lexcommon as LC, topo_common as TC

_CTX = None

def resolve_concrete(ctx, text):
    """parse + stages::resolve_types run concretely inside the interpreter: the library the rules see"""
    P = ctx.program()
    lib, _ = LC.parse_concrete(ctx, text)
    k = P.find_fn('ironplc-analyzer', 'stages::resolve_types')
    M = Machine(P, max_steps=100_000_000)
    M.toposort_deterministic = True
    def run(M):
        r = M.call_fn(k, [Ref(Cell(VecV([Ref(Cell(lib))])))])
        if r.disc != 0: raise Unsupported('template does not pass resolve_types: %r' % (r,))
        return r.f[0]
    res = M.explore(run)
    if len(res) != 1 or res[0].inconclusive or res[0].panic: raise Unsupported('resolve_types failed on template: %s' % (res[0].inconclusive or res[0].panic if res else 'none'))
    return res[0].result

# rule kernels: template text with placeholder identifiers nm0..nmK (unique, lower-case), alphabet of names, reference predicate
def _ref_struct(n): return {'P0003'} if len(set(n)) < len(n) else set()
def _ref_enum(n): return {'P0005'} if len(set(n)) < len(n) else set()
def _ref_symvar(n):
    # fb f1 declares nm0,nm1 and uses nm2 ; fb f2 declares nm3 and uses nm4.  P0015 iff a used name is not declared in its own POU (or is the POU name)
    bad = (n[2] not in (n[0], n[1], 'f1')) or (n[4] not in (n[3], 'f2'))
    return {'P0015'} if bad else set()
def _ref_symvar_enum(n):
    # fb f1 declares an enum-typed variable cur and nm0; after `cur := green` the condition of an IF uses nm1
    return {'P0015'} if n[1] not in (n[0], 'cur', 'f1') else set()
def _ref_task(n): return {'P0011'} if n[1] != n[0] else set()
def _ref_gconst(n):
    # configuration declares constant global nm0, its resource declares constant global nm1; function block fb re-declares nm2 as VAR_EXTERNAL without CONSTANT.
    # P0018 iff nm2 names one of the constant globals (2.4.3: globals of the configuration and of its resources)
    return {'P0018'} if n[2] in (n[0], n[1]) else set()
def _ref_task2(n):
    # two configurations, each with one task (nm0 / nm2) and one program instance (WITH nm1 / WITH nm3): a task of one configuration is not a task of the other
    return {'P0011'} if (n[1] != n[0] or n[3] != n[2]) else set()
def _ref_fbcall(n):
    # program main declares instance nm0 and invokes nm1; function block logger declares instance nm2 and invokes nm3.
    # P0021 iff an invoked name is not an instance variable of its own POU
    return {'P0021'} if (n[1] != n[0] or n[3] != n[2]) else set()

RULES = {
    'struct_element_unique_names': dict(mod='rule_decl_struct_element_unique_names', k=3, alpha=['a', 'b', 'c'], ref=_ref_struct,
        text='TYPE\n  st : STRUCT\n    nm0 : INT;\n    nm1 : INT;\n    nm2 : INT;\n  END_STRUCT;\nEND_TYPE\n'),
    'enumeration_values_unique': dict(mod='rule_enumeration_values_unique', k=3, alpha=['a', 'b', 'c'], ref=_ref_enum,
        text='TYPE\n  clr : (nm0, nm1, nm2) := nm0;\nEND_TYPE\n'),
    'use_declared_symbolic_var': dict(mod='rule_use_declared_symbolic_var', k=5, alpha=['a', 'b', 'c'], ref=_ref_symvar, swap=('f1', 'f2'),
        text='FUNCTION_BLOCK f1\nVAR\n  nm0 : INT;\n  nm1 : INT;\nEND_VAR\n  nm2 := 1;\nEND_FUNCTION_BLOCK\nFUNCTION_BLOCK f2\nVAR\n  nm3 : INT;\nEND_VAR\n  nm4 := 2;\nEND_FUNCTION_BLOCK\n'),
    'use_declared_symbolic_var_after_enum_assignment': dict(mod='rule_use_declared_symbolic_var', k=2, alpha=['a', 'b'], ref=_ref_symvar_enum,
        text='TYPE\n  color : (red, green) := red;\nEND_TYPE\nFUNCTION_BLOCK f1\nVAR\n  cur : color := red;\n  nm0 : BOOL;\nEND_VAR\n  cur := green;\n  IF nm1 THEN\n    cur := red;\n  END_IF;\nEND_FUNCTION_BLOCK\n'),
    'function_block_invocation': dict(mod='rule_function_block_invocation', k=4, alpha=['a', 'b'], ref=_ref_fbcall, swap=('main', 'logger'), codes={'P0021'},
        text='FUNCTION_BLOCK callee\nVAR_INPUT\n  in1 : BOOL;\nEND_VAR\nEND_FUNCTION_BLOCK\nPROGRAM main\nVAR\n  nm0 : callee;\nEND_VAR\n  nm1(in1 := TRUE);\nEND_PROGRAM\nFUNCTION_BLOCK logger\nVAR\n  nm2 : callee;\nEND_VAR\n  nm3(in1 := TRUE);\nEND_FUNCTION_BLOCK\n'),
    'global_const_requires_external_const': dict(mod='rule_var_decl_global_const_requires_external_const', k=3, alpha=['a', 'b', 'c'], ref=_ref_gconst, codes={'P0018'},
        text='CONFIGURATION cfg\n  VAR_GLOBAL CONSTANT\n    nm0 : INT := 1;\n  END_VAR\n  RESOURCE res ON PLC\n    VAR_GLOBAL CONSTANT\n      nm1 : INT := 2;\n    END_VAR\n    TASK tsk(INTERVAL := T#100ms, PRIORITY := 1);\n    PROGRAM inst WITH tsk : prog;\n  END_RESOURCE\nEND_CONFIGURATION\n'
             'PROGRAM prog\nVAR\n  x : INT;\nEND_VAR\nEND_PROGRAM\nFUNCTION_BLOCK fb\nVAR_EXTERNAL\n  nm2 : INT;\nEND_VAR\nEND_FUNCTION_BLOCK\n'),
    'program_task_two_configurations': dict(mod='rule_program_task_definition_exists', k=4, alpha=['a', 'b'], ref=_ref_task2, swap=('cfga', 'cfgb'), codes={'P0011'},
        text='CONFIGURATION cfga\n  RESOURCE ra ON PLC\n    TASK nm0(INTERVAL := T#100ms, PRIORITY := 1);\n    PROGRAM ia WITH nm1 : prog;\n  END_RESOURCE\nEND_CONFIGURATION\n'
             'CONFIGURATION cfgb\n  RESOURCE rb ON PLC\n    TASK nm2(INTERVAL := T#100ms, PRIORITY := 1);\n    PROGRAM ib WITH nm3 : prog;\n  END_RESOURCE\nEND_CONFIGURATION\nPROGRAM prog\nVAR\n  x : INT;\nEND_VAR\nEND_PROGRAM\n'),
    'program_task_definition_exists': dict(mod='rule_program_task_definition_exists', k=2, alpha=['a', 'b'], ref=_ref_task,
        text='CONFIGURATION cfg\n  RESOURCE res ON PLC\n    TASK nm0(INTERVAL := T#100ms, PRIORITY := 1);\n    PROGRAM inst WITH nm1 : prog;\n  END_RESOURCE\nEND_CONFIGURATION\nPROGRAM prog\nVAR\n  x : INT;\nEND_VAR\nEND_PROGRAM\n'),
}

def _subst_text(text, names):
    for i in range(len(names) - 1, -1, -1): text = text.replace('nm%d' % i, names[i])
    return text

def _elem_name(M, e):
    stack = [e]
    while stack:
        x = stack.pop()
        if isinstance(x, Str): return x.conc()
        if isinstance(x, (Agg, EnumV)): stack.extend(reversed(x.f))
        elif isinstance(x, VecV): stack.extend(reversed(x.items))
        elif isinstance(x, Ref): stack.append(M.get(x.cell, x.path))
    return None

def _rule_job(job):
    rname = job[0]; swapped = len(job) > 1 and job[1]; respell = len(job) > 2 and job[2]
    ctx = _CTX; part = Part(); part.verdicts = {}
    spec = RULES[rname]
    P = ctx.program()
    lib0 = resolve_concrete(ctx, spec['text'])
    if swapped:
        # the same declarations with two mutually independent POUs exchanged (another valid topological order)
        els = lib0.f[0].items; M0 = Machine(P)
        idx = [i for i, e in enumerate(els) if (_elem_name(M0, e) or '').lower() in spec['swap']]
        if len(idx) != 2: part.inconc('swap targets not found in the resolved library'); return part
        els[idx[0]], els[idx[1]] = els[idx[1]], els[idx[0]]
    key = P.find_fn('ironplc-analyzer', spec['mod'] + '::apply')
    M = Machine(P, max_steps=50_000_000)
    sym = {}
    def entry(M):
        lib = deep_clone(lib0)
        ids = {n: models.str_term(M, Str(n)) for n in spec['alpha']}
        mapping = {}
        upids = {n: models.str_term(M, Str(n.upper())) for n in spec['alpha']} if respell else None
        for i in range(spec['k']):
            v = M.fresh_bv('name_%d' % i, 32); M.assume(z3.Or([v == ids[n] for n in spec['alpha']])); sym[i] = (v, ids)
            if respell:
                # the occurrence may be written in upper case: the spelling as written differs, the name (its lower-case form) does not
                cb = M.fresh_bool('upper_%d' % i); sym[('case', i)] = cb
                up = v
                for n in spec['alpha']: up = z3.If(v == ids[n], upids[n], up)
                mapping['nm%d' % i] = (lambda w, v: (lambda orig: TC.ident_sym(w, orig, v)))(z3.If(cb, up, v), v)
            else:
                mapping['nm%d' % i] = (lambda v: (lambda orig: TC.ident_sym(v, orig)))(v)
        return M.call_fn(key, [Ref(Cell(LC.subst_names(lib, mapping)))])
    def on_path(M, pr):
        part.paths += 1
        if pr.inconclusive: part.inconc(pr.inconclusive); return
        s = z3.Solver(); s.add(*pr.pc)
        part.nontrivial += 1
        res = pr.result; got = set()
        if not pr.panic and res.disc == 1:
            for d in res.f[0].items:
                c = M.deref(M.deref(d).f[0]); got.add(c.conc() if isinstance(c, Str) else '?')
        got = {_code_of(P, re.sub(r'^code:', '', g)) for g in got}
        # a path fixes only the name comparisons the code actually made: check every assignment of names consistent with the path
        for names in itertools.product(spec['alpha'], repeat=spec['k']):
            s.push()
            for i, nm in enumerate(names):
                v, ids = sym[i]; s.add(v == ids[nm])
            t = time.time(); r = s.check(); part.solver_s += time.time() - t; part.queries += 1
            mdl = s.model() if (r == z3.sat and respell) else None
            s.pop()
            if r != z3.sat: continue
            names = list(names)
            src = _subst_text(spec['text'], names); want = spec['ref'](names)
            if respell:
                # verdict on a re-spelled program must be the verdict of the rule's documentation on the names (case never matters)
                ups = [z3.is_true(mdl.eval(sym[('case', i)], True)) for i in range(spec['k'])]
                if pr.panic or got != want:
                    src2 = _subst_text(spec['text'], [n.upper() if u else n for n, u in zip(names, ups)])
                    part.add('C08/K6/%s/verdict-changes-under-respelling' % rname, 'rule %s: names %s with occurrences %s written in upper case -> reported %s, the same program in one spelling requires %s' % (rname, names, [i for i, u in enumerate(ups) if u], 'a panic' if pr.panic else (sorted(got) or 'nothing'), sorted(want) or 'nothing'),
                             {'names': names, 'upper_case_occurrences': ups, 'source': src2}, ('rule', (src2, sorted(want), rname)))
                elif len(part.validate) < 1 and any(ups): part.validate.append(('rule', (_subst_text(spec['text'], [n.upper() if u else n for n, u in zip(names, ups)]), sorted(want), rname)))
                continue
            part.verdicts[tuple(names)] = 'panic' if pr.panic else tuple(sorted(got))
            if swapped: continue
            if pr.panic:
                part.add('C02/K1/%s/panic' % rname, 'rule panics: %s' % pr.panic.msg, {'source': src}, ('rule', (src, sorted(want), rname))); break
            if got != want:
                kind = 'missed' if want - got else 'spurious'
                part.add('C02/K1/%s/%s' % (rname, kind), 'rule %s: names %s -> reported %s, documented rule requires %s' % (rname, names, sorted(got) or 'nothing', sorted(want) or 'nothing'),
                         {'names': names, 'source': src, 'got': sorted(got), 'want': sorted(want)}, ('rule', (src, sorted(want), rname)))
            elif len(part.validate) < 2: part.validate.append(('rule', (src, sorted(want), rname)))
            if len(part.samples) < 1: part.samples.append({'rule': rname, 'names': names, 'reported': sorted(got)})
    M.explore(entry, on_path)
    part.queries += M.stats['smt']; part.encoded = set(M.encoded); part.models = set(M.models_used)
    return part

_CODES = {}
def _code_of(P, name):
    """Problem variant name -> published code, read from problem-codes.csv of the current tree"""
    if not _CODES:
        import os
        from mirsym import dump
        for line in open(os.path.join(dump.COMPILER, 'problems', 'resources', 'problem-codes.csv')):
            parts = line.strip().split(',')
            if len(parts) >= 2 and parts[0].startswith('P'): _CODES[parts[1]] = parts[0]
    return _CODES.get(name, name)

@replay_factory('rule')
def _replay_rule(src, want, rname):
    def rp(ctx):
        # the order in which the analyzer visits unrelated declarations is an internal tie-break: try every order of the top-level declarations
        decls = [d for d in re.split(r'(?<=END_FUNCTION_BLOCK\n)|(?<=END_TYPE\n)|(?<=END_PROGRAM\n)|(?<=END_CONFIGURATION\n)', src) if d.strip()]
        variants = [''.join(p) for p in itertools.permutations(decls)] if 1 < len(decls) <= 3 else [src]
        for v in variants:
            ok_, det = _replay_rule_one(ctx, v, want, rname)
            if ok_: return ok_, det
        return ok_, det
    return rp

def _replay_rule_one(ctx, src, want, rname):
        r = ctx.replay({'cmd': 'analyze', 'sources': [src]})
        if 'panic' in r: return True, r
        if 'parse_error' in r: return None, r
        codes = set(d['code'] for d in r.get('diagnostics', []))
        rule_codes = RULES[rname].get('codes') or {'struct_element_unique_names': {'P0003'}, 'enumeration_values_unique': {'P0005'}, 'use_declared_symbolic_var': {'P0015'}, 'use_declared_symbolic_var_after_enum_assignment': {'P0015'}, 'program_task_definition_exists': {'P0011'}}[rname]
        return (codes & rule_codes) != set(want), {'source': src, 'codes': sorted(codes), 'expected_rule_codes': want}

@kernel('K1 rules.decision_vs_reference')
def k1(ctx, kr):
    global _CTX
    _CTX = ctx
    kr.bounds = 'per rule one program template whose identifiers are symbolic over a 2-3 letter alphabet: %s' % ', '.join('%s (%d names)' % (r, RULES[r]['k']) for r in RULES)
    for part in par_map(_rule_job, [(r,) for r in RULES]): merge_part(kr, part)
    P = ctx.program()
    kr.functions = fn_paths(P, getattr(kr, '_enc', set()))
    kr.assumptions = ['templates are resolved by the real resolve_types (run concretely in the interpreter) before names are made symbolic; names are lower-case (case folding: C08)']
    kr.exhaustive = True
    kr.outside = ['rules without a kernel here (function-block parameter checks, enumerated value use, CONSTANT rules, unsupported stdlib types); interaction of rules on whole programs']


# ---------------------------------------------------------------------------------------------- K3 stage composition
def _violating_example(mods):
    """replay for a composition finding: a program that violates (only) the rule of one of the modules must be reported with that rule's code"""
    import itertools
    for mod in mods:
        for rname, spec in RULES.items():
            if spec['mod'] != mod: continue
            for names in itertools.product(spec['alpha'], repeat=spec['k']):
                want = spec['ref'](list(names))
                if want: return ('rule', (_subst_text(spec['text'], list(names)), sorted(want), rname))
    return None

def _k3_run(ctx, part):
    P = ctx.program()
    key = P.find_fn('ironplc-analyzer', 'stages::semantic')
    rule_mods = sorted({k[1].split('::')[0] for k in P.items if k[0] == 'ironplc-analyzer' and re.fullmatch(r'rule_\w+::apply', k[1])})
    st = {}
    def stub_rule(M, fr, callee, a):
        mod = re.search(r'(rule_\w+)::apply', callee).group(1)
        st['called'].append(mod)
        b = M.fresh_bool('ok_' + mod); st['ok'][mod] = b
        if M.branch(b): return ok(UNIT)
        return err(VecV([Agg('Diagnostic', [Str('D:' + mod)])]))
    M = Machine(P, stubs={r'rule_\w+::apply$': stub_rule})
    def entry(M):
        st['called'] = []; st['ok'] = {}
        return M.call_fn(key, [Ref(Cell(Agg('Library', [VecV()])))])
    def on_path(M, pr):
        part.paths += 1
        if pr.inconclusive: part.inconc(pr.inconclusive); return
        part.nontrivial += 1
        called = list(st['called'])
        missing = [m for m in rule_mods if m not in called]
        if missing: part.add('C02/K3/rule-not-registered/' + '+'.join(missing), 'stages::semantic never runs the rule module(s) %s' % missing, {'called': called}, _violating_example(missing))
        if len(called) != len(set(called)): part.add('C02/K3/rule-run-twice', 'a rule runs twice', {'called': called}, None)
        if pr.panic: part.add('C02/K3/panic', pr.panic.msg, {}, None); return
        s = z3.Solver(); s.add(*pr.pc); s.check(); m = s.model()
        failing = [mod for mod in called if not z3.is_true(m.eval(st['ok'][mod], True))]
        res = pr.result
        got = [M.deref(M.deref(d).f[0]).conc()[2:] for d in res.f[0].items] if res.disc == 1 else []
        if sorted(got) != sorted(failing):
            part.add('C02/K3/diagnostics-lost', 'semantic() returns diagnostics of %s although the failing rules are %s' % (got, failing), {'failing': failing, 'got': got}, _violating_example([f for f in failing if f not in got]))
        if len(part.samples) < 2: part.samples.append({'failing_rules': failing, 'returned': got})
    M.split_depth = None
    M.explore(entry, on_path, max_paths=400)
    part.queries += M.stats['smt']; part.encoded = set(M.encoded); part.models = set(M.models_used)
    part.notes.append('rule modules in the analyzer MIR: %s' % rule_mods)

@kernel('K3 stages.semantic_composition')
def k3(ctx, kr):
    part = Part(); _k3_run(ctx, part); merge_part(kr, part)
    # the number of outcome combinations is 2^rules; bounded exploration is inconclusive by budget only if it was cut
    kr.inconclusive = [r for r in kr.inconclusive if 'path budget' not in r]
    if kr.status == 'inconclusive' and not kr.inconclusive: kr.status = 'proved'
    P = ctx.program()
    kr.functions = fn_paths(P, getattr(kr, '_enc', set()))
    kr.bounds = 'stages::semantic with every rule_*::apply replaced by a nondeterministic Ok/Err stub; first 400 outcome combinations of the rules explored (each rule failing alone and in combination)'
    kr.stubs = ['rule_*::apply -> arbitrary Ok / Err([diagnostic tagged with the rule])']

# ---------------------------------------------------------------------------------------------- K4 subrange limits: numeric rule on symbolic bounds
def _k4_job(job):
    tname, = job
    from . import C10 as K10
    ctx = _CTX; part = Part()
    text = {'subrange_type': 'TYPE\n  r : INT(1..10);\nEND_TYPE\n', 'array_dimension': 'TYPE\n  ar : ARRAY[1..10] OF INT;\nEND_TYPE\n',
            'subrange_variable': 'FUNCTION_BLOCK fb\nVAR\n  v : INT(1..10);\nEND_VAR\nEND_FUNCTION_BLOCK\n'}[tname]
    P = ctx.program()
    lib0 = resolve_concrete(ctx, text)
    key = P.find_fn('ironplc-analyzer', 'rule_decl_subrange_limits::apply')
    # the text of the limits inside the diagnostic's context is not the subject: formatting a symbolic number forks per digit count
    M = Machine(P, max_steps=50_000_000, stubs={r'SignedInteger as std::string::ToString>::to_string$': lambda M_, fr, c, a: Str('<limit>')}); st = {}
    def entry(M):
        lib = deep_clone(lib0)
        subs = K10.find_nodes(lib, 'Subrange')
        if len(subs) != 1: raise Unsupported('%d Subrange nodes in the template' % len(subs))
        sr = subs[0]; vals = []
        for k in (0, 1):
            si = sr.f[k]                                  # SignedInteger { value: Integer { span, value }, is_neg }
            mag = M.fresh_bv('mag%d' % k, 128); M.assume(z3.ULT(mag, 1 << 40)); neg = M.fresh_bool('neg%d' % k)
            si.f[0].f[1] = mag; si.f[1] = neg; vals.append((mag, neg))
        st['vals'] = vals
        return M.call_fn(key, [Ref(Cell(lib))])
    def on_path(M, pr):
        part.paths += 1
        if pr.inconclusive: part.inconc(pr.inconclusive); return
        part.nontrivial += 1
        s = z3.Solver(); s.add(*pr.pc)
        (m0, n0), (m1, n1) = st['vals']
        lo = z3.If(n0, -z3.ZeroExt(8, m0), z3.ZeroExt(8, m0)); hi = z3.If(n1, -z3.ZeroExt(8, m1), z3.ZeroExt(8, m1))
        want_err = lo >= hi                                # signed comparison on 136 bits: no wrap
        def lit(m): return '%s%d..%s%d' % ('-' if z3.is_true(m.eval(n0, True)) else '', m.eval(m0, True).as_long(), '-' if z3.is_true(m.eval(n1, True)) else '', m.eval(m1, True).as_long())
        def report(role, what, cond):
            s.push(); s.add(cond); part.queries += 1
            if s.check() == z3.sat:
                L = lit(s.model()); src = text.replace('1..10', L)
                part.add(role, 'subrange %s: %s' % (L, what), {'limits': L, 'source': src}, ('subrange', (src, bool(z3.is_true(s.model().eval(want_err, True))))))
            s.pop()
        if pr.panic: report('C02/K4/%s/panic' % tname, 'the rule panics: ' + pr.panic.msg[:50], z3.BoolVal(True)); return
        got_err = pr.result.disc == 1
        report('C02/K4/%s/%s' % (tname, 'spurious' if got_err else 'missed'), 'the rule %s, minimum < maximum is %s' % ('reports P0004' if got_err else 'accepts it', 'true' if got_err else 'false'), want_err != z3.BoolVal(got_err))
        if len(part.validate) < 1 and s.check() == z3.sat:
            mdl = s.model(); part.validate.append(('subrange', (text.replace('1..10', lit(mdl)), bool(z3.is_true(mdl.eval(want_err, True))))))
        if len(part.samples) < 1: part.samples.append({'template': tname, 'reported': got_err})
    M.explore(entry, on_path)
    part.queries += M.stats['smt']; part.encoded = set(M.encoded); part.models = set(M.models_used)
    return part

@replay_factory('subrange')
def _replay_subrange(src, want_err):
    def rp(ctx):
        r = ctx.replay({'cmd': 'analyze', 'sources': [src]})
        if 'panic' in r: return True, r
        if 'parse_error' in r: return None, r
        codes = [d['code'] for d in r.get('diagnostics', [])]
        return ('P0004' in codes) != want_err, {'source': src, 'codes': codes, 'minimum_not_below_maximum': want_err}
    return rp

@kernel('K4 rules.subrange_limits')
def k4(ctx, kr):
    global _CTX
    _CTX = ctx
    kr.bounds = 'subrange of a type declaration and an array dimension with both limits symbolic (sign symbolic, magnitude < 2^40): P0004 iff minimum >= maximum as signed numbers'
    for part in par_map(_k4_job, [('subrange_type',), ('array_dimension',)]): merge_part(kr, part)
    P = ctx.program()
    kr.functions = fn_paths(P, getattr(kr, '_enc', set()))
    kr.exhaustive = True
    kr.outside = ['magnitudes >= 2^40 (the i128 conversion limit is a C04 matter)']


# ---------------------------------------------------------------------------------------------- K5 verdict of the whole analysis on template shapes vs the documented rules
RULE_CODES = {'P%04d' % i for i in range(3, 23)} | {'P0029'}

def _k5_job(job):
    name, prefixes = job
    from . import C10 as K10, tplcommon as TP
    from .c02_templates import VERDICT_TEMPLATES
    ctx = _CTX; part = Part(); spec = VERDICT_TEMPLATES[name]; tpl = spec['tpl']
    P = ctx.program()
    k_parse = P.find_fn('ironplc-parser', 'parse_program'); k_an = P.find_fn('ironplc-analyzer', 'stages::analyze')
    k_opt = TP.parse_opts(P)
    holder = {}; st = {}
    M = Machine(P, stubs=K10.dyn_lexer_stubs(ctx, holder), max_steps=800_000_000)
    M.toposort_deterministic = True
    def entry(M):
        choice, texts, text = TP.choose_shape(M, tpl)
        st['choice'] = choice; st['texts'] = texts; st['src'] = text
        fid = Ref(Cell(Agg('FileId', [Str('f.st')])))
        opts = Ref(Cell(M.call_fn(k_opt[0], []) if k_opt else Agg('ParseOptions', [False])))
        r = M.call_fn(k_parse, [Ref(Cell(Str(text))), fid, opts])
        if r.disc != 0: return ('rejected', None)
        a = M.call_fn(k_an, [Ref(Cell(VecV([Ref(Cell(r.f[0]))])))])
        return ('ok', set()) if a.disc == 0 else ('diagnosed', TP.diag_codes(M, P, a, _code_of))
    def on_path(M, pr):
        part.paths += 1
        src = st.get('src'); choice = st.get('choice')
        if pr.inconclusive: part.inconc('%s: %s' % (name, pr.inconclusive)); return
        if pr.panic: part.inconc('%s: panic (a C04 matter): %s' % (name, pr.panic.msg[:60])); return
        kind, got = pr.result
        if kind == 'rejected': return                      # not a parseable unit: outside the property
        part.nontrivial += 1
        want = spec['ref'](st['texts'])
        if want is None or 'P9999' in got and not (got & RULE_CODES) and want: 
            # the documentation does not decide the shape, or the analyzer declares the construct unsupported
            if want is None: return
        lab = TP.shape_label(tpl, choice)
        bad = None
        if not want and (got & RULE_CODES): bad = ('spurious', 'a unit that satisfies every documented rule is rejected with %s' % sorted(got & RULE_CODES))
        elif want and not (want <= got):
            if 'P9999' in got and len(got) == 1: return     # explicit "not implemented" answer: outside C02
            bad = ('missed', 'the unit violates the rule with code %s but analysis reports %s' % (sorted(want), sorted(got) or 'success'))
        if bad:
            part.add('C02/K5/%s/%s/%s' % (name, bad[0], lab), 'template %s, shape %s: %s' % (name, lab, bad[1]), {'source': src, 'reported': sorted(got), 'documented': sorted(want)}, ('verdict', (src, sorted(want))))
        elif len(part.validate) < 1 and want: part.validate.append(('verdict', (src, sorted(want))))
        if len(part.samples) < 1: part.samples.append({'template': name, 'shape': lab, 'reported': sorted(got), 'documented': sorted(want)})
    M.explore(entry, on_path, prefixes=prefixes)
    part.queries += M.stats['smt']; part.encoded = set(M.encoded); part.models = set(M.models_used)
    return part

@replay_factory('verdict')
def _replay_verdict(src, want):
    def rp(ctx):
        r = ctx.replay({'cmd': 'analyze', 'sources': [src]})
        if 'panic' in r: return None, r
        if 'parse_error' in r: return None, r
        codes = set(d['code'] for d in r.get('diagnostics', []))
        if not want: bad = bool(codes & RULE_CODES)
        else: bad = not (set(want) <= codes) and codes != {'P9999'}
        return bad, {'source': src[-400:], 'codes': sorted(codes), 'documented': want}
    return rp

@kernel('K5 rules.template_verdict_vs_documentation')
def k5(ctx, kr):
    global _CTX
    _CTX = ctx
    from . import tplcommon as TP
    from .c02_templates import VERDICT_TEMPLATES as VT
    n = sum(TP.nshapes(VT[t]['tpl']) for t in VT)
    kr.bounds = ('parse_program followed by stages::analyze (type resolution and every rule) on %d shapes of %d source templates (%s); per shape the verdict the documented rules require is a reference predicate over the selector texts: '
                 'a violated rule must be reported with its code, a conforming unit must not be rejected with any rule code; shapes the parser rejects and the P9999 answer are outside' % (n, len(VT), ', '.join(VT)))
    for part in par_map(_k5_job, TP.jobs_for(VT)): merge_part(kr, part)
    P = ctx.program()
    kr.functions = fn_paths(P, getattr(kr, '_enc', set()))[:150]
    kr.exhaustive = True
    kr.outside = ['programs other than the template shapes']

# ---------------------------------------------------------------------------------------------- K2 the generated traversal visits every child of every node, once, in order, and hands errors up
def _ignored_fields():
    """(type name, field name) pairs marked #[recurse(ignore)] in the dsl sources of the current tree"""
    import os, glob
    from mirsym import dump
    out = set()
    for f in glob.glob(os.path.join(dump.COMPILER, 'dsl', 'src', '*.rs')):
        src = open(f).read()
        for m in re.finditer(r'pub (?:struct|enum) (\w+)[^{;]*\{(.*?)\n\}', src, re.S):
            ign = False
            for line in m.group(2).split('\n'):
                line = line.strip()
                if line.startswith('#[recurse(ignore)]'): ign = True; continue
                mm = re.match(r'(?:pub )?([a-z_][a-z_0-9]*)\s*:', line)
                if mm:
                    if ign: out.add((m.group(1), mm.group(1)))
                    ign = False
                elif line and not line.startswith('//') and not line.startswith('#['): ign = False
    return out

_VT = {}
def _variant_types():
    """(enum name, variant name) -> list of payload type texts, read from the dsl sources of the current tree"""
    if _VT: return _VT
    import os, glob
    from mirsym import dump
    for f in glob.glob(os.path.join(dump.COMPILER, 'dsl', 'src', '*.rs')):
        src = open(f).read()
        for m in re.finditer(r'pub enum (\w+)[^{;]*\{(.*?)\n\}', src, re.S):
            for line in m.group(2).split('\n'):
                line = line.strip()
                mm = re.match(r'([A-Z]\w*)\((.*)\),?$', line)
                if mm:
                    # split the payload on top-level commas
                    parts = []; depth = 0; cur = ''
                    for ch in mm.group(2):
                        if ch in '<(': depth += 1
                        if ch in '>)': depth -= 1
                        if ch == ',' and depth == 0: parts.append(cur.strip()); cur = ''
                        else: cur += ch
                    if cur.strip(): parts.append(cur.strip())
                    _VT[(m.group(1), mm.group(1))] = parts
    return _VT

def _k2_job(job):
    tnames = job
    ctx = _CTX; part = Part()
    P = ctx.program(['ironplc-dsl'])
    ignored = _ignored_fields()
    for tname in tnames:
        ks = [k for k in P.items if k[0] == 'ironplc-dsl' and k[1].endswith('::recurse_visit') and P.items[k].locals[P.items[k].args[0]].split('::')[-1] == tname]
        if len(ks) != 1: part.inconc('%s::recurse_visit: %d candidates' % (tname, len(ks))); continue
        key = ks[0]
        log = []; st = {}
        def stub_visit(M, fr, callee, a):
            v = a[1]
            while isinstance(v, Ref): v = M.deref(v)
            tag = v.tag if isinstance(v, Opaque) else repr(v)[:40]
            idx = len(log); log.append(tag)
            if M.branch(st['fail'] == idx): return err(Opaque(('error-from', idx)))
            return ok(UNIT)
        M = Machine(P, stubs={r'^<V as visitor::Visitor<E>>::visit_\w+$': stub_visit, r"^<<V as visitor::Visitor<E>>::Value as std::default::Default>::default$": lambda M_, fr, c, a: UNIT})
        def leaf(label): return Opaque(('node', label))
        def value_for(ty, label):
            ty = ty.strip()
            m = re.fullmatch(r'Vec<(.*)>', ty)
            if m:
                v0, l0 = value_for(m.group(1), label + '[0]'); v1, l1 = value_for(m.group(1), label + '[1]')
                return VecV([v0, v1]), l0 + l1
            m = re.fullmatch(r'Option<(.*)>', ty)
            if m:
                v, labs = value_for(m.group(1), label); return some(v), labs
            m = re.fullmatch(r'Box<(.*)>', ty)
            if m:
                v, labs = value_for(m.group(1), label); return Ref(Cell(v)), labs
            return leaf(label), [label]
        cases = []
        if tname in P.structs:
            fs = []; want = []
            for f, ty in P.structs[tname]:
                v, labs = value_for(ty, f); fs.append(v)
                if (tname, f) not in ignored: want += labs
            cases.append((tname, Agg(tname, fs), want))
        elif tname in P.enums:
            for vi, vn in enumerate(P.enums[tname]):
                n = P.enum_payload.get(tname, {}).get(vn, 0)
                if n == 0: cases.append(('%s::%s' % (tname, vn), EnumV(tname, vi, []), []))
                else:
                    ptys = _variant_types().get((tname, vn))
                    if ptys is None or len(ptys) != n: part.inconc('payload types of %s::%s unknown' % (tname, vn)); continue
                    vals = []; want = []
                    for j, pty in enumerate(ptys):
                        v, labs = value_for(pty, '%s.%d' % (vn, j)); vals.append(v); want += labs
                    cases.append(('%s::%s' % (tname, vn), EnumV(tname, vi, vals), want))
        else: part.inconc('layout of %s unknown' % tname); continue
        for cname, val, want in cases:
            def entry(M):
                log.clear()
                f_ = M.fresh_bv('fail_at', 8); M.declare_domain(f_, list(range(len(want) + 1))); st['fail'] = f_
                return M.call_fn(key, [Ref(Cell(deep_clone(val))), Ref(Cell(Agg('RecordingVisitor', [])))])
            def on_path(M, pr):
                part.paths += 1
                if pr.inconclusive: part.inconc('%s: %s' % (cname, pr.inconclusive)); return
                part.nontrivial += 1
                if pr.panic: part.add('C02/K2/%s/panic' % cname, 'recurse_visit of %s panics: %s' % (cname, pr.panic.msg[:60]), {'node': cname}, None); return
                got = [t[1] if isinstance(t, tuple) else t for t in log]
                s = z3.Solver(); s.add(*pr.pc); s.check(); fa = s.model().eval(st['fail'], True).as_long(); part.queries += 1
                res = pr.result
                if fa >= len(want):
                    if got != want:
                        missing = [w for w in want if w not in got]
                        part.add('C02/K2/%s/%s' % (cname, 'child-not-visited' if missing else 'order-or-count'), 'the generated traversal of %s visits %s; its declaration has the children %s (fields marked #[recurse(ignore)] excluded)' % (cname, got, want),
                                 {'node': cname, 'visited': got, 'declared': want}, None)
                    elif res.disc != 0: part.add('C02/K2/%s/spurious-error' % cname, 'the traversal of %s returns Err although every child returned Ok' % cname, {'node': cname}, None)
                else:
                    if res.disc != 1: part.add('C02/K2/%s/error-swallowed' % cname, 'child %s of %s returns Err but the traversal returns Ok (a rule\'s finding inside that child is lost)' % (want[fa] if fa < len(want) else fa, cname), {'node': cname, 'failing_child': fa}, None)
                if len(part.samples) < 1: part.samples.append({'node': cname, 'visited': got})
            M.explore(entry, on_path)
        part.queries += M.stats['smt']; part.encoded |= set(M.encoded); part.models |= set(M.models_used)
    return part

@kernel('K2 recurse.traversal_completeness')
def k2(ctx, kr):
    global _CTX
    _CTX = ctx
    P = ctx.program(['ironplc-dsl'])
    tnames = sorted({P.items[k].locals[P.items[k].args[0]].split('::')[-1] for k in P.items if k[0] == 'ironplc-dsl' and k[1].endswith('::recurse_visit')})
    kr.bounds = ('every node type of ironplc-dsl with a derive(Recurse) traversal (%d types; every variant of the enumerations): recurse_visit from the MIR with a recording visitor whose k-th call fails for a symbolic k: '
                 'every child that is not marked #[recurse(ignore)] is visited exactly once, in declaration order (two elements per Vec, the value of an Option, the content of a Box), and an Err of a child is returned' % len(tnames))
    chunks = [tnames[i::14] for i in range(14)]
    for part in par_map(_k2_job, [c for c in chunks if c]): merge_part(kr, part)
    kr.functions = fn_paths(P, getattr(kr, '_enc', set()))[:150]
    kr.stubs = ['<V as Visitor<E>>::visit_* = recording stub (returns Ok, or Err at a symbolic call index)']
    kr.exhaustive = True
    kr.notes.append('findings of this kernel have no end-to-end replay: they are printed as UNCONFIRMED (inconclusive) unless a rule-level kernel (K1, K5) shows the effect')
    kr.outside = ['hand-written visit_* overrides of the rules (K1, K5); the Fold traversal (C05-K4)']

# ---------------------------------------------------------------------------------------------- K2b a visitor that only overrides visit_id reaches every identifier of a parsed library
def _k2b_job(job):
    name, prefixes = job
    from . import C10 as K10, C01 as K01, tplcommon as TP
    ctx = _CTX; part = Part(); tpl = K01._all_templates()[name]
    P = ctx.program()
    k_parse = P.find_fn('ironplc-parser', 'parse_program'); k_opt = TP.parse_opts(P)
    k_walk = [k for k in P.items if k[0] == 'ironplc-dsl' and k[1] == 'visitor::Visitor::walk']
    if len(k_walk) != 1: part.inconc('Visitor::walk default: %d candidates' % len(k_walk)); return part
    log = []; st = {}
    def st_id(M, fr, c, a):
        v = a[1]
        while isinstance(v, Ref): v = M.deref(v)
        log.append(v.f[0].conc() if isinstance(v, Agg) and isinstance(v.f[0], Str) else '?'); return ok(UNIT)
    stubs = K10.dyn_lexer_stubs(ctx, {}); stubs.update({r'visitor::Visitor<.*>>::visit_id$|visitor::Visitor::visit_id$': st_id, r"Value as std::default::Default>::default$": lambda M_, fr, c, a: UNIT})
    M = Machine(P, stubs=stubs, max_steps=400_000_000)
    def entry(M):
        choice, texts, text0 = TP.choose_shape(M, tpl)
        text, expect = K01._uniquify(ctx, text0); st['src'] = text; st['choice'] = choice; log.clear()
        fid = Ref(Cell(Agg('FileId', [Str('f.st')])))
        opts = Ref(Cell(M.call_fn(k_opt[0], []) if k_opt else Agg('ParseOptions', [False])))
        r1 = M.call_fn(k_parse, [Ref(Cell(Str(text))), fid, opts])
        if r1.disc != 0: return None
        inlib = []; K01._ids_in_order(M, r1.f[0], inlib)
        w = M.call_fn(k_walk[0], [Ref(Cell(Agg('RecordingVisitor', []))), Ref(Cell(r1.f[0]))])
        return (inlib, list(log), w.disc)
    def on_path(M, pr):
        part.paths += 1
        if pr.inconclusive: part.inconc('%s: %s' % (name, pr.inconclusive)); return
        if pr.panic: part.inconc('%s: panic %s' % (name, pr.panic.msg[:50])); return
        if pr.result is None: return
        part.nontrivial += 1
        inlib, seen, disc = pr.result
        a = sorted(x for x in inlib if re.fullmatch(r'nm\d+q', x)); b = sorted(x for x in seen if re.fullmatch(r'nm\d+q', x))
        src = st['src']
        if a != b:
            lost = sorted(set(x for x in a if a.count(x) > b.count(x))); twice = sorted(set(x for x in b if b.count(x) > a.count(x)))
            where = [re.sub(r'\s+', ' ', src[max(0, src.find(x) - 25):src.find(x) + 12]) for x in lost[:2]]
            part.add('C02/K2b/%s/%s' % (name, 'identifier-not-reached' if lost else 'identifier-reached-twice'), 'template %s shape %s: a visitor with the default methods does not reach the identifiers %s (near %s); reached twice: %s' % (name, list(st['choice']), lost, where, twice),
                     {'source': src, 'not_reached': lost, 'reached_twice': twice}, ('visit_ids', (src,)))
        elif len(part.validate) < 1: part.validate.append(('visit_ids', (src,)))
        if len(part.samples) < 1: part.samples.append({'template': name, 'identifiers': len(a)})
    M.explore(entry, on_path, prefixes=prefixes)
    part.queries += M.stats['smt']; part.encoded = set(M.encoded); part.models = set(M.models_used)
    return part

@replay_factory('visit_ids')
def _replay_visit_ids(src):
    def rp(ctx):
        r = ctx.replay({'cmd': 'visit_ids', 'source': src})
        if 'panic' in r: return True, r
        if not r.get('ok'): return None, r
        want = sorted(re.findall(r'nm\d+q', src)); got = sorted(x for x in r['ids'] if re.fullmatch(r'nm\d+q', x))
        return want != got, {'source': src[-300:], 'identifiers_written': len(want), 'identifiers_reached': len(got), 'not_reached': sorted(set(want) - set(got))[:6]}
    return rp

@kernel('K2b visitor.walk_reaches_every_identifier')
def k2b(ctx, kr):
    global _CTX
    _CTX = ctx
    from . import C01 as K01, tplcommon as TP
    T = K01._all_templates()
    names = list(T) if ctx.tier != 'quick' else [n for n in T if n in ('nested_statements', 'call_arguments', 'expressions_names', 'initialisers', 'struct_and_enum_types', 'sfc_elements', 'configuration_elements', 'pou_kinds', 'case_many_selectors', 'variable_lists',
                                                                        'fb_call', 'function_call', 'case_statement', 'loops', 'var_kinds', 'configuration')]
    kr.bounds = ('%d source templates with symbolic shape selectors and unique identifiers (as C01-K6): parse_program on the MIR, then Visitor::walk with the trait\'s default methods and derive(Recurse) traversals from the MIR and a visitor that only records visit_id: '
                 'every identifier of the library is reached exactly once' % len(names))
    for part in par_map(_k2b_job, TP.jobs_for(T, names)): merge_part(kr, part)
    P = ctx.program()
    kr.functions = fn_paths(P, getattr(kr, '_enc', set()))[:150]
    kr.exhaustive = True
    kr.outside = ['constructs not in the templates; visitors with their own overrides (the rules: K1, K5)']

KERNELS = [k1, k4, k3, k5, k2, k2b]
