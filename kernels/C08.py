"""C08 — letter case, layout and comments never change what a program means."""
import time, re, os
import z3
from framework import kernel, Finding, fn_paths, Part, par_map, merge_part, replay_factory
from mirsym.machine import *
from mirsym.mirread import Unsupported
from . import lexcommon as LC
from mirsym import models, dump


# ---------------------------------------------------------------------------------------------- K1a keyword case
_CTX = None

@kernel('K1a lexer.keyword_case')
def k1a(ctx, kr):
    LM = LC.lexmodel(ctx)
    words = {}
    for sp, var, ic in LC.token_rs_words():
        if re.fullmatch(r'[A-Za-z_][A-Za-z_0-9]*', sp) and any(c.isalpha() for c in sp): words[sp.upper()] = var
    for w in LC.IEC_KEYWORDS: words.setdefault(w, None)
    kr.bounds = 'every case pattern (one symbolic bit per letter) of each of %d reserved words (token.rs word tokens + IEC reference list), followed by one delimiter byte out of " ;(\\n"' % len(words)
    s = z3.Solver(); s.set('timeout', 60000)
    DELIMS = ' ;(\n'
    for w in sorted(words):
        # expected kind = what the upper-case spelling lexes to on this tree (concrete mode of the same model)
        conc = LC.lexlift.lex_concrete(LM, w.encode() + b' ')
        exp = conc[0]
        if exp[2] != len(w): kr.notes.append('reference word %s does not lex as one token (%r)' % (w, conc[:2])); continue
        if exp[0] == 'Identifier':
            kr.notes.append('reference word %s is not a keyword token on this tree (lexes as Identifier)' % w); continue
        if exp[0] == 'ERR': continue
        bits = [z3.Bool('up_%s_%d' % (w, i)) for i in range(len(w))]
        d0, d1 = z3.Bool('d0_' + w), z3.Bool('d1_' + w)
        bs = []
        for i, ch in enumerate(w):
            bs.append(z3.If(bits[i], z3.BitVecVal(ord(ch.upper()), 8), z3.BitVecVal(ord(ch.lower()), 8)) if ch.isalpha() else ord(ch))
        bs.append(z3.If(d0, z3.If(d1, z3.BitVecVal(ord(DELIMS[0]), 8), z3.BitVecVal(ord(DELIMS[1]), 8)), z3.If(d1, z3.BitVecVal(ord(DELIMS[2]), 8), z3.BitVecVal(ord(DELIMS[3]), 8))))
        L = LC.lexlift.Lift(LM, bs); kind0, end0 = L.R(LM.start, 0)
        kr.paths += len(L.memo)
        s.push()
        s.add(z3.Not(z3.And(kind0 == LM.tok_id[exp[0]], end0 == len(w))))
        r = LC.check(s, kr); kr.nontrivial += 1
        if r == z3.sat:
            m = s.model()
            txt = ''.join(chr(x) if isinstance(x, int) else chr(m.eval(x, True).as_long()) for x in bs)
            kr.findings.append(Finding('C08/K1a/keyword-case/' + w, 'keyword %s is not recognised in spelling %r (expected token %s)' % (w, txt, exp[0]),
                                       {'text': txt, 'expected_token': exp[0]}, replay=_replay_keyword(txt, w, exp[0])))
            if len(kr.samples) < 4: kr.samples.append({'word': w, 'verdict': 'sat', 'model': txt})
        elif r == z3.unknown: kr.inconc('solver unknown for keyword ' + w)
        elif len(kr.samples) < 3: kr.samples.append({'word': w, 'verdict': 'unsat: all %d case patterns x 4 delimiters lex to %s' % (2 ** sum(c.isalpha() for c in w), exp[0])})
        s.pop()
    b, L, toks = LC.lift(ctx, 7); kind0, end0 = toks[0]
    # vacuity witness: the assertion is reachable (the upper-case spelling satisfies the constraints)
    s.push(); w = 'END_IF'
    for i, ch in enumerate(w): s.add(b[i] == ord(ch))
    s.add(b[len(w)] == 32, kind0 == LM.tok_id['EndIf']); kr.vacuity = str(LC.check(s, kr)); s.pop()
    kr.functions = ['ironplc-parser::<TokenType as Logos>::lex (%d generated state/pattern functions and tables)' % len(LM.encoded)]
    kr.models = ['logos runtime: read/read_at/bump_unchecked/set/error/end/test']
    kr.exhaustive = True
    kr.outside = ['keywords longer than the lifted window; non-ASCII case folding (IEC keywords are ASCII)']


def _replay_keyword(txt, w, exp):
    def rp(ctx):
        r = ctx.replay({'cmd': 'tokenize', 'source': txt})
        toks = r.get('tokens', [])
        good = bool(toks) and toks[0]['type'] == exp and toks[0]['text'].upper() == w
        return (not good), {'tokens': toks[:3], 'diagnostics': r.get('diagnostics')}
    return rp


# ---------------------------------------------------------------------------------------------- K1b trivia language
@kernel('K1b lexer.trivia_language')
def k1b(ctx, kr):
    LM = LC.lexmodel(ctx)
    nmax = 7 if ctx.tier == 'quick' else 9
    TRIV = [LM.tok_id['Whitespace'], LM.tok_id['Newline'], LM.tok_id['Comment']]
    ID = LM.tok_id['Identifier']
    kr.bounds = 'every ASCII string w of the reference trivia language ([ \\t]+ | \\n | \\r\\n | \\f | "(*" .. first "*)")*, |w| <= %d, placed between identifiers A and B' % nmax
    known_star = False
    for n in range(1, nmax + 1):
        N = n + 2
        b, L, toks = LC.lift(ctx, N)
        kr.paths += len(L.memo)
        s = z3.Solver(); s.set('timeout', 120000 if ctx.tier == 'quick' else 900000)
        s.add(b[0] == ord('A'), b[N - 1] == ord('B'))
        w = b[1:N - 1]
        # reference DFA: 0 outside, 1 after '(' , 2 in comment, 3 in comment after '*', 4 after '\r'
        st = [z3.Int('q%d' % i) for i in range(n + 1)]
        s.add(st[0] == 0, st[n] == 0)
        for i in range(n):
            c = w[i]; q = st[i]; q2 = st[i + 1]
            s.add(z3.ULT(c, 0x80))
            s.add(z3.Or(
                z3.And(q == 0, z3.Or(c == 32, c == 9, c == 10, c == 12), q2 == 0),
                z3.And(q == 0, c == 13, q2 == 4), z3.And(q == 4, c == 10, q2 == 0),
                z3.And(q == 0, c == ord('('), q2 == 1), z3.And(q == 1, c == ord('*'), q2 == 2),
                z3.And(q == 2, c != ord('*'), q2 == 2), z3.And(q == 2, c == ord('*'), q2 == 3),
                z3.And(q == 3, c == ord('*'), q2 == 3), z3.And(q == 3, c == ord(')'), q2 == 0),
                z3.And(q == 3, c != ord('*'), c != ord(')'), q2 == 2)))
        reach = LC.stream(toks, N)
        good = []
        for e in range(N):
            t, end = toks[e]
            if e == 0: good.append(z3.And(t == ID, end == 1))
            elif e < N - 1: good.append(z3.Implies(reach[e], z3.And(z3.Or([t == x for x in TRIV]), z3.ULE(end, N - 1))))
            else: good.append(z3.Implies(reach[e], z3.And(t == ID, end == N)))
        good.append(reach[N - 1])
        s.add(z3.Not(z3.And(good)))
        # role split: comment body ending in '*' directly before the closer ("**)" inside w) is one role
        star = z3.Or([z3.And(w[i] == ord('*'), w[i + 1] == ord('*'), w[i + 2] == ord(')')) for i in range(n - 2)]) if n >= 3 else z3.BoolVal(False)
        s.push(); s.add(z3.Not(star))
        r = LC.check(s, kr); kr.nontrivial += 1
        if r == z3.sat:
            txt = LC.model_bytes(s.model(), b).decode('latin-1')
            kr.findings.append(Finding('C08/K1b/trivia/' + _trivia_role(txt[1:-1]), 'trivia %r between two tokens is not lexed as whitespace/comment only' % txt[1:-1],
                                       {'text': txt}, replay=_replay_trivia(txt)))
        elif r == z3.unknown: kr.inconc('solver unknown at n=%d' % n)
        s.pop()
        if not known_star and n >= 3:
            s.push(); s.add(star)
            r = LC.check(s, kr)
            if r == z3.sat:
                known_star = True
                txt = LC.model_bytes(s.model(), b).decode('latin-1')
                kr.findings.append(Finding('C08/K1b/trivia/comment-body-ends-with-star', 'comment whose body ends in "*" (e.g. %r) is not lexed as a comment' % txt[1:-1],
                                           {'text': txt}, replay=_replay_trivia(txt)))
            s.pop()
        kr.samples.append({'n': n, 'verdict_outside_known_role': str(r) if False else 'checked'})
    kr.functions = ['ironplc-parser::<TokenType as Logos>::lex (%d generated state/pattern functions and tables)' % len(LM.encoded)]
    kr.models = ['logos runtime: read/read_at/bump_unchecked/set/error/end/test']
    kr.exhaustive = True
    kr.outside = ['trivia longer than %d bytes; non-ASCII bytes inside comments (C14-K3)' % nmax]

def _trivia_role(w):
    if '(*' in w: return 'comment:' + re.sub(r'[^(*)\r\n\f\t ]', 'c', w).encode('unicode_escape').decode()[:24]
    return 'blank:' + w.encode('unicode_escape').decode()[:24]

def _replay_trivia(txt):
    def rp(ctx):
        r = ctx.replay({'cmd': 'tokenize', 'source': txt})
        toks = r.get('tokens', [])
        good = (not r.get('diagnostics')) and len(toks) >= 2 and toks[0]['type'] == 'Identifier' and toks[0]['text'] == 'A' and toks[-1]['type'] == 'Identifier' \
            and toks[-1]['text'] == 'B' and all(t['type'] in ('Whitespace', 'Newline', 'Comment') for t in toks[1:-1])
        return (not good), {'tokens': [(t['type'], t['text']) for t in toks], 'diagnostics': r.get('diagnostics')}
    return rp


# ---------------------------------------------------------------------------------------------- K2 optional ';' after END_IF
@kernel('K2 xform_tokens.endif_terminator')
def k2(ctx, kr):
    P = ctx.program(['ironplc-parser', 'ironplc-dsl'])
    TT = P.enums['TokenType']
    key = P.find_fn('ironplc-parser', 'xform_tokens::insert_keyword_statement_terminators')
    NMAX = 5 if ctx.tier == 'quick' else 7
    ENDIF, SEMI, COMMENT, WS, NL = [TT.index(x) for x in ('EndIf', 'Semicolon', 'Comment', 'Whitespace', 'Newline')]
    samples = LC.sample_lexemes()
    SAFE = [TT.index(x) for x in ('EndIf', 'Semicolon', 'Comment', 'Whitespace', 'Newline', 'Comma', 'RightParen', 'Identifier') if x in TT]
    WORDY = [TT.index(x) for x in ('EndIf', 'Identifier')]
    kr.bounds = 'token sequences of length <= %d whose token types are symbolic over all %d token types' % (NMAX, len(TT))
    M = Machine(P)
    enc = set()
    for N in range(1, NMAX + 1):
        types = []
        def entry(M):
            types.clear()
            for i in range(N):
                t = M.fresh_bv('tt', 64); M.assume(z3.ULT(t, len(TT))); types.append(t)
            toks = VecV([Agg('Token', [EnumV('TokenType', t, []), Agg('SourceSpan', [i, i + 1, Agg('FileId', [Str('')])]), 0, i, Str('t%d' % i)]) for i, t in enumerate(types)])
            return M.call_fn(key, [toks, Ref(Cell(Agg('FileId', [Str('')])))])
        def on_path(M, pr):
            kr.paths += 1
            if pr.inconclusive: kr.inconc(pr.inconclusive); return
            if pr.panic:
                kr.findings.append(Finding('C08/K2/panic', 'insert_keyword_statement_terminators panics: %s' % pr.panic.msg, {'n': N}, replay=None)); return
            out = pr.result.items
            def disc(tk): return tobv(tk.f[0].disc, 64)
            def triv(d): return z3.Or(d == COMMENT, d == WS, d == NL)
            # (1) nothing but semicolons with empty text is added; the original tokens survive in order
            orig = [tk for tk in out if not (isinstance(tk.f[4], Str) and tk.f[4].conc() == '')]
            added = [tk for tk in out if isinstance(tk.f[4], Str) and tk.f[4].conc() == '']
            struct_ok = [tk.f[4].conc() for tk in orig] == ['t%d' % i for i in range(N)] and all(simp(disc(tk) == SEMI) is True for tk in added)
            if not struct_ok:
                if any(f.role == 'C08/K2/tokens-not-preserved' for f in kr.findings): return
                s0 = z3.Solver(); s0.add(*pr.pc); s0.add(*[z3.ULT(t, len(TT)) for t in types])
                s0.push(); s0.add(*[z3.Or([t == v for v in SAFE]) for t in types])
                s0.add(*[z3.Not(z3.And(z3.Or([types[i] == v for v in WORDY]), z3.Or([types[i + 1] == v for v in WORDY]))) for i in range(N - 1)])
                r0 = LC.check(s0, kr)
                if r0 != z3.sat: s0.pop(); r0 = LC.check(s0, kr)
                if r0 != z3.sat: return
                seq = [TT[s0.model().eval(t, True).as_long()] for t in types]; text = ''.join(samples.get(x, x) for x in seq)
                kept = [tk.f[4].conc() for tk in out if isinstance(tk.f[4], Str) and tk.f[4].conc() != '']
                kr.findings.append(Finding('C08/K2/tokens-not-preserved', 'terminator insertion drops, reorders or alters tokens: of the %d tokens %s only %s come back' % (N, ' '.join(seq), kept),
                                           {'token_types': seq, 'text': text}, replay=_replay_preserved(text, seq))); return
            conds = []; knowns = []
            for i, tk in enumerate(out):
                if tk in added: continue
                d = disc(tk)
                okc = z3.BoolVal(True)
                for tk2 in reversed(out[i + 1:]):
                    d2 = disc(tk2); okc = z3.If(triv(d2), okc, d2 == SEMI)
                # known role: this END_IF directly follows another END_IF with only blanks/comments/semicolons between (input order)
                j = int(tk.f[4].conc()[1:]); kn = z3.BoolVal(False)
                for p in range(j - 1, -1, -1):
                    between = [z3.Or(types[q] == WS, types[q] == COMMENT, types[q] == SEMI) for q in range(p + 1, j)]
                    kn = z3.Or(kn, z3.And([types[p] == ENDIF] + between))
                conds.append(z3.And(d == ENDIF, z3.Not(okc), z3.Not(kn))); knowns.append(z3.And(d == ENDIF, z3.Not(okc), kn))
            s = z3.Solver(); s.add(*pr.pc); s.add(*[z3.ULT(t, len(TT)) for t in types])
            kr.nontrivial += 1
            for label, cs in (('new', conds), ('known', knowns)):
                s.push(); s.add(z3.Or(cs) if cs else z3.BoolVal(False))
                # prefer a model that can be written as source text without lexemes fusing
                s.push(); s.add(*[z3.Or([t == v for v in SAFE]) for t in types])
                s.add(*[z3.Not(z3.And(z3.Or([types[i] == v for v in WORDY]), z3.Or([types[i + 1] == v for v in WORDY]))) for i in range(N - 1)])
                r = LC.check(s, kr); mdl = s.model() if r == z3.sat else None
                s.pop()
                restricted = r == z3.sat
                if r != z3.sat:
                    r = LC.check(s, kr); mdl = s.model() if r == z3.sat else None
                if r == z3.unknown: kr.inconc('solver unknown')
                if r == z3.sat:
                    seq = [TT[mdl.eval(t, True).as_long()] for t in types]
                    role = 'C08/K2/endif-after-endif-same-line' if label == 'known' else 'C08/K2/unterminated-endif/' + _endif_role(seq)
                    text = ''.join(samples.get(x, x) for x in seq)
                    replayable = restricted
                    prev = [f for f in kr.findings if f.role == role]
                    if prev and replayable and not prev[0].witness.get('replayable'): kr.findings.remove(prev[0]); prev = []
                    if label == 'new' and not replayable: role = 'C08/K2/unterminated-endif/' + '-'.join(seq)
                    if not prev:
                        kr.findings.append(Finding(role, 'END_IF without a following ";" is left unterminated in token sequence %s' % ' '.join(seq),
                                                   {'token_types': seq, 'text': text, 'replayable': replayable}, replay=_replay_endif(text, seq)))
                s.pop()
            if len(kr.samples) < 3: kr.samples.append({'n': N, 'path_condition': [str(c)[:80] for c in pr.pc[:4]], 'output_len': len(out)})
        M.explore(entry, on_path)
    kr.queries += M.stats['smt']
    kr.functions = fn_paths(P, M.encoded); kr.models = sorted(M.models_used)
    kr.vacuity = 'paths reaching the assertion: %d' % kr.paths
    kr.exhaustive = True
    kr.outside = ['sequences longer than %d tokens (the function is a one-flag scan; longer inputs repeat the same transitions)' % NMAX]

def _endif_role(seq):
    """context of the first unterminated END_IF: token classes from the previous significant token up to the one that follows"""
    cls = lambda x: x if x in ('EndIf', 'Semicolon', 'Comment', 'Whitespace', 'Newline') else 'Other'
    for i, x in enumerate(seq):
        if x != 'EndIf': continue
        rest = [y for y in seq[i + 1:] if y not in ('Comment', 'Whitespace', 'Newline')]
        if rest and rest[0] != 'Semicolon':
            j = i - 1
            while j >= 0 and seq[j] in ('Comment', 'Whitespace', 'Newline', 'Semicolon'): j -= 1
            return '+'.join(cls(y) for y in seq[max(j, 0):i + 1]) + '>' + cls(rest[0])
    return '-'.join(cls(y) for y in seq)

def _replay_preserved(text, seq):
    def rp(ctx):
        r = ctx.replay({'cmd': 'tokenize', 'source': text})
        toks = r.get('tokens', [])
        real = [t['type'] for t in toks if not (t['type'] == 'Semicolon' and t['text'] == '')]
        joined = ''.join(t['text'] for t in toks)
        if joined == text and real != seq: return None, {'note': 'text did not lex to the intended token types', 'got': real, 'want': seq}
        return joined != text, {'source': text, 'token_texts_joined': joined}
    return rp

def _replay_endif(text, seq):
    def rp(ctx):
        r = ctx.replay({'cmd': 'tokenize', 'source': text})
        toks = r.get('tokens', [])
        real = [t['type'] for t in toks if not (t['type'] == 'Semicolon' and t['text'] == '')]
        if real != seq: return None, {'note': 'text did not lex to the intended token types', 'got': real, 'want': seq}
        bad = False
        for i, t in enumerate(toks):
            if t['type'] != 'EndIf': continue
            nxt = [u for u in toks[i + 1:] if u['type'] not in ('Whitespace', 'Newline', 'Comment')]
            if nxt and nxt[0]['type'] != 'Semicolon': bad = True
        return bad, {'tokens': [(t['type'], t['text']) for t in toks]}
    return rp



# ---------------------------------------------------------------------------------------------- K4 case-insensitive names: Eq / Hash consistency of Id and Type
@kernel('K4 dsl.name_eq_hash_consistency')
def k4(ctx, kr):
    P = ctx.program(['ironplc-dsl'])
    NB = 2
    def hash_stub(M, fr, callee, a):
        v = M.deref(a[0]); h = M.deref(a[1])
        if isinstance(v, Str): h.f[0].items.append(('str', list(v.b)))
        else: h.f[0].items.append(('val', v))
        return UNIT
    for tyname in ('Id', 'Type'):
        k_from = P.impl_all.get((tyname, 'From<&str>', 'from')) or P.impl_all.get((tyname, None, 'from'))
        k_eq = P.impl_all.get((tyname, 'PartialEq', 'eq')); k_hash = P.impl_all.get((tyname, 'Hash', 'hash'))
        if not (k_from and k_hash): kr.inconc('%s::from / hash not found' % tyname); continue
        M = Machine(P, stubs={r'^<std::string::String as std::hash::Hash>::hash': hash_stub, r'^<str as std::hash::Hash>::hash': hash_stub})
        st = {}
        def entry(M):
            bs = [[M.fresh_bv('c', 8) for _ in range(NB)] for _ in range(2)]
            for row in bs:
                for b in row: M.assume(z3.Or(z3.And(z3.UGE(b, 65), z3.ULE(b, 90)), z3.And(z3.UGE(b, 97), z3.ULE(b, 122))))
            st['bs'] = bs
            vals = [M.call_fn(k_from[0], [Ref(Cell(Str(list(row))))]) for row in bs]
            hs = []
            for v in vals:
                h = Cell(Agg('RecHasher', [VecV()])); M.call_fn(k_hash[0], [Ref(Cell(v)), Ref(h)]); hs.append(h.v.f[0].items)
            if k_eq: eq = M.call_fn(k_eq[0], [Ref(Cell(vals[0])), Ref(Cell(vals[1]))])
            else: eq = models.val_eq(M, None, vals[0], vals[1])
            return eq, hs
        def on_path(M, pr):
            kr.paths += 1
            if pr.inconclusive: kr.inconc(pr.inconclusive); return
            kr.nontrivial += 1
            if pr.panic: kr.findings.append(Finding('C08/K4/%s/panic' % tyname, pr.panic.msg[:60], {}, None)); return
            eq, hs = pr.result; bs = st['bs']
            low = lambda b: z3.If(z3.ULE(b, 90), b + 32, b)
            ref_eq = z3.And([low(x) == low(y) for x, y in zip(bs[0], bs[1])])
            def hash_same():
                if len(hs[0]) != len(hs[1]): return z3.BoolVal(False)
                cs = []
                for (k1, v1), (k2, v2) in zip(hs[0], hs[1]):
                    if k1 != k2 or k1 != 'str' or len(v1) != len(v2): return z3.BoolVal(False)
                    cs += [tobv(x, 8) == tobv(y, 8) for x, y in zip(v1, v2)]
                return z3.And(cs) if cs else z3.BoolVal(True)
            s = z3.Solver(); s.add(*pr.pc)
            def wit(role, what, cond):
                s.push(); s.add(cond); kr.queries += 1
                if s.check() == z3.sat:
                    m = s.model(); a_, b_ = [''.join(chr(m.eval(x, True).as_long()) for x in row) for row in bs]
                    if not any(f.role == role for f in kr.findings):
                        kr.findings.append(Finding(role, '%s: %s (names %r and %r)' % (tyname, what, a_, b_), {'a': a_, 'b': b_}, replay=_replay_case_names(a_, b_)))
                s.pop()
            wit('C08/K4/%s/equality-not-case-insensitive' % tyname, 'two spellings that differ only in letter case do not compare equal, or different names compare equal', tobool(eq) != ref_eq)
            wit('C08/K4/%s/eq-hash-inconsistent' % tyname, 'two equal names hash differently, so hash tables keyed by them miss', z3.And(tobool(eq), z3.Not(hash_same())))
            if len(kr.samples) < 2: kr.samples.append({'type': tyname, 'hash_writes': [len(h) for h in hs]})
        M.explore(entry, on_path)
        kr.queries += M.stats['smt']; kr.functions += fn_paths(P, M.encoded); kr.models = sorted(set(kr.models) | M.models_used)
    kr.stubs = ['<String as Hash>::hash records the bytes fed to the hasher']
    kr.bounds = 'two names of %d symbolic ASCII letters each' % NB
    kr.exhaustive = True

def _replay_case_names(a, b):
    def rp(ctx):
        # a function block declared with one spelling and used with the other must analyse like the consistently spelled program
        mk = lambda decl, use: 'FUNCTION_BLOCK %s\nVAR\n  v : INT;\nEND_VAR\nEND_FUNCTION_BLOCK\nFUNCTION_BLOCK user\nVAR\n  inst : %s;\nEND_VAR\nEND_FUNCTION_BLOCK\n' % (decl, use)
        d, u = 'x' + a, 'x' + b
        r1 = ctx.replay({'cmd': 'analyze', 'sources': [mk(d, d)]}); r2 = ctx.replay({'cmd': 'analyze', 'sources': [mk(d, u)]})
        c1 = sorted(x['code'] for x in r1.get('diagnostics', [])); c2 = sorted(x['code'] for x in r2.get('diagnostics', []))
        same_name = d.lower() == u.lower()
        return same_name and c1 != c2, {'consistent_spelling_codes': c1, 'respelled_codes': c2, 'declared': d, 'used': u}
    return rp

# ---------------------------------------------------------------------------------------------- K5 textual keywords matched inside grammar actions
TEXTUAL = {
    'duration-unit-d': ('PROGRAM p\nVAR\n  x : TIME := T#1', 'd', ';\nEND_VAR\nEND_PROGRAM\n'),
    'duration-unit-h': ('PROGRAM p\nVAR\n  x : TIME := T#1', 'h', ';\nEND_VAR\nEND_PROGRAM\n'),
    'duration-unit-m': ('PROGRAM p\nVAR\n  x : TIME := T#1', 'm', ';\nEND_VAR\nEND_PROGRAM\n'),
    'duration-unit-s': ('PROGRAM p\nVAR\n  x : TIME := T#1.5', 's', ';\nEND_VAR\nEND_PROGRAM\n'),
    'duration-unit-ms': ('PROGRAM p\nVAR\n  x : TIME := T#1', 'ms', ';\nEND_VAR\nEND_PROGRAM\n'),
    'duration-prefix-t': ('PROGRAM p\nVAR\n  x : TIME := ', 't', '#1s;\nEND_VAR\nEND_PROGRAM\n'),
    'date-prefix-d': ('PROGRAM p\nVAR\n  x : DATE := ', 'd', '#2020-01-01;\nEND_VAR\nEND_PROGRAM\n'),
    'task-interval': ('CONFIGURATION c\nRESOURCE r ON PLC\nTASK t(', 'interval', ' := T#1s, PRIORITY := 1);\nPROGRAM i WITH t : prog;\nEND_RESOURCE\nEND_CONFIGURATION\n'),
    'task-priority': ('CONFIGURATION c\nRESOURCE r ON PLC\nTASK t(', 'priority', ' := 1);\nPROGRAM i WITH t : prog;\nEND_RESOURCE\nEND_CONFIGURATION\n'),
    'action-qualifier-n': ('FUNCTION_BLOCK fb\nVAR\n  done : BOOL;\nEND_VAR\nINITIAL_STEP Start:\nEND_STEP\nSTEP Work:\n  act(', 'n', ');\nEND_STEP\nTRANSITION FROM Start TO Work\n  := TRUE;\nEND_TRANSITION\nACTION act:\n  done := TRUE;\nEND_ACTION\nEND_FUNCTION_BLOCK\n'),
    'access-direction': ('PROGRAM p\nVAR\n  t : INT;\nEND_VAR\nVAR_ACCESS\n  ac : r.p.x : INT ', 'read_write', ';\nEND_VAR\n  t := 1;\nEND_PROGRAM\n'),
    'boolean-true': ('PROGRAM p\nVAR\n  x : BOOL := ', 'true', ';\nEND_VAR\nEND_PROGRAM\n'),
    'typed-literal-int': ('PROGRAM p\nVAR\n  x : INT := ', 'int', '#5;\nEND_VAR\nEND_PROGRAM\n'),
    'resource-on': ('CONFIGURATION c\nRESOURCE r ', 'on', ' PLC\nTASK t(PRIORITY := 1);\nPROGRAM i WITH t : prog;\nEND_RESOURCE\nEND_CONFIGURATION\n'),
}

def _k5_job(job):
    name = job[0]; KN = job[2] if len(job) > 2 else 'K5'
    from . import C10 as K10
    ctx = _CTX; part = Part()
    pre, word, post = job[1] if len(job) > 1 else TEXTUAL[name]
    canon_word = job[3] if len(job) > 3 else TEXTUAL_CANON.get(name, word.upper())
    P = ctx.program()
    k_parse = P.find_fn('ironplc-parser', 'parse_program')
    k_opt = [k for k in P.items if k[0] == 'ironplc-parser' and re.search(r'ParseOptions as (std::default::)?Default>::default|options::<impl at [^>]*>::default', k[1])]
    k_eq = P.impl_all.get(('Library', 'PartialEq', 'eq'))
    holder = {}; st = {}
    M = Machine(P, stubs=K10.dyn_lexer_stubs(ctx, holder), max_steps=400_000_000)
    def entry(M):
        bits = []; bs = []
        for i, ch in enumerate(word):
            if not ch.isalpha(): bs.append(ord(ch)); continue
            b = M.fresh_bv('c%d' % i, 8); M.assume(z3.Or(b == ord(ch.lower()), b == ord(ch.upper()))); bs.append(b); bits.append((b, ch))
        st['bits'] = bits
        fid = Ref(Cell(Agg('FileId', [Str('f.st')])))
        def parse(text_bytes):
            opts = Ref(Cell(M.call_fn(k_opt[0], []) if k_opt else Agg('ParseOptions', [False])))
            return M.call_fn(k_parse, [Ref(Cell(Str(text_bytes))), fid, opts])
        canon = parse(list((pre + canon_word + post).encode()))
        if canon.disc != 0: return ('template-rejected', None)
        r = parse(list(pre.encode()) + bs + list(post.encode()))
        if r.disc != 0: return ('rejected', None)
        return ('ok', M.call_fn(k_eq[0], [Ref(Cell(canon.f[0])), Ref(Cell(r.f[0]))]) if k_eq else True)
    def on_path(M, pr):
        part.paths += 1
        if pr.inconclusive: part.inconc('%s: %s' % (name, pr.inconclusive)); return
        s = z3.Solver(); s.add(*pr.pc)
        def wit(role, what, cond):
            s.push(); s.add(cond); part.queries += 1
            if s.check() == z3.sat:
                m = s.model(); w = ''.join(chr(m.eval(b, True).as_long()) if not isinstance(b, int) else chr(b) for b in _word_bytes(st['bits'], word))
                src = pre + w + post
                part.add(role, '%s: spelling %r %s' % (name, w, what), {'spelling': w, 'source': src}, ('textual_keyword', (pre + canon_word + post, src)))
            s.pop()
        part.nontrivial += 1
        if pr.panic: wit('C08/' + KN + '/%s/panic' % name, 'makes the parser panic: ' + pr.panic.msg[:50], z3.BoolVal(True)); return
        kind, same = pr.result
        if kind == 'template-rejected': part.inconc('%s: canonical template does not parse' % name); return
        if kind == 'rejected': wit('C08/' + KN + '/%s/rejected' % name, 'is rejected although the canonical spelling is accepted', z3.BoolVal(True)); return
        wit('C08/' + KN + '/%s/different-library' % name, 'parses to a different library than the canonical spelling', z3.Not(tobool(same)) if not isinstance(same, bool) else z3.BoolVal(not same))
        if len(part.validate) < 1 and s.check() == z3.sat:
            m = s.model(); w = ''.join(chr(m.eval(b, True).as_long()) if not isinstance(b, int) else chr(b) for b in _word_bytes(st['bits'], word))
            part.validate.append(('textual_keyword', (pre + canon_word + post, pre + w + post)))
        if len(part.samples) < 1: part.samples.append({'keyword': name, 'letters': len(st['bits'])})
    M.explore(entry, on_path)
    part.queries += M.stats['smt']; part.encoded = set(M.encoded); part.models = set(M.models_used)
    return part

TEXTUAL_CANON = {'duration-unit-d': 'd', 'duration-unit-h': 'h', 'duration-unit-m': 'm', 'duration-unit-s': 's', 'duration-unit-ms': 'ms', 'duration-prefix-t': 'T', 'date-prefix-d': 'D'}

def _word_bytes(bits, word):
    it = iter(bits); out = []
    for ch in word: out.append(next(it)[0] if ch.isalpha() else ord(ch))
    return out

@replay_factory('textual_keyword')
def _replay_textual(canon, src):
    def rp(ctx):
        r0 = ctx.replay({'cmd': 'parse_eq', 'a': canon, 'b': src})
        if 'panic' in r0: return True, r0
        return not (r0.get('a_ok') and r0.get('b_ok') and r0.get('equal')), {'canonical': canon[-80:], 'respelled': src[-80:], 'result': {k: str(v)[:120] for k, v in r0.items()}}
    return rp

@kernel('K5 parser.textual_keywords_case')
def k5(ctx, kr):
    global _CTX
    _CTX = ctx
    kr.bounds = 'words the grammar recognises by comparing identifier text or through keyword tokens inside literals (%s): every upper/lower-case pattern of the word (one symbolic choice per letter) in one program template each; the respelled program must parse to the library of the canonical spelling' % ', '.join(TEXTUAL)
    for part in par_map(_k5_job, [(n,) for n in TEXTUAL]): merge_part(kr, part)
    P = ctx.program()
    kr.functions = fn_paths(P, getattr(kr, '_enc', set()))[:100] + ['ironplc-parser::<TokenType as Logos>::lex (lifted)']
    kr.stubs = LC.STUB_NOTES
    kr.exhaustive = True
    kr.outside = ['other textual keywords; mixed-case spellings combined with other constructs']

# ---------------------------------------------------------------------------------------------- K10 identifiers the code knows by name
def mir_dictionary(all_words=False):
    """every string constant in the MIR of the parser and the dsl crate that is written in one letter case and is an identifier: the spellings the code could be comparing identifier text with"""
    d = dump.ensure_dumps(); words = {}
    kw = {sp.upper() for sp, _, _ in LC.token_rs_words()} | set(LC.IEC_KEYWORDS)
    for crate in ('ironplc-parser', 'ironplc-dsl'):
        for w in re.findall(r'const "([A-Za-z][A-Za-z0-9_]{0,11})"', open(os.path.join(d, crate + '.mir')).read()):
            if crate != 'ironplc-parser' and len(w) > 2 and not all_words: continue     # the data model's longer constants are the field names of derived Debug impls
            if (w.isupper() or w.islower()) and w.upper() not in kw and any(c.isalpha() for c in w): words.setdefault(w.lower(), w)
    return sorted(words)

ID_ROLES = {
    'function-block-name': ('FUNCTION_BLOCK ', '\nVAR\n  v : INT;\nEND_VAR\nEND_FUNCTION_BLOCK\n'),
    'variable-name': ('PROGRAM p\nVAR\n  ', ' : INT;\nEND_VAR\nEND_PROGRAM\n'),
    'type-name': ('PROGRAM p\nVAR\n  v : ', ';\nEND_VAR\nEND_PROGRAM\n'),
}

@kernel('K10 parser.identifier_case_dictionary')
def k10(ctx, kr):
    global _CTX
    _CTX = ctx
    words = mir_dictionary(ctx.tier != 'quick')
    jobs = [('%s/%s' % (r, w), (ID_ROLES[r][0], w, ID_ROLES[r][1]), 'K10', w) for w in words for r in ID_ROLES]
    kr.bounds = ('%d words (every one-case identifier among the string constants of the parser and dsl MIR: %s) [quick: of the data model the constants of one or two letters only] written as the name of a function block, a variable name and a type name: '
                 'every upper/lower-case pattern of the word (one symbolic choice per letter); the respelled program must parse to the library of the lower-case spelling' % (len(words), ', '.join(words)))
    for part in par_map(_k5_job, jobs): merge_part(kr, part)
    P = ctx.program()
    kr.functions = fn_paths(P, getattr(kr, '_enc', set()))[:100] + ['ironplc-parser::<TokenType as Logos>::lex (lifted)']
    kr.stubs = LC.STUB_NOTES
    kr.exhaustive = True
    kr.outside = ['identifiers the code does not mention; identifiers longer than 12 letters']

# ---------------------------------------------------------------------------------------------- K6 semantic rules under re-spelling
@kernel('K6 rules.verdict_under_respelling')
def k6(ctx, kr):
    from . import C02 as K02
    K02._CTX = ctx
    rules = list(K02.RULES)
    kr.bounds = 'the C02 rule templates (%s) with identifiers symbolic over the template alphabet and every occurrence optionally written in upper case (one symbolic bit per occurrence): the verdict must be the documented verdict on the names' % ', '.join(rules)
    for part in par_map(K02._rule_job, [(r, False, True) for r in rules]):
        part.findings = [f for f in part.findings if f['role'].startswith('C08/')]
        merge_part(kr, part)
    P = ctx.program()
    kr.functions = fn_paths(P, getattr(kr, '_enc', set()))
    kr.exhaustive = True
    kr.assumptions = ['upper-casing the ASCII letters of an identifier is the re-spelling considered; Id / Type compare and hash by their lower-case form (K4)']
    kr.outside = ['rules without a template; re-spelling of keywords (K1a, K5); mixed-case spellings']

# ---------------------------------------------------------------------------------------------- K7 whole analysis under re-spelling of identifier occurrences
RESPELL_PROGRAMS = {
    'enum_variable': 'TYPE\n  mycolors : (red, green);\nEND_TYPE\nFUNCTION_BLOCK example\nVAR\n  color : mycolors := red;\n  other : mycolors;\nEND_VAR\n  color := green;\n  other := color;\nEND_FUNCTION_BLOCK\n',
    'fb_instances': 'FUNCTION_BLOCK callee\nVAR_INPUT\n  in1 : BOOL;\nEND_VAR\nVAR_OUTPUT\n  out1 : BOOL;\nEND_VAR\n  out1 := in1;\nEND_FUNCTION_BLOCK\nFUNCTION_BLOCK caller\nVAR\n  inst : callee;\n  flag : BOOL;\nEND_VAR\n  inst(in1 := flag, out1 => flag);\nEND_FUNCTION_BLOCK\n',
    'struct_and_alias': 'TYPE\n  point : STRUCT\n    px : INT;\n    py : INT;\n  END_STRUCT;\n  ali : point;\n  lvl : (lo, hi) := lo;\n  lvl2 : lvl;\nEND_TYPE\nFUNCTION_BLOCK user\nVAR\n  pt : ali;\n  lv : lvl2 := hi;\nEND_VAR\nEND_FUNCTION_BLOCK\n',
    'configuration': 'CONFIGURATION cfg\n  VAR_GLOBAL CONSTANT\n    gconst : INT := 1;\n  END_VAR\n  RESOURCE res ON plc\n    TASK tsk(INTERVAL := T#100ms, PRIORITY := 1);\n    PROGRAM inst WITH tsk : prog;\n  END_RESOURCE\nEND_CONFIGURATION\nPROGRAM prog\nVAR_EXTERNAL CONSTANT\n  gconst : INT;\nEND_VAR\nVAR\n  cnt : INT;\nEND_VAR\n  cnt := cnt + gconst;\nEND_PROGRAM\n',
}

def _occurrences(text):
    """identifier occurrences that may be re-spelled: words that are not keywords (upper-case words and type keywords are keywords in these programs)"""
    out = []
    for m in re.finditer(r'[A-Za-z_][A-Za-z0-9_]*', text):
        w = m.group(0)
        if w.islower() and w not in ('t',) and not re.fullmatch(r'\d+ms', w) and text[m.start() - 1:m.start()] != '#': out.append((m.start(), m.end()))
    return out

def _k7_job(job):
    pname, lo, hi = job
    from . import C10 as K10
    ctx = _CTX; part = Part()
    text = RESPELL_PROGRAMS[pname]; occ = _occurrences(text)
    P = ctx.program()
    k_parse = P.find_fn('ironplc-parser', 'parse_program'); k_an = P.find_fn('ironplc-analyzer', 'stages::analyze')
    k_opt = [k for k in P.items if k[0] == 'ironplc-parser' and re.search(r'ParseOptions as (std::default::)?Default>::default|options::<impl at [^>]*>::default', k[1])]
    holder = {}; st = {}
    M = Machine(P, stubs=K10.dyn_lexer_stubs(ctx, holder), max_steps=800_000_000)
    M.toposort_deterministic = True
    def verdict(M, src):
        fid = Ref(Cell(Agg('FileId', [Str('f.st')])))
        opts = Ref(Cell(M.call_fn(k_opt[0], []) if k_opt else Agg('ParseOptions', [False])))
        r = M.call_fn(k_parse, [Ref(Cell(Str(src))), fid, opts])
        if r.disc != 0: return ('parse-error',)
        a = M.call_fn(k_an, [Ref(Cell(VecV([Ref(Cell(r.f[0]))])))])
        if a.disc == 0: return ('ok',)
        codes = []
        for d in a.f[0].items:
            c = M.deref(M.deref(d).f[0]); codes.append(c.conc() if isinstance(c, Str) else '?')
        return ('err', tuple(sorted(codes)))
    def entry(M):
        sel = M.fresh_bv('occurrence', 16); M.declare_domain(sel, list(range(lo, hi)))
        k = lo
        for v in range(lo, hi - 1):
            if M.branch(sel == v): k = v; break
            k = v + 1
        a, b = occ[k]; st['k'] = k
        src = text[:a] + text[a:b].upper() + text[b:]; st['src'] = src
        return verdict(M, text), verdict(M, src)
    def on_path(M, pr):
        part.paths += 1
        if pr.inconclusive: part.inconc('%s: %s' % (pname, pr.inconclusive)); return
        part.nontrivial += 1
        src = st['src']; a, b = occ[st['k']]; word = text[a:b]
        line = text.count('\n', 0, a) + 1
        rep = ('respelled_program', (text, src))
        if pr.panic: part.add('C08/K7/%s/panic/%s@%d' % (pname, word, line), 'analysis panics when `%s` on line %d is written in upper case: %s' % (word, line, pr.panic.msg[:60]), {'source': src}, rep); return
        v0, v1 = pr.result
        if v0 != v1:
            part.add('C08/K7/%s/%s@line%d' % (pname, word, line), 'writing `%s` on line %d in upper case changes the verdict from %s to %s' % (word, line, v0, v1), {'source': src, 'canonical': v0, 'respelled': v1}, rep)
        elif len(part.validate) < 1: part.validate.append(rep)
        if len(part.samples) < 1: part.samples.append({'program': pname, 'occurrence': word, 'line': line, 'verdict': v1})
    M.explore(entry, on_path)
    part.queries += M.stats['smt']; part.encoded = set(M.encoded); part.models = set(M.models_used)
    return part

@replay_factory('respelled_program')
def _replay_respelled_program(canon, src):
    def rp(ctx):
        r0 = ctx.replay({'cmd': 'analyze', 'sources': [canon]}); r1 = ctx.replay({'cmd': 'analyze', 'sources': [src]})
        if 'panic' in r1: return True, r1
        key = lambda r: ('parse_error' in r, sorted(d['code'] for d in r.get('diagnostics', [])))
        return key(r0) != key(r1), {'canonical': key(r0), 'respelled': key(r1), 'source': src[-200:]}
    return rp

@kernel('K7 analyze.verdict_under_respelling')
def k7(ctx, kr):
    global _CTX
    _CTX = ctx
    jobs = []
    for pn, text in RESPELL_PROGRAMS.items():
        n = len(_occurrences(text)); step = max(1, (n + 3) // 4)
        for lo in range(0, n, step): jobs.append((pn, lo, min(n, lo + step)))
    kr.bounds = ('%d programs (%s); one identifier occurrence at a time (symbolic selector over all %d occurrences) is written in upper case; parse_program + stages::analyze (type resolution and every rule) on the MIR: '
                 'the verdict and the problem codes must be those of the canonical spelling' % (len(RESPELL_PROGRAMS), ', '.join(RESPELL_PROGRAMS), sum(len(_occurrences(t)) for t in RESPELL_PROGRAMS.values())))
    for part in par_map(_k7_job, jobs): merge_part(kr, part)
    P = ctx.program()
    kr.functions = fn_paths(P, getattr(kr, '_enc', set()))[:150] + ['ironplc-parser::<TokenType as Logos>::lex (lifted)']
    kr.exhaustive = True
    kr.assumptions = ['toposort tie-breaks taken deterministically (order independence: C06)']
    kr.outside = ['programs other than the templates; several occurrences re-spelled at once; mixed-case spellings']

# ---------------------------------------------------------------------------------------------- K8 the preprocessor does not touch comments and layout (what reaches the lexer is the text as written)
@kernel('K8 preprocessor.transparent_for_comments')
def k8(ctx, kr):
    """tokenize_program lexes preprocess(source): comments and layout can only be meaning-free if preprocessing leaves them (and the code between them) alone.
    Same kernel as the comment-text part of C05-K2."""
    from . import C05 as K05
    K05._CTX = ctx
    kr.bounds = 'preprocess(source) for comment texts %s with runs of symbolic bytes over the alphabet %r: the text that reaches the lexer is the text as written' % (K05.COMMENT_TEXTS, K05.COMMENT_ALPHABET)
    for part in par_map(K05._k2_job, [('tpl', t) for t in K05.COMMENT_TEXTS]):
        for f in part.findings: f['role'] = f['role'].replace('C05/K2/', 'C08/K8/')
        merge_part(kr, part)
    P = ctx.program(['ironplc-parser', 'ironplc-dsl'])
    kr.functions = fn_paths(P, getattr(kr, '_enc', set()))
    kr.exhaustive = True
    kr.outside = ['longer texts; bytes outside the alphabet; OSCAT descriptions (C05-K2)']

# ---------------------------------------------------------------------------------------------- K9 any mix of blanks, tabs, line breaks and comments between two tokens: same parse
LAYOUT_PROGRAMS = {
    'types': 'TYPE\n  level : (info, critical) := info;\n  rng : INT(1..10);\n  pt : STRUCT\n    x : INT;\n    y : REAL := 1.5;\n  END_STRUCT;\n  arr : ARRAY[1..3, 0..1] OF INT := [1, 2(0), 3];\n  txt : STRING[10] := \'ab\';\n  al : level;\nEND_TYPE\n',
    'function_block': 'FUNCTION_BLOCK fb\nVAR_INPUT\n  a : INT;\n  e : BOOL R_EDGE;\nEND_VAR\nVAR_OUTPUT RETAIN\n  q : BOOL;\nEND_VAR\nVAR\n  s : pt;\n  t : TIME := T#1.5s;\n  c : level := level#info;\n  n : INT := INT#5;\nEND_VAR\n  s.x := a + 1;\n  q := NOT (a > 2) AND e;\nEND_FUNCTION_BLOCK\n',
    'statements': 'PROGRAM p\nVAR\n  i : INT;\n  k : INT;\n  inst : fb;\n  ar : ARRAY[1..3] OF INT;\nEND_VAR\n  IF i > 0 THEN\n    k := 1;\n  ELSIF i < 0 THEN\n    k := 2;\n  ELSE\n    k := 3;\n  END_IF;\n  CASE k OF\n    1, 2:\n      i := 0;\n    3..5:\n      i := 1;\n  ELSE\n    i := 2;\n  END_CASE;\n'
                  '  FOR i := 1 TO 10 BY 2 DO\n    ar[i] := k * -1;\n  END_FOR;\n  WHILE i < 3 DO\n    i := i + 1;\n  END_WHILE;\n  REPEAT\n    i := i - 1;\n  UNTIL i = 0\n  END_REPEAT;\n  inst(a := i, q => k);\n  k := f(i, 2);\n  RETURN;\nEND_PROGRAM\n',
    'configuration': 'CONFIGURATION cfg\n  VAR_GLOBAL CONSTANT\n    g : INT := 1;\n  END_VAR\n  RESOURCE res ON plc\n    TASK tsk(INTERVAL := T#100ms, PRIORITY := 1);\n    PROGRAM inst WITH tsk : prog;\n  END_RESOURCE\nEND_CONFIGURATION\n',
    'function': 'FUNCTION f : INT\nVAR_INPUT\n  a : INT;\n  b : INT;\nEND_VAR\nVAR\n  d : DATE := D#2020-01-02;\n  z : TOD := TOD#01:02:03;\nEND_VAR\n  f := a ** 2 MOD b;\nEND_FUNCTION\n',
    'sfc': 'FUNCTION_BLOCK sf\nVAR\n  done : BOOL;\nEND_VAR\nINITIAL_STEP Start:\nEND_STEP\nSTEP Work:\n  act(N, done);\nEND_STEP\nTRANSITION tr (PRIORITY := 1) FROM Start TO Work\n  := NOT done;\nEND_TRANSITION\nACTION act:\n  done := TRUE;\nEND_ACTION\nEND_FUNCTION_BLOCK\n',
}
LAYOUTS = [' ', '\n', '\t', ' (* c *) ', '\r\n', '(* a *)(* b *)']

def _gaps(ctx, text):
    """byte offsets between two consecutive non-trivia tokens: (start of the gap, end of the gap)  (start == end where the tokens touch)"""
    from mirsym import lexlift
    LM = LC.lexmodel(ctx); data = text.encode()
    toks = [(k, a, b) for k, a, b in lexlift.lex_concrete(LM, data)]
    sig = [(k, a, b) for k, a, b in toks if k not in ('Whitespace', 'Newline', 'Comment')]
    return [(sig[i][2], sig[i + 1][1]) for i in range(len(sig) - 1)]

def _k9_job(job):
    pname, gap_idxs = job
    from . import C10 as K10, C01 as K01, tplcommon as TP
    ctx = _CTX; part = Part(); part.res = {}; part.pname = pname
    text = LAYOUT_PROGRAMS[pname]; gaps = _gaps(ctx, text)
    P = ctx.program()
    k_parse = P.find_fn('ironplc-parser', 'parse_program'); k_opt = TP.parse_opts(P)
    st = {}
    M = Machine(P, stubs=K10.dyn_lexer_stubs(ctx, {}), max_steps=400_000_000)
    def entry(M):
        g = M.fresh_bv('gap', 16); M.declare_domain(g, list(gap_idxs)); gi = gap_idxs[-1]
        for v in gap_idxs[:-1]:
            if M.branch(g == v): gi = v; break
        nl = len(LAYOUTS) if ctx.tier != 'quick' else 3
        l = M.fresh_bv('layout', 8); M.declare_domain(l, list(range(nl)) + [len(LAYOUTS)]); li = len(LAYOUTS)
        for v in range(nl):
            if M.branch(l == v): li = v; break
        a, b = gaps[gi]; data = text.encode()
        # li == len(LAYOUTS): the text as written
        src = text if li == len(LAYOUTS) else (data[:a] + LAYOUTS[li].encode() + data[b:]).decode()
        st['key'] = (gi, li); st['src'] = src
        fid = Ref(Cell(Agg('FileId', [Str('f.st')])))
        opts = Ref(Cell(M.call_fn(k_opt[0], []) if k_opt else Agg('ParseOptions', [False])))
        r1 = M.call_fn(k_parse, [Ref(Cell(Str(src))), fid, opts])
        return 'rejected' if r1.disc != 0 else K01._canon(M, r1.f[0])
    def on_path(M, pr):
        part.paths += 1
        if pr.inconclusive: part.inconc('%s: %s' % (pname, pr.inconclusive)); return
        if pr.panic: part.inconc('%s: panic (C04) %s' % (pname, pr.panic.msg[:50])); return
        part.nontrivial += 1
        part.res[st['key']] = (pr.result, st['src'])
    M.explore(entry, on_path)
    part.queries += M.stats['smt']; part.encoded = set(M.encoded); part.models = set(M.models_used)
    return part

@replay_factory('layout_pair')
def _replay_layout_pair(a, b):
    def rp(ctx):
        r = ctx.replay({'cmd': 'parse_eq', 'a': a, 'b': b})
        if 'panic' in r: return True, r
        same = (r.get('a_ok') == r.get('b_ok')) and (not r.get('a_ok') or r.get('equal'))
        return not same, {'a_parses': r.get('a_ok'), 'b_parses': r.get('b_ok'), 'libraries_equal': r.get('equal'), 'a': a[-160:], 'b': b[-160:]}
    return rp

@kernel('K9 parser.layout_between_tokens')
def k9(ctx, kr):
    global _CTX
    _CTX = ctx
    jobs = []
    for pn, text in LAYOUT_PROGRAMS.items():
        n = len(_gaps(ctx, text)); idx = list(range(n))
        if ctx.tier == 'quick': idx = idx[(ctx.seed % 3)::3]          # quick: every third position (VERIF_SEED picks which third), and three layouts
        for c in range(0, len(idx), 12): jobs.append((pn, idx[c:c + 12]))
    kr.bounds = ('%d programs (%s): at every position between two consecutive tokens [quick: every third position, first three layouts] the text between them is replaced by each of %r: parse_program on the MIR gives the same outcome '
                 '(the same library, positions ignored, or a rejection) for all of them; where the tokens were separated by layout as written, that outcome is the one of the text as written' % (len(LAYOUT_PROGRAMS), ', '.join(LAYOUT_PROGRAMS), LAYOUTS))
    res = {pn: {} for pn in LAYOUT_PROGRAMS}
    for part in par_map(_k9_job, jobs):
        res[part.pname].update(part.res); merge_part(kr, part)
    for pn, R in res.items():
        text = LAYOUT_PROGRAMS[pn]; gaps = _gaps(ctx, text)
        for gi in sorted({k[0] for k in R}):
            outs = {li: R[(gi, li)] for li in range(len(LAYOUTS) + 1) if (gi, li) in R}
            a, b = gaps[gi]
            base = [li for li in outs if li < len(LAYOUTS)]
            if a != b and len(LAYOUTS) in outs: base.append(len(LAYOUTS))          # the tokens were separated as written: the original text is one more member of the class
            if len(base) < 2: continue
            ref = outs[base[0]]
            for li in base[1:]:
                if outs[li][0] != ref[0]:
                    ctxt = re.sub(r'\s+', ' ', text.encode()[max(0, a - 14):b + 14].decode())
                    role = 'C08/K9/%s/%s' % (pn, re.sub(r'[^A-Za-z0-9_#.:=<>+*-]+', '_', ctxt).strip('_')[:40])
                    if not any(f.role == role for f in kr.findings):
                        def show(o): return 'a rejection' if o[0] == 'rejected' else 'a library'
                        kr.findings.append(Finding(role, 'program %s, between the tokens at %r: layout %r gives %s, layout %r gives %s%s' % (pn, ctxt, (LAYOUTS + ['<as written>'])[base[0]], show(ref), (LAYOUTS + ['<as written>'])[li], show(outs[li]),
                                           '' if 'rejected' in (ref[0], outs[li][0]) else ' that differs'), {'a': ref[1], 'b': outs[li][1]}, replay=_replay_layout_pair(ref[1], outs[li][1])))
                    break
    if len(kr.validate) < 1:
        t = LAYOUT_PROGRAMS['function']; kr.validate.append(('layout_pair', (t, t.replace(' ', '\t'))))
    P = ctx.program()
    kr.functions = fn_paths(P, getattr(kr, '_enc', set()))[:150] + ['ironplc-parser::<TokenType as Logos>::lex (lifted)']
    kr.exhaustive = True
    kr.outside = ['programs other than the six; two positions changed at once; layout inside tokens']

# ---------------------------------------------------------------------------------------------- K11 keyword case and the optional semicolon, through the whole front end
NESTED_IFS = ('PROGRAM p\nVAR\n  i : INT;\n  k : INT;\nEND_VAR\n  IF i > 0 THEN\n    IF k > 0 THEN\n      k := 1;\n    END_IF', ';', '\n  ELSIF i < 0 THEN\n    CASE k OF\n      1:\n        IF i = 1 THEN\n          k := 2;\n        END_IF', ';',
              '\n    END_CASE;\n  ELSE\n    k := 3;\n  END_IF', ';', '\n  k := 4;\nEND_PROGRAM\n')
def _respell(text, how):
    """keywords and elementary type names are the words written in upper case in these programs (identifiers are written in lower case)"""
    if how == 'upper': return text
    f = (lambda w: w.lower()) if how == 'lower' else (lambda w: '_'.join(x.capitalize() for x in w.split('_')))
    return re.sub(r'\b[A-Z][A-Z_0-9]+\b', lambda m: f(m.group(0)), text)
def _k11_variants(pname):
    out = []
    if pname == 'nested_ifs':
        for case in ('upper', 'lower', 'mixed'):
            for bits in range(8):
                t = ''.join(seg if k % 2 == 0 else (';' if (bits >> (k // 2)) & 1 else '') for k, seg in enumerate(NESTED_IFS))
                out.append(('%s/%s' % (case, ''.join(';' if (bits >> j) & 1 else '-' for j in range(3))), _respell(t, case)))
    else:
        for case in ('upper', 'lower', 'mixed'): out.append((case, _respell(LAYOUT_PROGRAMS[pname], case)))
    return out

def _k11_job(job):
    pname, idxs = job
    from . import C10 as K10, C01 as K01, tplcommon as TP
    ctx = _CTX; part = Part(); part.res = {}; part.pname = pname
    variants = _k11_variants(pname)
    P = ctx.program()
    k_parse = P.find_fn('ironplc-parser', 'parse_program'); k_opt = TP.parse_opts(P)
    st = {}
    M = Machine(P, stubs=K10.dyn_lexer_stubs(ctx, {}), max_steps=400_000_000)
    def entry(M):
        g = M.fresh_bv('variant', 16); M.declare_domain(g, list(idxs)); vi = idxs[-1]
        for v in idxs[:-1]:
            if M.branch(g == v): vi = v; break
        st['key'] = vi
        fid = Ref(Cell(Agg('FileId', [Str('f.st')])))
        opts = Ref(Cell(M.call_fn(k_opt[0], []) if k_opt else Agg('ParseOptions', [False])))
        r1 = M.call_fn(k_parse, [Ref(Cell(Str(variants[vi][1]))), fid, opts])
        return 'rejected' if r1.disc != 0 else K01._canon(M, r1.f[0])
    def on_path(M, pr):
        part.paths += 1
        if pr.inconclusive: part.inconc('%s: %s' % (pname, pr.inconclusive)); return
        if pr.panic: part.inconc('%s: panic (C04) %s' % (pname, pr.panic.msg[:50])); return
        part.nontrivial += 1
        part.res[st['key']] = pr.result
    M.explore(entry, on_path)
    part.queries += M.stats['smt']; part.encoded = set(M.encoded); part.models = set(M.models_used)
    return part

@kernel('K11 parser.keyword_case_and_end_if_semicolon')
def k11(ctx, kr):
    global _CTX
    _CTX = ctx
    progs = list(LAYOUT_PROGRAMS) + ['nested_ifs']
    jobs = []
    for pn in progs:
        n = len(_k11_variants(pn)); idx = list(range(n))
        for c in range(0, n, 4): jobs.append((pn, idx[c:c + 4]))
    kr.bounds = ('%d programs (%s): every keyword and elementary type name written in upper case, in lower case and capitalised (End_If); in nested_ifs additionally each of the three END_IF with and without its semicolon (all 8 subsets): '
                 'parse_program on the MIR accepts every variant and returns the library of the upper-case text with all semicolons (positions and the letter case of identifiers ignored)' % (len(progs), ', '.join(progs)))
    res = {pn: {} for pn in progs}
    for part in par_map(_k11_job, jobs):
        res[part.pname].update(part.res); merge_part(kr, part)
    for pn, R in res.items():
        variants = _k11_variants(pn)
        ref_i = 7 if pn == 'nested_ifs' else 0        # upper case, all semicolons
        if ref_i not in R: continue
        for vi, out in sorted(R.items()):
            if vi == ref_i or out == R[ref_i]: continue
            role = 'C08/K11/%s/%s' % (pn, variants[vi][0])
            kr.findings.append(Finding(role, 'program %s written %s: %s, but the upper-case text with every semicolon gives %s' % (pn, variants[vi][0], 'is rejected' if out == 'rejected' else 'parses to a different library', 'a rejection' if R[ref_i] == 'rejected' else 'a library'),
                                       {'a': variants[ref_i][1], 'b': variants[vi][1]}, replay=_replay_layout_pair(variants[ref_i][1], variants[vi][1])))
    if len(kr.validate) < 1:
        v = _k11_variants('nested_ifs'); kr.validate.append(('layout_pair', (v[7][1], v[8][1])))
    P = ctx.program()
    kr.functions = fn_paths(P, getattr(kr, '_enc', set()))[:150] + ['ironplc-parser::<TokenType as Logos>::lex (lifted)']
    kr.exhaustive = True
    kr.outside = ['other programs; a different case per keyword occurrence (K1a covers every case pattern of every keyword at the lexer)']

KERNELS = [k1a, k1b, k2, k4, k5, k6, k7, k8, k9, k10, k11]
