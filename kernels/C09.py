"""C09 — literals are read as the value IEC 61131-3 assigns them, or rejected."""
import re
from framework import kernel, Finding
from . import kanicommon as KC

@kernel('K3a kani.integer_and_duration_values')
def k3a(ctx, kr):
    kr.bounds = 'all u128 integer values / all FixedPoint values; conversions SignedInteger->i128, Integer->u8/u32/i128, Integer->FixedPoint, DurationLiteral::seconds whole part'
    def mk(h, e, fc, vals):
        if h == 'integer_to_fixed_point_not_truncated':
            v = vals[0] if vals else 2 ** 64
            lit = 'T#%ds' % v
            def rp(ctx):
                r = ctx.replay({'cmd': 'parse', 'source': KC.program_with_time(lit)})
                if not r.get('ok'): return False, r
                m = re.search(r'interval: Duration \{ seconds: (-?\d+), nanoseconds: (-?\d+)', r['debug'])
                return bool(m) and int(m.group(1)) != v, {'literal': lit, 'parsed_seconds': m.group(1) if m else None}
            return Finding('C09/K3/integer-to-fixedpoint-truncated', 'an integer duration component >= 2^64 is silently truncated to 64 bits (literal %s)' % lit,
                           {'value': str(v), 'literal': lit}, replay=rp)
        if h == 'dur_seconds_whole_not_wrapped':
            if not vals: return Finding('C09/K3/seconds/whole-wraps', 'seconds literal >= 2^63 wraps', {}, replay=None)
            lit = 'T#%ss' % KC.fp_literal(vals[0], vals[1])
            def rp(ctx):
                r = ctx.replay({'cmd': 'parse', 'source': KC.program_with_time(lit)})
                if not r.get('ok'): return False, r
                m = re.search(r'interval: Duration \{ seconds: (-?\d+), nanoseconds: (-?\d+)', r['debug'])
                return bool(m) and int(m.group(1)) != vals[0], {'literal': lit, 'parsed_seconds': m.group(1) if m else None}
            return Finding('C09/K3/seconds/whole-wraps', 'a seconds value >= 2^63 is wrapped by `as i64` into a negative duration (literal %s)' % lit,
                           {'whole': str(vals[0]), 'femptos': str(vals[1]), 'literal': lit}, replay=rp)
        return Finding('C09/K3/%s/%s' % (h, re.sub(r'[^a-z0-9]+', '-', fc['desc'].lower())[:40]), '%s: %s' % (h, fc['desc']), {'vals': [str(v) for v in (vals or [])]}, replay=None)
    KC.apply(kr, ['signed_integer_to_i128', 'integer_to_small', 'integer_to_fixed_point_not_truncated', 'dur_seconds_whole_not_wrapped'], mk)
    kr.exhaustive = True

KERNELS = [k3a]
