"""C09 — literals are read as the value IEC 61131-3 assigns them, or rejected."""
import re, time, json
import z3
from framework import kernel, Finding, fn_paths, Part, par_map, merge_part, replay_factory
from mirsym.machine import *
from mirsym.mirread import Unsupported
from . import kanicommon as KC, lexcommon as LC

_CTX = None

@kernel('K3a kani.integer_and_duration_values')
def k3a(ctx, kr):
    kr.bounds = 'all u128 integer values / all FixedPoint values; conversions SignedInteger->i128, Integer->u8/u32/i128, Integer->FixedPoint, DurationLiteral::seconds whole part'
    def mk(h, e, fc, vals):
        if h == 'integer_to_fixed_point_not_truncated':
            v = vals[0] if vals else 2 ** 64
            lit = 'T#%ds' % v
            def rp(ctx):
                r = ctx.replay({'cmd': 'parse', 'source': KC.program_with_time(lit)})
                if not r.get('ok'): return False, r
                m = re.search(r'interval: Duration \{ seconds: (-?\d+), nanoseconds: (-?\d+)', r['debug'])
                return bool(m) and int(m.group(1)) != v, {'literal': lit, 'parsed_seconds': m.group(1) if m else None}
            return Finding('C09/K3/integer-to-fixedpoint-truncated', 'an integer duration component >= 2^64 is silently truncated to 64 bits (literal %s)' % lit,
                           {'value': str(v), 'literal': lit}, replay=rp)
        if h == 'dur_seconds_whole_not_wrapped':
            if not vals: return Finding('C09/K3/seconds/whole-wraps', 'seconds literal >= 2^63 wraps', {}, replay=None)
            lit = 'T#%ss' % KC.fp_literal(vals[0], vals[1])
            def rp(ctx):
                r = ctx.replay({'cmd': 'parse', 'source': KC.program_with_time(lit)})
                if not r.get('ok'): return False, r
                m = re.search(r'interval: Duration \{ seconds: (-?\d+), nanoseconds: (-?\d+)', r['debug'])
                return bool(m) and int(m.group(1)) != vals[0], {'literal': lit, 'parsed_seconds': m.group(1) if m else None}
            return Finding('C09/K3/seconds/whole-wraps', 'a seconds value >= 2^63 is wrapped by `as i64` into a negative duration (literal %s)' % lit,
                           {'whole': str(vals[0]), 'femptos': str(vals[1]), 'literal': lit}, replay=rp)
        return Finding('C09/K3/%s/%s' % (h, re.sub(r'[^a-z0-9]+', '-', fc['desc'].lower())[:40]), '%s: %s' % (h, fc['desc']), {'vals': [str(v) for v in (vals or [])]}, replay=None)
    KC.apply(kr, ['signed_integer_to_i128', 'integer_to_small', 'integer_to_fixed_point_not_truncated', 'dur_seconds_whole_not_wrapped'], mk)
    kr.exhaustive = True


# ---------------------------------------------------------------------------------------------- K4 date / time-of-day grammar actions on symbolic digit strings
def _digits(M, name, n):
    bs = [M.fresh_bv('%s%d' % (name, i), 8) for i in range(n)]
    for b in bs: M.assume(z3.And(z3.UGE(b, 48), z3.ULE(b, 57)))
    return bs
def _val(bs, w=64):
    v = z3.BitVecVal(0, w)
    for b in bs: v = v * 10 + z3.ZeroExt(w - 8, b - 48)
    return v
def _days_in_month_term(Y, MO):
    leap = z3.Or(z3.And(z3.URem(Y, 4) == 0, z3.URem(Y, 100) != 0), z3.URem(Y, 400) == 0)
    dim = z3.BitVecVal(31, 64)
    for mm, nd in ((4, 30), (6, 30), (9, 30), (11, 30)): dim = z3.If(MO == mm, z3.BitVecVal(nd, 64), dim)
    return z3.If(MO == 2, z3.If(leap, z3.BitVecVal(29, 64), z3.BitVecVal(28, 64)), dim)

def _k4_job(job):
    kind, lens = job
    ctx = _CTX; part = Part()
    P = ctx.program()
    TT = P.enums['TokenType']
    text = {'date': 'PROGRAM p\nVAR\n  x : DATE := DATE#1111-22-33;\nEND_VAR\nEND_PROGRAM\n', 'tod': 'PROGRAM p\nVAR\n  x : TIME_OF_DAY := TOD#11:22:33;\nEND_VAR\nEND_PROGRAM\n'}[kind]
    data = text.encode()
    M0, e0, b0, L0, t0, LM = LC.tokenize_machine(ctx, len(data), bytes_=list(data))
    k_tok = P.find_fn('ironplc-parser', 'lexer::tokenize'); k_p = P.find_fn('ironplc-parser', 'parser::parse_library')
    r0 = M0.explore(lambda M: M.call_fn(k_tok, [Ref(Cell(Str(list(data)))), Ref(Cell(Agg('FileId', [Str('f.st')])))]))
    if len(r0) != 1 or r0[0].inconclusive or r0[0].panic: part.inconc('template tokenization failed'); return part
    tokens0 = r0[0].result.f[0]
    idx = {}
    for i, t in enumerate(tokens0.items):
        c = t.f[4].conc()
        if c in ('1111', '11'): idx['a'] = i
        elif c == '22': idx['b'] = i
        elif c == '33': idx['c'] = i
    if len(idx) != 3: part.inconc('literal tokens not found in template'); return part
    M = Machine(P, max_steps=100_000_000); st = {}
    def entry(M):
        tokens = deep_clone(tokens0)
        for nm, n in zip('abc', lens):
            bs = _digits(M, nm, n); st[nm] = bs
            tokens.items[idx[nm]].f[4] = Str(list(bs))
        return M.call_fn(k_p, [tokens])
    def on_path(M, pr):
        part.paths += 1
        if pr.inconclusive: part.inconc(pr.inconclusive); return
        A, B, C = _val(st['a']), _val(st['b']), _val(st['c'])
        s = z3.Solver(); s.add(*pr.pc); s.set('timeout', 60000)
        def lit(m):
            f = lambda bs: ''.join(chr(m.eval(x, True).as_long()) for x in bs)
            return ('DATE#%s-%s-%s' if kind == 'date' else 'TOD#%s:%s:%s') % (f(st['a']), f(st['b']), f(st['c']))
        def report(role, what, extra):
            s.push(); s.add(extra)
            t1 = time.time(); r = s.check(); part.solver_s += time.time() - t1; part.queries += 1
            if r == z3.sat:
                L = lit(s.model())
                src = text.replace('DATE#1111-22-33', L).replace('TOD#11:22:33', L)
                part.add(role, '%s: %s' % (L, what), {'literal': L, 'source': src}, ('literal_value', (src, kind, L)))
            elif r == z3.unknown: part.inconc('solver unknown')
            s.pop()
        part.nontrivial += 1
        if kind == 'date': valid = z3.And(z3.ULE(A, 9999), z3.UGE(B, 1), z3.ULE(B, 12), z3.UGE(C, 1), z3.ULE(C, _days_in_month_term(A, B)))
        else: valid = z3.And(z3.ULT(A, 24), z3.ULT(B, 60), z3.ULT(C, 60))
        if pr.panic: report('C09/K4/%s/panic' % kind, 'the grammar action panics: ' + pr.panic.msg[:50], z3.BoolVal(True)); return
        res = pr.result
        if res.disc != 0:
            report('C09/K4/%s/valid-literal-rejected' % kind, 'a literal whose fields are all in range is rejected', valid); return
        # accepted: every field must be in range and be read with its value
        report('C09/K4/%s/out-of-range-accepted' % kind, 'a literal with a field out of range is accepted (wrapped or truncated) instead of rejected', z3.Not(valid))
        node = None
        stack = [res.f[0]]
        while stack:
            v = stack.pop()
            if isinstance(v, Agg) and v.name in ('time::Date', 'time::Time'): node = v; break
            if isinstance(v, (Agg, EnumV)): stack.extend(v.f)
            elif isinstance(v, VecV): stack.extend(v.items)
            elif isinstance(v, Ref): stack.append(v.cell.v)
        if node is None: part.inconc('literal node not found in the parse result'); return
        f0, f1, f2 = [tobv(simp(x), 64) if (is_sym(simp(x)) and simp(x).size() == 64) else (z3.ZeroExt(64 - simp(x).size(), simp(x)) if is_sym(simp(x)) else z3.BitVecVal(simp(x) & ((1 << 64) - 1), 64)) for x in node.f[:3]]
        report('C09/K4/%s/value-altered' % kind, 'an accepted literal is read with a different value in a field', z3.And(valid, z3.Or(f0 != A, f1 != B, f2 != C)))
        if len(part.samples) < 1: part.samples.append({'kind': kind, 'digits': list(lens), 'result': 'accepted'})
    M.explore(entry, on_path)
    part.queries += M.stats['smt']; part.encoded = set(M.encoded); part.models = set(M.models_used)
    return part

@replay_factory('literal_value')
def _replay_literal(src, kind, L):
    def rp(ctx):
        r = ctx.replay({'cmd': 'parse', 'source': src})
        if 'panic' in r: return True, r
        nums = [int(x) for x in re.findall(r'\d+', L.split('#')[1])]
        if kind == 'date':
            import calendar
            y, mo, d = nums; valid = y <= 9999 and 1 <= mo <= 12 and 1 <= d <= (calendar.monthrange(y if y > 0 else 4, mo)[1] if mo != 2 or y != 0 else 29)
        else:
            h, mi, s_ = nums; valid = h < 24 and mi < 60 and s_ < 60
        if not r.get('ok'): return valid, {'literal': L, 'rejected': r.get('diag'), 'fields_in_range': valid}
        dbg = r['debug']
        if kind == 'date':
            m = re.search(r'Date \{ year: (-?\d+), ordinal: (\d+) \}|value: (-?\d+)-(\d+)-(\d+)', dbg)
            got = dbg[dbg.find('DateLiteral'):][:80]
            same = ('%04d-%02d-%02d' % tuple(nums)) in got if valid else False
        else:
            got = dbg[dbg.find('TimeOfDayLiteral'):][:80]
            same = ('%d:%02d:%02d' % tuple(nums)) in got if valid else False
        return (not valid) or (not same), {'literal': L, 'accepted_as': got, 'fields_in_range': valid}
    return rp

@kernel('K4 parser.date_and_time_of_day_actions')
def k4(ctx, kr):
    global _CTX
    _CTX = ctx
    jobs = [('date', (4, 2, 2)), ('date', (10, 2, 2)), ('date', (5, 1, 3)), ('tod', (2, 2, 2)), ('tod', (3, 3, 3))]
    kr.bounds = 'DATE#y-m-d with symbolic digit strings of lengths (4,2,2), (10,2,2), (5,1,3) and TOD#h:m:s with lengths (2,2,2), (3,3,3): every digit symbolic'
    for part in par_map(_k4_job, jobs): merge_part(kr, part)
    P = ctx.program()
    kr.functions = fn_paths(P, getattr(kr, '_enc', set()))[:80]
    kr.models = sorted(set(kr.models))
    kr.assumptions = ['time::Date::from_calendar_date / Time::from_hms / Month::try_from by documented range checks', 'str::parse::<u128> by contract']
    kr.exhaustive = True
    kr.outside = ['fractional seconds, DATE_AND_TIME, other digit-string lengths']

# ---------------------------------------------------------------------------------------------- K3b FixedPoint::parse with underscores
def _k3b_job(job):
    nw, nf = job
    ctx = _CTX; part = Part()
    P = ctx.program()
    key = [k for k in P.items if k[0] == 'ironplc-dsl' and re.fullmatch(r'common::<impl at [^>]*>::parse', k[1]) and 'FixedPoint' in P.items[k].header]
    if len(key) != 1: part.inconc('FixedPoint::parse: %d candidates' % len(key)); return part
    M = Machine(P); st = {}
    def entry(M):
        def chars(name, n, first_digit):
            out = []
            for i in range(n):
                b = M.fresh_bv('%s%d' % (name, i), 8)
                M.assume(z3.Or(z3.And(z3.UGE(b, 48), z3.ULE(b, 57)), b == 95) if not (first_digit and i == 0) else z3.And(z3.UGE(b, 48), z3.ULE(b, 57)))
                out.append(b)
            return out
        st['w'] = chars('w', nw, True); st['f'] = chars('f', nf, False)
        return M.call_fn(key[0], [Ref(Cell(Str(st['w'] + [46] + st['f'])))])
    def on_path(M, pr):
        part.paths += 1
        if pr.inconclusive: part.inconc(pr.inconclusive); return
        s = z3.Solver(); s.add(*pr.pc); s.set('timeout', 60000)
        part.nontrivial += 1
        def digits_value(bs, pad_to=None):
            # value of the digits with underscores ignored; for the fraction scaled to 15 digits
            v = z3.BitVecVal(0, 64); nd = z3.BitVecVal(0, 64)
            for b in bs:
                isd = b != 95
                v = z3.If(isd, v * 10 + z3.ZeroExt(56, b - 48), v); nd = z3.If(isd, nd + 1, nd)
            if pad_to:
                for k in range(pad_to + 1):
                    pass
                scaled = v
                for k in range(len(bs) + 1):
                    scaled = z3.If(nd == k, v * (10 ** (pad_to - k)), scaled) if pad_to - k >= 0 else scaled
                return scaled, nd
            return v, nd
        W, _ = digits_value(st['w']); F, nd = digits_value(st['f'], 15)
        def lit(m): return ''.join(chr(m.eval(x, True).as_long()) for x in st['w']) + '.' + ''.join(chr(m.eval(x, True).as_long()) for x in st['f'])
        def report(role, what, extra):
            s.push(); s.add(extra)
            t1 = time.time(); r = s.check(); part.solver_s += time.time() - t1; part.queries += 1
            if r == z3.sat:
                L = lit(s.model()); part.add(role, 'fixed point text %s: %s' % (L, what), {'text': L}, ('fixed_point', (L,)))
            elif r == z3.unknown: part.inconc('solver unknown')
            s.pop()
        if pr.panic: report('C09/K3b/panic', 'FixedPoint::parse panics: ' + pr.panic.msg[:50], z3.BoolVal(True)); return
        res = pr.result
        some_frac_digit = nd != 0
        if res.disc != 0:
            report('C09/K3b/valid-rejected', 'a fixed point number with at most 15 fractional digits is rejected', some_frac_digit); return
        fp = res.f[0]
        report('C09/K3b/value-altered', 'the value read differs from the digits written (underscores are separators only)', z3.Or(tobv(fp.f[1], 64) != W, z3.And(some_frac_digit, tobv(fp.f[2], 64) != F)))
        if len(part.samples) < 1: part.samples.append({'whole_chars': nw, 'fraction_chars': nf})
    M.explore(entry, on_path)
    part.queries += M.stats['smt']; part.encoded = set(M.encoded); part.models = set(M.models_used)
    return part

@replay_factory('fixed_point')
def _replay_fixed_point(L):
    def rp(ctx):
        from fractions import Fraction
        r = ctx.replay({'cmd': 'parse', 'source': KC.program_with_time('T#%ss' % L)})
        if 'panic' in r: return True, r
        clean = L.replace('_', '')
        want_ns = int(Fraction(clean) * 10 ** 9)
        if not r.get('ok'): return True, {'literal': 'T#%ss' % L, 'rejected': r.get('diag')}
        m = re.search(r'interval: Duration \{ seconds: (-?\d+), nanoseconds: (-?\d+)', r['debug'])
        got = int(m.group(1)) * 10 ** 9 + int(m.group(2)) if m else None
        return got != want_ns, {'literal': 'T#%ss' % L, 'parsed_ns': got, 'expected_ns': want_ns}
    return rp

@kernel('K3b dsl.fixed_point_parse')
def k3b(ctx, kr):
    global _CTX
    _CTX = ctx
    jobs = [(1, 3), (2, 4), (3, 2)] + ([(3, 3), (4, 2), (1, 4)] if ctx.tier == 'thorough' else [])      # five and more fraction characters end in solver timeouts (64-bit multiply chains)
    kr.bounds = 'texts W.F with (|W|,|F|) in %s characters, each a symbolic digit or underscore (first character a digit)' % jobs
    for part in par_map(_k3b_job, jobs): merge_part(kr, part)
    P = ctx.program()
    kr.functions = fn_paths(P, getattr(kr, '_enc', set()))
    kr.assumptions = ['str::parse::<u64> by contract; reference: underscores are separators, the fraction is scaled to 15 digits']
    kr.exhaustive = True

KERNELS = [k3a, k3b, k4]

# ---------------------------------------------------------------------------------------------- K2 based integer literal texts
_BASES = {'try_hex': ('16#', 16, '0123456789ABCDEF'), 'try_octal': ('8#', 8, '01234567'), 'try_binary': ('2#', 2, '01'), 'new': ('', 10, '0123456789')}

def _k2_job(job):
    fn, n = job[:2]; sep = len(job) < 3         # a third element (filler digit): long digit strings around the u128 limit = 2 symbolic leading digits + concrete filler digits, no underscores
    ctx = _CTX; part = Part()
    P = ctx.program()
    key = [k for k in P.items if k[0] == 'ironplc-dsl' and re.fullmatch(r'common::<impl at [^>]*>::' + fn, k[1]) and re.search(r'\bInteger\b', P.items[k].header) and 'SignedInteger' not in P.items[k].header]
    if len(key) != 1: part.inconc('Integer::%s: %d candidates' % (fn, len(key))); return part
    prefix, base, alphabet = _BASES[fn]
    M = Machine(P); st = {}
    def entry(M):
        cs = []
        for i in range(n):
            if not sep and i >= 2: cs.append(ord(job[2])); continue
            b = M.fresh_bv('c%d' % i, 8)
            allowed = [b == ord(ch) for ch in alphabet] + ([b == 95] if i > 0 and sep else [])
            M.assume(z3.Or(allowed)); cs.append(b)
        st['c'] = cs
        args = [Ref(Cell(Str([ord(ch) for ch in prefix] + cs)))]
        if fn == 'new': args.append(Agg('SourceSpan', [0, 0, Opaque('file')]))
        return M.call_fn(key[0], args)
    def on_path(M, pr):
        part.paths += 1
        if pr.inconclusive: part.inconc(pr.inconclusive); return
        s = z3.Solver(); s.add(*pr.pc); s.set('timeout', 60000)
        part.nontrivial += 1
        VW = 128 + 8 * n                          # no wrap in the reference value
        v = z3.BitVecVal(0, VW)
        for b in st['c']:
            if isinstance(b, int): v = v * base + int(chr(b), 16); continue
            d = z3.If(z3.ULE(b, 57), z3.ZeroExt(VW - 8, b - 48), z3.ZeroExt(VW - 8, b - 55))
            v = z3.If(b == 95, v, v * base + d) if sep else v * base + d
        fits = z3.ULT(v, z3.BitVecVal(1 << 128, VW))
        def lit(m): return prefix + ''.join(chr(x if isinstance(x, int) else m.eval(x, True).as_long()) for x in st['c'])
        def report(role, what, extra):
            s.push(); s.add(extra)
            t1 = time.time(); r = s.check(); part.solver_s += time.time() - t1; part.queries += 1
            if r == z3.sat:
                L = lit(s.model()); part.add(role, 'integer text %s: %s' % (L, what), {'text': L}, ('based_integer', (L, base)))
            elif r == z3.unknown: part.inconc('solver unknown')
            s.pop()
        if pr.panic: report('C09/K2/panic/' + fn, 'Integer::%s panics: %s' % (fn, pr.panic.msg[:50]), z3.BoolVal(True)); return
        res = pr.result
        if res.disc != 0: report('C09/K2/valid-rejected/' + fn, 'a literal matching the lexer pattern whose value fits 128 bits is rejected', fits); return
        got = [x for x in res.f[0].f if not isinstance(x, (Agg, Opaque))]
        val = res.f[0].f[1] if len(res.f[0].f) > 1 else None
        report('C09/K2/value-altered/' + fn, 'the value read differs from the digits written (underscores are separators only)', z3.ZeroExt(VW - 128, tobv(val, 128)) != v)
        if len(part.samples) < 1: part.samples.append({'constructor': fn, 'chars': n})
        if len(part.validate) < 1:
            r = s.check()
            if r == z3.sat: part.validate.append(('based_integer', (lit(s.model()), base)))
    M.explore(entry, on_path)
    part.queries += M.stats['smt']; part.encoded = set(M.encoded); part.models = set(M.models_used)
    return part

@replay_factory('based_integer')
def _replay_based_integer(L, base):
    def rp(ctx):
        src = 'PROGRAM p\nVAR\n  x : DINT;\nEND_VAR\n  x := %s;\nEND_PROGRAM\n' % L
        r = ctx.replay({'cmd': 'parse', 'source': src})
        if 'panic' in r: return True, r
        body = L.split('#')[-1].replace('_', '')
        want = int(body, base)
        if not r.get('ok'): return True, {'literal': L, 'rejected': r.get('diag')}
        m = re.search(r'Integer \{ span: [^}]*\}, value: (\d+)', r['debug'])
        got = int(m.group(1)) if m else None
        return got != want, {'literal': L, 'parsed': got, 'expected': want}
    return rp

@kernel('K2 dsl.based_integer_texts')
def k2(ctx, kr):
    global _CTX
    _CTX = ctx
    ns = [1, 3] if ctx.tier == 'quick' else [1, 2, 3, 4, 5]
    jobs = [(fn, n) for fn in _BASES for n in ns]
    # around the u128 limit: one digit fewer than / as many as / one more than the longest value that can fit, no separators
    for fn, lim in (('try_hex', 32), ('try_octal', 43), ('try_binary', 128), ('new', 39)):
        jobs += [(fn, k, fill) for k in (lim, lim + 1) for fill in ('0', _BASES[fn][2][-1])]
    kr.bounds = 'Integer::{new, try_hex, try_octal, try_binary} on texts of %s characters after the base prefix, each a symbolic digit of the base or an underscore (first a digit); plus texts of 32/33 hex, 43/44 octal, 128/129 binary, 39/40 decimal digits (the u128 limit): two symbolic leading digits followed by all-zero or all-maximal digits' % ns
    for part in par_map(_k2_job, jobs): merge_part(kr, part)
    P = ctx.program()
    kr.functions = fn_paths(P, getattr(kr, '_enc', set()))
    kr.assumptions = ['str::parse::<u128> / u128::from_str_radix by contract; reference: positional value of the digits with underscores ignored']
    kr.exhaustive = True
    kr.outside = ['digit strings longer than one digit past the u128 limit; separators and arbitrary digits in long digit strings']

# ---------------------------------------------------------------------------------------------- K5 sign of integer literals through the grammar
SIGNED_CTX = {
    'initial_value': ('PROGRAM p\nVAR\n  x : INT := ', ';\nEND_VAR\nEND_PROGRAM\n'),
    'subrange_bound': ('TYPE\n  r : INT(', '..99);\nEND_TYPE\n'),
    'array_bound': ('TYPE\n  ar : ARRAY[', '..99] OF INT;\nEND_TYPE\n'),
    'case_selector': ('FUNCTION_BLOCK fb\nVAR\n  x : INT;\nEND_VAR\n  CASE x OF\n    ', ':\n      x := 1;\n  END_CASE;\nEND_FUNCTION_BLOCK\n'),
}

def _k5_job(job):
    cname, nd = job
    from . import C10 as K10
    ctx = _CTX; part = Part()
    pre, post = SIGNED_CTX[cname]
    P = ctx.program()
    k_parse = P.find_fn('ironplc-parser', 'parse_program')
    k_opt = [k for k in P.items if k[0] == 'ironplc-parser' and re.search(r'ParseOptions as (std::default::)?Default>::default|options::<impl at [^>]*>::default', k[1])]
    holder = {}; st = {}
    M = Machine(P, stubs=K10.dyn_lexer_stubs(ctx, holder), max_steps=400_000_000)
    def entry(M):
        sg = M.fresh_bv('sign', 8); M.assume(z3.Or(sg == 43, sg == 45, sg == 32)); st['sign'] = sg
        ds = []
        for i in range(nd):
            d = M.fresh_bv('d%d' % i, 8); M.assume(z3.And(z3.UGE(d, 48), z3.ULE(d, 57))); ds.append(d)
        st['ds'] = ds
        text = list(pre.encode()) + [sg] + ds + list(post.encode())
        fid = Ref(Cell(Agg('FileId', [Str('f.st')])))
        opts = Ref(Cell(M.call_fn(k_opt[0], []) if k_opt else Agg('ParseOptions', [False])))
        r = M.call_fn(k_parse, [Ref(Cell(Str(text))), fid, opts])
        if r.disc != 0: return None
        nodes = K10.find_nodes(r.f[0], 'SignedInteger')
        return nodes[0] if nodes else 'no-signed-integer'
    def on_path(M, pr):
        part.paths += 1
        if pr.inconclusive: part.inconc('%s: %s' % (cname, pr.inconclusive)); return
        part.nontrivial += 1
        s = z3.Solver(); s.add(*pr.pc)
        sg, ds = st['sign'], st['ds']
        val = z3.BitVecVal(0, 128)
        for d in ds: val = val * 10 + z3.ZeroExt(120, d - 48)
        def lit(m): return (chr(m.eval(sg, True).as_long()) + ''.join(chr(m.eval(d, True).as_long()) for d in ds)).strip()
        def report(role, what, cond):
            s.push(); s.add(cond); part.queries += 1
            if s.check() == z3.sat:
                L = lit(s.model()); src = pre + L + post
                part.add(role, '%s `%s`: %s' % (cname.replace('_', ' '), L, what), {'literal': L, 'source': src}, ('signed_literal', (src, L)))
            s.pop()
        if pr.panic: report('C09/K5/%s/panic' % cname, 'the parser panics: ' + pr.panic.msg[:50], z3.BoolVal(True)); return
        node = pr.result
        if node is None: report('C09/K5/%s/rejected' % cname, 'a signed integer literal is rejected', z3.BoolVal(True)); return
        if node == 'no-signed-integer': part.inconc('%s: no SignedInteger node in the library' % cname); return
        neg = node.f[1]; mag = node.f[0].f[1]
        report('C09/K5/%s/sign-altered' % cname, 'is read with the opposite sign', tobool(neg) != (sg == 45))
        report('C09/K5/%s/value-altered' % cname, 'is read with another magnitude', tobv(mag, 128) != val)
        if len(part.validate) < 1 and s.check() == z3.sat:
            L = lit(s.model()); part.validate.append(('signed_literal', (pre + L + post, L)))
        if len(part.samples) < 1: part.samples.append({'context': cname, 'digits': nd})
    M.explore(entry, on_path)
    part.queries += M.stats['smt']; part.encoded = set(M.encoded); part.models = set(M.models_used)
    return part

@replay_factory('signed_literal')
def _replay_signed_literal(src, L):
    def rp(ctx):
        r = ctx.replay({'cmd': 'parse', 'source': src})
        if 'panic' in r: return True, r
        if not r.get('ok'): return True, {'literal': L, 'rejected': str(r.get('diag'))[:160]}
        m = re.search(r'SignedInteger \{ value: Integer \{ span: [^}]*\}, value: (\d+) \}, is_neg: (true|false)', r['debug'])
        if not m: return None, {'note': 'no SignedInteger in the Debug output'}
        got = (int(m.group(1)), m.group(2) == 'true'); want = (int(L.lstrip('+-')), L.startswith('-'))
        return got != want, {'literal': L, 'parsed (magnitude, negative)': got, 'written': want}
    return rp

@kernel('K5 parser.signed_integer_literals')
def k5(ctx, kr):
    global _CTX
    _CTX = ctx
    kr.bounds = 'an integer literal with a symbolic sign character (+, - or none) and 1..2 symbolic digits as initial value, subrange bound, array bound and CASE selector, through parse_program (lexer lifted on the symbolic text)'
    jobs = [(c, nd) for c in SIGNED_CTX for nd in ((2,) if ctx.tier == 'quick' else (1, 2, 3))]
    for part in par_map(_k5_job, jobs): merge_part(kr, part)
    P = ctx.program()
    kr.functions = fn_paths(P, getattr(kr, '_enc', set()))[:100] + ['ironplc-parser::<TokenType as Logos>::lex (lifted)']
    kr.exhaustive = True
    kr.outside = ['signs in expressions (unary minus: C01-K1), real literals']


# ---------------------------------------------------------------------------------------------- K6 character strings, character by character
STRING_CTX = {
    'variable_initial_value': ('PROGRAM p\nVAR\n  x : STRING := ', ';\nEND_VAR\nEND_PROGRAM\n', 'StringInitializer', 2),
    'expression_constant': ('PROGRAM p\nVAR\n  x : STRING;\nEND_VAR\n  x := ', ';\nEND_PROGRAM\n', 'CharacterStringLiteral', 0),
    'typed_constant': ('PROGRAM p\nVAR\n  x : STRING;\nEND_VAR\n  x := STRING#', ';\nEND_PROGRAM\n', 'CharacterStringLiteral', 0),
}

def _k6_job(job):
    cname, n, quote, multibyte = job
    from . import C10 as K10
    ctx = _CTX; part = Part()
    pre, post, node_name, fidx = STRING_CTX[cname]
    if quote == '"': pre = pre.replace('STRING', 'WSTRING')
    P = ctx.program()
    k_parse = P.find_fn('ironplc-parser', 'parse_program')
    k_opt = [k for k in P.items if k[0] == 'ironplc-parser' and re.search(r'ParseOptions as (std::default::)?Default>::default|options::<impl at [^>]*>::default', k[1])]
    holder = {}; st = {}
    M = Machine(P, stubs=K10.dyn_lexer_stubs(ctx, holder), max_steps=400_000_000)
    q = ord(quote)
    def entry(M):
        bs = []
        for i in range(n):
            b = M.fresh_bv('c%d' % i, 8); bs.append(b)
        if multibyte:
            # one two-byte character (U+0080..U+07FF) followed by ASCII characters
            M.assume(z3.And(z3.UGE(bs[0], 0xC2), z3.ULE(bs[0], 0xDF), z3.UGE(bs[1], 0x80), z3.ULE(bs[1], 0xBF)))
            rest = bs[2:]
        else: rest = bs
        for b in rest: M.assume(z3.And(z3.UGE(b, 0x20), z3.ULE(b, 0x7E), b != q, b != 0x24))      # printable ASCII except the literal's own delimiter and the escape character $
        st['bs'] = bs
        text = list(pre.encode()) + [q] + bs + [q] + list(post.encode())
        fid = Ref(Cell(Agg('FileId', [Str('f.st')])))
        opts = Ref(Cell(M.call_fn(k_opt[0], []) if k_opt else Agg('ParseOptions', [False])))
        r = M.call_fn(k_parse, [Ref(Cell(Str(text))), fid, opts])
        if r.disc != 0: return None
        nodes = K10.find_nodes(r.f[0], node_name)
        if not nodes: return 'no-node'
        v = nodes[0].f[fidx]
        if node_name == 'StringInitializer':
            if v.disc != 1: return 'no-value'
            v = v.f[0]
        return v
    def on_path(M, pr):
        part.paths += 1
        if pr.inconclusive: part.inconc('%s: %s' % (cname, pr.inconclusive)); return
        part.nontrivial += 1
        s = z3.Solver(); s.add(*pr.pc)
        bs = st['bs']
        def lit(m): return bytes(m.eval(b, True).as_long() for b in bs).decode('utf-8', 'replace')
        def report(role, what, cond):
            s.push(); s.add(cond); part.queries += 1
            if s.check() == z3.sat:
                L = lit(s.model()); src = pre + quote + L + quote + post
                part.add(role, '%s %s%s%s: %s' % (cname.replace('_', ' '), quote, L, quote, what), {'literal': L, 'source': src}, ('string_literal', (src, L)))
            s.pop()
        if pr.panic: report('C09/K6/%s/panic' % cname, 'the parser panics: ' + pr.panic.msg[:50], z3.BoolVal(True)); return
        v = pr.result
        if v is None: report('C09/K6/%s/rejected' % cname, 'a character string literal is rejected', z3.BoolVal(True)); return
        if isinstance(v, str): part.inconc('%s: %s in the library' % (cname, v)); return
        chars = v.items if isinstance(v, VecV) else None
        if chars is None: part.inconc('%s: value of the literal is not a character vector (%r)' % (cname, type(v).__name__)); return
        # expected characters
        if multibyte: want = [((z3.ZeroExt(24, bs[0]) & 0x1F) << 6) | (z3.ZeroExt(24, bs[1]) & 0x3F)] + [z3.ZeroExt(24, b) for b in bs[2:]]
        else: want = [z3.ZeroExt(24, b) for b in bs]
        if len(chars) != len(want): report('C09/K6/%s/length-altered' % cname, 'is read as %d characters instead of %d' % (len(chars), len(want)), z3.BoolVal(True)); return
        report('C09/K6/%s/characters-altered' % cname, 'is read with other characters', z3.Or([tobv(c, 32) != w for c, w in zip(chars, want)]))
        if len(part.validate) < 1 and s.check() == z3.sat:
            L = lit(s.model()); part.validate.append(('string_literal', (pre + quote + L + quote + post, L)))
        if len(part.samples) < 1: part.samples.append({'context': cname, 'characters': n, 'quote': quote})
    M.explore(entry, on_path)
    part.queries += M.stats['smt']; part.encoded = set(M.encoded); part.models = set(M.models_used)
    return part

@replay_factory('string_literal')
def _replay_string_literal(src, L):
    def rp(ctx):
        r = ctx.replay({'cmd': 'parse', 'source': src})
        if 'panic' in r: return True, r
        if not r.get('ok'): return True, {'literal': L, 'rejected': str(r.get('diag'))[:160]}
        m = re.search(r'initial_value: Some\(\[(.*?)\]\)', r['debug']) or re.search(r'CharacterStringLiteral \{ value: \[(.*?)\] \}', r['debug'])
        if not m: return None, {'note': 'no string value in the Debug output'}
        import ast
        got = ''.join(ast.literal_eval('"' + c[1:-1].replace('"', '\\"').replace("\\'", "'").replace('\\u{', '\\N{U+') + '"') if not c.startswith("'\\u{") else chr(int(c[4:-2], 16)) for c in re.findall(r"'(?:\\.[^']*|[^'\\])'", m.group(1)))
        return got != L, {'literal': L, 'parsed': got}
    return rp

@kernel('K6 parser.character_string_literals')
def k6(ctx, kr):
    global _CTX
    _CTX = ctx
    kr.bounds = ('a character string literal of 1..3 symbolic characters (printable ASCII except the own delimiter and $; thorough: also one two-byte character first) in single and double quotes as variable initial value, '
                 'as constant in an expression and with the STRING# / WSTRING# prefix, through parse_program (lexer lifted on the symbolic text): the value has exactly the characters written between the quotes')
    ns = (2,) if ctx.tier == 'quick' else (1, 2, 3)
    jobs = [(c, n, q, False) for c in STRING_CTX for n in ns for q in ("'", '"')]
    jobs += [('variable_initial_value', 3, "'", True)] + ([(c, 3, q, True) for c in STRING_CTX for q in ("'", '"')] if ctx.tier != 'quick' else [])
    for part in par_map(_k6_job, jobs): merge_part(kr, part)
    P = ctx.program()
    kr.functions = fn_paths(P, getattr(kr, '_enc', set()))[:100] + ['ironplc-parser::<TokenType as Logos>::lex (lifted)']
    kr.exhaustive = True
    kr.outside = ['$ escapes; characters outside printable ASCII and U+0080..U+07FF; strings longer than 3 characters']


# ---------------------------------------------------------------------------------------------- K7 duration units: exact sum of whole part and fraction
UNIT_SECONDS = {'days': 86400, 'hours': 3600, 'minutes': 60, 'seconds': 1}

def _k7_job(job):
    unit, nfrac = job
    ctx = _CTX; part = Part()
    P = ctx.program(['ironplc-dsl'])
    cands = [k for k in P.items if k[0] == 'ironplc-dsl' and re.fullmatch(r'time::<impl at [^>]*>::%s' % unit, k[1])]
    if len(cands) != 1: part.inconc('DurationLiteral::%s: %d candidates' % (unit, len(cands))); return part
    key = cands[0]
    M = Machine(P, max_steps=5_000_000, arith=True); st = {}          # path feasibility by the integer-blasting solver: the path conditions are overflow checks of multiplications by constants
    def entry(M):
        # narrow variables, zero-extended: the solver sees the constant-zero high bits, which keeps multiply / divide by constants cheap to bit-blast
        w10 = M.fresh_bv('whole', 10); M.assume(z3.ULT(w10, 1000)); whole = z3.ZeroExt(54, w10)
        # fraction with nfrac decimal digits: femptos = k * 10^(15 - nfrac)
        kb = (10 ** nfrac).bit_length()
        kn = M.fresh_bv('frac', kb); M.assume(z3.ULT(kn, 10 ** nfrac)); k = z3.ZeroExt(64 - kb, kn)
        femptos = k * (10 ** (15 - nfrac))
        st['whole'] = whole; st['k'] = k
        fp = Agg('FixedPoint', [Agg('SourceSpan', [0, 0, Agg('FileId', [Str('')])]), whole, femptos])
        return M.call_fn(key, [fp])
    def on_path(M, pr):
        part.paths += 1
        if pr.inconclusive: part.inconc('%s: %s' % (unit, pr.inconclusive)); return
        part.nontrivial += 1
        s = z3.Solver(); s.add(*pr.pc); s.set('timeout', 120000)
        whole, k = st['whole'], st['k']
        def lit(m):
            w = m.eval(whole, True).as_long(); f = m.eval(k, True).as_long()
            return 'T#%d.%0*d%s' % (w, nfrac, f, {'days': 'd', 'hours': 'h', 'minutes': 'm', 'seconds': 's', 'milliseconds': 'ms'}[unit])
        def report(role, what, cond):
            import framework
            part.queries += 1
            t0 = time.time(); r, m, eng = framework.check_arith(list(pr.pc) + [cond]); part.solver_s += time.time() - t0
            if eng not in part.notes: part.notes.append(eng)
            if r == z3.unknown: part.inconc('solver unknown (%s)' % unit)
            if r == z3.sat:
                L = lit(m)
                w = m.eval(whole, True).as_long(); f = m.eval(k, True).as_long()
                want_ns = (w * 10 ** nfrac + f) * (UNIT_SECONDS[unit] * 10 ** 9 if unit != 'milliseconds' else 10 ** 6) // 10 ** nfrac
                part.add(role, 'duration %s: %s (IEC value %d ns)' % (L, what, want_ns), {'literal': L, 'value_ns': str(want_ns)}, ('duration_value', (L, want_ns)))
        if pr.panic: report('C09/K7/%s/panic' % unit, 'the constructor panics: ' + pr.panic.msg[:60], z3.BoolVal(True)); return
        d = pr.result                                   # DurationLiteral { span, interval: time::Duration [ns] }
        iv = d.f[1]; ns = tobv(iv.f[0], 128)
        # reference in 128 bits: (whole * 10^nfrac + k) * unit_ns / 10^nfrac, exact because unit_ns * 10^-nfrac is integral for nfrac <= 3 .. 9
        unit_ns = UNIT_SECONDS[unit] * 10 ** 9 if unit != 'milliseconds' else 10 ** 6
        tot = z3.ZeroExt(64, whole) * (10 ** nfrac) + z3.ZeroExt(64, k)
        # ns = tot * unit_ns / 10^nfrac, stated without a division (unit_ns is a multiple of 10^nfrac for the digit counts used; no 128-bit wrap: ns < 2^57)
        wrong = ns * (10 ** nfrac) != tot * unit_ns
        report('C09/K7/%s/fraction-value' % unit, 'is read as another value', z3.And(wrong, k != 0))
        report('C09/K7/%s/whole-value' % unit, 'is read as another value', z3.And(wrong, k == 0))
        if len(part.validate) < 1 and not part.findings and s.check() == z3.sat:
            m = s.model(); w = m.eval(whole, True).as_long(); f = m.eval(k, True).as_long()
            part.validate.append(('duration_value', (lit(m), (w * 10 ** nfrac + f) * unit_ns // 10 ** nfrac)))
        if len(part.samples) < 1: part.samples.append({'unit': unit, 'fraction_digits': nfrac})
    M.explore(entry, on_path)
    part.queries += M.stats['smt']; part.encoded = set(M.encoded); part.models = set(M.models_used)
    return part
UNIT_SECONDS['milliseconds'] = None

@replay_factory('duration_value')
def _replay_duration_value(L, want_ns):
    def rp(ctx):
        r = ctx.replay({'cmd': 'parse', 'source': KC.program_with_time(L)})
        if 'panic' in r: return True, r
        if not r.get('ok'): return None, {'literal': L, 'rejected': str(r.get('diag'))[:160]}
        m = re.search(r'interval: Duration \{ seconds: (-?\d+), nanoseconds: (-?\d+)', r['debug'])
        if not m: return None, {'note': 'no Duration in the Debug output'}
        got = int(m.group(1)) * 10 ** 9 + int(m.group(2))
        return got != want_ns, {'literal': L, 'parsed_ns': got, 'iec_value_ns': want_ns}
    return rp

@kernel('K7 dsl.duration_unit_exactness')
def k7(ctx, kr):
    global _CTX
    _CTX = ctx
    fr = (1, 3) if ctx.tier == 'quick' else (1, 2, 3, 6)
    kr.bounds = ('DurationLiteral::{days, hours, minutes, seconds, milliseconds} on every FixedPoint with whole part < 1000 and a fraction of %s decimal digits, and of 10 digits for days / hours / minutes (all digits symbolic): '
                 'the interval is exactly (whole + fraction) x unit in nanoseconds' % (list(fr),))
    # ten fraction digits for the units whose nanosecond value is still integral then (a day is 8640 ns per 10^-10, an hour 360, a minute 6)
    for part in par_map(_k7_job, [(u, n) for u in UNIT_SECONDS for n in fr] + [(u, 10) for u in ('days', 'hours', 'minutes')]): merge_part(kr, part)
    P = ctx.program(['ironplc-dsl'])
    kr.functions = fn_paths(P, getattr(kr, '_enc', set()))
    kr.exhaustive = True
    kr.outside = ['whole parts >= 1000 (range of time::Duration: C04-K2, K3a); fractions with more than %d digits' % max(fr)]


# ---------------------------------------------------------------------------------------------- K8 direct addresses, component by component
def _k8_job(job):
    ndig, with_size = job; ncomp = len(ndig)
    from . import C10 as K10
    ctx = _CTX; part = Part()
    pre = 'PROGRAM p\nVAR\n  v AT '; post = ' : BOOL;\nEND_VAR\nEND_PROGRAM\n'
    P = ctx.program()
    k_parse = P.find_fn('ironplc-parser', 'parse_program')
    k_opt = [k for k in P.items if k[0] == 'ironplc-parser' and re.search(r'ParseOptions as (std::default::)?Default>::default|options::<impl at [^>]*>::default', k[1])]
    LOC = P.enums.get('LocationPrefix'); SIZE = P.enums.get('SizePrefix')
    if not LOC or not SIZE: part.inconc('LocationPrefix / SizePrefix not found'); return part
    holder = {}; st = {}
    M = Machine(P, stubs=K10.dyn_lexer_stubs(ctx, holder), max_steps=400_000_000)
    def entry(M):
        loc = M.fresh_bv('loc', 8); M.assume(z3.Or([loc == ord(c) for c in 'IQM']))
        bs = [37, loc]
        size = None
        if with_size:
            size = M.fresh_bv('size', 8); M.assume(z3.Or([size == ord(c) for c in 'XBWDL'])); bs.append(size)
        ds = []
        for i in range(ncomp):
            if i: bs.append(46)
            comp = []
            for j in range(ndig[i]):
                d = M.fresh_bv('d%d_%d' % (i, j), 8); M.assume(z3.And(z3.UGE(d, 48), z3.ULE(d, 57))); comp.append(d); bs.append(d)
            v = z3.BitVecVal(0, 32)
            for d in comp: v = v * 10 + z3.ZeroExt(24, d - 48)
            ds.append(v)
        st['bs'] = bs; st['loc'] = loc; st['size'] = size; st['ds'] = ds
        text = list(pre.encode()) + bs + list(post.encode())
        fid = Ref(Cell(Agg('FileId', [Str('f.st')])))
        opts = Ref(Cell(M.call_fn(k_opt[0], []) if k_opt else Agg('ParseOptions', [False])))
        r = M.call_fn(k_parse, [Ref(Cell(Str(text))), fid, opts])
        if r.disc != 0: return None
        nodes = K10.find_nodes(r.f[0], 'AddressAssignment')
        return nodes[0] if nodes else 'no-node'
    def on_path(M, pr):
        part.paths += 1
        if pr.inconclusive: part.inconc(pr.inconclusive); return
        part.nontrivial += 1
        s = z3.Solver(); s.add(*pr.pc)
        def lit(m): return bytes(x if isinstance(x, int) else m.eval(x, True).as_long() for x in st['bs']).decode()
        def report(role, what, cond):
            s.push(); s.add(cond); part.queries += 1
            if s.check() == z3.sat:
                L = lit(s.model()); part.add(role, 'direct address %s: %s' % (L, what), {'literal': L, 'source': pre + L + post}, ('address_value', (L,)))
            s.pop()
        if pr.panic: report('C09/K8/panic', 'the parser panics: ' + pr.panic.msg[:50], z3.BoolVal(True)); return
        node = pr.result
        if node is None: report('C09/K8/rejected', 'a well-formed direct address is rejected', z3.BoolVal(True)); return
        if node == 'no-node': part.inconc('no AddressAssignment node in the library'); return
        locv, sizev, addr = node.f[0], node.f[1], node.f[2]
        ld = locv.disc; sd = sizev.disc
        want_loc = z3.BitVecVal(0, 8)
        for nm in 'IQM': want_loc = z3.If(st['loc'] == ord(nm), z3.BitVecVal(LOC.index(nm), 8), want_loc)
        report('C09/K8/location-altered', 'is read with another location prefix', tobv(ld, 8) != want_loc if is_sym(ld) else z3.BitVecVal(ld, 8) != want_loc)
        if with_size:
            want_size = z3.BitVecVal(0, 8)
            for nm in 'XBWDL': want_size = z3.If(st['size'] == ord(nm), z3.BitVecVal(SIZE.index(nm), 8), want_size)
        else: want_size = z3.BitVecVal(SIZE.index('Nil'), 8)
        report('C09/K8/size-altered', 'is read with another size prefix', (tobv(sd, 8) if is_sym(sd) else z3.BitVecVal(sd, 8)) != want_size)
        items = addr.items if isinstance(addr, VecV) else None
        if items is None or len(items) != ncomp: report('C09/K8/components-altered', 'is read with %s components instead of %d' % (len(items) if items is not None else '?', ncomp), z3.BoolVal(True)); return
        report('C09/K8/components-altered', 'is read with other component values', z3.Or([tobv(c, 32) != d for c, d in zip(items, st['ds'])]))
        if len(part.validate) < 1 and not part.findings and s.check() == z3.sat: part.validate.append(('address_value', (lit(s.model()),)))
        if len(part.samples) < 1: part.samples.append({'digits_per_component': list(ndig), 'size_prefix': with_size})
    M.explore(entry, on_path)
    part.queries += M.stats['smt']; part.encoded = set(M.encoded); part.models = set(M.models_used)
    return part

@replay_factory('address_value')
def _replay_address_value(L):
    def rp(ctx):
        src = 'PROGRAM p\nVAR\n  v AT %s : BOOL;\nEND_VAR\nEND_PROGRAM\n' % L
        r = ctx.replay({'cmd': 'render', 'source': src})
        if 'panic' in r: return True, r
        if not r.get('ok'): return True, {'literal': L, 'rejected': str(r.get('diag'))[:160]}
        # AddressAssignment's Debug omits the components: read them from the rendered text
        m = re.search(r'AT\s+(%\S+)', r.get('text', ''))
        def norm(a):
            mm = re.fullmatch(r'%([IQM])([XBWDL]?)([0-9.]+)', a)
            return (mm.group(1), mm.group(2), [int(x) for x in mm.group(3).split('.')]) if mm else None
        return (m is None or norm(m.group(1)) != norm(L)), {'literal': L, 'rendered': m.group(1) if m else None}
    return rp

@kernel('K8 parser.direct_addresses')
def k8(ctx, kr):
    global _CTX
    _CTX = ctx
    shapes = [(1,), (2,), (1, 1), (1, 2), (2, 1), (1, 1, 1), (1, 1, 2), (3, 2)]
    kr.bounds = 'direct addresses %%<I|Q|M>[X|B|W|D|L] followed by components of %s symbolic digits, separated by dots, with symbolic prefix letters, in a located variable declaration, through parse_program (lexer lifted on the symbolic text): location, size and the value of every component as written' % shapes
    for part in par_map(_k8_job, [(sh, ws) for sh in shapes for ws in (True, False)]): merge_part(kr, part)
    P = ctx.program()
    kr.functions = fn_paths(P, getattr(kr, '_enc', set()))[:100] + ['ironplc-parser::<TokenType as Logos>::lex (lifted)']
    kr.assumptions = ['regex::Regex by contract (as C04-K4)']
    kr.exhaustive = True
    kr.outside = ['components of more than three digits (range of u32: C04-K4); lower-case prefixes']

# ---------------------------------------------------------------------------------------------- K9 a table of literal spellings and the value IEC 61131-3 assigns them
def _ns(d=0, h=0, m=0, s=0, ms=0): return ((((d * 24 + h) * 60 + m) * 60 + s) * 1000 + ms) * 10 ** 6
LITERAL_TABLE = [
    # (declared type, spelling, expected): ('real', value) | ('bits', value) | ('bool', value) | ('dur', nanoseconds) | ('date', (y, m, d)) | ('tod', (h, m, s)) | ('dt', (y, mo, d, h, mi, s)) | ('int', magnitude, negative) | ('reject',)
    ('REAL', '1.0', ('real', 1.0)), ('REAL', '0.25', ('real', 0.25)), ('REAL', '1.0E1', ('real', 10.0)), ('REAL', '1.0e1', ('real', 10.0)), ('REAL', '1.0E+1', ('real', 10.0)), ('REAL', '2.5E-1', ('real', 0.25)), ('REAL', '1_0.5', ('real', 10.5)),
    ('REAL', '-1.5', ('real', -1.5)), ('REAL', '+1.5', ('real', 1.5)), ('REAL', '1.5E10', ('real', 1.5e10)), ('REAL', 'REAL#1.5', ('real', 1.5)), ('LREAL', 'LREAL#-2.5', ('real', -2.5)), ('REAL', '1.0E2', ('real', 100.0)),
    ('BYTE', 'BYTE#16#FF', ('bits', 255)), ('WORD', 'WORD#2#1010', ('bits', 10)), ('BYTE', 'BYTE#255', ('bits', 255)), ('DWORD', 'DWORD#8#17', ('bits', 15)), ('LWORD', 'LWORD#16#FFFF_FFFF', ('bits', 4294967295)),
    ('BOOL', 'BOOL#1', ('bool', True)), ('BOOL', 'BOOL#0', ('bool', False)), ('BOOL', 'BOOL#TRUE', ('bool', True)), ('BOOL', 'BOOL#FALSE', ('bool', False)), ('BOOL', 'TRUE', ('bool', True)), ('BOOL', 'FALSE', ('bool', False)),
    ('TIME', 'T#-1s', ('dur', -_ns(s=1))), ('TIME', 't#5ms', ('dur', _ns(ms=5))), ('TIME', 'T#1.5h', ('dur', _ns(m=90))), ('TIME', 'T#25h', ('dur', _ns(h=25))), ('TIME', 'T#90m', ('dur', _ns(m=90))), ('TIME', 'TIME#2d', ('dur', _ns(d=2))), ('TIME', 'T#-1.5s', ('dur', -_ns(ms=1500))),
    ('TIME', 'T#+5s', ('reject',)), ('TIME', 'TIME#+1.5h', ('reject',)),       # B.1.2.3.1: the only sign a duration takes is '-'
    ('TIME', 'T#1h2m3s4ms', ('dur', _ns(h=1, m=2, s=3, ms=4))), ('TIME', 'T#1d2h', ('dur', _ns(d=1, h=2))), ('TIME', 'TIME#1m30s', ('dur', _ns(m=1, s=30))), ('TIME', 'T#1h_30m', ('dur', _ns(h=1, m=30))),
    ('DATE', 'D#2020-02-29', ('date', (2020, 2, 29))), ('DATE', 'D#2021-02-29', ('reject',)), ('DATE', 'D#2020-13-01', ('reject',)), ('DATE', 'D#2020-04-31', ('reject',)), ('DATE', 'DATE#1999-12-31', ('date', (1999, 12, 31))),
    ('DATE', 'D#2000-02-29', ('date', (2000, 2, 29))), ('DATE', 'D#1900-02-29', ('reject',)), ('DATE', 'D#2020-00-10', ('reject',)), ('DATE', 'D#2020-01-00', ('reject',)),
    ('TOD', 'TOD#23:59:59', ('tod', (23, 59, 59))), ('TOD', 'TOD#24:00:00', ('reject',)), ('TOD', 'TOD#00:60:00', ('reject',)), ('TOD', 'TOD#00:00:60', ('reject',)), ('TOD', 'TIME_OF_DAY#12:00:00', ('tod', (12, 0, 0))),
    ('DT', 'DT#2020-02-29-23:59:59', ('dt', (2020, 2, 29, 23, 59, 59))), ('DT', 'DATE_AND_TIME#2021-12-31-00:00:00', ('dt', (2021, 12, 31, 0, 0, 0))), ('DT', 'DT#2021-02-29-00:00:00', ('reject',)), ('DT', 'DT#2021-01-01-24:00:00', ('reject',)),
    ('INT', '1_000', ('int', 1000, False)), ('INT', '0010', ('int', 10, False)), ('INT', 'INT#-5', ('int', 5, True)), ('DINT', 'DINT#16#10', ('int', 16, False)), ('INT', '+7', ('int', 7, False)),
    ('LINT', '170141183460469231731687303715884105727', ('int', 170141183460469231731687303715884105727, False)), ('LINT', '340282366920938463463374607431768211455', ('int', 340282366920938463463374607431768211455, False)),
    ('LINT', '340282366920938463463374607431768211456', ('reject',)), ('INT', '16#1_F', ('int', 31, False)), ('INT', '2#1111_0000', ('int', 240, False)),
]

def _k9_job(job):
    idxs = job
    from . import C10 as K10
    ctx = _CTX; part = Part()
    P = ctx.program()
    k_parse = P.find_fn('ironplc-parser', 'parse_program')
    k_opt = [k for k in P.items if k[0] == 'ironplc-parser' and re.search(r'ParseOptions as (std::default::)?Default>::default|options::<impl at [^>]*>::default', k[1])]
    st = {}
    M = Machine(P, stubs=K10.dyn_lexer_stubs(ctx, {}), max_steps=400_000_000)
    def entry(M):
        v = M.fresh_bv('entry', 16); M.declare_domain(v, list(idxs))
        i = idxs[-1]
        for val in idxs[:-1]:
            if M.branch(v == val): i = val; break
        st['i'] = i
        ty, lit, exp = LITERAL_TABLE[i]
        text = 'PROGRAM p\nVAR\n  x : %s := %s;\nEND_VAR\nEND_PROGRAM\n' % (ty, lit); st['src'] = text
        fid = Ref(Cell(Agg('FileId', [Str('f.st')])))
        opts = Ref(Cell(M.call_fn(k_opt[0], []) if k_opt else Agg('ParseOptions', [False])))
        r = M.call_fn(k_parse, [Ref(Cell(Str(text))), fid, opts])
        if r.disc != 0: return ('rejected',)
        lib = r.f[0]
        def one(name):
            ns = K10.find_nodes(lib, name); return ns[0] if ns else None
        kind = exp[0]
        if kind == 'real':
            n = one('RealLiteral')
            if n is None: return ('other',)
            v = n.f[0]
            if isinstance(v, Opaque) and isinstance(v.tag, tuple) and v.tag[0] == 'float': v = v.tag[1]
            return ('real', v)
        if kind == 'bits':
            n = one('BitStringLiteral'); return ('bits', simp(n.f[0].f[1])) if n is not None else ('other',)
        if kind == 'bool':
            n = one('BooleanLiteral'); return ('bool', simp(n.f[0].disc) == P.enums['Boolean'].index('True')) if n is not None else ('other',)
        if kind == 'dur':
            n = one('DurationLiteral'); return ('dur', simp(n.f[1].f[0])) if n is not None else ('other',)
        if kind == 'date':
            n = one('DateLiteral'); return ('date', tuple(simp(x) for x in n.f[0].f[:3])) if n is not None else ('other',)
        if kind == 'tod':
            n = one('TimeOfDayLiteral'); return ('tod', tuple(simp(x) for x in n.f[0].f[:3])) if n is not None else ('other',)
        if kind == 'dt':
            n = one('DateAndTimeLiteral'); return ('dt', tuple(simp(x) for x in list(n.f[0].f[0].f[:3]) + list(n.f[0].f[1].f[:3]))) if n is not None else ('other',)
        if kind == 'int':
            n = one('SignedInteger'); return ('int', simp(n.f[0].f[1]), bool(simp(n.f[1]))) if n is not None else ('other',)
        return ('accepted',)
    def on_path(M, pr):
        part.paths += 1
        i = st.get('i'); ty, lit, exp = LITERAL_TABLE[i]; src = st.get('src')
        if pr.inconclusive: part.inconc('%s: %s' % (lit, pr.inconclusive)); return
        part.nontrivial += 1
        role = re.sub(r'[^A-Za-z0-9#.+_-]+', '_', lit)
        rep = ('literal_table', (i,))
        if pr.panic: part.add('C09/K9/%s/panic' % role, 'literal %s: the parser panics: %s' % (lit, pr.panic.msg[:50]), {'source': src}, rep); return
        got = pr.result
        if exp[0] == 'reject':
            if got[0] != 'rejected': part.add('C09/K9/%s/accepted' % role, 'literal %s has no value (a field is out of range) but is accepted as %s' % (lit, got,), {'source': src}, rep)
        elif got[0] == 'rejected': part.add('C09/K9/%s/rejected' % role, 'literal %s denotes %s but is rejected' % (lit, exp[1:]), {'source': src}, rep)
        elif tuple(got) != tuple(exp): part.add('C09/K9/%s/value' % role, 'literal %s denotes %s but is read as %s' % (lit, exp, got), {'source': src}, rep)
        elif len(part.validate) < 1: part.validate.append(rep)
        if len(part.samples) < 1: part.samples.append({'literal': lit, 'read_as': str(got)})
    M.explore(entry, on_path)
    part.queries += M.stats['smt']; part.encoded = set(M.encoded); part.models = set(M.models_used)
    return part

@replay_factory('literal_table')
def _replay_literal_table(i):
    def rp(ctx):
        ty, lit, exp = LITERAL_TABLE[i]
        src = 'PROGRAM p\nVAR\n  x : %s := %s;\nEND_VAR\nEND_PROGRAM\n' % (ty, lit)
        r = ctx.replay({'cmd': 'parse', 'source': src})
        if 'panic' in r: return True, r
        if not r.get('ok'): return exp[0] != 'reject', {'literal': lit, 'result': 'rejected', 'expected': str(exp)}
        if exp[0] == 'reject': return True, {'literal': lit, 'result': 'accepted', 'expected': 'rejected'}
        d = r['debug']; got = None
        m = {'real': r'RealLiteral \{ value: ([-0-9.e+]+)', 'bits': r'BitStringLiteral \{ value: Integer \{ span: [^}]*\}, value: (\d+)', 'bool': r'BooleanLiteral \{ value: (True|False)',
             'dur': r'interval: Duration \{ seconds: (-?\d+), nanoseconds: (-?\d+)', 'date': r'DateLiteral \{ value: (-?\d+)-(\d+)-(\d+)', 'tod': r'TimeOfDayLiteral \{ value: (\d+):(\d+):(\d+)',
             'dt': r'DateAndTimeLiteral \{ value: (-?\d+)-(\d+)-(\d+) (\d+):(\d+):(\d+)', 'int': r'SignedInteger \{ value: Integer \{ span: [^}]*\}, value: (\d+) \}, is_neg: (true|false)'}[exp[0]]
        mm = re.search(m, d)
        if not mm: return True, {'literal': lit, 'result': 'no %s literal in the library' % exp[0]}
        if exp[0] == 'real': got = ('real', float(mm.group(1)))
        elif exp[0] == 'bits': got = ('bits', int(mm.group(1)))
        elif exp[0] == 'bool': got = ('bool', mm.group(1) == 'True')
        elif exp[0] == 'dur': got = ('dur', int(mm.group(1)) * 10 ** 9 + int(mm.group(2)))
        elif exp[0] == 'int': got = ('int', int(mm.group(1)), mm.group(2) == 'true')
        else: got = (exp[0], tuple(int(x) for x in mm.groups()))
        return tuple(got) != tuple(exp), {'literal': lit, 'read_as': str(got), 'expected': str(exp)}
    return rp

@kernel('K9 parser.literal_value_table')
def k9(ctx, kr):
    global _CTX
    _CTX = ctx
    n = len(LITERAL_TABLE)
    kr.bounds = ('%d literal spellings (reals with exponents and signs, typed bit strings, booleans, durations with one and several units, dates incl. leap years and out-of-range fields, times of day, date-and-times, integers with underscores, '
                 'leading zeros, type prefixes and the u128 limit), the table entry a symbolic selector: parse_program on the MIR reads each as the value IEC 61131-3 assigns it, or rejects it when it has none' % n)
    chunks = [list(range(n))[i::14] for i in range(14)]
    for part in par_map(_k9_job, [c for c in chunks if c]): merge_part(kr, part)
    P = ctx.program()
    kr.functions = fn_paths(P, getattr(kr, '_enc', set()))[:120]
    kr.stubs = ['f64::from_str evaluated natively on concrete text (floating point is not encoded symbolically)']
    kr.exhaustive = True
    kr.outside = ['spellings not in the table (symbolic digit strings: K2-K8)']

KERNELS = [k3a, k2, k3b, k4, k5, k6, k7, k8, k9]
