"""C12 — the language server answers every request once and survives any message sequence."""
import time, json, re
import z3
from framework import kernel, Finding, fn_paths, Part, par_map, merge_part, replay_factory
from mirsym.machine import *
from mirsym.mirread import Unsupported
from mirsym import models
from . import lspcommon as LSP

CR = ['ironplcc', 'ironplc-dsl', 'ironplc-parser', 'ironplc-analyzer']

def _server(P, env):
    proj = Agg('LspProject', [Opaque('wrapped project')])
    return Ref(Cell(Agg('LspServer', [Ref(Cell(Opaque('sender'))), proj])))

def _msgs_in(M, env, v):
    out = []
    for m in env.sent:
        m = M.deref(m)
        out.append(m)
    return out

# ---------------------------------------------------------------------------------------------- K1 every request answered exactly once
@kernel('K1 lsp.request_answered_once')
def k1(ctx, kr):
    P = ctx.program(CR)
    key = P.find_fn('ironplcc', 'handle_request')
    env = LSP.Env(P)
    st = {}
    def st_tokenize(M, fr, callee, a):
        if M.branch(M.fresh_bool('tokenize_ok')): return ok(VecV([]))
        return err(VecV([]))
    stubs = env.stubs(); stubs[r'^lsp_project::LspProject::tokenize$'] = st_tokenize
    M = Machine(P, stubs=stubs)
    def entry(M):
        env.sent.clear(); env.json_ok.clear()
        meth, v, ids = LSP.sym_method(M, 'method', list(LSP.REQ_METHODS))
        st['v'] = v; st['ids'] = ids; st['meth'] = meth
        ub = M.fresh_bool('uri_has_file_scheme'); st['ub'] = ub
        st['uri'] = 'file:///d.st' if M.branch(ub) else 'untitled:Untitled-1'
        env.params['SemanticTokensFullRequest'] = lambda: LSP.mkstruct(P, 'SemanticTokensParams', text_document=LSP.mkstruct(P, 'TextDocumentIdentifier', uri=Agg('Url', [Str(st['uri'])])))
        env.params['Shutdown'] = UNIT
        req = LSP.mkstruct(P, 'Request', id=Agg('RequestId', [7]), method=meth, params=Opaque('json'))
        return M.call_fn(key, [_new_lsp_server(M, P), req])
    def on_path(M, pr):
        kr.paths += 1
        if pr.inconclusive: kr.inconc(pr.inconclusive); return
        s = z3.Solver(); s.add(*pr.pc); kr.queries += 1
        if s.check() != z3.sat: return
        m = s.model(); kr.nontrivial += 1
        val = m.eval(st['v'], True).as_long()
        mname = [LSP.REQ_METHODS[t] for t, i in st['ids'].items() if i.as_long() == val]
        other = None
        if not mname:
            other = ''.join(chr(x if isinstance(x, int) else m.eval(x, True).as_long()) for x in st['meth'].b)      # the unknown method name of this path
        mname = mname[0] if mname else 'some/otherMethod'
        jsonbad = [t for t, b in env.json_ok.items() if not z3.is_true(m.eval(b, True))]
        if mname == 'shutdown': return            # intercepted by run() before handle_request; answered by handle_shutdown (K3)
        wit = {'method': mname, 'params_deserialise': not jsonbad, 'uri': st['uri']}
        nonfile = st['uri'] if not st['uri'].startswith('file:') else None
        if pr.panic:
            role = 'C12/K1/panic/malformed-params' if jsonbad else 'C12/K1/panic/' + mname
            _add(kr, role, 'the server panics on a request for %s%s: %s' % (mname, ' whose params do not deserialise' if jsonbad else '', pr.panic.msg[:80]), wit, ('lsp_request', (mname, bool(jsonbad)))); return
        resp = [x for x in _msgs_in(M, env, None) if isinstance(x, EnumV) and x.name == 'Message' and x.disc == 1]
        ids = [simp(r.f[0].f[0].f[0]) for r in resp]
        if len(resp) != 1 or ids != [7]:
            role = 'C12/K1/unanswered/unknown-method' if mname == 'some/otherMethod' else 'C12/K1/responses/%s/%d%s' % (mname, len(resp), '/non-file-uri' if nonfile else '')
            if other is not None: wit['method'] = other
            _add(kr, role, 'a request for method %s (document %s) gets %d responses (ids %s) instead of exactly one with its id' % (other or mname, st['uri'], len(resp), ids), wit, ('lsp_request', (other or mname, False, nonfile)))
        elif len(kr.validate) < 2: kr.validate.append(('lsp_request', (mname, False)))
        if len(kr.samples) < 4: kr.samples.append({'request': wit, 'responses': len(resp)})
    M.explore(entry, on_path)
    kr.queries += M.stats['smt']
    kr.functions = fn_paths(P, M.encoded); kr.models = sorted(M.models_used)
    kr.stubs = ['lsp_server::Request::extract by contract (MethodMismatch iff method differs, else Ok or JsonError)', 'LspProject::tokenize -> arbitrary Ok/Err', 'crossbeam Sender::send records the message',
                '<T as Request>::METHOD constants are pairwise distinct strings (LSP specification)', 'logging disabled']
    kr.bounds = 'one arbitrary Request {id, method symbolic over the known METHOD constants or any other string, params deserialise or not, document URI with the file scheme or another scheme}; one step of handle_request'
    kr.exhaustive = True

def _add(kr, role, what, wit, replay):
    if any(f.role == role for f in kr.findings): return
    from framework import REPLAYS
    kr.findings.append(Finding(role, what, wit, replay=REPLAYS[replay[0]](*replay[1]) if replay else None))

@replay_factory('lsp_request')
def _replay_request(method, malformed, uri=None):
    def rp(ctx):
        doc = uri or 'file:///tmp/verif_c12.st'
        import lspclient
        s = lspclient.LspSession(ctx.ironplcc_path())
        try:
            s.initialize()
            s.did_open('file:///tmp/verif_c12.st', 'PROGRAM p\nEND_PROGRAM\n', 1); s.diagnostics_for('file:///tmp/verif_c12.st', timeout=10)
            m = 'textDocument/hover' if method == 'some/otherMethod' else method
            params = {'bogus': 1} if malformed else ({'textDocument': {'uri': doc}, 'position': {'line': 0, 'character': 0}} if 'hover' in m else {'textDocument': {'uri': doc}})
            rid = s.request(m, params)
            r = s.wait_for(lambda x: x.get('id') == rid, timeout=3)
            extra = [x for x in s.drain(0.3) if x.get('id') == rid]
            alive = s.p.poll() is None
            # liveness probe: a later well-formed request must still be answered
            rid2 = s.request('textDocument/semanticTokens/full', {'textDocument': {'uri': 'file:///tmp/verif_c12.st'}})
            r2 = s.wait_for(lambda x: x.get('id') == rid2, timeout=3)
        finally:
            rc = s.close()
        bad = (r is None) or bool(extra) or (r2 is None)
        det = {'method': m, 'malformed_params': malformed, 'answered': r is not None, 'extra_responses': len(extra), 'server_alive_after': alive, 'later_request_answered': r2 is not None}
        if bad: return bad, det
        # the answer of the server quotes the request: long requests with multi-byte characters at every byte offset parity (a slip that cuts or slices the quoted text shows here)
        for mlong, plong in ((m + '/' + 'ä' * 150, params), (m + '/x' + 'ä' * 150, params), (m, {'bogus': 'é' * 300}), (m, {'bogusx': 'é' * 300})):
            s2 = lspclient.LspSession(ctx.ironplcc_path())
            try:
                s2.initialize()
                rid = s2.request(mlong, plong)
                ra = s2.wait_for(lambda x: x.get('id') == rid, timeout=3)
                rid3 = s2.request('textDocument/semanticTokens/full', {'textDocument': {'uri': 'file:///tmp/verif_c12.st'}})
                rb = s2.wait_for(lambda x: x.get('id') == rid3, timeout=3)
            finally:
                s2.close()
            if ra is None or rb is None:
                return True, {'method': mlong[:40] + '...', 'method_bytes': len(mlong.encode()), 'params': str(plong)[:40], 'answered': ra is not None, 'later_request_answered': rb is not None}
        return False, det
    return rp

# ---------------------------------------------------------------------------------------------- K2 one loop iteration of run() for any message kind
@kernel('K2 lsp.run_survives_any_message')
def k2(ctx, kr):
    P = ctx.program(CR)
    key = P.find_fn('ironplcc', 'lsp::<impl at plc2x/src/lsp.rs:69:1: 69:27>::run') if False else [k for k in P.items if k[0] == 'ironplcc' and re.fullmatch(r'lsp::<impl at [^>]*>::run', k[1])][0]
    env = LSP.Env(P)
    st = {}
    calls = []
    def st_hreq(M, fr, callee, a): calls.append('handle_request'); return Ref(Cell(Str('')))
    def st_hnot(M, fr, callee, a): calls.append('handle_notification'); return Ref(Cell(Str('')))
    def st_into(M, fr, callee, a): return IterV(list(st['msgs']))
    stubs = env.stubs()
    stubs.update({r'^lsp::LspServer::<.*>::handle_request$': st_hreq, r'^lsp::LspServer::<.*>::handle_notification$': st_hnot,
                  r'^<&crossbeam_channel::Receiver<.*> as std::iter::IntoIterator>::into_iter$': st_into})
    M = Machine(P, stubs=stubs)
    KINDS = ['Request', 'Response', 'Notification']
    def entry(M):
        env.sent.clear(); calls.clear()
        k = M.fresh_bv('kind', 8); M.assume(z3.ULT(k, 3)); st['k'] = k
        kind = M.choose([k == i for i in range(3)])
        meth, v, ids = LSP.sym_method(M, 'method', list(LSP.REQ_METHODS)); st['v'] = v; st['ids'] = ids; st['meth'] = meth
        if kind == 0: msg = EnumV('Message', 0, [LSP.mkstruct(P, 'Request', id=Agg('RequestId', [7]), method=meth, params=Opaque('json'))])
        elif kind == 1: msg = EnumV('Message', 1, [LSP.mkstruct(P, 'Response', id=Agg('RequestId', [9]), result=none(), error=none())])
        else: msg = EnumV('Message', 2, [LSP.mkstruct(P, 'Notification', method=meth, params=Opaque('json'))])
        st['kind'] = kind; st['msgs'] = [msg]
        return M.call_fn(key, [_new_lsp_server(M, P), Ref(Cell(Opaque('receiver')))])
    def on_path(M, pr):
        kr.paths += 1
        if pr.inconclusive: kr.inconc(pr.inconclusive); return
        kr.nontrivial += 1
        kind = KINDS[st['kind']]
        if pr.panic:
            _add(kr, 'C12/K2/panic/%s-message' % kind.lower(), 'the message loop panics when the client sends a %s message: %s' % (kind, pr.panic.msg[:60]), {'message_kind': kind}, ('lsp_client_response', ()) if kind == 'Response' else None); return
        want = {'Request': 'handle_request', 'Notification': 'handle_notification', 'Response': None}[kind]
        s = z3.Solver(); s.add(*pr.pc); s.check(); m = s.model(); kr.queries += 1
        val = m.eval(st['v'], True).as_long(); shut = [t for t, i in st['ids'].items() if i.as_long() == val] == ['Shutdown']
        res = pr.result
        if kind == 'Request' and shut:
            if res.disc != 0: _add(kr, 'C12/K2/shutdown-not-returned', 'run() does not return the shutdown request', {}, None)
        elif want and calls != [want]:
            known = [LSP.REQ_METHODS[t] for t, i in st['ids'].items() if i.as_long() == val]
            mtxt = known[0] if known else ''.join(chr(x if isinstance(x, int) else m.eval(x, True).as_long()) for x in st['meth'].b)
            _add(kr, 'C12/K2/dispatch/%s' % kind, 'a %s message with method %r is dispatched to %s' % (kind, mtxt, calls), {'message_kind': kind, 'method': mtxt}, ('lsp_raw_message', (kind, mtxt)))
        if len(kr.samples) < 4: kr.samples.append({'message_kind': kind, 'dispatched_to': list(calls), 'run_result': 'Ok(shutdown request)' if res.disc == 0 else 'Err (channel closed)'})
    M.explore(entry, on_path)
    kr.queries += M.stats['smt']
    kr.functions = fn_paths(P, M.encoded); kr.models = sorted(M.models_used)
    kr.stubs = ['Receiver iteration yields the one symbolic message then ends', 'handle_request / handle_notification recorded (their bodies: K1 and C11-K3)']
    kr.bounds = 'one arbitrary Message (Request / Response / Notification) through one iteration of LspServer::run'
    kr.exhaustive = True

@replay_factory('lsp_raw_message')
def _replay_raw_message(kind, method):
    def rp(ctx):
        import lspclient
        s = lspclient.LspSession(ctx.ironplcc_path())
        try:
            s.initialize()
            if kind == 'Request':
                rid = s.request(method, {})
                seen = []
                s.wait_for(lambda x: (seen.append(x) or True) and x.get('id') == rid, timeout=3)
                seen += s.drain(0.5)
                n = sum(1 for x in seen if x.get('id') == rid and ('result' in x or 'error' in x))
            else:
                s.notify(method, {}); seen = s.drain(0.5)
                n = sum(1 for x in seen if 'id' in x and ('result' in x or 'error' in x))
            rid2 = s.request('textDocument/semanticTokens/full', {'textDocument': {'uri': 'file:///tmp/none.st'}})
            r2 = s.wait_for(lambda x: x.get('id') == rid2, timeout=3)
        finally:
            s.close()
        bad = (n != (1 if kind == 'Request' else 0)) or r2 is None
        return bad, {'kind': kind, 'method': method, 'responses': n, 'later_request_answered': r2 is not None}
    return rp

@replay_factory('lsp_client_response')
def _replay_client_response():
    def rp(ctx):
        import lspclient
        s = lspclient.LspSession(ctx.ironplcc_path())
        try:
            s.initialize()
            s.send({'jsonrpc': '2.0', 'id': 99, 'result': None})
            rid2 = s.request('textDocument/semanticTokens/full', {'textDocument': {'uri': 'file:///tmp/none.st'}})
            r2 = s.wait_for(lambda x: x.get('id') == rid2, timeout=3)
            alive = s.p.poll() is None
        finally:
            rc = s.close()
        return (r2 is None) or not alive, {'server_alive_after_client_response': alive, 'later_request_answered': r2 is not None, 'exit': rc}
    return rp


# ---------------------------------------------------------------------------------------------- K2b notifications are never answered and never kill the server
@kernel('K2b lsp.notification_never_answered')
def k2b(ctx, kr):
    P = ctx.program(CR)
    key = P.find_fn('ironplcc', 'handle_notification')
    env = LSP.Env(P); st = {}
    stubs = env.stubs()
    stubs[r'^lsp_project::LspProject::change_text_document$'] = lambda M, fr, c, a: UNIT
    stubs[r'^lsp_project::LspProject::semantic$'] = lambda M, fr, c, a: VecV([])
    M = Machine(P, stubs=stubs)
    def entry(M):
        env.sent.clear(); env.json_ok.clear()
        meth, v, ids = LSP.sym_method(M, 'method', list(LSP.NOTIF_METHODS)); st['v'] = v; st['ids'] = ids
        n = M.fresh_bv('nchanges', 8); M.assume(z3.ULT(n, 3)); nch = M.choose([n == i for i in range(3)]); st['nch'] = nch
        env.params = {'Exit': UNIT,
                      'DidOpenTextDocument': lambda: LSP.mkstruct(P, 'DidOpenTextDocumentParams', text_document=LSP.mkstruct(P, 'TextDocumentItem', uri=Agg('Url', [Str('file:///d.st')]), language_id=Str('st'), version=1, text=Str('T'))),
                      'DidChangeTextDocument': lambda: LSP.mkstruct(P, 'DidChangeTextDocumentParams', text_document=LSP.mkstruct(P, 'VersionedTextDocumentIdentifier', uri=Agg('Url', [Str('file:///d.st')]), version=2),
                                                                    content_changes=VecV([LSP.mkstruct(P, 'TextDocumentContentChangeEvent', range=none(), range_length=none(), text=Str('T%d' % i)) for i in range(nch)]))}
        notif = LSP.mkstruct(P, 'Notification', method=meth, params=Opaque('json'))
        return M.call_fn(key, [_new_lsp_server(M, P), Ref(Cell(notif))])
    def on_path(M, pr):
        kr.paths += 1
        if pr.inconclusive: kr.inconc(pr.inconclusive); return
        s = z3.Solver(); s.add(*pr.pc); kr.queries += 1
        if s.check() != z3.sat: return
        m = s.model(); kr.nontrivial += 1
        val = m.eval(st['v'], True).as_long()
        mname = [LSP.NOTIF_METHODS[t] for t, i in st['ids'].items() if i.as_long() == val]; mname = mname[0] if mname else 'some/otherNotification'
        jsonbad = [t for t, b in env.json_ok.items() if not z3.is_true(m.eval(b, True))]
        wit = {'method': mname, 'params_deserialise': not jsonbad, 'content_changes': st['nch']}
        if pr.panic:
            role = 'C12/K2b/panic/malformed-notification-params' if jsonbad else 'C12/K2b/panic/%s/changes=%d' % (mname, st['nch'])
            _add(kr, role, 'the server panics on a %s notification%s: %s' % (mname, ' whose params do not deserialise' if jsonbad else ' with %d content changes' % st['nch'], pr.panic.msg[:60]), wit, ('lsp_notification', (mname, bool(jsonbad), st['nch']))); return
        resp = [x for x in _msgs_in(M, env, None) if isinstance(x, EnumV) and x.name == 'Message' and x.disc == 1]
        if resp: _add(kr, 'C12/K2b/notification-answered/' + mname, 'a notification (%s) is answered with a response' % mname, wit, ('lsp_notification', (mname, bool(jsonbad), st['nch'])))
        if len(kr.samples) < 3: kr.samples.append({'notification': wit, 'messages_sent': len(env.sent)})
    M.explore(entry, on_path)
    kr.queries += M.stats['smt']
    kr.functions = fn_paths(P, M.encoded); kr.models = sorted(M.models_used)
    kr.stubs = ['Notification::extract by contract', 'LspProject::{change_text_document, semantic} opaque (C11-K3 interprets them)']
    kr.bounds = 'one arbitrary Notification {method symbolic over the known METHOD constants or other, params deserialise or not, 0..2 content changes}'
    kr.exhaustive = True

@replay_factory('lsp_notification')
def _replay_notification(method, malformed, nch):
    def rp(ctx):
        import lspclient
        s = lspclient.LspSession(ctx.ironplcc_path())
        try:
            s.initialize()
            uri = 'file:///tmp/verif_c12n.st'
            s.did_open(uri, 'PROGRAM p\nEND_PROGRAM\n', 1); s.diagnostics_for(uri, timeout=10)
            if malformed: s.notify(method if method != 'some/otherNotification' else 'textDocument/didOpen', {'bogus': True})
            elif method == 'textDocument/didChange': s.did_change(uri, ['PROGRAM p\nEND_PROGRAM\n'] * nch, 2)
            else: s.notify(method, {})
            rid2 = s.request('textDocument/semanticTokens/full', {'textDocument': {'uri': uri}})
            seen = []
            r2 = s.wait_for(lambda x: (seen.append(x) or True) and x.get('id') == rid2, timeout=3)
            alive = s.p.poll() is None
        finally:
            rc = s.close()
        # a notification is never answered: any message that is a response (has result/error) other than the answer to the probe request is one
        stray = [x for x in seen if ('result' in x or 'error' in x) and x.get('id') != rid2]
        return (r2 is None) or not alive or bool(stray), {'method': method, 'malformed': malformed, 'content_changes': nch, 'server_alive_after': alive, 'later_request_answered': r2 is not None, 'stray_responses': stray[:2]}
    return rp


# ---------------------------------------------------------------------------------------------- K4 diagnostics that span two documents are converted without panic and with the right document's text
@kernel('K4 lsp.cross_file_diagnostic_conversion')
def k4(ctx, kr):
    from . import C11 as K11
    P = ctx.program(CR)
    sem = [k for k in P.items if k[0] == 'ironplcc' and re.fullmatch(r'lsp_project::<impl at [^>]*>::semantic', k[1])]
    if len(sem) != 1: kr.inconc('LspProject::semantic not found'); return
    key = sem[0]
    LA = 6
    st = {}
    def st_sem(M, fr, callee, a):
        # the wrapped project reports one diagnostic whose primary label is in document A and whose secondary label is in B
        d = Agg('Diagnostic', [Str('P0018'), Str('desc'), Agg('Label', [Agg('Location', [st['s'], st['e']]), Agg('FileId', [Str('/a.st')]), Str('m')]),
                               VecV(), VecV([Agg('Label', [Agg('Location', [0, 1]), Agg('FileId', [Str('/b.st')]), Str('m2')])])])
        return err(VecV([d]))
    W = K11.World(P, None)
    stubs = W.stubs(); del stubs[r'^lsp_project::map_diagnostic$']
    stubs[r'project::Project>::semantic$'] = st_sem
    stubs[r'^lsp_types::Url::parse$'] = lambda M, fr, c, a: ok(Agg('Url', [Str('u')]))
    stubs[r'^lsp_types::Position::new$'] = lambda M_, fr, c, a: Agg('Position', [a[0], a[1]])
    stubs[r'^lsp_types::Range::new$'] = lambda M_, fr, c, a: Agg('Range', [a[0], a[1]])
    stubs[r'^dsl::diagnostic::Diagnostic::description$|^ironplc_dsl::diagnostic::Diagnostic::description$'] = lambda M_, fr, c, a: Str('d')
    M = Machine(P, stubs=stubs)
    ba = [z3.BitVec('a%d' % i, 8) for i in range(LA)]
    M.base_constraints = [z3.And([z3.ULT(x, 0x80) for x in ba])]
    def entry(M):
        sfields = [f for f, _ in P.structs.get('Source', [])]
        srcs = VecV([Agg('()', [Agg('FileId', [Str('/a.st')]), LSP.new_source(M, P, '/a.st', Str(list(ba)))]),
                     Agg('()', [Agg('FileId', [Str('/b.st')]), LSP.new_source(M, P, '/b.st', 'xy')])])
        proj = Agg('LspProject', [Ref(Cell(Agg('project::FileBackedProject', [srcs])))])
        s_ = M.fresh_bv('start', 64); M.assume(z3.ULE(s_, LA)); st['s'] = M.enum_int(s_, 0, LA)
        e_ = M.fresh_bv('end', 64); M.assume(z3.And(z3.UGE(e_, st['s']), z3.ULE(e_, LA))); st['e'] = M.enum_int(e_, st['s'], LA)
        st['url'] = 'file:///b.st' if M.branch(M.fresh_bool('notify_b')) else 'file:///a.st'
        return M.call_fn(key, [Ref(Cell(proj)), Ref(Cell(Agg('Url', [Str(st['url'])])))])
    def on_path(M, pr):
        kr.paths += 1
        if pr.inconclusive: kr.inconc(pr.inconclusive); return
        kr.nontrivial += 1
        wit = {'primary_label': ['/a.st', st['s'], st['e']], 'secondary_label': ['/b.st', 0, 1], 'notified_document': st['url'], 'len_a': LA, 'len_b': 2}
        if pr.panic:
            _add(kr, 'C12/K4/panic/cross-file-diagnostic', 'converting a diagnostic whose primary label is in another document than the notified one panics: %s' % pr.panic.msg[:70], wit, ('lsp_cross_file', ())); return
        res = pr.result
        if len(res.items) != 1: _add(kr, 'C12/K4/diagnostic-dropped', 'a diagnostic that names the notified document (secondary label) is not published', wit, None); return
        rng = res.items[0].f[0] if isinstance(res.items[0], Agg) else None
        if rng is None or rng.name != 'Range': kr.inconc('unexpected lsp Diagnostic layout'); return
        s = z3.Solver(); s.add(*M.base_constraints); s.add(*pr.pc); kr.queries += 1
        line = z3.BitVecVal(0, 32); col = z3.BitVecVal(0, 32)
        for i in range(st['s']):
            line = z3.If(ba[i] == 10, line + 1, line); col = z3.If(ba[i] == 10, z3.BitVecVal(0, 32), col + 1)
        s.add(z3.Or(tobv(rng.f[0].f[0], 32) != line, tobv(rng.f[0].f[1], 32) != col))
        if s.check() == z3.sat:
            _add(kr, 'C12/K4/wrong-document-text', 'the start position of a diagnostic in document A is computed from other text than the contents of A', wit, ('lsp_cross_file', ()))
        if len(kr.samples) < 2: kr.samples.append(wit)
    M.explore(entry, on_path)
    kr.queries += M.stats['smt']
    kr.functions = fn_paths(P, M.encoded); kr.models = sorted(M.models_used)
    kr.stubs = ['wrapped project semantic() reports one two-document diagnostic; documents A (6 symbolic ASCII bytes) and B ("xy")', 'Url::parse / Position::new / Range::new constructors']
    kr.bounds = 'primary label: every span 0 <= start <= end <= 6 in A; notified document A or B'
    kr.exhaustive = True

@replay_factory('lsp_cross_file')
def _replay_cross_file():
    def rp(ctx):
        import lspclient
        A = '(* ' + 'x' * 400 + ' *)\nFUNCTION_BLOCK fb\nVAR_EXTERNAL\n  g : INT;\nEND_VAR\nEND_FUNCTION_BLOCK\n'
        B = 'CONFIGURATION c\nVAR_GLOBAL CONSTANT\n  g : INT := 1;\nEND_VAR\nRESOURCE r ON PLC\nTASK t(INTERVAL := T#100ms, PRIORITY := 1);\nPROGRAM i WITH t : pp;\nEND_RESOURCE\nEND_CONFIGURATION\nPROGRAM pp\nVAR\n f : fb;\nEND_VAR\nEND_PROGRAM\n'
        s = lspclient.LspSession(ctx.ironplcc_path())
        try:
            s.initialize()
            ua, ub = 'file:///tmp/verif_c12_a.st', 'file:///tmp/verif_c12_b.st'
            s.did_open(ua, A, 1); d1 = s.diagnostics_for(ua, timeout=5)
            s.did_open(ub, B, 1); d2 = s.diagnostics_for(ub, timeout=5)
            rid = s.request('textDocument/semanticTokens/full', {'textDocument': {'uri': ub}})
            r = s.wait_for(lambda x: x.get('id') == rid, timeout=3)
            alive = s.p.poll() is None
        finally:
            rc = s.close()
        return (d2 is None) or (r is None) or not alive, {'second_publish_received': d2 is not None, 'codes': [d.get('code') for d in (d2 or {}).get('params', {}).get('diagnostics', [])], 'later_request_answered': r is not None, 'alive': alive}
    return rp


# ---------------------------------------------------------------------------------------------- K5 histories of two messages on one server: every request still answered exactly once
def _new_lsp_server(M, P):
    """the server value built by the tree's own LspServer::new, so that every field the tree declares is initialised the way the tree does it"""
    k_new = [k for k in P.items if k[0] == 'ironplcc' and re.fullmatch(r'lsp::<impl at [^>]*>::new', k[1])]
    if len(k_new) != 1: raise Unsupported('LspServer::new: %d candidates' % len(k_new))
    return Ref(Cell(M.call_fn(k_new[0], [Ref(Cell(Opaque('sender'))), Agg('LspProject', [Opaque('wrapped project')])])))

@kernel('K5 lsp.two_message_histories')
def k5(ctx, kr):
    P = ctx.program(CR)
    k_req = P.find_fn('ironplcc', 'handle_request'); k_not = P.find_fn('ironplcc', 'handle_notification')
    env = LSP.Env(P); st = {}
    def st_tokenize(M, fr, callee, a):
        if M.branch(M.fresh_bool('tokenize_ok')): return ok(VecV([]))
        return err(VecV([]))
    stubs = env.stubs(); stubs[r'^lsp_project::LspProject::tokenize$'] = st_tokenize
    stubs[r'^lsp_project::LspProject::change_text_document$'] = lambda M, fr, c, a: UNIT
    stubs[r'^lsp_project::LspProject::semantic$'] = lambda M, fr, c, a: VecV([])
    M = Machine(P, stubs=stubs)
    NOTIFS = dict(LSP.NOTIF_METHODS, **LSP.MORE_NOTIF_METHODS)
    for second in ('notification', 'request'):
        def entry(M):
            env.sent.clear(); env.json_ok.clear(); st.clear()
            srv = _new_lsp_server(M, P)
            # first message: a request with id 7 that is not shutdown
            meth, v, ids = LSP.sym_method(M, 'method1', ['SemanticTokensFullRequest']); st['m1'] = (meth, v, ids)
            env.params['SemanticTokensFullRequest'] = lambda: LSP.mkstruct(P, 'SemanticTokensParams', text_document=LSP.mkstruct(P, 'TextDocumentIdentifier', uri=Agg('Url', [Str('file:///d.st')])))
            req = LSP.mkstruct(P, 'Request', id=Agg('RequestId', [7]), method=meth, params=Opaque('json'))
            M.call_fn(k_req, [srv, req])
            st['after1'] = len(env.sent); st['json1'] = dict(env.json_ok); env.json_ok.clear()
            if second == 'request':
                meth2, v2, ids2 = LSP.sym_method(M, 'method2', ['SemanticTokensFullRequest']); st['m2'] = (meth2, v2, ids2, ['SemanticTokensFullRequest'])
                req2 = LSP.mkstruct(P, 'Request', id=Agg('RequestId', [8]), method=meth2, params=Opaque('json'))
                M.call_fn(k_req, [srv, req2])
            else:
                names = list(NOTIFS)
                meth2, v2, ids2 = LSP.sym_method(M, 'method2', names); st['m2'] = (meth2, v2, ids2, names)
                cid = M.fresh_bv('cancel_id', 32); st['cid'] = cid
                env.params.update({'Exit': UNIT, 'Initialized': UNIT,
                    'Cancel': lambda: LSP.mkstruct(P, 'CancelParams', id=EnumV('NumberOrString', P.enums['NumberOrString'].index('Number'), [cid])),
                    'DidOpenTextDocument': lambda: LSP.mkstruct(P, 'DidOpenTextDocumentParams', text_document=LSP.mkstruct(P, 'TextDocumentItem', uri=Agg('Url', [Str('file:///d.st')]), language_id=Str('st'), version=1, text=Str('T'))),
                    'DidChangeTextDocument': lambda: LSP.mkstruct(P, 'DidChangeTextDocumentParams', text_document=LSP.mkstruct(P, 'VersionedTextDocumentIdentifier', uri=Agg('Url', [Str('file:///d.st')]), version=2),
                                                                  content_changes=VecV([LSP.mkstruct(P, 'TextDocumentContentChangeEvent', range=none(), range_length=none(), text=Str('T1'))]))})
                notif = LSP.mkstruct(P, 'Notification', method=meth2, params=Opaque('json'))
                M.call_fn(k_not, [srv, Ref(Cell(notif))])
            return None
        def on_path(M, pr):
            kr.paths += 1
            if pr.inconclusive: kr.inconc(pr.inconclusive); return
            s = z3.Solver(); s.add(*pr.pc); kr.queries += 1
            if s.check() != z3.sat: return
            m = s.model(); kr.nontrivial += 1
            def name_of(t, table):
                meth, v, ids = t[0], t[1], t[2]
                val = m.eval(v, True).as_long()
                nm = [table[k] for k, i in ids.items() if i.as_long() == val]
                return nm[0] if nm else ''.join(chr(x if isinstance(x, int) else m.eval(x, True).as_long()) for x in meth.b)
            n1 = name_of(st['m1'], LSP.REQ_METHODS) if 'm1' in st else '?'
            n2 = name_of(st['m2'], dict(LSP.REQ_METHODS, **NOTIFS)) if 'm2' in st else '(none)'
            bad1 = [t for t, b in st.get('json1', {}).items() if not z3.is_true(m.eval(b, True))]
            cid = m.eval(st['cid'], True).as_long() if 'cid' in st else None
            wit = {'first': {'request': n1, 'id': 7, 'params_deserialise': not bad1}, 'second': {second: n2, 'cancel_id': cid}}
            rep = ('lsp_two_messages', (n1, bool(bad1), second, n2, cid))
            if pr.panic: _add(kr, 'C12/K5/panic/%s-then-%s' % (_cls(n1, bad1), _cls2(n2)), 'the server panics on the history %s: %s' % (wit, pr.panic.msg[:60]), wit, rep); return
            resp = [x for x in _msgs_in(M, env, None) if isinstance(x, EnumV) and x.name == 'Message' and x.disc == 1]
            ids_ = [simp(r.f[0].f[0].f[0]) for r in resp]
            want = [7] if second == 'notification' else [7, 8]
            if sorted(map(str, ids_)) != sorted(map(str, want)):
                _add(kr, 'C12/K5/responses/%s-then-%s' % (_cls(n1, bad1), _cls2(n2) + ('-same-id' if cid == 7 else '')), 'history [request %s (id 7%s), %s %s%s]: responses carry the ids %s instead of %s' % (
                    n1, ', params do not deserialise' if bad1 else '', second, n2, (' for id %d' % cid) if (cid is not None and 'cancel' in n2) else '', ids_, want), wit, rep)
            elif len(kr.validate) < 2 and n2 == '$/cancelRequest' and cid == 7: kr.validate.append(rep)
            if len(kr.samples) < 3: kr.samples.append({'history': wit, 'response_ids': [str(i) for i in ids_]})
        M.explore(entry, on_path)
    kr.queries += M.stats['smt']
    kr.functions = fn_paths(P, M.encoded); kr.models = sorted(M.models_used)
    kr.stubs = ['as K1/K2b; lsp_server::ReqQueue / Incoming::{register, complete, cancel, is_completed} by contract (set of pending request ids); the server value comes from the tree\'s own LspServer::new']
    kr.bounds = ('histories of two messages on one server: a request (id 7; semantic tokens with good or malformed params, or any other method) followed by a notification (exit, didOpen, didChange, $/cancelRequest with a symbolic id, didClose, didSave, '
                 'initialized or any other method) or by a second request (id 8): responses carry exactly the ids of the requests, once each')
    kr.exhaustive = True
    kr.outside = ['longer histories; requests sent by the server']

def _cls(n, bad): return ('malformed-' if bad else '') + ('semanticTokens' if 'semanticTokens' in n else 'unknown-method')
def _cls2(n): return re.sub(r'[^A-Za-z]+', '-', n).strip('-') if n in list(LSP.REQ_METHODS.values()) + list(LSP.NOTIF_METHODS.values()) + list(LSP.MORE_NOTIF_METHODS.values()) else 'unknown-method'

@replay_factory('lsp_two_messages')
def _replay_two_messages(n1, malformed1, second, n2, cid):
    def rp(ctx):
        import lspclient
        s = lspclient.LspSession(ctx.ironplcc_path())
        try:
            s.initialize(); uri = 'file:///tmp/verif_c12h.st'
            s.did_open(uri, 'PROGRAM p\nEND_PROGRAM\n', 1); s.diagnostics_for(uri, timeout=10)
            m1 = n1 if n1 in LSP.REQ_METHODS.values() else 'textDocument/hover'
            rid = s.request(m1, {'bogus': 1} if malformed1 else ({'textDocument': {'uri': uri}, 'position': {'line': 0, 'character': 0}} if 'hover' in m1 else {'textDocument': {'uri': uri}}))
            seen = []
            s.wait_for(lambda x: (seen.append(x) or True) and x.get('id') == rid, timeout=3)
            rid2 = None
            if second == 'request':
                m2 = n2 if n2 in LSP.REQ_METHODS.values() else 'textDocument/hover'
                rid2 = s.request(m2, {'textDocument': {'uri': uri}, 'position': {'line': 0, 'character': 0}} if 'hover' in m2 else {'textDocument': {'uri': uri}})
            elif n2 == '$/cancelRequest': s.notify(n2, {'id': rid if cid == 7 else 12345})
            elif n2 == 'textDocument/didChange': s.did_change(uri, ['PROGRAM p\nEND_PROGRAM\n'], 2)
            elif n2 in ('textDocument/didOpen', 'exit'): pass
            else: s.notify(n2 if '/' in n2 or n2 == 'initialized' else 'some/otherNotification', {})
            probe = s.request('textDocument/semanticTokens/full', {'textDocument': {'uri': uri}})
            s.wait_for(lambda x: (seen.append(x) or True) and x.get('id') == probe, timeout=3)
            seen += s.drain(0.3)
        finally:
            s.close()
        resp = [x for x in seen if ('result' in x or 'error' in x)]
        count = lambda i: sum(1 for x in resp if x.get('id') == i)
        bad = count(rid) != 1 or (rid2 is not None and count(rid2) != 1) or count(probe) != 1 or any(x.get('id') not in (rid, rid2, probe) for x in resp)
        return bad, {'history': [m1, n2], 'responses_for_first_request': count(rid), 'responses_for_probe': count(probe), 'all_response_ids': [x.get('id') for x in resp]}
    return rp

# ---------------------------------------------------------------------------------------------- K3 a request through the whole message loop, shutdown included: answered exactly once
@kernel('K3 lsp.run_answers_request_once')
def k3(ctx, kr):
    P = ctx.program(CR)
    key = [k for k in P.items if k[0] == 'ironplcc' and re.fullmatch(r'lsp::<impl at [^>]*>::run', k[1])][0]
    env = LSP.Env(P); st = {}
    def st_tokenize(M, fr, callee, a):
        st['tok_failed'] = False
        if M.branch(M.fresh_bool('tokenize_ok')): return ok(VecV([]))
        st['tok_failed'] = True
        return err(VecV([]))
    def st_into(M, fr, callee, a): return IterV(list(st['msgs']))
    stubs = env.stubs(); stubs[r'^lsp_project::LspProject::tokenize$'] = st_tokenize
    stubs[r'^<&crossbeam_channel::Receiver<.*> as std::iter::IntoIterator>::into_iter$'] = st_into
    M = Machine(P, stubs=stubs)
    def entry(M):
        env.sent.clear(); env.json_ok.clear(); st['tok_failed'] = False
        meth, v, ids = LSP.sym_method(M, 'method', list(LSP.REQ_METHODS)); st['m'] = (meth, v, ids)
        env.params['SemanticTokensFullRequest'] = lambda: LSP.mkstruct(P, 'SemanticTokensParams', text_document=LSP.mkstruct(P, 'TextDocumentIdentifier', uri=Agg('Url', [Str('file:///d.st')])))
        env.params['Shutdown'] = UNIT
        st['msgs'] = [EnumV('Message', 0, [LSP.mkstruct(P, 'Request', id=Agg('RequestId', [7]), method=meth, params=Opaque('json'))])]
        return M.call_fn(key, [_new_lsp_server(M, P), Ref(Cell(Opaque('receiver')))])
    def on_path(M, pr):
        kr.paths += 1
        if pr.inconclusive: kr.inconc(pr.inconclusive); return
        s = z3.Solver(); s.add(*pr.pc); kr.queries += 1
        if s.check() != z3.sat: return
        m = s.model(); kr.nontrivial += 1
        meth, v, ids = st['m']; val = m.eval(v, True).as_long()
        nm = [LSP.REQ_METHODS[t] for t, i in ids.items() if i.as_long() == val]
        other = None if nm else ''.join(chr(x if isinstance(x, int) else m.eval(x, True).as_long()) for x in meth.b)      # the unknown method name of this path
        nm = nm[0] if nm else 'some/otherMethod'
        bad = [t for t, b in env.json_ok.items() if not z3.is_true(m.eval(b, True))]
        wit = {'method': other or nm, 'params_deserialise': not bad}
        rep = ('lsp_single_request', (other or nm, bool(bad), bool(st.get('tok_failed'))))
        wit['document_tokenizes'] = not st.get('tok_failed')
        if pr.panic: _add(kr, 'C12/K3/panic/%s%s' % ('malformed-' if bad else '', nm), 'the message loop panics on a %s request: %s' % (nm, pr.panic.msg[:60]), wit, rep); return
        resp = [x for x in _msgs_in(M, env, None) if isinstance(x, EnumV) and x.name == 'Message' and x.disc == 1]
        n = len(resp)
        # lsp_server::Connection::handle_shutdown(&req) (called by start_with_connection when run returns Ok(req)) answers req with a null result
        if pr.result.disc == 0: n += 1
        if n != 1:
            _add(kr, 'C12/K3/responses/%s%s' % ('malformed-' if bad else '', nm), 'a %s request%s is answered %d times (%d by the handlers%s)' % (nm, ' whose params do not deserialise' if bad else '', n, len(resp),
                 ', once more by Connection::handle_shutdown because run() returns it as the shutdown request' if pr.result.disc == 0 else ''), wit, rep)
        elif len(kr.validate) < 2 and nm == 'shutdown': kr.validate.append(rep)
        if len(kr.samples) < 3: kr.samples.append({'request': wit, 'answers': n})
    M.explore(entry, on_path)
    kr.queries += M.stats['smt']
    kr.functions = fn_paths(P, M.encoded); kr.models = sorted(M.models_used)
    kr.stubs = ['as K1; Receiver iteration yields the one symbolic request then ends; Connection::handle_shutdown by contract: answers the request run() returned']
    kr.bounds = 'one arbitrary Request (method symbolic over shutdown, semanticTokens/full or any other; params deserialise or not) through LspServer::run with the real handlers, followed by handle_shutdown when run returns the request'
    kr.exhaustive = True

@replay_factory('lsp_single_request')
def _replay_single_request(method, malformed, tokenize_fails=False):
    def rp(ctx):
        import lspclient
        s = lspclient.LspSession(ctx.ironplcc_path())
        try:
            s.initialize(); uri = 'file:///tmp/verif_c12s.st'
            # a document that does not tokenize: text with a character that is no token
            s.did_open(uri, 'PROGRAM p\nEND_PROGRAM\n' if not tokenize_fails else 'PROGRAM p ` \nEND_PROGRAM\n', 1); s.diagnostics_for(uri, timeout=10)
            m = method if method != 'some/otherMethod' else 'textDocument/hover'
            if m == 'shutdown': params = {} if malformed else None
            else: params = {'bogus': 1} if malformed else ({'textDocument': {'uri': uri}, 'position': {'line': 0, 'character': 0}} if 'hover' in m else {'textDocument': {'uri': uri}})
            rid = s.request(m, params)
            seen = []
            s.wait_for(lambda x: (seen.append(x) or True) and x.get('id') == rid, timeout=3)
            seen += s.drain(0.5)
        finally:
            s.close()
        n = sum(1 for x in seen if x.get('id') == rid and ('result' in x or 'error' in x))
        return n != 1, {'method': m, 'malformed_params': malformed, 'responses': n}
    return rp

# ---------------------------------------------------------------------------------------------- K6 start-up: any initialize parameters lead into the message loop, never to a panic
@kernel('K6 lsp.startup_with_any_initialize_params')
def k6(ctx, kr):
    P = ctx.program(CR)
    key = P.find_fn('ironplcc', 'lsp::start_with_connection')
    st = {}
    def folder(i): return LSP.mkstruct(P, 'WorkspaceFolder', **{'uri': Agg('Url', [Str('file:///ws%d' % i)]), 'name': Str('ws%d' % i)})
    def st_from_value(M, fr, c, a):
        nf = st['nfolders']
        wf = none() if nf < 0 else some(VecV([folder(i) for i in range(nf)]))
        ru = some(Agg('Url', [Str('file:///root')])) if st['root'] else none()
        fields = [f for f, _ in P.structs.get('InitializeParams', [])]
        kw = {'workspace_folders': wf}
        if 'root_uri' in fields: kw['root_uri'] = ru
        return ok(LSP.mkstruct(P, 'InitializeParams', **kw))
    def st_init(M, fr, c, a):
        f = a[1]
        while isinstance(f, Ref): f = M.deref(f)
        u = f.f[0]
        while isinstance(u, Ref): u = M.deref(u)
        st['initialized'].append(M.deref(u.f[0]).conc() if isinstance(u, Agg) else '?'); return UNIT
    def st_run(M, fr, c, a):
        st['ran'] += 1
        return ok(LSP.mkstruct(P, 'Request', id=Agg('RequestId', [1]), method=Str('shutdown'), params=Opaque('json')))
    stubs = {r'^serde_json::to_value': lambda M, fr, c, a: ok(Opaque('json')), r'^serde_json::from_value': st_from_value,
             r'server_capabilities$': lambda M, fr, c, a: Opaque('capabilities'), r'^lsp_server::Connection::initialize$': lambda M, fr, c, a: ok(Opaque('json')),
             r'^lsp_project::LspProject::initialize$': st_init, r'^lsp::LspServer::<.*>::run$|^lsp::LspServer::run$': st_run,
             r'^lsp_server::Connection::handle_shutdown$': lambda M, fr, c, a: ok(True),
             r'^<lsp_types::Url as std::string::ToString>::to_string$|^<lsp_types::Url as std::fmt::Display>::fmt$': lambda M, fr, c, a: Str('url'),
             r'^<lsp_types::(Url|WorkspaceFolder) as std::clone::Clone>::clone$': lambda M, fr, c, a: deep_clone(M.deref(a[0]))}
    M = Machine(P, stubs=stubs)
    def entry(M):
        v = M.fresh_bv('workspace_folders', 8); M.declare_domain(v, [0, 1, 2, 3])      # 0: null, 1: [], 2: one folder, 3: two folders
        k = 0 if M.branch(v == 0) else (1 if M.branch(v == 1) else (2 if M.branch(v == 2) else 3))
        st['nfolders'] = k - 1; st['root'] = M.branch(M.fresh_bool('root_uri_present')); st['initialized'] = []; st['ran'] = 0
        conn = LSP.mkstruct(P, 'Connection', sender=Opaque('sender'), receiver=Opaque('receiver'))
        proj = Agg('LspProject', [Opaque('wrapped project')])
        return M.call_fn(key, [conn, proj])
    def on_path(M, pr):
        kr.paths += 1
        if pr.inconclusive: kr.inconc(pr.inconclusive); return
        kr.nontrivial += 1
        nf = st['nfolders']; desc = 'null' if nf < 0 else '%d folder(s)' % nf
        wit = {'workspaceFolders': desc, 'rootUri': st['root']}
        rep = ('lsp_startup', (nf, st['root']))
        if pr.panic: _add(kr, 'C12/K6/panic/workspace-folders-%s' % ('null' if nf < 0 else nf), 'the server panics during start-up when initialize carries workspaceFolders = %s (rootUri %s): %s' % (desc, 'present' if st['root'] else 'absent', pr.panic.msg[:60]), wit, rep); return
        if st['ran'] != 1: _add(kr, 'C12/K6/no-message-loop/%s' % desc, 'start-up with workspaceFolders = %s never enters the message loop' % desc, wit, rep)
        if nf >= 1 and st['initialized'][:1] != ['file:///ws0']: _add(kr, 'C12/K6/workspace-not-loaded/%s' % desc, 'workspaceFolders = %s: the project is initialised from %s instead of the first folder' % (desc, st['initialized']), wit, None)
        elif len(kr.validate) < 2 and nf in (0, 2): kr.validate.append(rep)
        if len(kr.samples) < 3: kr.samples.append({'initialize': wit, 'project_initialised_from': list(st['initialized'])})
    M.explore(entry, on_path)
    kr.queries += M.stats['smt']
    kr.functions = fn_paths(P, M.encoded); kr.models = sorted(M.models_used)
    kr.stubs = ['Connection::initialize / serde_json by contract: initialize params with workspaceFolders null, [], one or two folders and rootUri present or absent; LspProject::initialize recorded; LspServer::run returns a shutdown request (K2/K3 cover it); Connection::handle_shutdown Ok']
    kr.bounds = 'lsp::start_with_connection for initialize params with workspaceFolders in {null, [], [f], [f, g]} and rootUri present or absent: no panic, the message loop is entered once, the project is initialised from the first folder when there is one'
    kr.exhaustive = True

@replay_factory('lsp_startup')
def _replay_startup(nfolders, root):
    def rp(ctx):
        import lspclient, tempfile
        d = tempfile.mkdtemp(dir=ctx.tmp)
        s = lspclient.LspSession(ctx.ironplcc_path())
        try:
            folders = None if nfolders < 0 else [{'uri': 'file://' + d, 'name': 'ws%d' % i} for i in range(nfolders)]
            rid = s.request('initialize', {'processId': None, 'rootUri': ('file://' + d) if root else None, 'capabilities': {}, 'workspaceFolders': folders})
            r = s.wait_for(lambda m: m.get('id') == rid, timeout=5); s.notify('initialized', {})
            uri = 'file://' + d + '/a.st'
            s.did_open(uri, 'PROGRAM p\nEND_PROGRAM\n', 1); m = s.diagnostics_for(uri, timeout=5)
            rid2 = s.request('textDocument/semanticTokens/full', {'textDocument': {'uri': uri}})
            r2 = s.wait_for(lambda x: x.get('id') == rid2, timeout=3)
            alive = s.p.poll() is None
        finally:
            s.close()
        return (r is None) or (m is None) or (r2 is None) or not alive, {'workspaceFolders': nfolders, 'initialize_answered': r is not None, 'diagnostics_published': m is not None, 'request_answered': r2 is not None, 'alive': alive}
    return rp

KERNELS = [k1, k2, k2b, k3, k4, k5, k6]
