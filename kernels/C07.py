"""C07 — recursion is rejected exactly when the declaration graph has a cycle."""
import time, json, re
import z3
from framework import kernel, Finding, fn_paths, Part, par_map, merge_part, replay_factory
from mirsym.machine import *
from mirsym.mirread import Unsupported
from mirsym import models
from . import lexcommon as LC, topo_common as TC

_CTX = None

def _names(real, K, kinds=None):
    if real == 'mixed': return [('fb%d' if kinds[i] == 'fb' else 'st%d') % i for i in range(K)]
    return {'fb': ['fb%d' % i for i in range(K)], 'struct': ['st%d' % i for i in range(K)], 'alias': ['al%d' % i for i in range(K)]}[real]

def _k1_job(job):
    real, K, fixed = job            # fixed: dict (i,j)->bool for the edges decided by the job partition
    ctx = _CTX; part = Part()
    P = ctx.program()
    kinds = fixed.get('kinds') if real == 'mixed' else None
    names = _names(real, K, kinds)
    forms = fixed.get('forms') if real == 'alias' else None      # per alias: True = declared with a default value (`al : base := v;`, an enumeration alias), False = plain (`al : base;`)
    if real == 'mixed':
        # node i is a function block (its references are instance variables) or a structure (its references are elements), per `kinds`
        fbs = TC.source_fb(K); sts = TC.source_struct(K)
        texts = [fbs[i] if kinds[i] == 'fb' else sts[i] for i in range(K)]
    else: texts = {'fb': TC.source_fb, 'struct': TC.source_struct, 'alias': TC.source_alias}[real](K)
    if forms: texts = ['TYPE\n  al%d : B%d%s;\nEND_TYPE\n' % (i, i, ' := dflt' if forms[i] else '') for i in range(K)]
    section = fixed.get('section', 'VAR') if real == 'fb' else 'VAR'       # the variable section holding the instances (VAR_INPUT and VAR_OUTPUT instances are contained as well)
    if real == 'fb' and section != 'VAR': texts = TC.source_fb(K, section=section)
    dup = bool(fixed.get('dup')) if real == 'fb' else False       # every instance declared twice (two variables of one function block type: a duplicated edge, not a cycle)
    if dup: texts = TC.source_fb(K, dup=True)
    decl = fixed.get('decl') if real == 'alias' else None        # 'array': `al : ARRAY[1..2] OF base;`   'subrange': `al : base(1..2);`  (other declaration kinds that reference a type)
    if decl: texts = [_alias_text(decl, i, 'B%d' % i) for i in range(K)]
    lib0, text = TC.build(ctx, texts)
    key = P.find_fn('ironplc-analyzer', 'xform_toposort_declarations::apply')
    M = Machine(P, max_steps=50_000_000)
    M.toposort_deterministic = True
    sym = {}
    def entry(M):
        lib = deep_clone(lib0)
        ids = {n: models.str_term(M, Str(n)) for n in names + ['int']}
        mapping = {}; sym.clear()
        if real in ('fb', 'struct', 'mixed'):
            cased = fixed.get('case')
            upper = {n: models.str_term(M, Str(n.upper())) for n in names}
            for i in range(K):
                for j in range(K):
                    if (i, j) in fixed: e = fixed[(i, j)]
                    else: e = M.fresh_bool('e_%d_%d' % (i, j))
                    sym[(i, j)] = e
                    t = z3.If(e, ids[names[j]], ids['int']) if is_sym(e) else (ids[names[j]] if e else ids['int'])
                    if cased:
                        # the reference may be written in another letter case than the declaration: same name, different spelling
                        cb = M.fresh_bool('upper_%d_%d' % (i, j)); sym[('case', i, j)] = cb
                        tw = z3.If(z3.And(cb, e if is_sym(e) else z3.BoolVal(e)), upper[names[j]], t)
                        mapping['t%d_%d' % (i, j)] = (lambda tw, t: (lambda orig: TC.ident_sym(tw, orig, t)))(tw, t)
                    else:
                        mapping['t%d_%d' % (i, j)] = (lambda t: (lambda orig: TC.ident_sym(t, orig)))(t)
        else:
            for i in range(K):
                if i in fixed: b = fixed[i]
                else:
                    b = M.fresh_bv('base_%d' % i, 8); M.assume(z3.ULE(b, K))
                    if forms and forms[i]: M.assume(z3.ULT(b, K))        # an alias with a default value always names a declared type here (stays inside the parser's image)
                sym[i] = b
                if is_sym(b):
                    t = ids['int']
                    for j in range(K): t = z3.If(b == j, ids[names[j]], t)
                else: t = ids[names[b]] if b < K else ids['int']
                mapping['b%d' % i] = (lambda t: (lambda orig: TC.ident_sym(t, orig)))(t)
        lib = LC.subst_names(lib, mapping)
        return M.call_fn(key, [lib])
    def on_path(M, pr):
        part.paths += 1
        if pr.inconclusive: part.inconc(pr.inconclusive); return
        s = z3.Solver(); s.add(*pr.pc)
        part.nontrivial += 1
        # reference graph as a formula over the symbolic inputs: edge(i,j), then cyclic = some node reaches itself
        def edge(i, j):
            if real in ('fb', 'struct', 'mixed'):
                e = sym[(i, j)]; return z3.BoolVal(e) if isinstance(e, bool) else e
            b = sym[i]; return z3.BoolVal(b == j) if isinstance(b, int) else (b == j)
        reach = [[edge(i, j) for j in range(K)] for i in range(K)]
        for k_ in range(K):
            reach = [[z3.Or(reach[i][j], z3.And(reach[i][k_], reach[k_][j])) for j in range(K)] for i in range(K)]
        ref_cyc = z3.Or([reach[i][i] for i in range(K)])
        got_rec = None
        if not pr.panic:
            res = pr.result; code = None
            if res.disc == 1:
                d = res.f[0].items[0]; c = M.deref(d.f[0]); code = c.conc() if isinstance(c, Str) else None
            got_rec = res.disc == 1 and code is not None and ('RecursiveCycle' in code or code == 'P0010')
        # any input consistent with this path on which the verdict differs from the reference (inputs the code never compared are free)
        s.add(z3.BoolVal(True) if pr.panic else (ref_cyc != z3.BoolVal(got_rec)))
        t = time.time(); r = s.check(); part.solver_s += time.time() - t; part.queries += 1
        def edges_of(m):
            if real in ('fb', 'struct', 'mixed'): return sorted(k_ for k_, e in sym.items() if len(k_) == 2 and (e if isinstance(e, bool) else z3.is_true(m.eval(e, True))))
            out = []
            for i, b in sym.items():
                v = b if isinstance(b, int) else m.eval(b, True).as_long()
                if v < K: out.append((i, v))
            return out
        if r == z3.sat:
            m = s.model(); edges = edges_of(m); cyc = TC.reach_cyclic(K, edges)
            up = sorted((k_[1], k_[2]) for k_, e in sym.items() if isinstance(k_, tuple) and len(k_) == 3 and z3.is_true(m.eval(e, True)) and (k_[1], k_[2]) in edges)
            role_g = '%s/K%d/%s%s' % (real + (('-' + ''.join(k[0] for k in kinds)) if kinds else '') + ('-with-defaults-' + ''.join('1' if f else '0' for f in forms) if forms else '') + (('-' + decl) if decl else '') + (('-' + section.lower()) if section != 'VAR' else '') + ('-twice' if dup else ''), K, '_'.join('%d%d' % e for e in edges) or 'empty', ('/respelled-' + '_'.join('%d%d' % e for e in up)) if up else ''); src = _source(real, K, edges, up, forms, decl, section, kinds, dup)
            if pr.panic:
                part.add('C07/K1/panic/' + role_g, 'toposort panics on %s graph %s: %s' % (real, edges, pr.panic.msg), {'realisation': real, 'edges': edges, 'source': src}, ('graph', (src, cyc)))
            else:
                part.add('C07/K1/verdict/' + role_g, '%s graph with edges %s is %s but the analyzer %s' % (real, edges, 'cyclic' if cyc else 'acyclic', 'reports recursion (P0010)' if got_rec else 'does not report recursion (%s)' % (code or 'Ok')),
                         {'realisation': real, 'edges': edges, 'source': src, 'cyclic': cyc}, ('graph', (src, cyc)))
        elif r == z3.unknown: part.inconc('solver unknown')
        else:
            s2 = z3.Solver(); s2.add(*pr.pc)
            if s2.check() == z3.sat and len(part.validate) < 1:
                edges = edges_of(s2.model()); part.validate.append(('graph', (_source(real, K, edges, (), forms, decl, section, kinds, dup), TC.reach_cyclic(K, edges))))
                if len(part.samples) < 1: part.samples.append({'realisation': real, 'K': K, 'edges': edges, 'verdict': 'P0010' if got_rec else 'no P0010'})
    M.explore(entry, on_path)
    part.queries += M.stats['smt']; part.encoded = set(M.encoded); part.models = set(M.models_used)
    return part

def _alias_text(decl, i, base):
    if decl == 'array': return 'TYPE\n  al%d : ARRAY[1..2] OF %s;\nEND_TYPE\n' % (i, base)
    if decl == 'subrange': return 'TYPE\n  al%d : %s(1..2);\nEND_TYPE\n' % (i, base)
    raise ValueError(decl)

def _source(real, K, edges, upper=(), forms=None, decl=None, section='VAR', kinds=None, dup=False):
    names = _names(real, K, kinds); E = set(edges); U = set(upper)
    nm = lambda i, j: (names[j].upper() if (i, j) in U else names[j])
    if real == 'mixed':
        out = ''
        for i in range(K):
            if kinds[i] == 'fb': out += 'FUNCTION_BLOCK fb%d\nVAR\n%sEND_VAR\nEND_FUNCTION_BLOCK\n' % (i, ''.join('  v%d_%d : %s;\n' % (i, j, nm(i, j) if (i, j) in E else 'INT') for j in range(K)))
            else: out += 'TYPE\n  st%d : STRUCT\n%s  END_STRUCT;\nEND_TYPE\n' % (i, ''.join('    e%d_%d : %s;\n' % (i, j, nm(i, j) if (i, j) in E else 'INT') for j in range(K)))
        return out
    if real == 'fb':
        return ''.join('FUNCTION_BLOCK fb%d\n%s\n%sEND_VAR\nEND_FUNCTION_BLOCK\n' % (i, section, ''.join('  v%d_%d : %s;\n' % (i, j, nm(i, j) if (i, j) in E else 'INT') + ('  w%d_%d : %s;\n' % (i, j, nm(i, j) if (i, j) in E else 'INT') if dup else '') for j in range(K))) for i in range(K))
    if real == 'struct':
        return ''.join('TYPE\n  st%d : STRUCT\n%s  END_STRUCT;\nEND_TYPE\n' % (i, ''.join('    e%d_%d : %s;\n' % (i, j, nm(i, j) if (i, j) in E else 'INT') for j in range(K))) for i in range(K))
    d = dict(edges)
    if decl: return ''.join(_alias_text(decl, i, names[d[i]] if i in d else 'INT') for i in range(K))
    return ''.join('TYPE\n  al%d : %s%s;\nEND_TYPE\n' % (i, names[d[i]] if i in d else 'INT', ' := dflt' if (forms and forms[i]) else '') for i in range(K))

@replay_factory('graph')
def _replay_graph(src, cyc):
    def rp(ctx):
        r = ctx.replay({'cmd': 'analyze', 'sources': [src]})
        if 'panic' in r: return True, r
        if 'parse_error' in r: return None, r
        codes = [d['code'] for d in r.get('diagnostics', [])]
        return ('P0010' in codes) != cyc, {'source': src, 'codes': codes, 'reference_cyclic': cyc}
    return rp

@kernel('K1 toposort.cycle_verdict')
def k1(ctx, kr):
    global _CTX
    _CTX = ctx
    jobs = []
    K = 3
    for real in ('fb', 'struct'):
        # partition by the first 4 edge bits -> 16 jobs of 2^(K*K-4) paths
        cells = [(i, j) for i in range(K) for j in range(K)][:4]
        for bits in range(16):
            jobs.append((real, K, {c: bool(bits >> n & 1) for n, c in enumerate(cells)}))
    for b0 in range(K + 1): jobs.append(('alias', K, {0: b0}))
    # aliases declared with a default value (`A : B := v;` parses as an enumeration declaration) mixed with plain aliases
    for fbits in range(1, 8): jobs.append(('alias', K, {'forms': tuple(bool(fbits >> i & 1) for i in range(K))}))
    # the other declaration kinds that reference a type by name: arrays of a named type and subranges of a named type
    # Not run: arrays of a named element type (`al : ARRAY[1..2] OF base;`, realisation {'decl': 'array'}). The analyzer adds no edge for the
    # element type, so `a : ARRAY[1..2] OF a;` is accepted; the property speaks of aliases and structure elements only, so demanding a
    # diagnostic there would ask for more than it states (observed, recorded in DESIGN.md §11 as outside the property).
    # function block instances held in VAR_INPUT / VAR_OUTPUT sections are contained just like those in VAR (every digraph on 2 nodes)
    for section in ('VAR_INPUT', 'VAR_OUTPUT'): jobs.append(('fb', 2, {'section': section}))
    # every instance declared twice: a duplicated reference is not a cycle (2 nodes: all 16 graphs; 3 nodes: acyclic shapes are the point, all graphs run)
    jobs.append(('fb', 2, {'dup': True}))
    for bits in range(16): jobs.append(('fb', 3, dict({c: bool(bits >> n & 1) for n, c in enumerate([(i, j) for i in range(3) for j in range(3)][:4])}, dup=True)))
    # references written in another letter case than the declaration (2 nodes, one case bit per reference)
    for real in ('fb', 'struct'):
        for bits in range(4): jobs.append((real, 2, {'case': True, (0, 0): bool(bits & 1), (0, 1): bool(bits & 2)}))
    # containment that alternates between function blocks and structures: every digraph on 2 nodes with one node of each kind; on 3 nodes the kinds fb/struct/fb and struct/fb/struct
    for kinds in (('fb', 'struct'), ('struct', 'fb')): jobs.append(('mixed', 2, {'kinds': kinds}))
    cells3 = [(i, j) for i in range(3) for j in range(3)][:4]
    for kinds in ((('fb', 'struct', 'fb'), ('struct', 'fb', 'struct')) if ctx.tier == 'quick' else [k for k in __import__('itertools').product(('fb', 'struct'), repeat=3) if len(set(k)) > 1]):
        for bits in range(16):
            fx = {c: bool(bits >> n & 1) for n, c in enumerate(cells3)}; fx['kinds'] = tuple(kinds); jobs.append(('mixed', 3, fx))
    if ctx.tier == 'thorough':
        K4 = 4
        for b0 in range(K4 + 1):
            for b1 in range(K4 + 1): jobs.append(('alias', K4, {0: b0, 1: b1}))
        cells = [(i, j) for i in range(K4) for j in range(K4)][:8]
        # self-loops are decided on 3 nodes already: nodes 2 and 3 carry none here (2^14 graphs instead of 2^16, which took 73 minutes)
        for bits in range(256): 
            fx = {c: bool(bits >> n & 1) for n, c in enumerate(cells)}; fx[(2, 2)] = False; fx[(3, 3)] = False
            jobs.append(('fb', K4, fx))
    kr.bounds = ('every directed graph on 3 nodes (self-loops included; one symbolic bit per potential edge, 512 graphs) realised as function-block instance graph and as structure-element graph; '
                 'every functional graph (out-degree <= 1) on 3 nodes realised as type-alias graph, with every subset of the aliases declared with a default value, every digraph on 2 and 3 nodes whose nodes are function blocks and structures in alternation (containment across both kinds), every digraph on 2 nodes as function-block graph with the instances in VAR_INPUT and in VAR_OUTPUT sections; every digraph on 2 nodes (fb and struct) with every reference optionally re-spelled in upper case' + ('; thorough: 4 nodes (16384 fb graphs without self-loops on two of the nodes, 625 alias graphs)' if ctx.tier == 'thorough' else ''))
    for part in par_map(_k1_job, jobs): merge_part(kr, part)
    P = ctx.program()
    kr.functions = fn_paths(P, getattr(kr, '_enc', set()))
    kr.exhaustive = True
    kr.assumptions = ['petgraph::algo::toposort by contract: Err(node on a cycle) iff the graph is cyclic', 'symbolic names range over the declared names plus INT; spelling is lower-case (case folding is C08-K4)',
                      'HashMap with symbolic keys modelled as association list with lookups forking on key equality (the key type\'s own PartialEq is interpreted)']
    kr.outside = ['graphs with more nodes; units mixing aliases with the other kinds; arrays/subranges/enumeration aliases']

# ---------------------------------------------------------------------------------------------- K2 acyclic alias chains used several times are not reported as recursive
@kernel('K2 analyze.alias_chains_not_recursive')
def k2(ctx, kr):
    """parse + full analysis of units with an enumeration, an alias of it and an alias of the alias, used by two or three variables (C02-K5 template `enum_alias_used_twice`):
    no recursion code (P0010, P0013) for any of the 18 shapes"""
    from . import C02 as K02, tplcommon as TP
    from .c02_templates import VERDICT_TEMPLATES as VT
    K02._CTX = ctx
    for part in par_map(K02._k5_job, TP.jobs_for(VT, ['enum_alias_used_twice'])):
        part.findings = [dict(f, role=f['role'].replace('C02/K5/', 'C07/K2/')) for f in part.findings if any(c in f['what'] for c in ('P0010', 'P0013'))]
        merge_part(kr, part)
    P = ctx.program()
    kr.functions = fn_paths(P, getattr(kr, '_enc', set()))[:120]
    kr.bounds = 'enumeration e, alias f of e, alias g of f; two variables of symbolic type in {e, f, g} in one function block, optionally a third in a second function block: analysis reports no recursion'
    kr.exhaustive = True

KERNELS = [k1, k2]
